#!/usr/bin/env python3
"""Development aid (not a registered check): which lines of a property's anchor files does its generator reach?

usage: bin/coverage.py Cnn|ALL [--cases N] [--files a.cpp,b.cpp] [--show] [--branches]
Builds the library and the property's harnesses with clang source coverage (variant "cov", no sanitizers), runs the
rapidcheck engine with the quick tier's size on 4 seeds plus the committed corpus, merges the profiles and prints
  - llvm-cov's per-file summary for the anchor files of the property (properties.jsonl: anchors.files), and
  - with --show, every *uncovered* line of those files, grouped by function (the generator blind spots to look at).
  - with --branches, every branch of a covered line that was only ever taken one way.
Output: .work/coverage-Cnn.txt.  Used to find generator blind spots; says nothing about oracles.
"""
import glob, json, os, shutil, subprocess, sys

VERIF = os.path.dirname(os.path.dirname(os.path.abspath(__file__)))
REPO = os.environ.get("VERIF_REPO", "/repo")
pid = sys.argv[1]
KEEP = os.path.join(VERIF, ".work", "covdata")
os.makedirs(KEEP, exist_ok=True)


def report(prof, exes, files, name):
    objs = []
    for e in exes:
        objs += ["-object", e]
    objs = objs[1:]  # first one is positional
    srcs = [os.path.join(REPO, f) for f in files]
    out = []
    r = subprocess.run(["llvm-cov", "report", "-instr-profile=" + prof] + objs + srcs, stdout=subprocess.PIPE, text=True)
    out.append(r.stdout)
    if "--show" in sys.argv:
        r = subprocess.run(["llvm-cov", "show", "-instr-profile=" + prof, "--show-line-counts"] + objs + srcs, stdout=subprocess.PIPE, text=True)
        cur = os.path.basename(files[0])
        for line in r.stdout.splitlines():
            parts = line.split("|", 2)
            if len(parts) == 3:
                if parts[1].strip() == "0":
                    out.append("%s:%s" % (cur, line))
            elif line.endswith(":") and "/" in line:
                cur = os.path.basename(line[:-1])
    if "--branches" in sys.argv:
        # branches of covered lines that were only ever taken one way
        r = subprocess.run(["llvm-cov", "show", "-instr-profile=" + prof, "--show-branches=count", "--show-line-counts"] + objs + srcs, stdout=subprocess.PIPE, text=True)
        cur = os.path.basename(files[0]); last_src = ""
        for line in r.stdout.splitlines():
            parts = line.split("|", 2)
            st = line.strip().lstrip("|").strip()
            if st.startswith("Branch (") and (st.endswith("True: 0, False: 0]") is False) and ("True: 0," in st or st.endswith("False: 0]")):
                out.append("%s: ONE-WAY %s   <- %s" % (cur, st, last_src.strip()[:110]))
            elif len(parts) == 3 and parts[0].strip().isdigit():
                last_src = parts[0].strip() + ": " + parts[2]
            elif line.endswith(":") and "/" in line:
                cur = os.path.basename(line[:-1])
    text = "\n".join(out)
    open(os.path.join(VERIF, ".work", "coverage-%s.txt" % name), "w").write(text)
    print(text)


if pid == "ALL":
    # union over every property measured so far (.work/covdata): lines of any anchor file that NO harness reaches
    profs = sorted(glob.glob(KEEP + "/C*.profdata"))
    exes, files = [], []
    for pf in profs:
        exes += [e for e in open(pf[:-9] + ".exes").read().split() if os.path.exists(e)]
    for l in open(os.path.join(VERIF, "properties.jsonl")):
        for f in json.loads(l)["anchors"]["files"]:
            if f.endswith(".cpp") and f not in files:
                files.append(f)
    allp = os.path.join(KEEP, "ALL.profdata")
    subprocess.run(["llvm-profdata", "merge", "-sparse", "-o", allp] + profs, check=True)
    report(allp, exes, sorted(files), "ALL")
    sys.exit(0)
cases = int(sys.argv[sys.argv.index("--cases") + 1]) if "--cases" in sys.argv else 40000
cfg = json.load(open(os.path.join(VERIF, "checks.d", pid + ".json")))
prop = [json.loads(l) for l in open(os.path.join(VERIF, "properties.jsonl")) if json.loads(l)["id"] == pid][0]
files = [f for f in prop["anchors"]["files"] if f.endswith(".cpp")]
if "--files" in sys.argv:
    files = sys.argv[sys.argv.index("--files") + 1].split(",")
# listed findings are excluded by construction, exactly as bin/check does it (otherwise every worker stops at the first one)
known = []
kf = os.environ.get("VERIF_KNOWN_FILE") or os.path.join(VERIF, "KNOWN_FINDINGS.txt")
if os.path.exists(kf):
    for line in open(kf):
        if line.startswith("finding:"):
            kv = dict(x.split("=", 1) for x in line[8:].split()[:2] if "=" in x)
            if kv.get("property") == pid and "key" in kv:
                known.append(kv["key"])
os.environ.setdefault("VERIF_KNOWN", ",".join(known))
wd = os.path.join(VERIF, ".work", "cov-" + pid)
shutil.rmtree(wd, ignore_errors=True)
os.makedirs(wd)
exes = []
seen = set()
for t in cfg["targets"]:
    if t["harness"] in seen:
        continue
    seen.add(t["harness"])
    exe = subprocess.run([sys.executable, os.path.join(VERIF, "bin/build.py"), "cov", t["harness"]], stdout=subprocess.PIPE, text=True, check=True).stdout.strip().splitlines()[-1]
    exes.append(exe)
    base = t["harness"][:-4]
    procs = []
    for s in range(1, 5):
        env = dict(os.environ, LLVM_PROFILE_FILE=os.path.join(wd, "%s-%d-%%p.profraw" % (base, s)),
                   RC_PARAMS="seed=%d max_success=%d max_size=%d max_discard_ratio=100" % (s, cases // 4, t["quick"].get("max_size", 100)))
        procs.append(subprocess.Popen(["setarch", "-R", exe, "--rc", "--stats", wd + "/st%d" % s, "--fail", wd + "/f%d" % s, "--cur", wd + "/c%d" % s,
                                       "--watchdog", "600"], env=env, stdout=subprocess.DEVNULL, stderr=subprocess.DEVNULL))
    for p in procs:
        p.wait()
    for i, c in enumerate(sorted(glob.glob(os.path.join(VERIF, "corpus", pid, base, "*")))):
        env = dict(os.environ, LLVM_PROFILE_FILE=os.path.join(wd, "%s-c%d-%%p.profraw" % (base, i)))
        subprocess.run(["setarch", "-R", exe, "--replay", c], env=env, stdout=subprocess.DEVNULL, stderr=subprocess.DEVNULL)
prof = os.path.join(wd, "merged.profdata")
subprocess.run(["llvm-profdata", "merge", "-sparse", "-o", prof] + glob.glob(wd + "/*.profraw"), check=True)
shutil.copyfile(prof, os.path.join(KEEP, pid + ".profdata"))
open(os.path.join(KEEP, pid + ".exes"), "w").write("\n".join(exes))
report(prof, exes, files, pid)
shutil.rmtree(wd, ignore_errors=True)
