#!/usr/bin/env python3
"""Regenerate MANIFEST.json from checks.d/*.json (one source of truth) and validate it against the schema."""
import json
import os
import subprocess
import sys

VERIF = os.path.dirname(os.path.dirname(os.path.abspath(__file__)))
checks = {fn[:-5]: json.load(open(os.path.join(VERIF, "checks.d", fn)))
          for fn in sorted(os.listdir(os.path.join(VERIF, "checks.d"))) if fn.endswith(".json")}
props = [json.loads(l) for l in open(os.path.join(VERIF, "properties.jsonl"))]


def repo_commits(prefix):
    out = subprocess.run(["git", "-C", "/repo", "log", "--format=%H %s"], stdout=subprocess.PIPE, text=True).stdout
    return [l.split()[0] for l in out.splitlines() if l.split(" ", 1)[1].startswith(prefix)]


m = {
    "version": 1,
    "setup_cmd": "python3 bin/build.py --warm",
    "hooks": {
        "guard": "CPPUTEST_VERIF_HOOKS",
        "enable": "bin/build.py compiles /repo/src and /repo/include straight from the working tree with -DCPPUTEST_VERIF_HOOKS (plus the pinned CMake configuration defines) into /verif/.build/<variant>-<content hash>",
        "baseline_off_cmd": "bin/baseline.sh",
        "source_commits": repo_commits("verif-hook:"),
        "add_only": True,
    },
    "engines": [
        {"name": "rapidcheck", "path": "harness/rc_main.cpp", "serves_properties": sorted(p for p, c in checks.items() if c.get("claimed")),
         "kind_free_text": "property-based testing: rc::check over byte strings decoded into in-domain cases; seed-exact (RC_PARAMS seed derived from VERIF_SEED), shrinking to a minimal byte string = replay file"},
        {"name": "libFuzzer", "path": "harness/fuzz_main.cpp",
         "serves_properties": sorted(p for p, c in checks.items() if c.get("claimed") and any(t.get("fuzz_variant") for t in c["targets"])),
         "kind_free_text": "coverage-guided fuzzing of the same decoder+oracle (thorough tier; also crash minimiser for the quick tier), ASan+UBSan"},
    ],
    "checks": [],
    "not_applicable": [],
    "notes": "Every check: bin/check <id> builds the library and the harness from /repo's working tree, replays corpus/<id>, runs generated search against an independent oracle, writes evidence/<id>.json. KNOWN_FINDINGS.txt lists recorded defects (finding:) and repaired ones (fixed:). See DESIGN.md.",
}
for p in props:
    pid = p["id"]
    if pid in checks and checks[pid].get("claimed"):
        c = checks[pid]
        m["checks"].append({
            "property_id": pid,
            "quick_cmd": "bin/check %s --tier quick" % pid,
            "thorough_cmd": "bin/check %s --tier thorough" % pid,
            "evidence_file": "evidence/%s.json" % pid,
            "replay_cmd_template": "bin/check %s --replay {path} --explain" % pid,
            "engine": "rapidcheck + libFuzzer" if any(t.get("fuzz_variant") for t in c["targets"]) else "rapidcheck",
            "level_claimed": {"category": c["level"], "text": c["level_text"], "design_ref": c.get("design_ref", "DESIGN.md section 3, " + pid)},
            "level_note": c["level_note"],
            "technique": c["technique"],
        })
    else:
        m["not_applicable"].append({"property_id": pid, "reason": "not claimed yet: the property-based check designed in DESIGN.md section 3 for this property has not been built and validated in this tree"})
with open(os.path.join(VERIF, "MANIFEST.json"), "w") as f:
    json.dump(m, f, indent=1)
    f.write("\n")
try:
    import jsonschema
    jsonschema.validate(m, json.load(open("/root/.vp/MANIFEST.schema.json")))
    print("MANIFEST.json valid: %d checks, %d not claimed" % (len(m["checks"]), len(m["not_applicable"])))
except ImportError:
    print("jsonschema not available; MANIFEST.json written unvalidated")
