#!/usr/bin/env python3
"""Sensitivity run: apply one mutation (unified diff, -p1) to a scratch copy of /repo, confirm that the repository's own
61 test groups stay green, and run the property's check against the copy with several seeds.

usage: bin/sens.py Cnn path/to/mutation.diff [--seeds 1,2,3] [--tier quick] [--no-baseline] [--ext]
prints one JSON line: {"property","mutation","baseline_green","ext_green","detected":[...per seed...],"sigs":[...]}
"""
import json, os, subprocess, sys, shutil, hashlib

VERIF = os.path.dirname(os.path.dirname(os.path.abspath(__file__)))
pid, diff = sys.argv[1], os.path.abspath(sys.argv[2])
seeds = [1, 2, 3]
tier = "quick"
if "--seeds" in sys.argv:
    seeds = [int(x) for x in sys.argv[sys.argv.index("--seeds") + 1].split(",")]
if "--tier" in sys.argv:
    tier = sys.argv[sys.argv.index("--tier") + 1]
name = os.path.basename(diff).rsplit(".", 1)[0]
tmp = "/tmp/verif-mut-%s-%s-%d" % (pid, name, os.getpid())
res = {"property": pid, "mutation": name, "baseline_green": None, "detected": [], "sigs": []}
try:
    subprocess.run(["rsync", "-a", "--exclude", "_build", "--exclude", ".git", "/repo/", tmp + "/"], check=True)
    r = subprocess.run(["patch", "-p1", "-d", tmp, "-i", diff, "--no-backup-if-mismatch"], stdout=subprocess.PIPE, stderr=subprocess.STDOUT, text=True)
    if r.returncode != 0:
        print("PATCH FAILED:\n" + r.stdout)
        sys.exit(2)
    if "--no-baseline" not in sys.argv:
        r = subprocess.run([os.path.join(VERIF, "bin/baseline.sh"), tmp], stdout=subprocess.PIPE, stderr=subprocess.STDOUT, text=True)
        res["baseline_green"] = (r.returncode == 0)
        res["baseline_tail"] = r.stdout.strip().splitlines()[-1:] if r.stdout.strip() else []
    if "--ext" in sys.argv:
        env = dict(os.environ, EXT="1")
        r = subprocess.run([os.path.join(VERIF, "bin/baseline.sh"), tmp], stdout=subprocess.PIPE, stderr=subprocess.STDOUT, text=True, env=env)
        res["ext_green"] = (r.returncode == 0)
    for s in seeds:
        env = dict(os.environ, VERIF_REPO=tmp, VERIF_SEED=str(s), VERIF_TIER=tier)
        r = subprocess.run([os.path.join(VERIF, "bin/check"), pid, "--tier", tier], stdout=subprocess.PIPE, stderr=subprocess.STDOUT, text=True, env=env)
        res["detected"].append(r.returncode == 1 and "VIOLATION property=" + pid in r.stdout)
        if r.returncode not in (0, 1):
            res.setdefault("errors", []).append(r.stdout[-400:])
        for line in r.stdout.splitlines():
            if line.startswith("violation detail:"):
                sig = line.split("sig=", 1)[1].split(" ", 1)[0]
                if sig not in res["sigs"]:
                    res["sigs"].append(sig)
finally:
    shutil.rmtree(tmp, ignore_errors=True)
    tag = hashlib.md5((tmp + "\n").encode()).hexdigest()[:6]
    for d in os.listdir(os.path.join(VERIF, ".work")):
        if d.startswith("baseline-" + tag) or d.endswith("-" + hashlib.sha256(tmp.encode()).hexdigest()[:6]):
            p = os.path.join(VERIF, ".work", d)
            shutil.rmtree(p, ignore_errors=True) if os.path.isdir(p) else os.remove(p)
    subprocess.run([sys.executable, os.path.join(VERIF, "bin/build.py"), "--gc"], stdout=subprocess.DEVNULL)
print(json.dumps(res))
