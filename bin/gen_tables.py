#!/usr/bin/env python3
"""Regenerate the tables of DESIGN.md section 11 from mutations/RESULTS.json and seeded/*/meta.json."""
import json, os
VERIF = os.path.dirname(os.path.dirname(os.path.abspath(__file__)))
res = json.load(open(os.path.join(VERIF, "mutations", "RESULTS.json"))) if os.path.exists(os.path.join(VERIF, "mutations", "RESULTS.json")) else {}
out = []
out.append("### 11.1 Mutation sets (`mutations/Cnn/*.diff`, run by `bin/sens_all.py`: scratch copy, `bin/baseline.sh`, `bin/check Cnn` per seed)\n")
out.append("\"suite green\" = the repository's 61 baseline groups still pass with the mutation (only those count as realistic")
out.append("breakage the existing tests cannot see; the others are kept because the check must catch them as well).\n")
out.append("| property | mutations | suite green | of those detected | suite red | of those detected | equivalent (not counted) | missed |")
out.append("|---|---|---|---|---|---|---|---|")
tot = [0, 0, 0, 0, 0, 0]
missed_all = []
for pid in sorted(res):
    g = gd = r = rd = eq = 0
    missed = []
    for name, m in sorted(res[pid].items()):
        if m.get("equivalent"):
            eq += 1
            continue
        det = bool(m.get("detected")) and all(m["detected"])
        anyd = bool(m.get("detected")) and any(m["detected"])
        if m.get("baseline_green"):
            g += 1
            gd += anyd
        else:
            r += 1
            rd += anyd
        if not anyd:
            missed.append(name)
    n = g + r
    tot = [tot[0] + n, tot[1] + g, tot[2] + gd, tot[3] + r, tot[4] + rd, tot[5] + eq]
    missed_all += [(pid, x) for x in missed]
    out.append("| %s | %d | %d | %d | %d | %d | %d | %s |" % (pid, n, g, gd, r, rd, eq, ", ".join(missed) or "-"))
out.append("| **all** | %d | %d | %d | %d | %d | %d | %d |" % (tot[0], tot[1], tot[2], tot[3], tot[4], tot[5], len(missed_all)))
out.append("")
out.append("Per mutation (signature = the oracle condition that fired; `sanitizer` = ASan/UBSan/TSan abort):\n")
out.append("| property | mutation | suite | detected (per seed) | signatures |")
out.append("|---|---|---|---|---|")
for pid in sorted(res):
    for name, m in sorted(res[pid].items()):
        if m.get("equivalent"):
            out.append("| %s | %s | - | equivalent for the property (see notes/%s.md) | - |" % (pid, name, pid))
            continue
        out.append("| %s | %s | %s | %s | %s |" % (pid, name, "green" if m.get("baseline_green") else ("red" if m.get("baseline_green") is False else "?"),
                   "/".join("yes" if d else "NO" for d in (m.get("detected") or [])) or m.get("error", "?")[:40], ", ".join((m.get("sigs") or [])[:3])))
out.append("")
out.append("### 11.2 Changes written by independent sub-agents (`seeded/<id>/`)\n")
out.append("Each agent got only the text of one property and its own scratch git worktree of the repository - nothing from")
out.append("`/verif` - and was asked for a small realistic change that breaks the property, passes the existing suite and needs")
out.append("something specific to manifest, plus a demonstration.  `bin/seed_confirm.py` re-checked every claim (patch applies; 61")
out.append("groups green with it; demonstration exits 0 on the unchanged and non-zero on the changed tree) before the property's")
out.append("quick check was run against the changed tree with seeds 1, 2, 3.\n")
# per-round statistics from the meta files (first result = check_detected_before_extension when an extension followed)
_rounds = {}
for _d in sorted(os.listdir(os.path.join(VERIF, "seeded"))):
    _mp = os.path.join(VERIF, "seeded", _d, "meta.json")
    if not os.path.exists(_mp):
        continue
    _j = json.load(open(_mp)); _r = int(_j["seed_id"].split("-s")[1])
    _first = _j.get("check_detected_before_extension", _j.get("check_detected")) or [False]
    _t = _rounds.setdefault(_r, [0, 0, 0]); _t[0] += 1; _t[1] += all(_first); _t[2] += all(_j.get("check_detected") or [False])
_n = sum(t[0] for t in _rounds.values()); _f = sum(t[1] for t in _rounds.values()); _a = sum(t[2] for t in _rounds.values())
out.append("%d rounds of (up to) twenty changes each were run (in rounds two to ten every agent was also told, in one sentence each," % len(_rounds))
out.append("what the earlier changes for its property had been, and asked for a different part of the behaviour, code path or kind")
out.append("of trigger; the tenth round covered ten properties only; the eleventh, run in the last hour, again covered all twenty, its agents were told nothing about the earlier changes - several of its changes (C01, C10, C15, C20) repeat the shape of an earlier change or of a defect repaired earlier - and it had no time budget for extensions).  Detected at once, per round: %s (%d of %d); after the extensions listed in 11.3, %d of %d are" % (", ".join("%d/%d" % (_rounds[r][1], _rounds[r][0]) for r in sorted(_rounds)), _f, _n, _a, _n))
out.append("detected on 3 of 3 seeds.  The rate of first-go detection does not climb from round to round - each round asks for")
out.append("something *different* from everything caught before - so the useful reading is not the percentage but the list in")
out.append("11.3: what the generators could not produce, one item at a time, until it could.  Several of the extensions exposed")
out.append("genuine defects of the unchanged tree (section 9, #24 and #26-#30).  A miss is recorded with its first result")
out.append("(`check_detected_before_extension` in `meta.json`), never overwritten.\n")
out.append("| id | change | needs, to manifest | suite green | demo confirms | check detects (seeds 1/2/3) | signatures |")
out.append("|---|---|---|---|---|---|---|")
sd = os.path.join(VERIF, "seeded")
for d in sorted(os.listdir(sd)):
    mp = os.path.join(sd, d, "meta.json")
    if not os.path.exists(mp):
        continue
    m = json.load(open(mp))
    out.append("| %s | %s | %s | %s | %s | %s | %s |" % (d, m.get("change", "?"), m.get("needs_to_manifest", "?"),
               "yes" if m.get("baseline_61_green_with_change") else "NO", "yes" if m.get("demo_confirms") else "NO",
               "/".join("yes" if x else "NO" for x in m.get("check_detected", [])), ", ".join(m.get("check_signatures", [])[:3]) + (" - " + m["followup"] if m.get("followup") else "")))
out.append("")
p = os.path.join(VERIF, "DESIGN.md")
s = open(p).read()
a = s.index("<!-- TABLES:BEGIN")
a = s.index("\n", a) + 1
b = s.index("<!-- TABLES:END -->")
s = s[:a] + "\n".join(out) + "\n" + s[b:]
open(p, "w").write(s)
print("tables regenerated: %d mutation rows, %d missed" % (tot[0], len(missed_all)))
