#!/bin/bash
# Run the repository's own suite (61 ctest groups) with the hook guard OFF, from /repo's current tree,
# in a build directory outside /repo.  Exit 0 iff every baseline group passes.
# usage: baseline.sh [repo-root]
REPO=${1:-/repo}
VERIF=$(cd "$(dirname "$0")/.." && pwd)
B=$VERIF/.work/baseline-$(echo "$REPO" | md5sum | cut -c1-6)
GT=ON
# EXT=1: additionally build and run tests/CppUTestExt (mock tests; not part of the 61 baseline groups) by leaving gtest out
if [ -n "$EXT" ]; then B=$B-ext; GT=OFF; fi
mkdir -p "$VERIF/.work"
if [ ! -f "$B/build.ninja" ]; then
  rm -rf "$B"
  cmake -S "$REPO" -B "$B" -G Ninja -DCMAKE_BUILD_TYPE=RelWithDebInfo -DBUILD_TESTING=ON \
    -DCMAKE_POLICY_VERSION_MINIMUM=3.5 -DCMAKE_COMPILE_WARNING_AS_ERROR=OFF \
    -DCMAKE_CXX_FLAGS="-Wno-error" -DCMAKE_C_FLAGS="-Wno-error" \
    -DCPPUTEST_BUILD_TESTING=ON -DCPPUTEST_TEST_GTEST=$GT -DCPPUTEST_INCLUDE_GTEST_TESTS=$GT \
    > "$B.conf.log" 2>&1 || { tail -30 "$B.conf.log"; echo "baseline: configure failed"; exit 2; }
fi
# like the pinned baseline build: keep going (-k0); the gtest-dependent CppUTestExtTests target cannot build in this
# image and is not part of the 61 baseline groups, so only the junit result below decides
cmake --build "$B" -j16 -- -k0 > "$B.build.log" 2>&1
rm -f "$B/junit.xml"
ctest --test-dir "$B" -j8 --timeout 900 --output-junit "$B/junit.xml" > "$B.ctest.log" 2>&1
python3 - "$B/junit.xml" <<'EOF'
import json, sys, xml.etree.ElementTree as ET
base = json.load(open('/root/.vp/BASELINE.json'))
want = set(x.split('::')[0] for x in base['stable_pass'])
root = ET.parse(sys.argv[1]).getroot()
passed, failed = set(), set()
for tc in root.iter('testcase'):
    name = tc.get('name')
    bad = tc.find('failure') is not None or tc.find('error') is not None or (tc.get('status') or '') in ('fail', 'failed', 'notrun')
    (failed if bad else passed).add(name)
missing = sorted(want - passed)
print("baseline: %d passed, %d failed, %d of %d baseline groups missing or failing" % (len(passed), len(failed), len(missing), len(want)))
for m in missing: print("  NOT PASSING:", m)
sys.exit(1 if missing or failed else 0)
EOF
