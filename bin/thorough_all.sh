#!/bin/bash
# run the thorough tier of every claimed property once, sequentially; summary lines in .work/thorough_all.log
cd "$(dirname "$0")/.."
for p in ${@:-C01 C02 C03 C04 C05 C06 C07 C08 C09 C10 C11 C12 C13 C14 C15 C16 C17 C18 C19 C20}; do
  s=$(date +%s)
  bin/check $p --tier thorough > .work/thorough-$p.log 2>&1
  rc=$?
  echo "$p rc=$rc $(( $(date +%s) - s ))s $(grep -E "^$p thorough" .work/thorough-$p.log | tail -1)" >> .work/thorough_all.log
  cp evidence/$p.json .work/evidence-thorough-$p.json
done
