#!/usr/bin/env python3
"""Confirm an independently written seeded change and run the property's check against it.

usage: bin/seed_confirm.py <seed-id> <property> <dir with patch.diff + demo.cpp [+ README.md]> [--seeds 1,2,3] [--ext-libs]

Steps (all in scratch copies under /tmp, removed afterwards):
  1. the patch applies to the current /repo tree;
  2. the repository's 61 baseline groups stay green with it (bin/baseline.sh <copy>);
  3. demo.cpp, linked against a plain g++ build of the library (guard off), exits 0 on the unchanged tree and
     non-zero on the changed tree;
  4. bin/check <property> against the changed tree, per seed: detected or not, with signatures.
Result: seeded/<seed-id>/{patch.diff, demo.cpp, README.md, meta.json}
"""
import glob, hashlib, json, os, shutil, subprocess, sys
from concurrent.futures import ThreadPoolExecutor

VERIF = os.path.dirname(os.path.dirname(os.path.abspath(__file__)))
sid, pid, src = sys.argv[1], sys.argv[2], os.path.abspath(sys.argv[3])
seeds = [1, 2, 3]
if "--seeds" in sys.argv:
    seeds = [int(x) for x in sys.argv[sys.argv.index("--seeds") + 1].split(",")]
dst = os.path.join(VERIF, "seeded", sid)
os.makedirs(dst, exist_ok=True)
for f in ("patch.diff", "demo.cpp", "README.md", "build.sh"):
    if os.path.exists(os.path.join(src, f)):
        shutil.copyfile(os.path.join(src, f), os.path.join(dst, f))
patch = os.path.join(dst, "patch.diff")
CONFIG = ["-DCPPUTEST_USE_LONG_LONG=1", "-DCPPUTEST_HAVE_STRDUP", "-DCPPUTEST_HAVE_FORK", "-DCPPUTEST_HAVE_WAITPID",
          "-DCPPUTEST_HAVE_KILL", "-DCPPUTEST_HAVE_PTHREAD_MUTEX_LOCK", "-DCPPUTEST_HAVE_GETTIMEOFDAY"]


def sh(cmd, **kw):
    return subprocess.run(cmd, stdout=subprocess.PIPE, stderr=subprocess.STDOUT, text=True, errors="replace", **kw)


def build_and_run_demo(tree, tag):
    out = "/tmp/verif-seed-%s-%s-obj" % (sid, tag)
    shutil.rmtree(out, ignore_errors=True)
    os.makedirs(out)
    srcs = sorted(glob.glob(tree + "/src/CppUTest/*.cpp")) + [s for s in sorted(glob.glob(tree + "/src/CppUTestExt/*.cpp")) if not s.endswith("GTest.cpp")] + [tree + "/src/Platforms/Gcc/UtestPlatform.cpp"]

    def comp(s):
        o = os.path.join(out, os.path.basename(s)[:-4] + ".o")
        r = sh(["g++", "-std=gnu++17", "-g", "-O1", "-w"] + CONFIG + ["-I" + tree + "/include", "-c", s, "-o", o])
        if r.returncode:
            raise SystemExit("compile failed: " + r.stdout[-2000:])
        return o
    with ThreadPoolExecutor(16) as ex:
        objs = list(ex.map(comp, srcs))
    exe = os.path.join(out, "demo")
    r = sh(["g++", "-std=gnu++17", "-g", "-O1", "-w"] + CONFIG + ["-I" + tree + "/include", os.path.join(dst, "demo.cpp")] + objs + ["-lpthread", "-o", exe])
    if r.returncode:
        shutil.rmtree(out, ignore_errors=True)
        return None, "demo does not compile: " + r.stdout[-1500:]
    try:
        r = sh([exe], timeout=600, cwd=out)
        rc, text = r.returncode, r.stdout[-1500:]
    except subprocess.TimeoutExpired:
        rc, text = -999, "demo timed out after 600 s"
    shutil.rmtree(out, ignore_errors=True)
    return rc, text


meta = {"seed_id": sid, "property": pid, "repo_head": sh(["git", "-C", "/repo", "rev-parse", "--short", "HEAD"]).stdout.strip()}
clean = "/tmp/verif-seed-%s-clean" % sid
mut = "/tmp/verif-seed-%s-mut" % sid
try:
    for d in (clean, mut):
        shutil.rmtree(d, ignore_errors=True)
        subprocess.run(["rsync", "-a", "--exclude", "_build", "--exclude", ".git", "/repo/", d + "/"], check=True)
    r = sh(["patch", "-p1", "-d", mut, "-i", patch, "--no-backup-if-mismatch"])
    meta["patch_applies"] = r.returncode == 0
    if r.returncode:
        meta["patch_output"] = r.stdout[-1000:]
        raise SystemExit("patch does not apply:\n" + r.stdout)
    r = sh([os.path.join(VERIF, "bin/baseline.sh"), mut])
    meta["baseline_61_green_with_change"] = r.returncode == 0
    meta["baseline_tail"] = r.stdout.strip().splitlines()[-3:]
    rc0, t0 = build_and_run_demo(clean, "clean")
    rc1, t1 = build_and_run_demo(mut, "mut")
    meta["demo_exit_unchanged_tree"] = rc0
    meta["demo_exit_changed_tree"] = rc1
    meta["demo_output_changed_tree"] = t1[-600:] if t1 else t1
    meta["demo_confirms"] = (rc0 == 0 and rc1 not in (0, None))
    det, sigs = [], []
    for s in seeds:
        env = dict(os.environ, VERIF_REPO=mut, VERIF_SEED=str(s))
        r = sh([os.path.join(VERIF, "bin/check"), pid, "--tier", "quick"], env=env)
        det.append(r.returncode == 1 and ("VIOLATION property=" + pid) in r.stdout)
        for line in r.stdout.splitlines():
            if line.startswith("violation detail:"):
                sg = line.split("sig=", 1)[1].split(" ", 1)[0]
                if sg not in sigs:
                    sigs.append(sg)
    meta["check"] = "bin/check %s --tier quick (VERIF_REPO=<tree with the change>)" % pid
    meta["check_seeds"] = seeds
    meta["check_detected"] = det
    meta["check_signatures"] = sigs
finally:
    for d in (clean, mut):
        shutil.rmtree(d, ignore_errors=True)
    tag = hashlib.md5((mut + "\n").encode()).hexdigest()[:6]
    for d in os.listdir(os.path.join(VERIF, ".work")):
        if d.startswith("baseline-" + tag) or d.endswith("-" + hashlib.sha256(mut.encode()).hexdigest()[:6]):
            p = os.path.join(VERIF, ".work", d)
            shutil.rmtree(p, ignore_errors=True) if os.path.isdir(p) else os.remove(p)
    subprocess.run([sys.executable, os.path.join(VERIF, "bin/build.py"), "--gc"], stdout=subprocess.DEVNULL)
    old = {}
    mp = os.path.join(dst, "meta.json")
    if os.path.exists(mp):
        old = json.load(open(mp))
    old.update(meta)
    json.dump(old, open(mp, "w"), indent=1)
print(json.dumps(meta, indent=1))
