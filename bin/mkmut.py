#!/usr/bin/env python3
"""mkmut.py out.diff relpath 'old text' 'new text' [count]  -> unified diff (-p1) of one textual replacement in /repo/<relpath>"""
import difflib, sys
out, rel, old, new = sys.argv[1:5]
cnt = int(sys.argv[5]) if len(sys.argv) > 5 else 1
src = open("/repo/" + rel).read()
if src.count(old) < 1:
    sys.exit("old text not found in " + rel)
dst = src.replace(old, new, cnt)
d = difflib.unified_diff(src.splitlines(True), dst.splitlines(True), "a/" + rel, "b/" + rel)
open(out, "w").write("".join(d))
print(out)
