#!/usr/bin/env python3
"""Run the whole committed mutation set (mutations/Cnn/*.diff) through bin/sens.py and record the table.

usage: bin/sens_all.py [--jobs 3] [--seeds 1,2] [--only C04,C13] [--no-baseline]
writes mutations/RESULTS.json: {property: {mutation: {baseline_green, detected:[...], sigs:[...]}}}
*.equivalent.diff files are listed but not run (judged outside the property by the harness author; see notes/).
"""
import json, os, subprocess, sys
from concurrent.futures import ThreadPoolExecutor

VERIF = os.path.dirname(os.path.dirname(os.path.abspath(__file__)))
jobs = int(sys.argv[sys.argv.index("--jobs") + 1]) if "--jobs" in sys.argv else 3
seeds = sys.argv[sys.argv.index("--seeds") + 1] if "--seeds" in sys.argv else "1,2"
only = sys.argv[sys.argv.index("--only") + 1].split(",") if "--only" in sys.argv else None
out = os.path.join(VERIF, "mutations", "RESULTS.json")
res = json.load(open(out)) if os.path.exists(out) else {}
work = []
for pid in sorted(os.listdir(os.path.join(VERIF, "mutations"))):
    d = os.path.join(VERIF, "mutations", pid)
    if not os.path.isdir(d) or (only and pid not in only):
        continue
    for f in sorted(os.listdir(d)):
        if f.endswith(".equivalent.diff"):
            res.setdefault(pid, {})[f[:-len(".equivalent.diff")]] = {"equivalent": True}
        elif f.endswith(".diff"):
            work.append((pid, os.path.join(d, f)))


def run(item):
    pid, path = item
    cmd = [os.path.join(VERIF, "bin/sens.py"), pid, path, "--seeds", seeds]
    name0 = os.path.basename(path).rsplit(".", 1)[0]
    known = res.get(pid, {}).get(name0, {}).get("baseline_green")
    # --reuse-baseline: the repository's own suite does not depend on the harness; keep a status measured earlier
    reuse = "--reuse-baseline" in sys.argv and known is not None
    if "--no-baseline" in sys.argv or reuse:
        cmd.append("--no-baseline")
    r = subprocess.run(cmd, stdout=subprocess.PIPE, stderr=subprocess.STDOUT, text=True)
    line = [l for l in r.stdout.splitlines() if l.startswith("{")]
    if not line:
        return pid, os.path.basename(path), {"error": r.stdout[-300:]}
    j = json.loads(line[-1])
    out_r = {k: j.get(k) for k in ("baseline_green", "detected", "sigs") if k in j}
    if reuse:
        out_r["baseline_green"] = known
    return pid, j["mutation"], out_r


with ThreadPoolExecutor(jobs) as ex:
    for pid, name, r in ex.map(run, work):
        res.setdefault(pid, {})[name] = r
        json.dump(res, open(out, "w"), indent=1, sort_keys=True)
        print(pid, name, r, flush=True)
