#!/usr/bin/env python3
"""Build CppUTest straight from the repository's working tree plus one harness.

usage: build.py <variant> <harness.cpp> [--engine rc|fuzz]   -> prints path of the binary
       build.py --warm                                        -> builds every (variant, harness) registered in checks.d/*.json

The library objects are keyed by a content hash of every file under
<repo>/include and <repo>/src, so any edit in the repository forces a rebuild of
the library and of every harness (the harness TUs include the headers).
VERIF_REPO selects another tree (scratch copies used for sensitivity runs);
registered commands always use /repo.
"""
import fcntl
import hashlib
import json
import os
import shutil
import subprocess
import sys
import time
from concurrent.futures import ThreadPoolExecutor

VERIF = os.path.dirname(os.path.dirname(os.path.abspath(__file__)))
REPO = os.environ.get("VERIF_REPO", "/repo")
BUILD = os.path.join(VERIF, ".build")
HARNESS = os.path.join(VERIF, "harness")

CONFIG = ["-DCPPUTEST_USE_LONG_LONG=1", "-DCPPUTEST_HAVE_STRDUP", "-DCPPUTEST_HAVE_FORK",
          "-DCPPUTEST_HAVE_WAITPID", "-DCPPUTEST_HAVE_KILL", "-DCPPUTEST_HAVE_PTHREAD_MUTEX_LOCK",
          "-DCPPUTEST_HAVE_GETTIMEOFDAY", "-DCPPUTEST_VERIF_HOOKS"]
COMMON = ["-std=gnu++17", "-g", "-O1", "-w", "-fno-omit-frame-pointer"]
SAN = ["-fsanitize=address,undefined", "-fno-sanitize-recover=undefined"]

VARIANTS = {
    # name: (compiler, library flags, harness extra flags, link flags)
    "asan": ("clang++", SAN, [], SAN),
    "fuzz": ("clang++", SAN + ["-fsanitize=fuzzer-no-link"], [], SAN),
    "fuzz_nosio": ("clang++", SAN + ["-fsanitize=fuzzer-no-link", "-fno-sanitize=signed-integer-overflow"], [], SAN),
    "asan_nosio": ("clang++", SAN + ["-fno-sanitize=signed-integer-overflow"], [], SAN),
    "noexc": ("clang++", SAN + ["-fsanitize=fuzzer-no-link", "-fno-exceptions"], [], SAN),
    "noguard": ("clang++", SAN + ["-DCPPUTEST_DISABLE_MEM_CORRUPTION_CHECK"], [], SAN),
    "tsan": ("g++", ["-fsanitize=thread"], [], ["-fsanitize=thread", "-pthread"]),
    # development only (bin/coverage.py): source coverage of the library under a harness; never used by a registered check
    "cov": ("clang++", ["-fprofile-instr-generate", "-fcoverage-mapping"], [], ["-fprofile-instr-generate", "-fcoverage-mapping"]),
    "plain": ("clang++", ["-fsanitize=undefined", "-fno-sanitize-recover=undefined"], [],
              ["-fsanitize=undefined", "-fno-sanitize-recover=undefined"]),
}


def sh(cmd, **kw):
    r = subprocess.run(cmd, stdout=subprocess.PIPE, stderr=subprocess.STDOUT, text=True, **kw)
    if r.returncode != 0:
        sys.stderr.write("BUILD FAILED: %s\n%s\n" % (" ".join(cmd), r.stdout[-6000:]))
        raise SystemExit(2)
    return r.stdout


def file_hash(paths, extra=""):
    h = hashlib.sha256(extra.encode())
    for p in sorted(paths):
        h.update(p.encode())
        with open(p, "rb") as f:
            h.update(hashlib.sha256(f.read()).digest())
    return h.hexdigest()[:16]


def repo_files():
    out = []
    for top in ("include", "src"):
        for d, _, fs in os.walk(os.path.join(REPO, top)):
            for f in fs:
                if f.endswith((".h", ".cpp", ".c", ".hpp")):
                    out.append(os.path.join(d, f))
    return out


def lib_sources():
    srcs = []
    for sub in ("src/CppUTest", "src/CppUTestExt"):
        d = os.path.join(REPO, sub)
        for f in sorted(os.listdir(d)):
            if f.endswith(".cpp") and f != "GTest.cpp":
                srcs.append(os.path.join(d, f))
    srcs.append(os.path.join(REPO, "src/Platforms/Gcc/UtestPlatform.cpp"))
    return srcs


class Lock:
    def __init__(self, path):
        self.path = path

    def __enter__(self):
        os.makedirs(os.path.dirname(self.path), exist_ok=True)
        self.f = open(self.path, "w")
        fcntl.flock(self.f, fcntl.LOCK_EX)

    def __exit__(self, *a):
        fcntl.flock(self.f, fcntl.LOCK_UN)
        self.f.close()


def prune(prefix, keep):
    """remove older build dirs of the same variant and repository root (disk is limited)"""
    for d in os.listdir(BUILD):
        if d.startswith(prefix) and d != keep and not d.endswith(".lock"):
            shutil.rmtree(os.path.join(BUILD, d), ignore_errors=True)


def build_lib(variant):
    cxx, libflags, _, _ = VARIANTS[variant]
    rfiles = repo_files()
    rhash = file_hash(rfiles, extra=variant + " ".join(libflags + CONFIG + COMMON))
    roottag = hashlib.sha256(REPO.encode()).hexdigest()[:6]
    prefix = "lib-%s-%s-" % (variant, roottag)
    name = prefix + rhash
    out = os.path.join(BUILD, name)
    with Lock(os.path.join(BUILD, prefix + ".lock")):
        if os.path.exists(os.path.join(out, "libcpputest.a")):
            return out, rhash
        prune(prefix, name)
        tmp = out + ".tmp%d" % os.getpid()
        shutil.rmtree(tmp, ignore_errors=True)
        os.makedirs(tmp)
        srcs = lib_sources()
        inc = ["-I" + os.path.join(REPO, "include")]

        def comp(s):
            o = os.path.join(tmp, os.path.basename(s)[:-4] + ".o")
            sh([cxx] + COMMON + libflags + CONFIG + inc + ["-c", s, "-o", o])
            return o
        with ThreadPoolExecutor(16) as ex:
            objs = list(ex.map(comp, srcs))
        sh(["ar", "rcs", os.path.join(tmp, "libcpputest.a")] + objs)
        with open(os.path.join(tmp, "ROOT"), "w") as f:
            f.write(REPO)
        for o in objs:
            os.remove(o)
        os.rename(tmp, out)
    return out, rhash


def build_rt(variant, engine):
    """runtime object shared by all harnesses of a variant: rapidcheck/replay main or the libFuzzer entry"""
    cxx, libflags, _, _ = VARIANTS[variant]
    src = os.path.join(HARNESS, "rc_main.cpp" if engine == "rc" else "fuzz_main.cpp")
    deps = [src, os.path.join(HARNESS, "verif_rt.h")]
    flags = [f for f in libflags if not f.startswith("-fsanitize=fuzzer") and f != "-fno-exceptions"
             and not f.startswith("-DCPPUTEST")]
    h = file_hash(deps, extra=variant + engine + " ".join(flags))
    d = os.path.join(BUILD, "rt")
    o = os.path.join(d, "%s-%s-%s.o" % (engine, variant, h))
    with Lock(os.path.join(BUILD, "rt-%s-%s.lock" % (engine, variant))):
        if os.path.exists(o):
            return o
        os.makedirs(d, exist_ok=True)
        for f in os.listdir(d):
            if f.startswith("%s-%s-" % (engine, variant)):
                os.remove(os.path.join(d, f))
        sh([cxx] + COMMON + flags + ["-I" + HARNESS, "-c", src, "-o", o + ".tmp"])
        os.rename(o + ".tmp", o)
    return o


def build_harness(variant, harness, engine):
    cxx, libflags, hflags, ldflags = VARIANTS[variant]
    if engine == "fuzz" and cxx != "clang++":
        raise SystemExit("libFuzzer needs clang")
    lib, rhash = build_lib(variant)
    rt = build_rt(variant, engine)
    hsrc = harness if os.path.isabs(harness) else os.path.join(HARNESS, harness)
    deps = [hsrc] + [os.path.join(HARNESS, f) for f in os.listdir(HARNESS) if f.endswith(".h")]
    h = file_hash(deps, extra=rhash + rt + engine)
    base = os.path.basename(hsrc)[:-4]
    exe = os.path.join(lib, "%s-%s-%s" % (base, engine, h))
    with Lock(os.path.join(lib, base + "-" + engine + ".lock")):
        if os.path.exists(exe):
            return exe
        for f in os.listdir(lib):
            if f.startswith("%s-%s-" % (base, engine)) and not f.endswith(".lock"):
                os.remove(os.path.join(lib, f))
        flags = [f for f in libflags]
        extra = []
        with open(hsrc) as f:
            for line in f:
                if line.startswith("// LDFLAGS:"):
                    extra += line.split(":", 1)[1].split()
                if line.startswith("// CXXFLAGS:"):
                    flags += line.split(":", 1)[1].split()
        obj = exe + ".o"
        sh([cxx] + COMMON + flags + CONFIG + hflags +
           ["-I" + os.path.join(REPO, "include"), "-I" + HARNESS, "-c", hsrc, "-o", obj])
        link = [cxx] + COMMON + ldflags
        if engine == "fuzz":
            link += ["-fsanitize=fuzzer"]
        link += [obj, rt, os.path.join(lib, "libcpputest.a")]
        if engine == "rc":
            link += ["-lrapidcheck"]
        link += extra + ["-lpthread", "-o", exe + ".tmp"]
        sh(link)
        os.remove(obj)
        os.rename(exe + ".tmp", exe)
    return exe


def warm():
    checks = {}
    d = os.path.join(VERIF, "checks.d")
    for fn in sorted(os.listdir(d)):
        if fn.endswith(".json"):
            with open(os.path.join(d, fn)) as f:
                checks[fn[:-5]] = json.load(f)
    jobs = []
    for pid, c in sorted(checks.items()):
        if not c.get("claimed"):
            continue
        for t in c.get("targets", []):
            jobs.append((t["variant"], t["harness"], "rc"))
            if t.get("fuzz_variant"):
                jobs.append((t["fuzz_variant"], t["harness"], "fuzz"))
    t0 = time.time()
    # libraries first (serialised per variant by the lock), then harnesses in parallel
    for v in sorted(set(j[0] for j in jobs)):
        build_lib(v)
    with ThreadPoolExecutor(8) as ex:
        list(ex.map(lambda j: build_harness(*j), jobs))
    print("warm: %d binaries in %.1fs" % (len(jobs), time.time() - t0))


def gc():
    """drop build output of scratch repository copies that no longer exist"""
    for d in os.listdir(BUILD):
        rf = os.path.join(BUILD, d, "ROOT")
        if d.startswith("lib-") and os.path.exists(rf):
            root = open(rf).read().strip()
            if not os.path.isdir(root):
                shutil.rmtree(os.path.join(BUILD, d), ignore_errors=True)
                print("gc: removed", d, "(root", root, "is gone)")


def main():
    os.makedirs(BUILD, exist_ok=True)
    if sys.argv[1] == "--warm":
        warm()
        return
    if sys.argv[1] == "--gc":
        gc()
        return
    variant, harness = sys.argv[1], sys.argv[2]
    engine = "rc"
    if "--engine" in sys.argv:
        engine = sys.argv[sys.argv.index("--engine") + 1]
    print(build_harness(variant, harness, engine))


if __name__ == "__main__":
    main()
