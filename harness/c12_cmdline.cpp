// C12 — command line: every argv is parsed safely and means what the help text says.
// One harness, two domains selected by the leading byte (b % 16):
//   0..7  MEANING  0..8 documented options from a grammar written from help()/usage(), attached and separated forms,
//                  identifier-like values; an independent interpreter of the option list gives the expected configuration.
//   8..14 SAFETY   1..12 arguments: raw bytes 1..255 (length 0..40) and/or a dictionary of every option prefix + tail.
//   15    SAFETY   the rest of the input split at NUL bytes (<= 12 arguments of <= 40 bytes): libFuzzer + dictionary friendly.
// Oracle: ASan/UBSan on exact-size argv buffers, watchdog; parse()==false -> through the runner: usage/help printed and
//         no probe test runs; parse()==true -> every getter callable; MEANING: getters == expected configuration;
//         both: a 16-test probe registry driven through CommandLineTestRunner executes exactly the tests that the C02
//         selection model picks for the filters, repeat times, reversed / shuffled / in separate-process mode as configured.
#include <regex>   // before the CppUTest headers (their "new" macro breaks placement new in libstdc++)
#include "common.h"
#include "CppUTest/CommandLineArguments.h"
#include "CppUTest/CommandLineTestRunner.h"
#include "CppUTest/TestFilter.h"
#include <map>
#include <memory>
#include <algorithm>

using verif::Reader;
using verif::sfmt;

namespace {

// ---------------------------------------------------------------- configuration as the help text describes it
struct Flt { std::string text; bool strict, inverted; };
bool operator<(const Flt& a, const Flt& b) { return std::tie(a.text, a.strict, a.inverted) < std::tie(b.text, b.strict, b.inverted); }
bool operator==(const Flt& a, const Flt& b) { return a.text == b.text && a.strict == b.strict && a.inverted == b.inverted; }
enum { OUT_NORMAL = 0, OUT_JUNIT = 1, OUT_TEAMCITY = 2 };
struct Config {
    bool verbose = false, veryVerbose = false, color = false, sep = false, reverse = false, lg = false, ln = false, ll = false,
         runIgnored = false, crash = false, rethrow = true;
    size_t repeat = 1;
    bool shuffle = false, seedKnown = false; size_t seed = 0;
    int output = OUT_NORMAL;
    std::string package;
    std::vector<Flt> gf, nf;
};
std::string show(const Flt& f) { return sfmt("%s%s\"%s\"", f.inverted ? "!" : "", f.strict ? "=" : "~", verif::printable(f.text).c_str()); }
std::string show(const std::vector<Flt>& v) { std::string o; for (auto& f : v) o += show(f) + " "; return o; }

// selection predicate of C02, from the statement (never TestFilter.cpp)
bool accepts(const Flt& f, const std::string& s) { bool b = f.strict ? s == f.text : s.find(f.text) != std::string::npos; return f.inverted ? !b : b; }
bool accepted_by_list(const std::vector<Flt>& fs, const std::string& s) { if (fs.empty()) return true; for (auto& f : fs) if (accepts(f, s)) return true; return false; }

// ---------------------------------------------------------------- probe registry
struct Probe { const char* group; const char* name; bool ignored; };
const Probe PROBES[16] = {
    {"Alpha", "one", false}, {"Alpha", "two", false}, {"AlphaBeta", "one", false}, {"Beta", "onetwo", true},
    {"beta", "One", false},  {"G1", "t", false},      {"G1", "tt", false},         {"G_2", "t_1", true},
    {"x", "a", false},       {"xx", "a", false},      {"Alpha", "three", false},   {"Z9", "one", false},
    // names over a 2-3 letter alphabet with repeated prefixes: an occurrence of a filter value may follow an overlapping false start
    {"aaab", "packet0001", false}, {"ababac", "packet1001", false}, {"aabaabaaab", "abababb", false}, {"abcabcabd", "aabaaab", true},
};
const size_t NP = 16;
int g_exec[NP]; std::vector<int> g_exec_order;
int g_sep_calls;

class ProbeUtest : public Utest { public: int id_; explicit ProbeUtest(int id) : id_(id) {} void testBody() CPPUTEST_OVERRIDE { g_exec[id_]++; g_exec_order.push_back(id_); } };
class ProbeShell : public UtestShell {
public: int id_;
    ProbeShell(int id) : UtestShell(PROBES[id].group, PROBES[id].name, "probe.cpp", (size_t)(10 + id)), id_(id) {}
    Utest* createTest() CPPUTEST_OVERRIDE { return new ProbeUtest(id_); }
};
class IgnoredProbeShell : public IgnoredUtestShell {
public: int id_;
    IgnoredProbeShell(int id) : IgnoredUtestShell(PROBES[id].group, PROBES[id].name, "probe.cpp", (size_t)(10 + id)), id_(id) {}
    Utest* createTest() CPPUTEST_OVERRIDE { return new ProbeUtest(id_); }
};

void sep_process_stub(UtestShell* shell, TestPlugin* plugin, TestResult* result) { g_sep_calls++; shell->runOneTestInCurrentProcess(plugin, *result); }
void (*g_orig_sep)(UtestShell*, TestPlugin*, TestResult*);
void (*g_orig_srand)(unsigned int);
int (*g_orig_rand)(void);

// ---------------------------------------------------------------- recording outputs handed to the runner
struct RecOut;
std::vector<RecOut*> g_outs;          // valid while the runner lives
std::string g_junit_package; int g_junit_created, g_teamcity_created, g_console_created;
struct RecOut : StringBufferTestOutput {
    int kind; int level = 0; bool colored = false;
    explicit RecOut(int k) : kind(k) { g_outs.push_back(this); }
    void verbose(VerbosityLevel l) CPPUTEST_OVERRIDE { level = (int)l; TestOutput::verbose(l); }
    void color() CPPUTEST_OVERRIDE { colored = true; TestOutput::color(); }
    std::string text() { return getOutput().asCharString(); }
};
class VRunner : public CommandLineTestRunner {
public:
    VRunner(int ac, const char* const* av, TestRegistry* reg) : CommandLineTestRunner(ac, av, reg) {}
    TestOutput* createTeamCityOutput() CPPUTEST_OVERRIDE { g_teamcity_created++; return new RecOut(OUT_TEAMCITY); }
    TestOutput* createJUnitOutput(const SimpleString& pkg) CPPUTEST_OVERRIDE { g_junit_created++; g_junit_package = pkg.asCharString(); return new RecOut(OUT_JUNIT); }
    TestOutput* createConsoleOutput() CPPUTEST_OVERRIDE { g_console_created++; return new RecOut(OUT_NORMAL); }
};

void reset_current_registry() { static TestRegistry keeper; keeper.setCurrentRegistry(NULLPTR); }
// ---------------------------------------------------------------- file / stdout seams for the real entry point CommandLineTestRunner::RunAllTests
struct FakeFile { std::string name, text; bool closed = false; };
std::vector<std::unique_ptr<FakeFile>> g_files; std::string g_stdout;
PlatformSpecificFile fake_fopen(const char* name, const char*) { g_files.emplace_back(new FakeFile); g_files.back()->name = name ? name : "(null)"; return g_files.back().get(); }
void fake_fputs(const char* str, PlatformSpecificFile f) { if (f == PlatformSpecificStdOut) g_stdout += str; else for (auto& x : g_files) if (x.get() == f) x->text += str; }
void fake_fclose(PlatformSpecificFile f) { for (auto& x : g_files) if (x.get() == f) x->closed = true; }
void fake_flush() {}
PlatformSpecificFile (*g_orig_fopen)(const char*, const char*); void (*g_orig_fputs)(const char*, PlatformSpecificFile); void (*g_orig_fclose)(PlatformSpecificFile); void (*g_orig_flush)(void);

void reset_globals() {
    reset_current_registry();
    UtestShell::restoreDefaultTestTerminator();
    UtestShell::setRethrowExceptions(false);
    PlatformSpecificRunTestInASeperateProcess = g_orig_sep;
    PlatformSpecificSrand = g_orig_srand; PlatformSpecificRand = g_orig_rand;
    PlatformSpecificFOpen = g_orig_fopen; PlatformSpecificFPuts = g_orig_fputs; PlatformSpecificFClose = g_orig_fclose; PlatformSpecificFlush = g_orig_flush;
    verif::fake_millis_value = 0;
}
struct GlobalsGuard { ~GlobalsGuard() { reset_globals(); } };

// exact-size heap copy of an argument vector: any read past an argument or past av[ac-1] is an ASan report
struct Argv {
    std::vector<char*> bufs; const char** av = nullptr; int ac = 0;
    explicit Argv(const std::vector<std::string>& args) {
        ac = (int)args.size();
        av = (const char**)malloc(sizeof(char*) * args.size());
        for (size_t i = 0; i < args.size(); i++) { char* b = (char*)malloc(args[i].size() + 1); memcpy(b, args[i].c_str(), args[i].size() + 1); bufs.push_back(b); av[i] = b; }
    }
    ~Argv() { for (char* b : bufs) free(b); free((void*)av); }
};

// ---------------------------------------------------------------- reading the configuration back through the public interface
bool read_filters(const TestFilter* f, std::vector<Flt>& out, std::string& err) {
    size_t guard = 0;
    for (; f != NULLPTR; f = f->getNext()) {
        if (++guard > 64) { err = "filter list longer than the argument vector (cycle?)"; return false; }
        std::string s = f->asString().asCharString();
        static const char pre[] = "TestFilter: \"";
        if (s.compare(0, sizeof pre - 1, pre) != 0) { err = "asString() without its prefix: " + s; return false; }
        static const char* suf[] = {"\" with strict, invert matching", "\" with strict matching", "\" with invert matching", "\""};
        std::string text; bool found = false;
        for (const char* x : suf) { size_t l = strlen(x); if (s.size() >= sizeof pre - 1 + l && s.compare(s.size() - l, l, x) == 0) { text = s.substr(sizeof pre - 1, s.size() - l - (sizeof pre - 1)); found = true; break; } }
        if (!found) { err = "asString() not understood: " + s; return false; }
        // strict / inverted by behaviour
        bool m1 = f->match(SimpleString(text.c_str())), m2 = f->match(SimpleString((text + "\x01").c_str()));
        Flt r; r.text = text; r.inverted = !m1; r.strict = m1 != m2;
        out.push_back(r);
    }
    return true;
}
// TestFilter::operator== / != and StringFrom() are how the repository itself states "this is the configured filter":
// they must agree with the comparison of (text, strict, inverted) made above, for every configured filter against every expected one
bool filter_equality_consistent(const TestFilter* list, const std::vector<Flt>& got, const std::vector<Flt>& want, std::string& err) {
    size_t i = 0;
    for (const TestFilter* f = list; f != NULLPTR && i < got.size(); f = f->getNext(), i++) {
        if (std::string(StringFrom(*f).asCharString()) != f->asString().asCharString()) { err = "StringFrom(filter) differs from filter.asString()"; return false; }
        for (auto& w : want) {
            TestFilter e(w.text.c_str()); if (w.strict) e.strictMatching(); if (w.inverted) e.invertMatching();
            bool eq = *f == e, ne = *f != e, sym = e == *f;
            if (eq != (got[i] == w) || ne == eq || sym != eq) { err = "operator==/!= on " + show(got[i]) + " vs " + show(w) + sfmt(" gives ==%d !=%d (reversed ==%d)", (int)eq, (int)ne, (int)sym); return false; }
        }
    }
    return true;
}
bool read_config(const CommandLineArguments& a, Config& c, std::string& err) {
    c.verbose = a.isVerbose(); c.veryVerbose = a.isVeryVerbose(); c.color = a.isColor(); c.sep = a.runTestsInSeperateProcess();
    c.reverse = a.isReversing(); c.lg = a.isListingTestGroupNames(); c.ln = a.isListingTestGroupAndCaseNames(); c.ll = a.isListingTestLocations();
    c.runIgnored = a.isRunIgnored(); c.crash = a.isCrashingOnFail(); c.rethrow = a.isRethrowingExceptions();
    c.repeat = a.getRepeatCount(); c.shuffle = a.isShuffling(); c.seed = a.getShuffleSeed(); c.seedKnown = true;
    int kinds = (a.isEclipseOutput() ? 1 : 0) + (a.isJUnitOutput() ? 1 : 0) + (a.isTeamCityOutput() ? 1 : 0);
    if (kinds != 1) { err = sfmt("%d output kinds reported at once", kinds); return false; }
    c.output = a.isJUnitOutput() ? OUT_JUNIT : a.isTeamCityOutput() ? OUT_TEAMCITY : OUT_NORMAL;
    const char* pk = a.getPackageName().asCharString();
    if (pk == NULLPTR) { err = "package name is NULL"; return false; }
    c.package = pk;
    if (a.usage() == NULLPTR || a.help() == NULLPTR) { err = "usage()/help() NULL"; return false; }
    return read_filters(a.getGroupFilters(), c.gf, err) && read_filters(a.getNameFilters(), c.nf, err);
}

// ---------------------------------------------------------------- MEANING: option grammar from help()/usage()
// class counter only: would a substring search that never goes back into consumed text miss this occurrence?
bool needs_backtracking(const std::string& t, const std::string& p) {
    if (p.empty() || t.find(p) == std::string::npos) return false;
    size_t m = 0;
    for (char c : t) { if (c != p[m]) m = 0; if (c == p[m] && ++m == p.size()) return false; }
    return true;
}
const char IDCH[] = "ABCDEFGHIJKLMNOPQRSTUVWXYZabcdefghijklmnopqrstuvwxyz0123456789_";
std::string ident(Reader& r, bool group) {
    const Probe& p = PROBES[r.below((uint32_t)NP)];
    std::string src = group ? p.group : p.name;
    switch (r.below(7)) {
    default:
    case 0: return src;
    case 1: { size_t pos = r.below((uint32_t)src.size()); size_t len = 1 + r.below(3); return src.substr(pos, len); }
    case 2: { std::string s = r.str(2, "aAt1_"); return s + "a"; }
    case 3: { size_t len = 1 + r.below(8); std::string s; for (size_t i = 0; i < len; i++) s.push_back(IDCH[r.below(sizeof IDCH - 1)]); return s; }
    case 4: { size_t pos = r.below((uint32_t)src.size()); size_t len = 2 + r.below(5); return src.substr(pos, len); }   // longer substring
    case 5: {   // a substring whose occurrence follows an overlapping false start ("aab" out of "aaab", "001" out of "packet0001")
        const Probe& op = PROBES[12 + r.below(4)]; src = group ? op.group : op.name;   // the probes with repeated prefixes
        size_t pos = r.below((uint32_t)src.size());
        for (size_t q = 0; q < src.size(); q++) for (size_t l = 2; l <= 6; l++) { size_t c = (pos + q) % src.size(); if (c + l <= src.size() && needs_backtracking(src, src.substr(c, l))) return src.substr(c, l); }
        return src.substr(pos, 2); }
    case 6: { std::string s = r.str(4, "ab01"); return s + (r.below(2) ? "b" : "1"); }                                   // short needle over the repeat alphabet
    }
}
// Operand of a numeric option.  determinate: a plain digit string (leading zeros allowed) whose value the help text / the
// documented unsigned conversion fixes; otherwise (sign, trailing junk, 0, >= 2^32, 20..40 digits) the statement does not say
// what the value is and only "attached and separated form agree" + memory safety is required.
struct NumVal { std::string text; bool determinate; unsigned long long value; };
NumVal number(Reader& r) {
    static const size_t lat[] = {1, 2, 3, 4, 5, 9, 10, 42, 100, 12345, 65535, 65536, 99999};
    auto dec = [](unsigned long long v) { return sfmt("%llu", v); };
    unsigned k = r.below(32);                       // 0..15 as before (old inputs keep their meaning), 16..31 the boundary classes
    if (k < 13) return {dec(lat[k]), true, lat[k]};
    if (k < 16) { unsigned long long v = 1 + (unsigned long long)r.below(99999); return {dec(v), true, v}; }
    switch (k) {
    default:
    case 16: return {"2147483647", true, 2147483647ULL};
    case 17: return {"2147483648", true, 2147483648ULL};
    case 18: return {"2147483649", true, 2147483649ULL};
    case 19: return {"4294967295", true, 4294967295ULL};
    case 20: return {"4294967296", false, 4294967296ULL};
    case 21: return {"4294967297", false, 4294967297ULL};
    case 22: return {r.below(2) ? "00" : "0", false, 0};
    case 23: { size_t v = lat[r.below(13)]; return {std::string(1 + r.below(12), '0') + dec(v), true, v}; }
    case 24: return {"+" + dec(lat[r.below(13)]), false, 0};
    case 25: { static const char* junk[] = {"ab", " ", "x", ".5", "e3", "-", ",1"}; return {dec(lat[r.below(13)]) + junk[r.below(7)], false, 0}; }
    case 26: { size_t len = 11 + r.below(30); std::string t = "1"; for (size_t i = 1; i < len; i++) t.push_back((char)('0' + r.below(10))); return {t, false, 0}; }
    case 27: return {"3000000000", true, 3000000000ULL};
    case 28: { unsigned long long v = 0x80000000ULL + (r.u32() & 0x7fffffffu); return {dec(v), true, v}; }
    case 29: { unsigned long long v = 0x80000000ULL + (r.u32() & 0x7fffffffu); return {"00" + dec(v), true, v}; }
    case 30: return {"-" + dec(lat[r.below(13)]), false, 0};
    case 31: { unsigned long long v = r.u32() | 1u; return {dec(v), true, v}; }
    }
}

struct Opt { std::vector<std::string> args; std::string what; bool valued = false, separated = false, paired = false;
             bool seed_valued = false; std::string num_text; bool undetermined = false; };

// decodes one documented option, renders it and applies its documented meaning to `c`; returns false for -h (reject with help)
bool gen_option(Reader& r, Config& c, Opt& o) {
    unsigned cat = r.below(8);
    auto valued = [&](const char* opt, const std::string& v, bool sep) {
        o.valued = true; o.separated = sep;
        if (sep) { o.args.push_back(opt); o.args.push_back(v); } else o.args.push_back(std::string(opt) + v);
    };
    switch (cat) {
    default:
    case 0: {
        static const char* flags[] = {"-v", "-vv", "-c", "-p", "-b", "-ri", "-f", "-e", "-ci", "-lg", "-ln", "-ll"};
        unsigned f = r.below(40);
        if (f == 39) { o.args.push_back("-h"); o.what = "flag:-h"; return false; }
        unsigned k = f < 36 ? f % 9 : 9 + (f - 36);   // list modes are rarer (they suppress the run)
        o.args.push_back(flags[k]); o.what = std::string("flag:") + flags[k];
        switch (k) {
        case 0: c.verbose = true; break;  case 1: c.veryVerbose = true; break;  case 2: c.color = true; break;
        case 3: c.sep = true; break;      case 4: c.reverse = true; break;      case 5: c.runIgnored = true; break;
        case 6: c.crash = true; break;    case 7: case 8: c.rethrow = false; break;
        case 9: c.lg = true; break;       case 10: c.ln = true; break;          case 11: c.ll = true; break;
        }
        return true; }
    case 1: {   // -r[<#>]  (attached form only: that is what the help documents)
        if (r.below(3) == 0) { o.args.push_back("-r"); c.repeat = 2; o.what = "-r"; }
        else {   // the repeat count is converted into an int: determinate for 1..2^31-1
            NumVal n = number(r); o.args.push_back("-r" + n.text); o.what = "-rN"; o.valued = true;
            if (n.determinate && n.value >= 1 && n.value <= 2147483647ULL) c.repeat = (size_t)n.value; else o.undetermined = true;
        }
        return true; }
    case 2: {   // -s [<seed>]
        unsigned form = r.below(3);
        c.shuffle = true;
        if (form == 0) { o.args.push_back("-s"); c.seedKnown = false; o.what = "-s"; }
        else {   // the seed is converted into an unsigned: determinate for 1..2^32-1, the same in both forms
            NumVal n = number(r); valued("-s", n.text, form == 2); o.what = form == 2 ? "-s N" : "-sN";
            o.seed_valued = true; o.num_text = n.text;
            if (n.determinate && n.value >= 1 && n.value <= 4294967295ULL) { c.seedKnown = true; c.seed = (size_t)n.value; } else o.undetermined = true;
        }
        return true; }
    case 3: {   // -o<kind>, -k <package>
        unsigned k = r.below(6);
        bool sep = r.below(2) != 0;
        if (k < 4) {
            static const char* kinds[] = {"normal", "eclipse", "junit", "teamcity"};
            valued("-o", kinds[k], sep); c.output = k == 2 ? OUT_JUNIT : k == 3 ? OUT_TEAMCITY : OUT_NORMAL; o.what = std::string("-o") + kinds[k];
        } else { std::string v = ident(r, true); valued("-k", v, sep); c.package = v; o.what = "-k"; }
        return true; }
    case 4: case 5: {   // -g -sg -xg -xsg -n -sn -xn -xsn
        static const char* opts[] = {"-g", "-n", "-sg", "-sn", "-xg", "-xn", "-xsg", "-xsn"};
        unsigned k = r.below(8);
        bool is_name = (k & 1u) != 0, strict = k == 2 || k == 3 || k >= 6, inv = k >= 4;
        bool sep = r.below(2) != 0;
        std::string v = ident(r, !is_name);
        valued(opts[k], v, sep);
        (is_name ? c.nf : c.gf).push_back(Flt{v, strict, inv});
        o.what = opts[k];
        return true; }
    case 6: {   // -t -st -xt -xst <group>.<name>
        static const char* opts[] = {"-t", "-st", "-xt", "-xst"};
        unsigned k = r.below(4);
        bool strict = (k & 1u) != 0, inv = k >= 2;
        bool sep = r.below(2) != 0;
        std::string g = ident(r, true), n = ident(r, false);
        valued(opts[k], g + "." + n, sep);
        c.gf.push_back(Flt{g, strict, inv}); c.nf.push_back(Flt{n, strict, inv});
        o.what = opts[k]; o.paired = true;
        return true; }
    case 7: {   // "TEST(group, name)" / "IGNORE_TEST(group, name)"
        bool ign = r.below(2) != 0;
        std::string g = ident(r, true), n = ident(r, false);
        o.args.push_back(std::string(ign ? "IGNORE_TEST(" : "TEST(") + g + ", " + n + ")");
        c.gf.push_back(Flt{g, true, false}); c.nf.push_back(Flt{n, true, false});
        o.what = ign ? "IGNORE_TEST(" : "TEST("; o.valued = true; o.paired = true;
        return true; }
    }
}

// ---------------------------------------------------------------- SAFETY: argument vectors
const char* DICT[] = {"-h", "-v", "-vv", "-c", "-p", "-b", "-lg", "-ln", "-ll", "-ri", "-f", "-e", "-ci", "-r", "-g", "-t", "-st", "-xt", "-xst",
                      "-sg", "-xg", "-xsg", "-n", "-sn", "-xn", "-xsn", "-s", "TEST(", "IGNORE_TEST(", "-o", "-onormal", "-oeclipse", "-ojunit",
                      "-oteamcity", "-p", "-k", "-x", "-xs", "-l", "-", "TEST", "IGNORE_TEST", "-pfoo"};
const size_t NDICT = sizeof DICT / sizeof DICT[0];
const char* VALUED[] = {"-r", "-g", "-t", "-st", "-xt", "-xst", "-sg", "-xg", "-xsg", "-n", "-sn", "-xn", "-xsn", "-s", "TEST(", "IGNORE_TEST(", "-o", "-k"};
const size_t NVALUED = sizeof VALUED / sizeof VALUED[0];
const char* EXACT_FLAGS[] = {"-v", "-vv", "-c", "-p", "-b", "-lg", "-ln", "-ll", "-ri", "-f", "-e", "-ci"};

std::string safety_tail(Reader& r) {
    switch (r.below(8)) {
    default:
    case 0: return "";
    case 1: return r.str(6, "aA1_");
    case 2: return r.str(3, "aA") + "." + r.str(3, "aA");
    case 3: return r.str(3, "aA") + ", " + r.str(3, "aA") + ")";
    case 4: { static const char a[] = "aA.,() 0123456789-+\t"; return r.str(12, a, sizeof a - 1); }
    case 5: return r.bytes(20);
    case 6: return r.str(14, "0123456789");
    case 7: { static const char* t[] = {",", ")", ", ", "(", ",)", "a,", "a)", ".", "..", "a.", ".a", "a.b.c", " ", "junit", "normal", "-1", "+5", "0", "00", "4294967296", "aab", "001", "abac", "abab", "2147483648", "4294967295", "3000000000", "0000000007"}; return t[r.below(28)]; }
    }
}
std::vector<std::string> gen_safety_structured(Reader& r) {
    static const size_t counts[12] = {1, 1, 2, 2, 3, 3, 4, 5, 6, 8, 10, 12};
    std::vector<std::string> args; size_t n = counts[r.below(12)];
    for (size_t i = 0; i < n && args.size() < 12; i++) {
        switch (r.below(8)) {
        default:
        case 0: case 1: args.push_back(std::string(VALUED[r.below((uint32_t)NVALUED)]) + safety_tail(r)); break;          // attached value
        case 2: args.push_back(VALUED[r.below((uint32_t)NVALUED)]); args.push_back(safety_tail(r)); break;                // separated value
        case 3: args.push_back(EXACT_FLAGS[r.below(12)]); break;
        case 4: args.push_back(std::string(DICT[r.below((uint32_t)NDICT)]) + safety_tail(r)); break;
        case 5: args.push_back(DICT[r.below((uint32_t)NDICT)]); break;
        case 6: args.push_back(r.bytes(40)); break;
        case 7: args.push_back(safety_tail(r)); break;
        }
        for (auto& a : args) if (a.size() > 40) a.resize(40);
    }
    if (args.size() > 12) args.resize(12);
    return args;
}
std::vector<std::string> gen_safety_literal(Reader& r) {
    std::vector<std::string> args; std::string cur;
    while (!r.empty() && args.size() < 12) {
        uint8_t b = r.u8();
        if (b == 0) { args.push_back(cur); cur.clear(); } else if (cur.size() < 40) cur.push_back((char)b);
    }
    if (args.size() < 12 && (!cur.empty() || args.empty())) args.push_back(cur);
    return args;
}
bool starts_with(const std::string& s, const char* p) { return s.compare(0, strlen(p), p) == 0; }
bool safety_nontrivial(const std::vector<std::string>& args) {   // the first argument that is not a plain flag reaches a valued option
    for (auto& a : args) {
        bool flag = false; for (const char* f : EXACT_FLAGS) if (a == f) flag = true;
        if (flag) continue;
        for (const char* v : VALUED) if (starts_with(a, v)) return true;
        return false;
    }
    return false;
}

// ---------------------------------------------------------------- driving the probe registry through the real runner
std::string show_ids(const std::vector<int>& v) { std::string o; for (int x : v) o += sfmt("%d ", x); return o; }

// `c` is the configuration the run has to follow (MEANING: from the interpreter; SAFETY: read back from the getters)
// One process, one registry, several argument vectors one after the other (each with its own runner object).
// What legitimately outlives a vector, because the registry / shell interface only has one-way switches for it and the
// runner never takes it back: run-ignored (-ri), separate process (-p), crash on failure (-f), and the order of the list
// (-b reverses the list the runner finds, -s leaves it shuffled).  Everything else must follow the current vector only.
struct Session {
    TestRegistry reg; std::vector<std::unique_ptr<UtestShell>> shells; std::map<const UtestShell*, int> ids;
    bool ri = false, sep = false, crash = false; size_t vectors_run = 0;
    Session() {
        for (size_t i = 0; i < NP; i++) { shells.emplace_back(PROBES[i].ignored ? (UtestShell*)new IgnoredProbeShell((int)i) : (UtestShell*)new ProbeShell((int)i)); ids[shells.back().get()] = (int)i; }
        for (size_t i = NP; i-- > 0;) reg.addTest(shells[i].get());   // registry order = index order
    }
    bool walk(std::vector<int>& order) {
        order.clear(); size_t steps = 0;
        for (UtestShell* t = reg.getFirstTest(); t != NULLPTR; t = t->getNext()) { if (++steps > NP) return false; auto it = ids.find(t); order.push_back(it == ids.end() ? -1 : it->second); }
        std::vector<int> sorted = order; std::sort(sorted.begin(), sorted.end());
        for (size_t i = 0; i < NP; i++) if (sorted.size() != NP || sorted[i] != (int)i) return false;
        return true;
    }
};

// real_entry: through the static CommandLineTestRunner::RunAllTests(ac, av) with the real output objects; what they write is caught at the file seams
int run_through_runner(Session& ses, const Argv& argv, bool expect_reject, bool expect_help, const Config& c_vector, const std::string& ctx, bool real_entry, bool exact_names) {
    MemoryLeakWarningPlugin memleak(DEF_PLUGIN_MEM_LEAK);
    TestRegistry& reg = ses.reg;
    reg.setCurrentRegistry(&reg);
    reg.resetPlugins();
    Config c = c_vector;   // the vector's own meaning, plus the one-way switches an earlier vector of this process has thrown
    c.runIgnored = c.runIgnored || ses.ri; c.sep = c.sep || ses.sep; c.crash = c.crash || ses.crash;
    std::vector<int> start_order;
    if (!ses.walk(start_order)) return verif::fail("C12:registry-list", "the registry's list is not a permutation of the probes before vector %zu [%s]", ses.vectors_run + 1, ctx.c_str());
    ses.vectors_run++;
    if (!real_entry) reg.installPlugin(&memleak);
    PlatformSpecificRunTestInASeperateProcess = sep_process_stub;
    g_files.clear(); g_stdout.clear();
    if (real_entry) { PlatformSpecificFOpen = fake_fopen; PlatformSpecificFPuts = fake_fputs; PlatformSpecificFClose = fake_fclose; PlatformSpecificFlush = fake_flush; }
    memset(g_exec, 0, sizeof g_exec); g_exec_order.clear(); g_sep_calls = 0;
    g_outs.clear(); g_junit_package.clear(); g_junit_created = g_teamcity_created = g_console_created = 0;

    int rc = 0;
    {
        std::unique_ptr<VRunner> runner;
        int result;
        if (real_entry) result = CommandLineTestRunner::RunAllTests(argv.ac, (char**)argv.av);   // the main(ac, av) overload; forwards to the const one,   // installs its own leak plugin into the current registry
        else { runner.reset(new VRunner(argv.ac, argv.av, &reg)); result = runner->runAllTestsMain(); }
        size_t total = 0; for (size_t i = 0; i < NP; i++) total += (size_t)g_exec[i];
        std::string console;
        for (RecOut* o : g_outs) if (o->kind == OUT_NORMAL) console += o->text();
        if (real_entry) console = g_stdout;
        if (expect_reject) {
            CommandLineArguments ref(argv.ac, argv.av);
            const char* want = expect_help ? ref.help() : ref.usage();
            if (total != 0) rc = verif::fail("C12:rejected-but-tests-ran", "rejected argument vector, yet %zu probe executions [%s]", total, ctx.c_str());
            else if ((!real_entry && g_console_created != 1) || console != want) rc = verif::fail("C12:rejected-without-usage", "rejected argument vector: %s text not printed, got \"%s\" [%s]", expect_help ? "help" : "usage", verif::printable(console).substr(0, 200).c_str(), ctx.c_str());
            else if (strstr(ref.usage(), "usage") == NULLPTR || strstr(ref.help(), "-xsn") == NULLPTR) rc = verif::fail("C12:usage-text", "usage()/help() lost their content");
            else if (result == 0) rc = verif::fail("C12:rejected-returns-success", "rejected argument vector, runner returned 0 [%s]", ctx.c_str());
        } else {
            bool listing = c.lg || c.ln || c.ll;
            std::vector<bool> selected(NP), runs(NP);
            for (size_t i = 0; i < NP; i++) {
                selected[i] = accepted_by_list(c.gf, PROBES[i].group) && accepted_by_list(c.nf, PROBES[i].name);
                runs[i] = !listing && selected[i] && (!PROBES[i].ignored || c.runIgnored);
            }
            for (size_t i = 0; i < NP && !rc; i++) {
                size_t want = runs[i] ? c.repeat : 0;
                if ((size_t)g_exec[i] != want)
                    rc = verif::fail(listing ? "C12:list-mode-ran-tests" : "C12:selection-through-runner", "probe %s%s.%s executed %d times, expected %zu (group filters {%s} name filters {%s} repeat %zu run-ignored %d) [%s]",
                                     PROBES[i].ignored ? "I:" : "", PROBES[i].group, PROBES[i].name, g_exec[i], want, show(c.gf).c_str(), show(c.nf).c_str(), c.repeat, (int)c.runIgnored, ctx.c_str());
            }
            // order of every repetition
            if (!rc && !listing) {
                std::vector<int> base; for (int id : start_order) if (runs[(size_t)id]) base.push_back(id);   // the order the runner finds
                if (c.reverse) std::reverse(base.begin(), base.end());
                size_t per = base.size();
                for (size_t rep = 0; rep < c.repeat && !rc; rep++) {
                    std::vector<int> got(g_exec_order.begin() + (long)(rep * per), g_exec_order.begin() + (long)((rep + 1) * per));
                    if (!c.shuffle) { if (got != base) rc = verif::fail("C12:order-through-runner", "repetition %zu ran %s expected %s (reverse=%d) [%s]", rep + 1, show_ids(got).c_str(), show_ids(base).c_str(), (int)c.reverse, ctx.c_str()); }
                    else { std::vector<int> a = got, b = base; std::sort(a.begin(), a.end()); std::sort(b.begin(), b.end()); if (a != b) rc = verif::fail("C12:order-through-runner", "shuffled repetition %zu ran %s, not a permutation of %s [%s]", rep + 1, show_ids(got).c_str(), show_ids(base).c_str(), ctx.c_str()); }
                }
            }
            if (!rc && (size_t)g_sep_calls != (c.sep ? total : 0))
                rc = verif::fail("C12:separate-process", "separate process %s, %d of %zu executions went through the separate-process seam [%s]", c.sep ? "requested" : "not requested", g_sep_calls, total, ctx.c_str());
            // output kind, package, verbosity, colour
            if (!rc && real_entry) {
                bool console_like = c.output != OUT_JUNIT || c.verbose || c.veryVerbose;
                bool has_tc = g_stdout.find("##teamcity[") != std::string::npos;
                if (has_tc != (c.output == OUT_TEAMCITY && !listing)) rc = verif::fail("C12:real-output-kind", "TeamCity service messages %s on stdout, output kind %d [%s]", has_tc ? "present" : "absent", c.output, ctx.c_str());
                else if ((g_files.size() > 0) != (c.output == OUT_JUNIT && !listing)) rc = verif::fail("C12:real-output-kind", "%zu files written, output kind %d (1 = junit) [%s]", g_files.size(), c.output, ctx.c_str());
                for (auto& f : g_files) if (!rc) {
                    bool ok = f->closed && f->name.compare(0, 9, "cpputest_") == 0 && f->name.size() >= 13 && f->name.compare(f->name.size() - 4, 4, ".xml") == 0;
                    if (ok && exact_names) {   // identifier-like package: cpputest_[<package>_]<group>.xml for a registered group
                        ok = false;
                        std::string stem = "cpputest_" + (c.package.empty() ? std::string() : c.package + "_");
                        for (size_t i = 0; i < NP; i++) if (f->name == stem + PROBES[i].group + ".xml") ok = true;
                        if (f->name == stem + ".xml") ok = true;   // a group whose tests were all filtered out is written under an empty group name: JUnit's business (C16), not judged here
                        if (ok && !c.package.empty() && f->text.find("<testcase") != std::string::npos && f->text.find("classname=\"" + c.package + ".") == std::string::npos) ok = false;   // every test case is classified under the package
                    }
                    if (!ok) rc = verif::fail("C12:real-junit-file", "JUnit file \"%s\" (closed=%d) does not fit package \"%s\" and the registered groups [%s]", verif::printable(f->name).c_str(), (int)f->closed, verif::printable(c.package).c_str(), ctx.c_str());
                }
                if (!rc && !listing) {
                    // the summary line of every repetition: "<n> tests, <ran> ran, <checks> checks, <ignored> ignored, <filtered out> filtered out"
                    size_t n_sel = 0, n_run = 0; for (size_t i = 0; i < NP; i++) { if (selected[i]) n_sel++; if (runs[i]) n_run++; }
                    static const std::regex re("([0-9]+) tests, ([0-9]+) ran, ([0-9]+) checks, ([0-9]+) ignored, ([0-9]+) filtered out");
                    size_t lines = 0;
                    for (std::sregex_iterator it(g_stdout.begin(), g_stdout.end(), re), end; it != end && !rc; ++it, ++lines) {
                        size_t v[5]; for (int k = 0; k < 5; k++) v[k] = (size_t)strtoul((*it)[k + 1].str().c_str(), NULLPTR, 10);
                        if (v[0] != NP || v[1] != n_run || v[2] != 0 || v[3] != n_sel - n_run || v[4] != NP - n_sel)
                            rc = verif::fail("C12:real-summary", "summary line \"%s\", expected %zu tests, %zu ran, 0 checks, %zu ignored, %zu filtered out [%s]", it->str().c_str(), NP, n_run, n_sel - n_run, NP - n_sel, ctx.c_str());
                    }
                    if (!rc && lines != (console_like ? c.repeat : 0)) rc = verif::fail("C12:real-summary", "%zu summary lines on stdout for %zu repetitions (console output %s) [%s]", lines, c.repeat, console_like ? "expected" : "not expected", ctx.c_str());
                    // -v prints each test name as it runs; -c colours
                    bool any_name = g_stdout.find("TEST(") != std::string::npos;
                    bool want_names = console_like && (c.verbose || c.veryVerbose) && n_sel > 0 && c.output != OUT_TEAMCITY;
                    if (!rc && c.output != OUT_TEAMCITY && any_name != want_names) rc = verif::fail("C12:real-verbose", "test names %s on stdout, verbose=%d very verbose=%d [%s]", any_name ? "printed" : "not printed", (int)c.verbose, (int)c.veryVerbose, ctx.c_str());
                    if (!rc && want_names) for (size_t i = 0; i < NP && !rc; i++) if (runs[i] && g_stdout.find(std::string("TEST(") + PROBES[i].group + ", " + PROBES[i].name + ")") == std::string::npos)
                        rc = verif::fail("C12:real-verbose", "verbose run does not print TEST(%s, %s) [%s]", PROBES[i].group, PROBES[i].name, ctx.c_str());
                    bool coloured = g_stdout.find("\033[") != std::string::npos;
                    if (!rc && coloured != (c.color && console_like)) rc = verif::fail("C12:real-colour", "colour escape %s on stdout, -c %d [%s]", coloured ? "present" : "absent", (int)c.color, ctx.c_str());
                }
            }
            if (!rc && !real_entry) {
                int want_junit = c.output == OUT_JUNIT ? 1 : 0, want_tc = c.output == OUT_TEAMCITY ? 1 : 0;
                int want_console = c.output == OUT_NORMAL ? 1 : (c.output == OUT_JUNIT && (c.verbose || c.veryVerbose)) ? 1 : 0;
                if (g_junit_created != want_junit || g_teamcity_created != want_tc || g_console_created != want_console)
                    rc = verif::fail("C12:output-kind", "outputs created: junit %d teamcity %d console %d, expected %d %d %d [%s]", g_junit_created, g_teamcity_created, g_console_created, want_junit, want_tc, want_console, ctx.c_str());
                else if (want_junit && g_junit_package != c.package)
                    rc = verif::fail("C12:package-name", "JUnit output created with package \"%s\", expected \"%s\" [%s]", verif::printable(g_junit_package).c_str(), verif::printable(c.package).c_str(), ctx.c_str());
                int want_level = c.veryVerbose ? (int)TestOutput::level_veryVerbose : c.verbose ? (int)TestOutput::level_verbose : (int)TestOutput::level_quiet;
                for (RecOut* o : g_outs) if (!rc) {
                    if (o->level != want_level) rc = verif::fail("C12:verbosity-applied", "output runs at verbosity %d, expected %d [%s]", o->level, want_level, ctx.c_str());
                    else if (o->colored != c.color) rc = verif::fail("C12:colour-applied", "output colour %d, expected %d [%s]", (int)o->colored, (int)c.color, ctx.c_str());
                }
            }
            if (!rc) {
                bool crashing = dynamic_cast<const CrashingTestTerminator*>(&UtestShell::getCurrentTestTerminator()) != NULLPTR;
                if (crashing != c.crash) rc = verif::fail("C12:crash-on-fail-applied", "crash-on-fail %d, expected %d [%s]", (int)crashing, (int)c.crash, ctx.c_str());
                else if (UtestShell::isRethrowingExceptions() != c.rethrow) rc = verif::fail("C12:rethrow-applied", "rethrow %d, expected %d [%s]", (int)UtestShell::isRethrowingExceptions(), (int)c.rethrow, ctx.c_str());
                else if (!listing && result != 0 && total + 0 > 0) rc = verif::fail("C12:runner-result", "runner returned %d although no probe fails [%s]", result, ctx.c_str());
            }
            // list modes print what the help says they print
            if (!rc && listing) {
                std::string all; for (RecOut* o : g_outs) all += o->text();
                bool single = g_outs.size() == 1;
                if (real_entry) { all = g_stdout; single = c.output != OUT_JUNIT; }
                if (c.lg) {
                    std::vector<std::string> seen; std::string want;
                    for (int id : start_order) { size_t i = (size_t)id; if (std::find(seen.begin(), seen.end(), PROBES[i].group) == seen.end()) { seen.push_back(PROBES[i].group); want += (want.empty() ? "" : " ") + std::string(PROBES[i].group); } }
                    if (single && all != want) rc = verif::fail("C12:list-groups", "-lg printed \"%s\", expected \"%s\" [%s]", verif::printable(all).substr(0, 300).c_str(), want.c_str(), ctx.c_str());
                } else if (c.ln) {
                    // every selected test must be listed as group.name, nothing that is not a registered test (whether filters apply is not documented)
                    std::vector<std::string> items; std::string cur; for (char ch : all) { if (ch == ' ') { items.push_back(cur); cur.clear(); } else cur.push_back(ch); } if (!cur.empty()) items.push_back(cur);
                    if (single) {
                        for (size_t i = 0; i < NP && !rc; i++) { std::string gn = std::string(PROBES[i].group) + "." + PROBES[i].name; bool listed = std::find(items.begin(), items.end(), gn) != items.end();
                            if (selected[i] && !listed) rc = verif::fail("C12:list-names", "-ln does not list selected test %s: \"%s\" [%s]", gn.c_str(), verif::printable(all).substr(0, 300).c_str(), ctx.c_str()); }
                        for (auto& it : items) { bool reg_ = false; for (size_t i = 0; i < NP; i++) if (it == std::string(PROBES[i].group) + "." + PROBES[i].name) reg_ = true;
                            if (!reg_ && !rc) rc = verif::fail("C12:list-names", "-ln lists \"%s\" which is not a registered test [%s]", verif::printable(it).c_str(), ctx.c_str()); }
                    }
                } else {
                    for (size_t i = 0; i < NP && !rc; i++) { std::string rec = sfmt("%s.%s.probe.cpp.%d\n", PROBES[i].group, PROBES[i].name, (int)(10 + i));
                        if ((single || !real_entry) && all.find(rec) == std::string::npos) rc = verif::fail("C12:list-locations", "-ll does not print %s [%s]", verif::printable(rec).c_str(), ctx.c_str()); }
                }
            }
        }
        g_outs.clear();
    }
    reg.resetPlugins();
    PlatformSpecificFOpen = g_orig_fopen; PlatformSpecificFPuts = g_orig_fputs; PlatformSpecificFClose = g_orig_fclose; PlatformSpecificFlush = g_orig_flush;
    if (!expect_reject) { ses.ri = ses.ri || c_vector.runIgnored; ses.sep = ses.sep || c_vector.sep; ses.crash = ses.crash || c_vector.crash; }
    return rc;
}

std::string show_args(const std::vector<std::string>& args) { std::string o; for (size_t i = 1; i < args.size(); i++) o += "[" + verif::printable(args[i]) + "] "; return o; }

int meaning_vector(Reader& r, Session& ses, bool& nontrivial, std::string& desc) {
    Config want; std::vector<std::string> args; args.push_back("probe.exe");
    size_t nopt = r.below(9);
    bool help = false; size_t valued = 0; bool sep_or_pair = false;
    bool undetermined = false; std::vector<std::string> other_form; other_form.push_back("probe.exe"); size_t seeds_flipped = 0;
    for (size_t k = 0; k < nopt; k++) {
        Opt o; bool go_on = gen_option(r, want, o);
        for (auto& a : o.args) args.push_back(a);
        if (o.seed_valued) {   // the same vector with every -s <seed> written in the other documented form
            seeds_flipped++;
            if (o.separated) other_form.push_back("-s" + o.num_text); else { other_form.push_back("-s"); other_form.push_back(o.num_text); }
        } else for (auto& a : o.args) other_form.push_back(a);
        if (o.undetermined) undetermined = true;
        verif::cls(("opt:" + o.what).c_str());
        if (o.valued) { valued++; verif::cls(o.separated ? "form:separated" : "form:attached"); }
        if ((o.valued && o.separated) || o.paired) sep_or_pair = true;
        if (!go_on) { help = true; break; }
    }
    bool real_entry = r.below(4) == 1;   // trailing choice: through the static entry point RunAllTests with the real output objects
    if (real_entry) verif::cls("runner:real-entry-point");
    nontrivial = nopt >= 2 && args.size() > 2 && valued >= 1 && sep_or_pair;
    desc = "meaning: " + show_args(args);
    if (verif::g_explain) fprintf(stderr, "case: vector %zu of the process: %s\n", ses.vectors_run + 1, desc.c_str());
    verif::cls(help ? "meaning:help" : "meaning:configuration");
    if (!want.gf.empty() || !want.nf.empty()) verif::cls("meaning:with-filters");
    if (want.gf.size() > 1 || want.nf.size() > 1) verif::cls("meaning:filter-list-of-2+");

    Argv argv(args);
    if (seeds_flipped) {
        // attached and separated form of a documented option mean the same: same verdict, same configuration, whatever the operand
        verif::cls(undetermined ? "numeric:forms-compared(value-not-determined-by-the-help)" : "numeric:forms-compared");
        Argv alt(other_form);
        Config c1, c2; bool ok1, ok2, h1, h2; std::string err;
        for (int which = 0; which < 2; which++) {
            MemoryLeakWarningPlugin memleak(DEF_PLUGIN_MEM_LEAK);
            TestRegistry reg; reg.installPlugin(&memleak);
            SetPointerPlugin sp(DEF_PLUGIN_SET_POINTER); reg.installPlugin(&sp);
            const Argv& v = which ? alt : argv;
            CommandLineArguments a(v.ac, v.av);
            verif::fake_millis_value = 0;
            bool ok = a.parse(reg.getFirstPlugin());
            (which ? ok2 : ok1) = ok; (which ? h2 : h1) = a.needHelp();
            if (ok) V_CHECK(read_config(a, which ? c2 : c1, err), "C12:getters", "%s [%s]", err.c_str(), show_args(which ? other_form : args).c_str());
        }
        V_CHECK(ok1 == ok2 && h1 == h2, "C12:forms-disagree", "%s is %s, the same options with -s <seed> in the other form %s are %s",
                show_args(args).c_str(), ok1 ? "accepted" : "rejected", show_args(other_form).c_str(), ok2 ? "accepted" : "rejected");
        if (ok1) {
            std::vector<Flt> g1 = c1.gf, g2 = c2.gf, n1 = c1.nf, n2 = c2.nf;
            std::sort(g1.begin(), g1.end()); std::sort(g2.begin(), g2.end()); std::sort(n1.begin(), n1.end()); std::sort(n2.begin(), n2.end());
            bool same = c1.verbose == c2.verbose && c1.veryVerbose == c2.veryVerbose && c1.color == c2.color && c1.sep == c2.sep && c1.reverse == c2.reverse && c1.lg == c2.lg && c1.ln == c2.ln
                     && c1.ll == c2.ll && c1.runIgnored == c2.runIgnored && c1.crash == c2.crash && c1.rethrow == c2.rethrow && c1.repeat == c2.repeat && c1.shuffle == c2.shuffle
                     && c1.seed == c2.seed && c1.output == c2.output && c1.package == c2.package && g1 == g2 && n1 == n2;
            V_CHECK(same, "C12:forms-disagree", "%s and %s are both accepted but give different configurations (seed %zu / %zu, repeat %zu / %zu)",
                    show_args(args).c_str(), show_args(other_form).c_str(), c1.seed, c2.seed, c1.repeat, c2.repeat);
        }
    }
    if (undetermined) {   // the help does not fix the value: parse it (memory safety, getters) and stop
        verif::cls("numeric:value-not-determined-by-the-help");
        MemoryLeakWarningPlugin memleak(DEF_PLUGIN_MEM_LEAK);
        TestRegistry reg; reg.installPlugin(&memleak);
        SetPointerPlugin sp(DEF_PLUGIN_SET_POINTER); reg.installPlugin(&sp);
        CommandLineArguments a(argv.ac, argv.av);
        if (a.parse(reg.getFirstPlugin())) { Config got; std::string err; V_CHECK(read_config(a, got, err), "C12:getters", "%s [%s]", err.c_str(), desc.c_str()); }
        return 0;
    }
    {
        MemoryLeakWarningPlugin memleak(DEF_PLUGIN_MEM_LEAK);   // per case: the real entry point destroys the global detector when it returns
        TestRegistry reg; reg.installPlugin(&memleak);
        SetPointerPlugin sp(DEF_PLUGIN_SET_POINTER); reg.installPlugin(&sp);
        CommandLineArguments a(argv.ac, argv.av);
        bool ok = a.parse(reg.getFirstPlugin());
        if (help) {
            V_CHECK(!ok && a.needHelp(), "C12:help-not-rejected", "-h given, parse()=%d needHelp()=%d [%s]", (int)ok, (int)a.needHelp(), desc.c_str());
        } else {
            V_CHECK(ok, "C12:documented-vector-rejected", "documented options rejected [%s]", desc.c_str());
            V_CHECK(!a.needHelp(), "C12:help-flag", "needHelp() without -h [%s]", desc.c_str());
            Config got; std::string err;
            V_CHECK(read_config(a, got, err), "C12:getters", "%s [%s]", err.c_str(), desc.c_str());
#define SAMEB(field, sig, name) V_CHECK(got.field == want.field, sig, name " is %d, documented meaning gives %d [%s]", (int)got.field, (int)want.field, desc.c_str())
            SAMEB(verbose, "C12:verbose", "verbose"); SAMEB(veryVerbose, "C12:very-verbose", "very verbose"); SAMEB(color, "C12:colour", "colour");
            SAMEB(sep, "C12:separate-process-flag", "separate process"); SAMEB(reverse, "C12:reverse", "reverse"); SAMEB(lg, "C12:list-flag", "list groups");
            SAMEB(ln, "C12:list-flag", "list names"); SAMEB(ll, "C12:list-flag", "list locations"); SAMEB(runIgnored, "C12:run-ignored", "run ignored");
            SAMEB(crash, "C12:crash-on-fail", "crash on fail"); SAMEB(rethrow, "C12:rethrow", "rethrow exceptions"); SAMEB(shuffle, "C12:shuffle", "shuffling");
            V_CHECK(got.repeat == want.repeat, "C12:repeat", "repeat count %zu, documented meaning gives %zu [%s]", got.repeat, want.repeat, desc.c_str());
            if (want.shuffle) {
                if (want.seedKnown) V_CHECK(got.seed == want.seed, "C12:shuffle-seed", "shuffle seed %zu, given %zu [%s]", got.seed, want.seed, desc.c_str());
                else V_CHECK(got.seed != 0, "C12:shuffle-seed", "shuffle without a seed produced seed 0 [%s]", desc.c_str());
            }
            V_CHECK(got.output == want.output, "C12:output-kind-flag", "output kind %d, documented meaning gives %d [%s]", got.output, want.output, desc.c_str());
            V_CHECK(got.package == want.package, "C12:package", "package \"%s\", expected \"%s\" [%s]", got.package.c_str(), want.package.c_str(), desc.c_str());
            std::vector<Flt> a1 = got.gf, b1 = want.gf, a2 = got.nf, b2 = want.nf;
            std::sort(a1.begin(), a1.end()); std::sort(b1.begin(), b1.end()); std::sort(a2.begin(), a2.end()); std::sort(b2.begin(), b2.end());
            V_CHECK(a1 == b1, "C12:group-filters", "group filters {%s}, documented meaning gives {%s} [%s]", show(got.gf).c_str(), show(want.gf).c_str(), desc.c_str());
            V_CHECK(filter_equality_consistent(a.getGroupFilters(), got.gf, want.gf, err) && filter_equality_consistent(a.getNameFilters(), got.nf, want.nf, err),
                    "C12:filter-equality", "%s [%s]", err.c_str(), desc.c_str());
            V_CHECK(a2 == b2, "C12:name-filters", "name filters {%s}, documented meaning gives {%s} [%s]", show(got.nf).c_str(), show(want.nf).c_str(), desc.c_str());
        }
    }
    // the pair forms read as "tests whose group AND name ..." in the help; the code keeps two independent lists.  Count where the two readings differ.
    if (!help && (!want.gf.empty() || !want.nf.empty())) {
        size_t nsel = 0; for (size_t i = 0; i < NP; i++) if (accepted_by_list(want.gf, PROBES[i].group) && accepted_by_list(want.nf, PROBES[i].name)) nsel++;
        verif::cls(nsel == 0 ? "meaning:selects-none" : nsel == NP ? "meaning:selects-all" : "meaning:selects-proper-subset");
    }
    // Observation, not a verdict: with a single -xt/-xst and no other filter, the help sentence "exclude tests whose group and
    // name contain/match <grp> and <name>" read per test (excluded iff group AND name match) differs from the two-list
    // configuration (a test runs iff its group is not matched AND its name is not matched).
    if (!help && want.gf.size() == 1 && want.nf.size() == 1 && want.gf[0].inverted && want.nf[0].inverted) {
        bool differs = false;
        for (size_t i = 0; i < NP; i++) {
            Flt g = want.gf[0], n = want.nf[0]; g.inverted = n.inverted = false;
            bool per_test = !(accepts(g, PROBES[i].group) && accepts(n, PROBES[i].name));
            bool lists = accepts(want.gf[0], PROBES[i].group) && accepts(want.nf[0], PROBES[i].name);
            if (per_test != lists) differs = true;
        }
        if (differs) { verif::cls("observation:single-xt-per-test-reading-differs"); if (verif::g_counting) verif::observe("single exclude pair option: per-test reading of the help differs from the two-list configuration, e.g. " + desc); }
        else verif::cls("observation:single-xt-readings-agree");
    }
    if (!help) {
        bool nb = false;
        for (auto& f : want.gf) if (!f.strict) for (size_t i = 0; i < NP; i++) if (needs_backtracking(PROBES[i].group, f.text)) nb = true;
        for (auto& f : want.nf) if (!f.strict) for (size_t i = 0; i < NP; i++) if (needs_backtracking(PROBES[i].name, f.text)) nb = true;
        if (nb) verif::cls("meaning:substring-occurrence-after-overlapping-false-start");
    }
    if (help || want.repeat <= 4) { verif::cls("runner:driven"); return run_through_runner(ses, argv, help, help, want, desc, real_entry, true); }
    verif::cls("runner:skipped-large-repeat");
    return 0;
}
// a process: 1..3 vectors one after the other on the same registry, each judged on its own
int meaning_case(Reader& r, bool& nontrivial, std::string& desc) {
    GlobalsGuard guard;
    Session ses;
    int rc = meaning_vector(r, ses, nontrivial, desc);
    size_t more = rc ? 0 : r.below(3);   // trailing: old inputs are a process with one vector
    for (size_t k = 0; k < more && !rc; k++) {
        bool nt; std::string d;
        rc = meaning_vector(r, ses, nt, d);
        desc += " ; then " + d;
    }
    if (ses.vectors_run > 1) verif::cls(ses.vectors_run == 2 ? "process:2-vectors-run-on-one-registry" : "process:3-vectors-run-on-one-registry");
    return rc;
}

int safety_vector(Reader& r, Session& ses, bool literal, bool& nontrivial, std::string& desc) {
    std::vector<std::string> args; args.push_back("probe.exe");
    for (auto& a : literal ? gen_safety_literal(r) : gen_safety_structured(r)) args.push_back(a);
    bool real_entry = !literal && r.below(4) == 1;
    if (real_entry) verif::cls("runner:real-entry-point");
    nontrivial = safety_nontrivial(std::vector<std::string>(args.begin() + 1, args.end()));
    desc = std::string(literal ? "safety(literal): " : "safety: ") + show_args(args);
    if (verif::g_explain) fprintf(stderr, "case: vector %zu of the process: %s\n", ses.vectors_run + 1, desc.c_str());

    Argv argv(args);
    Config got; bool ok;
    {
        MemoryLeakWarningPlugin memleak(DEF_PLUGIN_MEM_LEAK);   // per case: the real entry point destroys the global detector when it returns
        TestRegistry reg; reg.installPlugin(&memleak);
        SetPointerPlugin sp(DEF_PLUGIN_SET_POINTER); reg.installPlugin(&sp);
        CommandLineArguments a(argv.ac, argv.av);
        ok = a.parse(reg.getFirstPlugin());
        bool help = a.needHelp();
        verif::cls(ok ? "safety:accepted" : help ? "safety:rejected-help" : "safety:rejected-usage");
        if (ok) {
            std::string err;
            V_CHECK(read_config(a, got, err), "C12:getters", "%s [%s]", err.c_str(), desc.c_str());
            V_CHECK(!help, "C12:help-flag", "accepted vector with needHelp() [%s]", desc.c_str());
            V_CHECK(got.gf.size() + got.nf.size() <= 2 * args.size(), "C12:getters", "more filters than arguments [%s]", desc.c_str());
            if (!got.gf.empty() || !got.nf.empty()) verif::cls("safety:accepted-with-filters");
        } else {
            verif::cls("runner:driven");
            return run_through_runner(ses, argv, true, help, got, desc, real_entry, false);
        }
    }
    if (got.repeat <= 4) { verif::cls("runner:driven"); return run_through_runner(ses, argv, false, false, got, desc, real_entry, false); }
    verif::cls("runner:skipped-large-repeat");
    return 0;
}
int safety_case(Reader& r, bool literal, bool& nontrivial, std::string& desc) {
    GlobalsGuard guard;
    Session ses;
    int rc = safety_vector(r, ses, literal, nontrivial, desc);
    size_t more = (rc || literal) ? 0 : r.below(3);
    for (size_t k = 0; k < more && !rc; k++) {
        bool nt; std::string d;
        rc = safety_vector(r, ses, false, nt, d);
        desc += " ; then " + d;
    }
    if (ses.vectors_run > 1) verif::cls(ses.vectors_run == 2 ? "process:2-vectors-run-on-one-registry" : "process:3-vectors-run-on-one-registry");
    return rc;
}

}  // namespace

extern "C" const char* verif_property(void) { return "C12"; }
extern "C" void verif_init(void) {
    verif::install_fake_time();
    g_orig_sep = PlatformSpecificRunTestInASeperateProcess;
    g_orig_srand = PlatformSpecificSrand; g_orig_rand = PlatformSpecificRand;
    g_orig_fopen = PlatformSpecificFOpen; g_orig_fputs = PlatformSpecificFPuts; g_orig_fclose = PlatformSpecificFClose; g_orig_flush = PlatformSpecificFlush;
}
extern "C" int verif_case(const uint8_t* data, size_t size) {
    Reader r(data, size);
    reset_globals();
    unsigned mode = r.below(16);   // 0..7 meaning, 8..14 safety (structured), 15 safety (literal, NUL-separated)
    bool nontrivial = false; std::string desc; int rc;
    if (mode < 8) { verif::cls("mode:meaning"); rc = meaning_case(r, nontrivial, desc); }
    else { verif::cls(mode < 15 ? "mode:safety-structured" : "mode:safety-literal"); rc = safety_case(r, mode == 15, nontrivial, desc); }
    if (nontrivial) verif::cls(mode < 8 ? "nontrivial:meaning" : "nontrivial:safety");
    verif::note_case(nontrivial, r.h, [&] { return desc; });
    return rc;
}
extern "C" int verif_known_repro(const char*) { return -1; }
