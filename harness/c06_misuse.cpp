// C06 — memory misuse is reported exactly: overruns, foreign frees, mismatched families; released user bytes are overwritten.
//
// Two kinds of cases (first decoded choice; 0 selects A):
//  A  history of 1..40 operations on a LOCAL MemoryLeakDetector with a recording reporter that returns:
//     alloc (4 families x {raw allocator, second allocator object with the same name} x a CHAIN of 0..3 wrapper layers,
//     every layer an AccountingTestMemoryAllocator or a MemoryLeakAllocator, in any order; both node layouts), byte write at
//     an offset in [0,size+2], release of a live / NULL / foreign / interior / already released address with any family
//     and any wrapper chain (nesting depth independent of the allocating side), type checking on/off, period changes.  Oracle = the statement's decision list, evaluated on an independent model after every step.
//  B  script of 1..24 operations through the GLOBAL entry points (operator new / new[] / cpputest_malloc_location and
//     the three release entry points) inside an "overloads ON" window with recording allocators installed as current
//     new / new[] / malloc allocators behind 0..3 nested AccountingTestMemoryAllocator wrappers (what 0..3
//     GlobalMemoryAccountant::start() calls install); the nesting depth changes inside the script, so blocks are released at
//     another depth than they were allocated at: the same decision list plus poisoning - when the recording allocator's
//     free_memory is handed a released block, its first <user size> bytes must all have been overwritten (0xCD).
//
// Extension (seeded change C06-s5, coverage): realloc steps in both kinds - in place or moving, through a PlatformSpecificRealloc
// seam that works on the recording allocators' table, with the faults "platform realloc fails" and "the new separate record
// cannot be allocated"; realloc of a live / foreign / interior / already released / NULL address with any family and chain.
// A realloc is judged by the same decision list as a release; after a FAILED realloc the old block is still outstanding
// with its old family, layout and guard bytes.  Kind A also uses the allocMemory / deallocMemory overloads without a
// location and a failing record allocation in allocMemory; kind B every form of operator new / delete (plain, debug with
// size_t and int line, nothrow, sized, placement) and cpputest_realloc_location.
//
// Extension (seeded change C06-s6): the recording allocators can CHOOSE the address of what they hand out: second decoded
// choice = number of hash residues (0 = natural addresses, else 1..3 residues modulo 73 starting at a decoded one), so that the
// detector's hash chains hold several outstanding blocks as a rule and blocks are released from the head, the middle and the
// tail of a chain.  The block is placed inside a larger libc block; the slack before and after it is poisoned for ASan.
//
// The recording allocators only RECORD releases (real free happens at the end of the case), so stale addresses stay
// non-outstanding for the whole case and nothing is freed twice whatever the detector does after reporting.
#include <map>
#include <tuple>
#include <memory>
#include <functional>
#include "common.h"        // (std headers first: common.h brings in the `new` macro)
#include "CppUTest/TestHarness_c.h"
#include <new>
#if defined(__has_feature)
#if __has_feature(address_sanitizer)
#include <sanitizer/asan_interface.h>
#define VERIF_POISON(a, n) ASAN_POISON_MEMORY_REGION(a, n)
#define VERIF_UNPOISON(a, n) ASAN_UNPOISON_MEMORY_REGION(a, n)
#endif
#endif
#ifndef VERIF_POISON
#define VERIF_POISON(a, n) ((void)(a), (void)(n))
#define VERIF_UNPOISON(a, n) ((void)(a), (void)(n))
#endif
#undef new
#undef malloc
#undef free

using verif::Reader;
using verif::sfmt;

namespace {

// ---------------------------------------------------------------------------------------------------------------
// recording allocators: fixed tables, libc malloc only (they run inside the ON window: no operator new in here)
// ---------------------------------------------------------------------------------------------------------------
enum { ENT_MAX = 2048, EV_MAX = 512 };
struct Ent { char* p; size_t req; bool freed; char* raw; size_t raw_size; };
enum { HASH_PRIME = 73 };          // MEMORY_LEAK_HASH_TABLE_SIZE
int g_res_n, g_res_base; unsigned g_res_counter;     // address choice: 0 = natural, else the next block goes to residue (base + counter % n) % 73
struct FreeEv { char* p; size_t handed; size_t req; size_t cd_prefix; };
Ent g_ent[ENT_MAX]; int g_nent;
FreeEv g_fev[EV_MAX]; int g_nfev;
int g_bogus_free; char* g_bogus_ptr; bool g_overflow;
bool g_fail_record_alloc;        // one-shot fault: the next allocation of a separate bookkeeping record returns NULL
bool g_realloc_fail, g_realloc_inplace;     // PlatformSpecificRealloc seam: fail / keep the address when the block is large enough
void* (*g_saved_platform_realloc)(void*, size_t);

// a block of `size` bytes whose address has the chosen residue modulo 73 (the detector's hash); registered in the table
char* rec_new_block(size_t size) {
    size_t n = size ? size : 1;
    char* raw; char* p; size_t raw_size;
    if (g_res_n == 0) { raw_size = n; raw = (char*)::malloc(raw_size); p = raw; }
    else {
        raw_size = n + 16 * (HASH_PRIME - 1);
        raw = (char*)::malloc(raw_size);
        unsigned want = (unsigned)(g_res_base + (int)(g_res_counter++ % (unsigned)g_res_n)) % HASH_PRIME;
        size_t j = 0;
        while ((size_t)(raw + 16 * j) % HASH_PRIME != want) j++;      // 16 and 73 are coprime: some j in 0..72 fits
        p = raw + 16 * j;
        VERIF_POISON(raw, 16 * j); VERIF_POISON(p + n, raw_size - 16 * j - n);
    }
    memset(p, 0x5A, n);
    if (g_nent < ENT_MAX) { Ent& e = g_ent[g_nent++]; e.p = p; e.req = size; e.freed = false; e.raw = raw; e.raw_size = raw_size; }
    else g_overflow = true;     // cannot happen within the decoder's bounds; the block is then simply leaked
    return p;
}
void rec_reset() {
    for (int i = 0; i < g_nent; i++) { VERIF_UNPOISON(g_ent[i].raw, g_ent[i].raw_size); ::free(g_ent[i].raw); }
    g_res_n = 0; g_res_base = 0; g_res_counter = 0;
    g_nent = 0; g_nfev = 0; g_bogus_free = 0; g_bogus_ptr = nullptr; g_overflow = false;
    g_fail_record_alloc = false; g_realloc_fail = false; g_realloc_inplace = false;
}
// what the detector uses to resize the underlying block (it bypasses the allocator): works on the same table, never frees for real
void* rec_realloc(void* memory, size_t size) {
    if (g_realloc_fail) return NULLPTR;
    int at = -1;
    if (memory) {
        for (int i = g_nent - 1; i >= 0; i--) if (g_ent[i].p == (char*)memory && !g_ent[i].freed) { at = i; break; }
        if (at < 0) { g_bogus_free++; g_bogus_ptr = (char*)memory; return NULLPTR; }
        if (g_realloc_inplace && size <= g_ent[at].req) { g_ent[at].req = size; return memory; }   // shrinking in place; req only ever shrinks, so it stays a valid bound
    }
    char* q = rec_new_block(size);
    if (at >= 0) { size_t keep = g_ent[at].req < size ? g_ent[at].req : size; memcpy(q, memory, keep); g_ent[at].freed = true; }   // the old memory stays allocated until the end of the case
    return q;
}

struct Rec : TestMemoryAllocator {
    Rec(const char* n, const char* a, const char* f) : TestMemoryAllocator(n, a, f) {}
    char* alloc_memory(size_t size, const char* file, size_t) CPPUTEST_OVERRIDE {
        if (g_fail_record_alloc && file && strcmp(file, "MemoryLeakNode") == 0) { g_fail_record_alloc = false; return NULLPTR; }
        return rec_new_block(size);
    }
    void free_memory(char* memory, size_t size, const char*, size_t) CPPUTEST_OVERRIDE {
        if (memory == NULLPTR) return;
        for (int i = g_nent - 1; i >= 0; i--) {
            if (g_ent[i].p == memory && !g_ent[i].freed) {
                g_ent[i].freed = true;
                if (g_nfev < EV_MAX) {
                    FreeEv& e = g_fev[g_nfev++];
                    e.p = memory; e.handed = size; e.req = g_ent[i].req;
                    size_t k = 0;
                    while (k < g_ent[i].req && (unsigned char)memory[k] == 0xCD) k++;
                    e.cd_prefix = k;
                }
                return;     // record only; the memory stays allocated until the end of the case
            }
        }
        g_bogus_free++; g_bogus_ptr = memory;    // an address this allocator never handed out (or handed back twice)
    }
};

// ---------------------------------------------------------------------------------------------------------------
// recording reporter: returns (as MemoryLeakDetectorTest.cpp does); classifies the newly appended text in place
// ---------------------------------------------------------------------------------------------------------------
enum Cat { NONE = 0, NONALLOC = 1, MISMATCH = 2, CORRUPT = 3, UNKNOWN_TEXT = 4, BUFFER_FULL = 5 };
const char* cat_name(int c) {
    static const char* n[] = {"no report", "Deallocating non-allocated memory", "Allocation/deallocation type mismatch", "Memory corruption", "unrecognised text", "(text buffer full)"};
    return n[c];
}
bool starts(const char* s, const char* pre) { return strncmp(s, pre, strlen(pre)) == 0; }

enum { CB_MAX = 256 };
struct Rep : MemoryLeakFailure {
    int n; size_t prev_len; int cat[CB_MAX]; char last[SimpleStringBuffer::SIMPLE_STRING_BUFFER_LEN + 8];
    void reset() { n = 0; prev_len = 0; last[0] = 0; }
    void fail(char* s) CPPUTEST_OVERRIDE {
        size_t len = strlen(s);
        // the detector appends every misuse report to one buffer that only startChecking() empties: judge the new part
        const char* suf = len >= prev_len ? s + prev_len : s;
        int c = UNKNOWN_TEXT;
        if (starts(suf, "Deallocating non-allocated memory\n")) c = NONALLOC;
        else if (starts(suf, "Allocation/deallocation type mismatch\n")) c = MISMATCH;
        else if (starts(suf, "Memory corruption (written out of bounds?)\n")) c = CORRUPT;
        else if (len >= SimpleStringBuffer::SIMPLE_STRING_BUFFER_LEN - 1) c = BUFFER_FULL;   // category line did not fit any more
        if (n < CB_MAX) cat[n] = c;
        n++;
        size_t m = len < sizeof last - 1 ? len : sizeof last - 1;
        memcpy(last, s, m); last[m] = 0;
        prev_len = len;
    }
};

// ---------------------------------------------------------------------------------------------------------------
// families and allocator objects
// ---------------------------------------------------------------------------------------------------------------
enum { F_NEW = 0, F_NEWARR = 1, F_MALLOC = 2, F_USER = 3, NFAM = 4 };
enum { MAXDEPTH = 3 };
// wrapper chain: innermost real allocator (base 0 = raw recording allocator, 1 = second object with the same name) and
// `depth` layers; bit i of `bits` set = layer i (0 = innermost) is a MemoryLeakAllocator, else an AccountingTestMemoryAllocator
struct Chain { int base, depth, bits; };
int mla_count(const Chain& c) { int n = 0; for (int i = 0; i < c.depth; i++) n += (c.bits >> i) & 1; return n; }
std::string chain_name(int fam, const Chain& c, const char* const* names);
const char* fam_name[NFAM] = {"new", "new[]", "malloc", "user"};
const char* fam_rel[NFAM] = {"delete", "delete[]", "free", "ufree"};
std::string chain_name(int fam, const Chain& c, const char* const* names) {
    std::string s = std::string(names[fam]) + (c.base ? ":twin" : "");
    for (int i = 0; i < c.depth; i++) s = std::string(((c.bits >> i) & 1) ? "L(" : "A(") + s + ")";     // A = accounting, L = leak allocator
    return s;
}
Chain gen_chain(verif::Reader& r) {
    Chain c; c.base = (int)r.below(2); c.depth = (int)r.below(MAXDEPTH + 1); c.bits = c.depth ? (int)r.below(1u << c.depth) : 0;
    return c;
}

Rec* g_raw[NFAM][2];
MemoryLeakDetector* g_saved_detector; MemoryLeakFailure* g_saved_reporter;
char* g_foreign;                      // a heap block the detector never saw
char g_static_foreign[64];
Rep g_rep, g_inner_rep;

struct Blk { char* p; size_t size; int fam; Chain chain; bool sep; bool live; unsigned char guard[3]; };

int expect_release(const Blk* b, bool checking, int relfam) {
    if (!b) return NONALLOC;                                   // not an outstanding tracked block
    if (checking && b->fam != relfam) return MISMATCH;          // iff type checking is on and the families differ
    if (memcmp(b->guard, "BAS", 3) != 0) return CORRUPT;        // otherwise iff any guard byte was changed
    return NONE;
}

struct GlobalsGuard {     // whatever happens in a case, the process-wide seams are put back
    ~GlobalsGuard() {
        MemoryLeakWarningPlugin::turnOffNewDeleteOverloads();
        MemoryLeakWarningPlugin::setGlobalDetector(g_saved_detector, g_saved_reporter);
        setCurrentNewAllocatorToDefault(); setCurrentNewArrayAllocatorToDefault(); setCurrentMallocAllocatorToDefault();
        PlatformSpecificRealloc = g_saved_platform_realloc;
    }
};

const size_t SIZE_LATTICE[] = {0, 1, 2, 3, 4, 5, 7, 8, 9, 13, 15, 16, 17, 24, 31, 32, 33, 64, 100, 255, 300};
size_t gen_size(Reader& r, size_t maxrand) {
    if (r.chance(3, 4)) return r.pick(SIZE_LATTICE) % (maxrand + 1);
    return r.below((uint32_t)maxrand + 1);
}
unsigned char gen_value(Reader& r, unsigned char own) {
    switch (r.below(8)) {
    default:
    case 0: return (unsigned char)(own ^ 0x01);
    case 1: return own;                 // the guard's own value: not a change
    case 2: return 'B';
    case 3: return 'A';
    case 4: return 'S';
    case 5: return 0;
    case 6: return 0xCD;
    case 7: return (unsigned char)r.u8();
    }
}
const char* FILES[] = {"alloc_a.cpp", "alloc_b.c", "rel_c.cpp"};

// ---------------------------------------------------------------------------------------------------------------
// mode A: local detector
// ---------------------------------------------------------------------------------------------------------------
int run_local(Reader& r, bool& nontrivial, std::string& desc) {
    GlobalsGuard guard;
    g_rep.reset(); g_inner_rep.reset();
    MemoryLeakDetector inner(&g_inner_rep);        // what MemoryLeakAllocator wrappers route to
    inner.enable();
    MemoryLeakWarningPlugin::setGlobalDetector(&inner, &g_inner_rep);
    MemoryLeakDetector det(&g_rep);
    det.enable();
    PlatformSpecificRealloc = rec_realloc;
    MemoryAccountant accountant;
    // wrapper objects of this case; a chain shares the objects of its inner part with every chain that has the same inner part
    std::map<std::tuple<int, int, int, int>, TestMemoryAllocator*> pool;
    std::vector<std::unique_ptr<TestMemoryAllocator>> owned;
    std::function<TestMemoryAllocator*(int, int, int, int)> build = [&](int fam, int base, int depth, int bits) -> TestMemoryAllocator* {
        if (depth == 0) return g_raw[fam][base];
        auto key = std::make_tuple(fam, base, depth, bits);
        auto it = pool.find(key);
        if (it != pool.end()) return it->second;
        TestMemoryAllocator* below = build(fam, base, depth - 1, bits & ((1 << (depth - 1)) - 1));
        TestMemoryAllocator* a = ((bits >> (depth - 1)) & 1) ? (TestMemoryAllocator*)new MemoryLeakAllocator(below)
                                                             : (TestMemoryAllocator*)new AccountingTestMemoryAllocator(accountant, below);
        owned.emplace_back(a); pool[key] = a;
        return a;
    };
    auto allocator_of = [&](int fam, const Chain& c) -> TestMemoryAllocator* { return build(fam, c.base, c.depth, c.bits); };

    std::vector<Blk> blocks;
    bool checking = true;
    int nops = 0;
    while (nops < 40 && (nops == 0 || !r.empty())) {
        nops++;
        int before = g_rep.n;
        int expected = NONE;
        std::string what;
        uint32_t kind = r.below(12);           // 0-2 alloc, 3-4 write, 5-7 release, 8 type checking, 9 period / buffer, 10-11 realloc
        if (kind >= 3 && kind <= 4) {
            std::vector<int> live; for (size_t i = 0; i < blocks.size(); i++) if (blocks[i].live) live.push_back((int)i);
            if (live.empty()) kind = 0;
            else {
                Blk& b = blocks[live[r.below((uint32_t)live.size())]];
                size_t off;
                if (b.size == 0 || r.chance(1, 2)) off = b.size + r.below(3);
                else off = r.chance(1, 3) ? b.size - 1 : r.below((uint32_t)b.size);
                unsigned char own = off >= b.size ? b.guard[off - b.size] : (unsigned char)b.p[off];
                unsigned char v = gen_value(r, own);
                b.p[off] = (char)v;                          // in bounds of the underlying block: only the detector can notice
                if (off >= b.size) {
                    b.guard[off - b.size] = v; nontrivial = true;
                    verif::cls(v == "BAS"[off - b.size] ? "write:guard-own-value" : "write:guard-changed");
                } else verif::cls("write:user-byte");
                what = sfmt("write #%d[%zu%s]=0x%02x", (int)(&b - &blocks[0]), off, off >= b.size ? " guard" : "", v);
            }
        }
        if (kind <= 2) {
            Blk b;
            b.fam = (int)r.below(NFAM); b.chain = gen_chain(r);
            b.size = gen_size(r, 300); b.sep = r.flag(); b.live = true; memcpy(b.guard, "BAS", 3);
            const char* file = FILES[r.below(2)]; size_t line = r.below(200);
            uint32_t form = r.below(8);      // 0-5 with location, 6 the overload without file and line, 7 (separate record only) the record allocation fails
            if (form == 7 && b.sep) {
                g_fail_record_alloc = true;
                char* q = det.allocMemory(allocator_of(b.fam, b.chain), b.size, file, line, b.sep);
                g_fail_record_alloc = false;
                what = sfmt("alloc %s size=%zu separate-node, record allocation fails", chain_name(b.fam, b.chain, fam_name).c_str(), b.size);
                verif::cls("alloc:record-allocation-fails");
                V_CHECK(q == NULLPTR, "C06:alloc-with-failed-record-not-null", "%s: a block came back", what.c_str());
                goto judged;
            }
            b.p = form == 6 ? det.allocMemory(allocator_of(b.fam, b.chain), b.size, b.sep) : det.allocMemory(allocator_of(b.fam, b.chain), b.size, file, line, b.sep);
            if (form == 6) verif::cls("alloc:overload-without-location");
            V_CHECK(b.p != NULLPTR, "C06:alloc-null", "allocMemory(%s, %zu) returned NULL", chain_name(b.fam, b.chain, fam_name).c_str(), b.size);
            memset(b.p, 0x11 + (int)(blocks.size() & 7), b.size);
            blocks.push_back(b);
            verif::cls("alloc"); verif::cls(sfmt("alloc:chain-depth-%d", b.chain.depth).c_str());
            if (b.chain.base) verif::cls("alloc:twin-object");
            if (b.chain.depth >= 2 && mla_count(b.chain) && mla_count(b.chain) < b.chain.depth) verif::cls("alloc:mixed-accounting-and-leakallocator-layers");
            if (b.size == 0) verif::cls("alloc:size-0");
            what = sfmt("alloc #%zu %s size=%zu %s", blocks.size() - 1, chain_name(b.fam, b.chain, fam_name).c_str(), b.size, b.sep ? "separate-node" : "inline-node");
        } else if (kind >= 5 && kind <= 7) {
            // target address
            char* addr = NULLPTR; Blk* target = nullptr; const char* tk = "null";
            std::vector<int> live, dead;
            for (size_t i = 0; i < blocks.size(); i++) (blocks[i].live ? live : dead).push_back((int)i);
            uint32_t t = r.below(10);     // 0-5 live block, 6 already released, 7 interior, 8 foreign, 9 NULL
            if (t <= 5 && !live.empty()) { target = &blocks[live[r.below((uint32_t)live.size())]]; addr = target->p; tk = "live"; }
            else if (t == 6 && !dead.empty()) { addr = blocks[dead[r.below((uint32_t)dead.size())]].p; tk = "already-released"; }
            else if (t == 7 && !live.empty()) { Blk& b = blocks[live[r.below((uint32_t)live.size())]]; addr = b.p + 1 + r.below((uint32_t)b.size + 2); tk = "interior"; }
            else if (t == 8 || (t <= 7)) { if (r.flag()) addr = g_foreign + r.below(64); else addr = g_static_foreign + r.below(64); tk = "foreign"; }
            int relfam = (int)r.below(NFAM); Chain rel = gen_chain(r);
            bool sep = r.flag();
            if (r.chance(1, 2) && target) relfam = target->fam;          // half of the live releases are correctly paired
            if (target) {
                sep = target->sep;                                       // node layout is a property of the block, not of the release
                // every MemoryLeakAllocator layer nests the block once more in the global detector: the releasing chain gets as
                // many such layers as the allocating one (their positions and the accounting layers stay free)
                int want_mla = mla_count(target->chain);
                if (rel.depth < want_mla) rel.depth = want_mla;
                for (int i = rel.depth - 1; i >= 0 && mla_count(rel) != want_mla; i--) {
                    bool is_mla = (rel.bits >> i) & 1;
                    if (mla_count(rel) > want_mla && is_mla) rel.bits &= ~(1 << i);
                    else if (mla_count(rel) < want_mla && !is_mla) rel.bits |= (1 << i);
                }
            }
            const char* file = FILES[1 + r.below(2)]; size_t line = r.below(200);
            // the address decides, not the way it was chosen
            Blk* hit = nullptr;
            if (addr) for (auto& b : blocks) if (b.live && b.p == addr) hit = &b;
            expected = addr ? expect_release(hit, checking, relfam) : NONE;
            if (addr && !hit) nontrivial = true;
            if (hit && hit->fam != relfam) nontrivial = true;
            what = sfmt("release %s addr=%s%s as %s%s%s -> expect %s", tk, hit ? sfmt("#%d", (int)(hit - &blocks[0])).c_str() : (addr ? "?" : "NULL"),
                        hit && memcmp(hit->guard, "BAS", 3) ? "(guard damaged)" : "", "", chain_name(relfam, rel, fam_rel).c_str(), checking ? "" : " [type checking off]", cat_name(expected));
            int bogus_before = g_bogus_free, fev_before = g_nfev;
            if (r.chance(1, 6)) { det.deallocMemory(allocator_of(relfam, rel), addr, sep); verif::cls("release:overload-without-location"); }
            else det.deallocMemory(allocator_of(relfam, rel), addr, file, line, sep);
            if (hit) hit->live = false;
            verif::cls("release"); verif::cls((std::string("release:target-") + tk).c_str());
            verif::cls((std::string("expect:") + cat_name(expected)).c_str());
            if (hit && hit->fam != relfam && !checking) verif::cls("release:mismatching-pair-with-checking-off");
            if (hit && (rel.depth || rel.base || hit->chain.depth || hit->chain.base)) verif::cls("release:wrapper-or-twin-involved");
            if (hit) {
                verif::cls(sfmt("release:live-through-chain-depth-%d", rel.depth).c_str());
                if (rel.depth != hit->chain.depth) verif::cls("release:nesting-depth-differs-from-allocation");
                if (rel.depth >= 2 || hit->chain.depth >= 2) verif::cls(hit->fam != relfam ? "release:nested-chain-cross-family" : "release:nested-chain-same-family");
            }
            V_CHECK(g_bogus_free == bogus_before, "C06:foreign-address-handed-to-allocator",
                    "%s: the underlying allocator was handed %p, which it never allocated or already got back", what.c_str(), (void*)g_bogus_ptr);
            if (!hit) {
                bool handed = false;
                for (int i = fev_before; i < g_nfev; i++) if (g_fev[i].p == addr) handed = true;
                V_CHECK(!handed, "C06:non-outstanding-address-released-to-allocator", "%s: address was passed on to the allocator", what.c_str());
            }
        } else if (kind >= 10) {
            char* addr = NULLPTR; int target = -1; const char* tk = "null";
            std::vector<int> live, dead;
            for (size_t i = 0; i < blocks.size(); i++) (blocks[i].live ? live : dead).push_back((int)i);
            // a realloc resizes the underlying block behind the allocator's back (PlatformSpecificRealloc): a block that a
            // MemoryLeakAllocator layer nested in the global detector is not a candidate, and the realloc's own chain has accounting layers only
            { std::vector<int> plain; for (int i : live) if (mla_count(blocks[(size_t)i].chain) == 0) plain.push_back(i); live.swap(plain); }
            uint32_t t = r.below(10);     // 0-5 live block, 6 already released, 7 interior, 8 foreign, 9 NULL (= an allocation)
            if (t <= 5 && !live.empty()) { target = live[r.below((uint32_t)live.size())]; addr = blocks[(size_t)target].p; tk = "live"; }
            else if (t == 6 && !dead.empty()) { addr = blocks[(size_t)dead[r.below((uint32_t)dead.size())]].p; tk = "already-released"; }
            else if (t == 7 && !live.empty()) { Blk& b = blocks[(size_t)live[r.below((uint32_t)live.size())]]; addr = b.p + 1 + r.below((uint32_t)b.size + 2); tk = "interior"; }
            else if (t == 8 || (t <= 7)) { if (r.flag()) addr = g_foreign + r.below(64); else addr = g_static_foreign + r.below(64); tk = "foreign"; }
            int relfam = (int)r.below(NFAM); Chain rel = gen_chain(r); rel.bits = 0;
            bool sep = r.flag();
            size_t newsize = gen_size(r, 300);
            bool inplace = r.flag();
            int fault = r.below(6) == 1 ? 1 + (int)r.below(2) : 0;        // 1: the platform realloc fails, 2: the new separate record cannot be allocated
            if (target >= 0) {
                Blk& b = blocks[(size_t)target];
                if (r.chance(1, 2)) relfam = b.fam;
                sep = b.sep;                                             // node layout is a property of the block
                if (r.chance(1, 3)) newsize = r.flag() ? b.size : (b.size ? r.below((uint32_t)b.size) : 0);   // same size / shrinking (in place is possible)
            }
            if (fault == 2 && !sep) fault = 1;
            const char* file = FILES[1 + r.below(2)]; size_t line = r.below(200);
            int hit = -1;
            if (addr) for (size_t i = 0; i < blocks.size(); i++) if (blocks[i].live && blocks[i].p == addr) hit = (int)i;
            expected = addr ? expect_release(hit >= 0 ? &blocks[(size_t)hit] : nullptr, checking, relfam) : NONE;
            if ((addr && hit < 0) || fault || expected != NONE) nontrivial = true;
            what = sfmt("realloc %s addr=%s%s to %zu bytes as %s%s, %s%s -> expect %s", tk, hit >= 0 ? sfmt("#%d", hit).c_str() : (addr ? "?" : "NULL"),
                        hit >= 0 && memcmp(blocks[(size_t)hit].guard, "BAS", 3) ? "(guard damaged)" : "", newsize, chain_name(relfam, rel, fam_name).c_str(), checking ? "" : " [type checking off]",
                        inplace ? "in place if it fits" : "moving", fault == 1 ? ", platform realloc fails" : fault == 2 ? ", record allocation fails" : "", cat_name(expected));
            int bogus_before = g_bogus_free;
            g_realloc_inplace = inplace; g_realloc_fail = fault == 1; g_fail_record_alloc = fault == 2;
            char* q = det.reallocMemory(allocator_of(relfam, rel), addr, newsize, file, line, sep);
            g_realloc_inplace = false; g_realloc_fail = false; g_fail_record_alloc = false;
            verif::cls("realloc"); verif::cls((std::string("realloc:target-") + tk).c_str());
            verif::cls((std::string("expect:") + cat_name(expected)).c_str());
            if (fault) verif::cls(fault == 1 ? "realloc:platform-realloc-fails" : "realloc:record-allocation-fails");
            if (hit >= 0 && fault) verif::cls(sep ? "realloc:fault-on-block-with-separate-record" : "realloc:fault-on-block-with-inline-record");
            V_CHECK(g_bogus_free == bogus_before, "C06:foreign-address-handed-to-allocator",
                    "%s: the underlying allocator / platform realloc was handed %p, which it never allocated or already got back", what.c_str(), (void*)g_bogus_ptr);
            bool want_block = (!addr || hit >= 0) && !fault;
            V_CHECK((q != NULLPTR) == want_block, "C06:realloc-result", "%s: returned %s", what.c_str(), q ? "a block" : "NULL");
            if (q) {
                memset(q, 0x21 + (int)(blocks.size() & 7), newsize);
                if (hit >= 0) {
                    Blk old = blocks[(size_t)hit];
                    Blk& b = blocks[(size_t)hit];
                    b.p = q; b.size = newsize; b.fam = relfam; b.chain = rel; memcpy(b.guard, "BAS", 3);     // a new record: the realloc's family and chain
                    verif::cls(q == old.p ? "realloc:in-place" : "realloc:moved");
                    if (q != old.p) { old.live = false; blocks.push_back(old); }                                    // the old address is stale now
                } else {
                    Blk b; b.p = q; b.size = newsize; b.fam = relfam; b.chain = rel; b.sep = sep; b.live = true; memcpy(b.guard, "BAS", 3);
                    blocks.push_back(b); verif::cls("realloc:NULL-as-allocation");
                }
            }
            // a failed realloc leaves the model untouched: the old block must still be outstanding, with its old family, layout and guard bytes
        } else if (kind == 8) {
            checking = !r.flag();          // 0 -> on
            if (checking) det.enableAllocationTypeChecking(); else det.disableAllocationTypeChecking();
            verif::cls(checking ? "typechecking:on" : "typechecking:off");
            what = checking ? "type checking on" : "type checking off";
        } else if (kind == 9) {
            switch (r.below(4)) {
            default:
            case 0: det.startChecking(); g_rep.prev_len = 0; what = "startChecking (empties the report text)"; break;
            case 1: det.stopChecking(); what = "stopChecking"; break;
            case 2: det.disable(); what = "disable"; break;
            case 3: det.enable(); what = "enable"; break;
            }
            verif::cls("period-op");
        }
        judged:
        if (verif::g_explain) fprintf(stderr, "  A%02d %s\n", nops, what.c_str());
        if (desc.size() < 600) desc += what + "; ";
        int got = g_rep.n - before;
        int want = expected == NONE ? 0 : 1;
        V_CHECK(got == want, want ? (got ? "C06:more-than-one-callback" : "C06:misuse-not-reported") : "C06:report-without-misuse",
                "%s: %d reporter callback(s), expected %d (%s)%s%s", what.c_str(), got, want, cat_name(expected), got ? "; text: " : "", got ? verif::printable(g_rep.last + (strlen(g_rep.last) > 200 ? strlen(g_rep.last) - 200 : 0)).c_str() : "");
        if (want) {
            int c = g_rep.cat[(g_rep.n - 1) % CB_MAX];
            if (c == BUFFER_FULL) verif::cls("category-not-judged:text-buffer-full");
            else V_CHECK(c == expected, "C06:wrong-category", "%s: reported as \"%s\"", what.c_str(), cat_name(c));
        }
        V_CHECK(!g_overflow, "C06:harness-table-overflow", "recording allocator table overflow (harness bound)");
    }
    verif::cls("mode:A-local-detector");
    return 0;
}

// ---------------------------------------------------------------------------------------------------------------
// mode B: global entry points inside an ON window; decoded completely first, model evaluated at decode time
// ---------------------------------------------------------------------------------------------------------------
enum { B_SLOTS = 8, B_OPS = 24 };
enum BKind { B_ALLOC, B_WRITE, B_RELEASE_LIVE, B_RELEASE_NULL, B_RELEASE_STALE, B_RELEASE_INTERIOR, B_DEPTH, B_REALLOC, B_NOP };
enum BForm { BF_PLAIN = 0, BF_DEBUG_SIZET, BF_DEBUG_INT, BF_NOTHROW, BF_SIZED };      // which overload of operator new / delete is called
const char* bform_name[] = {"", " (file,size_t line)", " (file,int line)", " nothrow", " sized"};
TestMemoryAllocator* g_blevel[MAXDEPTH + 1][3];    // current-allocator candidates of kind B: [nesting depth][family]
struct BOp {
    int kind, slot, fam, relfam, form, fault; size_t size, off; unsigned char val; bool inplace; const char* file; size_t line;
    bool expect_block;     // B_REALLOC: a block must come back
    int expected;          // category expected for this step
    bool judge_poison;     // a tracked block goes back to its allocator in this step
    // observed
    int got_callbacks, got_cat; char* addr; int fev_lo, fev_hi;
};
struct BSlot { char* p; size_t size; int fam, depth; bool live, ever; unsigned char guard[3]; };
void b_set_depth(int d) { setCurrentNewAllocator(g_blevel[d][0]); setCurrentNewArrayAllocator(g_blevel[d][1]); setCurrentMallocAllocator(g_blevel[d][2]); }

void b_exec(BOp* ops, int n, BSlot* slots) {      // NON-ALLOCATING interpreter (runs with the overloads on)
    for (int i = 0; i < n; i++) {
        BOp& o = ops[i]; BSlot& s = slots[o.slot];
        int before = g_rep.n; o.fev_lo = g_nfev; o.addr = NULLPTR;
        switch (o.kind) {
        case B_ALLOC: {
            char* p;
            if (o.fam == F_NEW) p = (char*)(o.form == BF_DEBUG_SIZET ? ::operator new(o.size, o.file, o.line) : o.form == BF_DEBUG_INT ? ::operator new(o.size, o.file, (int)o.line)
                                            : o.form == BF_NOTHROW ? ::operator new(o.size, std::nothrow) : ::operator new(o.size));
            else if (o.fam == F_NEWARR) p = (char*)(o.form == BF_DEBUG_SIZET ? ::operator new[](o.size, o.file, o.line) : o.form == BF_DEBUG_INT ? ::operator new[](o.size, o.file, (int)o.line)
                                                    : o.form == BF_NOTHROW ? ::operator new[](o.size, std::nothrow) : ::operator new[](o.size));
            else if (o.form == BF_NOTHROW) p = (char*)cpputest_realloc_location(NULLPTR, o.size, o.file, o.line);      // realloc(NULL, n) as an allocation
            else p = (char*)cpputest_malloc_location(o.size, o.file, o.line);
            memset(p, o.val, o.size);
            s.p = p; o.addr = p;
            break; }
        case B_WRITE: s.p[o.off] = (char)o.val; o.addr = s.p; break;
        case B_DEPTH: b_set_depth((int)o.size); break;      // as if accountants were started / stopped
        case B_RELEASE_LIVE: case B_RELEASE_STALE: case B_RELEASE_INTERIOR: case B_RELEASE_NULL: {
            char* a = o.kind == B_RELEASE_NULL ? NULLPTR : (o.kind == B_RELEASE_INTERIOR ? s.p + o.off : s.p);
            o.addr = a;
            if (o.relfam == F_NEW) {
                if (o.form == BF_DEBUG_SIZET) ::operator delete(a, o.file, o.line); else if (o.form == BF_DEBUG_INT) ::operator delete(a, o.file, (int)o.line);
                else if (o.form == BF_NOTHROW) ::operator delete(a, std::nothrow); else if (o.form == BF_SIZED) ::operator delete(a, o.size); else ::operator delete(a);
            } else if (o.relfam == F_NEWARR) {
                if (o.form == BF_DEBUG_SIZET) ::operator delete[](a, o.file, o.line); else if (o.form == BF_DEBUG_INT) ::operator delete[](a, o.file, (int)o.line);
                else if (o.form == BF_NOTHROW) ::operator delete[](a, std::nothrow); else if (o.form == BF_SIZED) ::operator delete[](a, o.size); else ::operator delete[](a);
            } else cpputest_free_location(a, o.file, o.line);
            break; }
        case B_REALLOC: {
            g_realloc_inplace = o.inplace; g_realloc_fail = o.fault == 1; g_fail_record_alloc = o.fault == 2;
            char* q = (char*)cpputest_realloc_location(s.p, o.size, o.file, o.line);
            g_realloc_inplace = false; g_realloc_fail = false; g_fail_record_alloc = false;
            o.addr = q;
            if (q) { memset(q, o.val, o.size); s.p = q; }
            break; }
        default: break;
        }
        o.got_callbacks = g_rep.n - before;
        o.got_cat = o.got_callbacks ? g_rep.cat[(g_rep.n - 1) % CB_MAX] : NONE;
        o.fev_hi = g_nfev;
    }
}

int run_global(Reader& r, bool& nontrivial, std::string& desc) {
    static BOp ops[B_OPS]; static BSlot slots[B_SLOTS];
    memset(slots, 0, sizeof slots);
    int depth = (int)r.below(MAXDEPTH + 1), depth0 = depth;      // accounting wrappers around the current allocators
    int period = (int)r.below(3);
    int n = 0;
    std::vector<std::string> text;
    while (n < B_OPS && (n == 0 || !r.empty())) {
        BOp& o = ops[n]; memset(&o, 0, sizeof o);
        o.slot = (int)r.below(B_SLOTS); BSlot& s = slots[o.slot];
        o.file = FILES[r.below(3)]; o.line = r.below(200); o.expected = NONE;
        uint32_t kind = r.below(10);       // 0-2 alloc, 3 guard/user write, 4-6 release, 7 odd release, 8 nesting depth, 9 realloc of a malloc block
        if (kind == 8) {
            o.kind = B_DEPTH; depth = (int)r.below(MAXDEPTH + 1); o.size = (size_t)depth;
            text.push_back(sfmt("%d accounting wrapper(s) around the current allocators", depth));
            n++; continue;
        }
        if (kind == 9 && !(s.live && s.fam == F_MALLOC)) kind = s.live ? 4 : 0;
        if (kind == 9) {
            o.kind = B_REALLOC; o.fam = o.relfam = F_MALLOC; o.inplace = r.flag();
            switch (r.below(4)) { default: case 0: o.size = gen_size(r, 64); break; case 1: o.size = s.size; break; case 2: o.size = s.size ? r.below((uint32_t)s.size) : 0; break; case 3: o.size = s.size + 1 + r.below(16); break; }
            o.fault = r.below(5) == 1 ? 1 + (int)r.below(2) : 0;      // 1: the platform realloc fails, 2: the new separate record cannot be allocated
            o.val = (unsigned char)r.pick("\x00\x5a\xff\x42\xcc\xce\xcd");
            Blk b; b.fam = s.fam; memcpy(b.guard, s.guard, 3);
            o.expected = expect_release(&b, true, F_MALLOC);           // same family: corruption report iff a guard byte was changed
            o.expect_block = o.fault == 0;
            nontrivial = true;
            text.push_back(sfmt("s%d=realloc(s%d,%zu<-%zu)%s%s -> expect %s%s", o.slot, o.slot, o.size, s.size, o.inplace ? " in place if it fits" : " moving",
                                o.fault == 1 ? ", platform realloc fails" : o.fault == 2 ? ", record allocation fails" : "", cat_name(o.expected), o.fault ? ", NULL, block unchanged" : ""));
            if (!o.fault) { s.size = o.size; memcpy(s.guard, "BAS", 3); }
            n++; continue;
        }
        if (kind <= 2 && s.live) kind = 4;
        if (kind >= 3 && kind <= 6 && !s.live) kind = s.ever && kind == 6 ? 7 : 0;
        if (kind <= 2) {
            o.kind = B_ALLOC; o.fam = (int)r.below(3); o.size = gen_size(r, 64); o.form = (int)r.below(4);      // plain / debug (size_t line) / debug (int line) / nothrow; malloc family: nothrow = realloc(NULL, n)
            o.val = (unsigned char)r.pick("\x00\x5a\xff\x42\xcc\xce\xcd");     // fill value of the user bytes; 0xCD itself makes the poison check vacuous
            s.live = true; s.ever = true; s.size = o.size; s.fam = o.fam; s.depth = depth; memcpy(s.guard, "BAS", 3);
            text.push_back(sfmt("s%d=%s(%zu)%s fill=0x%02x", o.slot, fam_name[o.fam], o.size, o.fam == F_MALLOC ? (o.form == BF_NOTHROW ? " via realloc(NULL)" : "") : bform_name[o.form], o.val));
        } else if (kind == 3) {
            o.kind = B_WRITE;
            o.off = (s.size == 0 || r.chance(2, 3)) ? s.size + r.below(3) : r.below((uint32_t)s.size);
            unsigned char own = o.off >= s.size ? s.guard[o.off - s.size] : 0x5a;
            o.val = gen_value(r, own);
            if (o.off >= s.size) { s.guard[o.off - s.size] = o.val; nontrivial = true; }
            text.push_back(sfmt("s%d[%zu%s]=0x%02x", o.slot, o.off, o.off >= s.size ? " guard" : "", o.val));
        } else if (kind <= 6) {
            o.kind = B_RELEASE_LIVE;
            o.relfam = r.chance(3, 4) ? s.fam : (int)r.below(3);
            o.form = (int)r.below(5);          // plain / placement (size_t line) / placement (int line) / nothrow / sized form of operator delete
            Blk b; b.fam = s.fam; memcpy(b.guard, s.guard, 3);
            o.expected = expect_release(&b, true, o.relfam);       // type checking stays on in the window (see notes/C06.md)
            o.judge_poison = true; o.size = s.size;
            if (s.fam != o.relfam) nontrivial = true;
            if (s.size >= 1) nontrivial = true;
            s.live = false; o.off = (size_t)(s.depth * 4 + depth);     // (allocation depth, release depth) for the histogram
            text.push_back(sfmt("%s%s(s%d) -> expect %s + %zu poisoned bytes", fam_rel[o.relfam], o.relfam == F_MALLOC ? "" : bform_name[o.form], o.slot, cat_name(o.expected), s.size));
        } else {
            o.relfam = (int)r.below(3); o.form = (int)r.below(5);
            uint32_t t = r.below(3);
            if (t == 1 && s.ever && !s.live) { o.kind = B_RELEASE_STALE; o.expected = NONALLOC; nontrivial = true; text.push_back(sfmt("%s(stale s%d) -> expect %s", fam_rel[o.relfam], o.slot, cat_name(NONALLOC))); }
            else if (t == 2 && s.live) { o.kind = B_RELEASE_INTERIOR; o.off = 1 + r.below((uint32_t)s.size + 2); o.expected = NONALLOC; nontrivial = true; text.push_back(sfmt("%s(s%d+%zu) -> expect %s", fam_rel[o.relfam], o.slot, o.off, cat_name(NONALLOC))); }
            else { o.kind = B_RELEASE_NULL; text.push_back(sfmt("%s(NULL)", fam_rel[o.relfam])); }
        }
        n++;
    }
    for (auto& t : text) { if (desc.size() < 600) desc += t + "; "; }
    if (verif::g_explain) { fprintf(stderr, "  B accounting-wrappers=%d period=%d\n", depth0, period); for (size_t i = 0; i < text.size(); i++) fprintf(stderr, "  B%02zu %s\n", i + 1, text[i].c_str()); }

    g_rep.reset();
    {
        GlobalsGuard guard;
        MemoryLeakDetector det(&g_rep);
        if (period >= 1) det.enable();
        if (period == 2) det.startChecking();
        MemoryAccountant accountant;
        MemoryAccountant accountant2, accountant3;       // one accountant per nesting level, as with several GlobalMemoryAccountants
        AccountingTestMemoryAllocator a0(accountant, g_raw[0][0]), a1(accountant, g_raw[1][0]), a2(accountant, g_raw[2][0]);
        AccountingTestMemoryAllocator b0(accountant2, &a0), b1(accountant2, &a1), b2(accountant2, &a2);
        AccountingTestMemoryAllocator c0(accountant3, &b0), c1(accountant3, &b1), c2(accountant3, &b2);
        TestMemoryAllocator* lv[MAXDEPTH + 1][3] = {{g_raw[0][0], g_raw[1][0], g_raw[2][0]}, {&a0, &a1, &a2}, {&b0, &b1, &b2}, {&c0, &c1, &c2}};
        memcpy(g_blevel, lv, sizeof lv);
        MemoryLeakWarningPlugin::setGlobalDetector(&det, &g_rep);
        PlatformSpecificRealloc = rec_realloc;
        b_set_depth(depth0);
        MemoryLeakWarningPlugin::turnOnDefaultNotThreadSafeNewDeleteOverloads();
        b_exec(ops, n, slots);
        MemoryLeakWarningPlugin::turnOffNewDeleteOverloads();
    }
    verif::cls("mode:B-global-entry-points"); verif::cls(sfmt("B:initial-accounting-depth-%d", depth0).c_str());
    for (int i = 0; i < n; i++) {
        BOp& o = ops[i];
        const char* w = text[i].c_str();
        verif::cls(o.kind == B_ALLOC ? "B:alloc" : o.kind == B_WRITE ? "B:write" : o.kind == B_RELEASE_LIVE ? "B:release-live" : o.kind == B_DEPTH ? "B:depth-change" : o.kind == B_REALLOC ? "B:realloc" : "B:release-odd");
        if (o.kind == B_ALLOC && o.fam != F_MALLOC) verif::cls(sfmt("B:operator-new-form%s", o.form ? bform_name[o.form] : " plain").c_str());
        if (o.kind == B_ALLOC && o.fam == F_MALLOC && o.form == BF_NOTHROW) verif::cls("B:realloc(NULL)-as-allocation");
        if ((o.kind == B_RELEASE_LIVE || o.kind == B_RELEASE_NULL || o.kind == B_RELEASE_STALE || o.kind == B_RELEASE_INTERIOR) && o.relfam != F_MALLOC) verif::cls(sfmt("B:operator-delete-form%s", o.form ? bform_name[o.form] : " plain").c_str());
        if (o.kind == B_REALLOC) {
            if (o.fault) verif::cls(o.fault == 1 ? "B:realloc-platform-realloc-fails" : "B:realloc-record-allocation-fails");
            V_CHECK((o.addr != NULLPTR) == o.expect_block, "C06:realloc-result", "step %d %s: returned %s", i + 1, w, o.addr ? "a block" : "NULL");
        }
        if (o.kind == B_RELEASE_LIVE) {
            int da = (int)o.off / 4, dr = (int)o.off % 4;
            if (da != dr) verif::cls("B:release-at-other-nesting-depth-than-allocation");
            if (da >= 2 || dr >= 2) verif::cls(o.expected == MISMATCH ? "B:nested-depth>=2-cross-family" : "B:nested-depth>=2-same-family");
        }
        int want = o.expected == NONE ? 0 : 1;
        V_CHECK(o.got_callbacks == want, want ? (o.got_callbacks ? "C06:more-than-one-callback" : "C06:misuse-not-reported") : "C06:report-without-misuse",
                "step %d %s: %d reporter callback(s), expected %d (%s)", i + 1, w, o.got_callbacks, want, cat_name(o.expected));
        if (want) {
            verif::cls((std::string("expect:") + cat_name(o.expected)).c_str());
            if (o.got_cat == BUFFER_FULL) verif::cls("category-not-judged:text-buffer-full");
            else V_CHECK(o.got_cat == o.expected, "C06:wrong-category", "step %d %s: reported as \"%s\"", i + 1, w, cat_name(o.got_cat));
        }
        int handed = 0; const FreeEv* ev = nullptr;
        for (int k = o.fev_lo; k < o.fev_hi; k++) if (g_fev[k].p == o.addr) { handed++; ev = &g_fev[k]; }
        if (o.judge_poison) {
            V_CHECK(handed == 1, "C06:released-block-not-returned-once", "step %d %s: block handed to the underlying allocator %d times", i + 1, w, handed);
            V_CHECK(ev->cd_prefix >= o.size, "C06:user-bytes-not-overwritten",
                    "step %d %s: when the memory was returned only the first %zu of %zu user bytes had been overwritten with 0xCD (byte %zu = 0x%02x)",
                    i + 1, w, ev->cd_prefix, o.size, ev->cd_prefix, (unsigned char)o.addr[ev->cd_prefix]);
            verif::cls(o.size ? "B:poison-judged" : "B:poison-judged-size-0");
        } else if (o.kind != B_ALLOC && o.kind != B_WRITE && o.kind != B_DEPTH && o.kind != B_REALLOC) {
            V_CHECK(handed == 0, "C06:non-outstanding-address-released-to-allocator", "step %d %s: address was passed on to the allocator", i + 1, w);
        }
    }
    V_CHECK(g_bogus_free == 0, "C06:foreign-address-handed-to-allocator", "the underlying allocator was handed %p, which it never allocated or already got back", (void*)g_bogus_ptr);
    V_CHECK(!g_overflow, "C06:harness-table-overflow", "recording allocator table overflow (harness bound)");
    return 0;
}

}  // namespace

extern "C" const char* verif_property(void) { return "C06"; }
extern "C" void verif_init(void) {
    static const char* names[NFAM][3] = {
        {"Standard New Allocator", "new", "delete"}, {"Standard New [] Allocator", "new []", "delete []"},
        {"Standard Malloc Allocator", "malloc", "free"}, {"verif user allocator", "ualloc", "ufree"}};
    for (int f = 0; f < NFAM; f++) {
        for (int k = 0; k < 2; k++) g_raw[f][k] = new Rec(names[f][0], names[f][1], names[f][2]);
    }
    g_saved_detector = MemoryLeakWarningPlugin::getGlobalDetector();
    g_saved_reporter = MemoryLeakWarningPlugin::getGlobalFailureReporter();
    g_foreign = (char*)::malloc(64);
    g_saved_platform_realloc = PlatformSpecificRealloc;
}
extern "C" int verif_case(const uint8_t* data, size_t size) {
    Reader r(data, size);
    rec_reset();
    bool nontrivial = false; std::string desc;
    int rc;
    uint32_t kind_of_case = r.below(4);
    g_res_n = (int)r.below(4); g_res_base = g_res_n ? (int)r.below(HASH_PRIME) : 0;     // after rec_reset(): address choice of this case
    verif::cls(g_res_n == 0 ? "addresses:natural" : g_res_n == 1 ? "addresses:one-hash-chain" : g_res_n == 2 ? "addresses:two-hash-chains" : "addresses:three-hash-chains");
    if (kind_of_case <= 2) { desc = sfmt("[local detector%s] ", g_res_n ? sfmt(", %d hash chain(s)", g_res_n).c_str() : ""); rc = run_local(r, nontrivial, desc); }
    else { desc = "[global entry points] "; rc = run_global(r, nontrivial, desc); }
    rec_reset();
    verif::note_case(nontrivial, r.h, [&] { return desc; });
    return rc;
}
extern "C" int verif_known_repro(const char*) { return -1; }
