// C01 — a failing check always fails the run: lifecycle, failure count, exit value.
// Decoder: a PROGRAM of 1..24 scripted tests (normal / ignored, 3 groups), each with setup/body/teardown scripts of
//          0..4 actions {mark, passing check, failing C++-style check, failing C-style (longjmp) check, throw std,
//          throw foreign}, a plugin that reports 0..2 errors per test, optional group filter, run-ignored, repeat 1..4;
//          run through a CommandLineTestRunner (argv) or TestRegistry::runAllTests directly.
//          Round 5 (coverage-guided): the static entry point CommandLineTestRunner::RunAllTests(ac, av) on the current
//          registry with the real ConsoleTestOutput (captured at the PlatformSpecificFPuts seam); -ojunit -v (composite
//          output, file seams stubbed); -f (crash on fail, with a crash method that returns); the Visual Studio location
//          format; and the default "rethrow" mode (no -e) in which an unexpected exception is recorded and then leaves
//          the run.
// Oracle:  reference interpreter of the lifecycle: expected trace, expected failure records (file:line, test name,
//          message class, each printed exactly once), per-repetition summary line parsed back, runner return value;
//          history invariants: jump-buffer depth (hook) and current test / result pointers restored after every test.
#include "common.h"
#include "CppUTest/CommandLineTestRunner.h"
#include "CppUTest/TestHarness_c.h"
#include <map>
#include <set>
#include <memory>
#include <stdexcept>

extern "C" int CppUTestVerif_JumpBufferDepth(void);

using verif::Reader;
using verif::sfmt;

namespace {

enum Act { MARK, PASS, FAIL_CPP, FAIL_C, THROW_STD, THROW_INT, FAILTEXT_CPP, FAILTEXT_C, FAIL_IN_TRY };
const char* ACT_NAME[] = {"mark", "pass", "CHECK!", "CHECK_C!", "throw-std", "throw-int", "FAIL", "FAIL_C", "CHECK!-in-try"};
struct Action { Act act; int line; unsigned reps; };   // reps: bit k set = the failing action is armed in repetition k+1 (otherwise it only marks)
int g_rep = 0;                                           // current repetition (0-based), advanced by the output's printTestsStarted
struct TestSpec {
    bool ignored; int group; std::string name; int line;
    std::vector<Action> phase[3];
    int plugin_pre, plugin_post;   // failures the plugin reports around this test
};
struct TraceEv { int test, phase, idx; bool operator==(const TraceEv& o) const { return test == o.test && phase == o.phase && idx == o.idx; } };

std::vector<TestSpec> g_prog;
std::vector<TraceEv> g_trace;
const char* GROUPS[3] = {"Ga", "Gb", "Gc"};
const char* TESTFILE = "prog.cpp";

bool is_failing(Act a) { return a != MARK && a != PASS; }
bool is_throw(Act a) { return a == THROW_STD || a == THROW_INT; }

void interpret(int t, int ph) {
    const std::vector<Action>& acts = g_prog[t].phase[ph];
    for (size_t i = 0; i < acts.size(); i++) {
        g_trace.push_back(TraceEv{t, ph, (int)i});
        const Action& a = acts[i];
        Act eff = (a.act != MARK && a.act != PASS && !((a.reps >> (g_rep & 3)) & 1)) ? MARK : a.act;
        switch (eff) {
        case MARK: break;
        case PASS: CHECK_TRUE_LOCATION(true, "CHECK", "true", NULLPTR, TESTFILE, (size_t)a.line); break;
        case FAIL_CPP: CHECK_TRUE_LOCATION(false, "CHECK", "cond", NULLPTR, TESTFILE, (size_t)a.line); break;
        case FAILTEXT_CPP: FAIL_LOCATION("failtext", TESTFILE, (size_t)a.line); break;
        case FAIL_IN_TRY:   // the code under test has a barrier for standard errors around a call that fails a check: the check must still end the phase
#if CPPUTEST_HAVE_EXCEPTIONS
            try { CHECK_TRUE_LOCATION(false, "CHECK", "cond", NULLPTR, TESTFILE, (size_t)a.line); }
            catch (const std::exception&) { g_trace.push_back(TraceEv{t, ph, 1000 + (int)i}); }
            catch (const char*) { g_trace.push_back(TraceEv{t, ph, 2000 + (int)i}); }
#else
            CHECK_TRUE_LOCATION(false, "CHECK", "cond", NULLPTR, TESTFILE, (size_t)a.line);
#endif
            break;
        case FAIL_C: CHECK_C_LOCATION(0, "ccond", "", TESTFILE, (size_t)a.line); break;
        case FAILTEXT_C: FAIL_TEXT_C_LOCATION("cfailtext", TESTFILE, (size_t)a.line); break;
#if CPPUTEST_HAVE_EXCEPTIONS
        case THROW_STD: throw std::runtime_error("boom");
        case THROW_INT: throw 42;
#else
        default: break;
#endif
        }
    }
}

class ScriptTest : public Utest {
public:
    int t_;
    explicit ScriptTest(int t) : t_(t) {}
    void setup() CPPUTEST_OVERRIDE { interpret(t_, 0); }
    void testBody() CPPUTEST_OVERRIDE { interpret(t_, 1); }
    void teardown() CPPUTEST_OVERRIDE { interpret(t_, 2); }
};
class ScriptShell : public UtestShell {
public:
    int t_;
    ScriptShell(int t, const char* g, const char* n, int line) : UtestShell(g, n, TESTFILE, (size_t)line), t_(t) {}
    Utest* createTest() CPPUTEST_OVERRIDE { return new ScriptTest(t_); }
};
class IgnoredScriptShell : public IgnoredUtestShell {
public:
    int t_;
    IgnoredScriptShell(int t, const char* g, const char* n, int line) : IgnoredUtestShell(g, n, TESTFILE, (size_t)line), t_(t) {}
    Utest* createTest() CPPUTEST_OVERRIDE { return new ScriptTest(t_); }
};

struct PeekShell : UtestShell { TestResult* peek() { return getTestResult(); } };
PeekShell g_peek;
TestResult* current_result() { return g_peek.peek(); }

// plugin: reports errors, and samples the history invariants around every test
struct Probe {
    bool bad = false; std::string msg; bool rep_by_plugin = false; int last_t = 1 << 30;
    int depth0 = -1; UtestShell* cur0 = NULLPTR; TestResult* res0 = NULLPTR; int pre_seen = 0, post_seen = 0;
} g_probe;
int test_index_of(UtestShell& s);
class ProbePlugin : public TestPlugin {
public:
    ProbePlugin() : TestPlugin("VerifProbe") {}
    void preTestAction(UtestShell& test, TestResult& result) CPPUTEST_OVERRIDE {
        int d = CppUTestVerif_JumpBufferDepth();
        if (g_probe.depth0 < 0) { g_probe.depth0 = d; g_probe.cur0 = UtestShell::getCurrent(); g_probe.res0 = current_result(); }
        if (d != g_probe.depth0 && !g_probe.bad) { g_probe.bad = true; g_probe.msg = sfmt("jump-buffer depth is %d before test %s, it was %d before the first test", d, test.getName().asCharString(), g_probe.depth0); }
        if ((UtestShell::getCurrent() != g_probe.cur0 || current_result() != g_probe.res0) && !g_probe.bad) { g_probe.bad = true; g_probe.msg = sfmt("current test/result not restored before test %s", test.getName().asCharString()); }
        g_probe.pre_seen++;
        int t = test_index_of(test);
        if (g_probe.rep_by_plugin) { if (t <= g_probe.last_t) g_rep++; g_probe.last_t = t; }   // tests run in program order: a non-increasing index starts a repetition
        for (int i = 0; i < g_prog[t].plugin_pre; i++) result.addFailure(TestFailure(&test, "plugin.cpp", (size_t)(g_prog[t].line + 1 + i), "plugin pre error"));
    }
    void postTestAction(UtestShell& test, TestResult& result) CPPUTEST_OVERRIDE {
        if ((UtestShell::getCurrent() != g_probe.cur0 || current_result() != g_probe.res0) && !g_probe.bad) { g_probe.bad = true; g_probe.msg = sfmt("current test/result not restored after test %s", test.getName().asCharString()); }
        g_probe.post_seen++;
        int t = test_index_of(test);
        for (int i = 0; i < g_prog[t].plugin_post; i++) result.addFailure(TestFailure(&test, "plugin.cpp", (size_t)(g_prog[t].line + 5 + i), "plugin post error"));
    }
};
std::vector<UtestShell*> g_shells;
int test_index_of(UtestShell& s) { for (size_t i = 0; i < g_shells.size(); i++) if (g_shells[i] == &s) return (int)i; return 0; }

// console output captured in a std::string (StringBufferTestOutput re-allocates its whole text on every print)
class CaptureOutput : public TestOutput {
public:
    std::string text;
    void printBuffer(const char* s) CPPUTEST_OVERRIDE { text += s; }
    void flush() CPPUTEST_OVERRIDE {}
    void printTestsStarted() CPPUTEST_OVERRIDE { g_rep++; TestOutput::printTestsStarted(); }
};
// the library's own ConsoleTestOutput writes through these seams; JUnit files go nowhere
std::string* g_console = NULLPTR; int g_dummy_file; int g_crash_calls = 0;
void fputs_stub(const char* s, PlatformSpecificFile f) { if (f == PlatformSpecificStdOut && g_console) *g_console += s; }
void flush_stub() {}
PlatformSpecificFile fopen_stub(const char*, const char*) { return &g_dummy_file; }
void fclose_stub(PlatformSpecificFile) {}
void crash_stub() { g_crash_calls++; }
class Runner : public CommandLineTestRunner {
public:
    CaptureOutput* out_ = NULLPTR; std::string* sink_;
    Runner(int ac, const char* const* av, TestRegistry* reg, std::string* sink) : CommandLineTestRunner(ac, av, reg), sink_(sink) {}
    ~Runner() CPPUTEST_DESTRUCTOR_OVERRIDE { if (out_) *sink_ = out_->text; }
    TestOutput* createConsoleOutput() CPPUTEST_OVERRIDE { out_ = new CaptureOutput(); return out_; }
    std::string text() { return out_ ? out_->text : ""; }
};

// ---------------------------------------------------------------- reference model
struct FailRec { std::string loc; std::string test; std::string kind;
    bool operator<(const FailRec& o) const { return std::tie(loc, test, kind) < std::tie(o.loc, o.test, o.kind); }
    bool operator==(const FailRec& o) const { return loc == o.loc && test == o.test && kind == o.kind; } };
struct RepModel { size_t tests = 0, ran = 0, checks = 0, ignored = 0, filtered = 0, failures = 0; std::vector<TraceEv> trace; std::multiset<FailRec> fails; };

// rethrow: an unexpected exception is recorded, then leaves the run: nothing after it happens (aborted = true)
RepModel model_repetition(bool group_filter, int filter_group, bool run_ignored, int rep, bool sepproc = false, bool rethrow = false, bool* aborted = NULLPTR) {
    RepModel m;
    for (size_t t = 0; t < g_prog.size(); t++) {
        const TestSpec& s = g_prog[t];
        m.tests++;
        if (group_filter && s.group != filter_group) { m.filtered++; continue; }
        if (s.ignored && !run_ignored) { m.ignored++; continue; }
        m.ran++;
        std::string tname = sfmt("TEST(%s, %s)", GROUPS[s.group], s.name.c_str());   // an ignored test that runs (-ri) reports as TEST
        for (int i = 0; i < s.plugin_pre; i++) m.fails.insert(FailRec{sfmt("plugin.cpp:%d", s.line + 1 + i), tname, "plugin pre error"});
        bool setup_ok = true;
        for (int ph = 0; ph < 3; ph++) {
            if (ph == 1 && !setup_ok) continue;            // body only if setup completed
            for (size_t i = 0; i < s.phase[ph].size(); i++) {
                const Action& a = s.phase[ph][i];
                m.trace.push_back(TraceEv{(int)t, ph, (int)i});
                if (a.act == PASS) m.checks++;
                if (is_failing(a.act) && ((a.reps >> (rep & 3)) & 1)) {
                    if (!is_throw(a.act)) { m.checks++; m.fails.insert(FailRec{sfmt("%s:%d", TESTFILE, a.line), tname, a.act == FAIL_IN_TRY ? "CHECK!" : ACT_NAME[a.act]}); }
                    else m.fails.insert(FailRec{sfmt("%s:%d", TESTFILE, s.line), tname, ACT_NAME[a.act]});
                    if (is_throw(a.act) && rethrow) { if (aborted) *aborted = true; m.failures = m.fails.size(); return m; }
                    if (ph == 0) setup_ok = false;
                    break;                                   // nothing after a failing action in its phase
                }
            }
        }
        for (int i = 0; i < s.plugin_post; i++) m.fails.insert(FailRec{sfmt("plugin.cpp:%d", s.line + 5 + i), tname, "plugin post error"});
    }
    if (sepproc) {
        // every test ran in a forked child: the parent sees neither the child's checks nor its individual failures, only
        // "this test failed" - exactly one record per test whose child recorded at least one failure (by any route)
        std::map<std::string, int> failed; for (auto& f : m.fails) failed[f.test]++;
        m.fails.clear(); m.checks = 0; m.trace.clear();
        for (size_t t = 0; t < g_prog.size(); t++) { const TestSpec& s = g_prog[t]; std::string tname = sfmt("TEST(%s, %s)", GROUPS[s.group], s.name.c_str());
            if (failed.count(tname)) m.fails.insert(FailRec{sfmt("%s:%d", TESTFILE, s.line), tname, "sepproc"}); }
    }
    m.failures = m.fails.size();
    return m;
}

// parse every printed failure record: (location of the failure, test name, message class)
std::vector<FailRec> parse_failures(const std::string& out) {
    std::vector<FailRec> v; size_t pos = 0; const std::string key = ": error: Failure in ";
    while ((pos = out.find(key, pos)) != std::string::npos) {
        size_t ls = out.rfind('\n', pos); ls = (ls == std::string::npos) ? 0 : ls + 1;
        std::string loc = out.substr(ls, pos - ls);
        size_t ne = out.find('\n', pos); if (ne == std::string::npos) break;
        std::string test = out.substr(pos + key.size(), ne - pos - key.size());
        size_t p = ne + 1; std::string msg;
        if (out.compare(p, 1, "\t") != 0) {   // two-location form: next line is "<file>:<line>: error:"
            size_t e2 = out.find(": error:", p); size_t nl2 = out.find('\n', p);
            if (e2 != std::string::npos && nl2 != std::string::npos && e2 < nl2) { loc = out.substr(p, e2 - p); p = nl2 + 1; }
        }
        if (out.compare(p, 1, "\t") == 0) { size_t me = out.find("\n\n", p); msg = out.substr(p + 1, me == std::string::npos ? std::string::npos : me - p - 1); }
        std::string kind = "?";
        if (msg.find("CHECK(cond) failed") != std::string::npos) kind = "CHECK!";
        else if (msg.find("CHECK_C(ccond) failed") != std::string::npos) kind = "CHECK_C!";
        else if (msg == "cfailtext") kind = "FAIL_C";
        else if (msg == "failtext") kind = "FAIL";
        else if (msg.find("std::runtime_error") != std::string::npos && msg.find("boom") != std::string::npos) kind = "throw-std";
        else if (msg.find("Unexpected exception of unknown type") != std::string::npos) kind = "throw-int";
        else if (msg == "plugin pre error" || msg == "plugin post error") kind = msg;
        else if (msg.find("Failed in separate process") == 0 && msg.find("killed") == std::string::npos) kind = "sepproc";
        v.push_back(FailRec{loc, test, kind});
        pos = ne;
    }
    return v;
}
struct Summary { bool ok; bool ran_nothing; long failures, tests, ran, checks, ignored, filtered; };
bool parse_summaries(const std::string& out, std::vector<Summary>& v) {
    size_t pos = 0;
    while (true) {
        size_t a = out.find("\nOK (", pos), b = out.find("\nErrors (", pos);
        if (a == std::string::npos && b == std::string::npos) return true;
        Summary s{}; size_t p;
        if (b == std::string::npos || (a != std::string::npos && a < b)) { s.ok = true; p = a + 5; }
        else { s.ok = false; p = b + 9;
            if (out.compare(p, 13, "ran nothing, ") == 0) { s.ran_nothing = true; p += 13; }
            else { char* e; s.failures = strtol(out.c_str() + p, &e, 10); p = (size_t)(e - out.c_str()); if (out.compare(p, 11, " failures, ") != 0) return false; p += 11; } }
        long ms; int n = 0;
        if (sscanf(out.c_str() + p, "%ld tests, %ld ran, %ld checks, %ld ignored, %ld filtered out, %ld ms)%n", &s.tests, &s.ran, &s.checks, &s.ignored, &s.filtered, &ms, &n) != 6 || n == 0) return false;
        v.push_back(s); pos = p + (size_t)n;
    }
}

std::string render() {
    std::string d;
    for (auto& s : g_prog) {
        d += sfmt("%s%s.%s{", s.ignored ? "IGN " : "", GROUPS[s.group], s.name.c_str());
        for (int ph = 0; ph < 3; ph++) { for (auto& a : s.phase[ph]) d += std::string(ACT_NAME[a.act]) + ((is_failing(a.act) && a.reps != 15) ? sfmt("@%x", a.reps) : std::string()) + ","; d += ph < 2 ? "|" : ""; }
        d += sfmt("}p%d/%d ", s.plugin_pre, s.plugin_post);
    }
    return d;
}

int run_case(Reader& r, bool& nontrivial, std::string& desc) {
    // ---- decode
    g_prog.clear(); g_trace.clear(); g_shells.clear(); g_probe = Probe(); g_rep = -1;
    bool use_runner = r.below(4) != 1;
    int repeat = use_runner ? 1 + (int)r.below(4) : 1;
    bool group_filter = r.below(4) == 1; int filter_group = (int)r.below(3);
    bool run_ignored = r.below(4) == 1;
    bool extra_e = r.flag();
    int verbosity = r.below(6) == 1 ? 1 + (int)r.below(2) : 0;     // -v / -vv (runner only)
    bool colour = r.below(6) == 1;                                  // -c (runner only)
    bool sepproc = use_runner && r.below(64) == 1;                  // -p: every test in its own forked child (small programs only)
    if (sepproc && repeat > 2) repeat = 2;
    bool rethrow = !sepproc && r.below(6) == 1;                    // no -e: the documented default, exceptions leave the run
    bool use_static = use_runner && !sepproc && r.below(5) == 1;   // CommandLineTestRunner::RunAllTests(ac, av) on the current registry
    bool vs_env = r.below(8) == 1;                                  // Visual Studio location format file(line)
    bool junit_v = use_runner && verbosity && !sepproc && r.below(3) == 1;   // -ojunit -v: composite of JUnit (files stubbed) and console
    bool crash_f = use_runner && !sepproc && r.below(8) == 1;      // -f with a crash method that returns
    uint32_t bystanders = r.below(3) == 1 ? r.below(64) : 0;       // other plugins in the chain (bits 0..2 present, bits 3..5 disabled)
    // an earlier run of the same process: another runner invocation with the opposite exception setting on a registry of its own
    // (one passing test); what it leaves behind in process-wide state must not reach the run that is judged
    bool prelude = use_runner && !sepproc && r.below(4) == 1;
    int n = 1 + (int)r.below(24);
    int mode = (int)r.below(6);          // 0..3 free scripts, 4/5 uniform program: every test carries the same script (long runs of one failing kind)
    bool uniform = mode >= 4; TestSpec proto;
    bool any_throw = false; uint32_t helper_mask = 0;
    auto gen_script = [&](TestSpec& s) {
        for (int ph = 0; ph < 3; ph++) {
            int k = (int)r.below(5);
            for (int i = 0; i < k; i++) {
                uint32_t c = r.below(12); Act a;
                if (c < 3) a = MARK; else if (c < 5) a = PASS; else if (c == 5) a = FAIL_CPP; else if (c == 6) a = FAIL_C; else if (c == 7) a = FAILTEXT_CPP; else if (c == 8) a = FAILTEXT_C; else if (c == 9) a = THROW_STD; else if (c == 10) a = THROW_INT; else a = (r.below(2) ? FAIL_IN_TRY : MARK);
#if !CPPUTEST_HAVE_EXCEPTIONS
                if (is_throw(a)) a = FAIL_CPP;
#endif
                s.phase[ph].push_back(Action{a, 0, (repeat > 1 && r.below(3) == 1) ? 1 + r.below(15) : 15u});
            }
        }
        s.plugin_pre = r.below(8) == 1 ? 1 + (int)r.below(2) : 0; s.plugin_post = r.below(8) == 1 ? 1 : 0;
    };
    if (uniform) { gen_script(proto); if (mode == 5) n = 11 + (int)r.below(14); }
    if (sepproc && n > 4) n = 4;
    for (int t = 0; t < n && (t == 0 || uniform || !r.empty()); t++) {
        TestSpec s = uniform ? proto : TestSpec();
        s.ignored = r.below(8) == 1; s.group = (int)r.below(3); s.name = sfmt("t%d", t); s.line = 100 * (t + 1);
        if (!uniform) gen_script(s);
        int ln = s.line + 10;
        for (int ph = 0; ph < 3; ph++) for (auto& a : s.phase[ph]) { a.line = ln++; if (is_throw(a.act)) any_throw = true; }
        // now and then a check sits in a helper function above the test (a line before the test's own line: the two-location print form)
        if (!uniform || t == 0) helper_mask = r.below(4) == 1 ? r.below(4096) : 0;
        { int i = 0; for (int ph = 0; ph < 3; ph++) for (auto& a : s.phase[ph]) { if ((helper_mask >> (i % 12)) & 1) { a.line = s.line - 1 - i; verif::cls("check-in-helper-function-above-the-test"); } i++; } }
        g_prog.push_back(s);
    }
    n = (int)g_prog.size();
    desc = sfmt("%s%s%s%s%s%s%s%s r%d%s%s: ", use_static ? "RunAllTests" : use_runner ? "runner" : "registry", use_runner && verbosity ? (verbosity == 1 ? " -v" : " -vv") : "", use_runner && colour ? " -c" : "", sepproc ? " -p" : "",
                rethrow ? " rethrow" : "", vs_env ? " vs" : "", junit_v ? " -ojunit" : "", crash_f ? " -f" : "", repeat, group_filter ? sfmt(" -sg %s", GROUPS[filter_group]).c_str() : "", run_ignored ? " -ri" : "") + render();
    if (verif::g_explain) fprintf(stderr, "%s\n", desc.c_str());

    // ---- build registry
    TestRegistry reg; ProbePlugin probe;
    // bystander plugins around the reporting one (installed before = behind it in the chain, after = in front of it), enabled or switched off
    TestPlugin before1("BystanderA"), after1("BystanderB"), after2("BystanderC");
    if (bystanders & 1) { if (bystanders & 8) before1.disable(); reg.installPlugin(&before1); }
    reg.installPlugin(&probe);
    if (bystanders & 2) { if (bystanders & 16) after1.disable(); reg.installPlugin(&after1); }
    if (bystanders & 4) { if (bystanders & 32) after2.disable(); reg.installPlugin(&after2); }
    if (bystanders & 7) verif::cls((bystanders & 56 & ((bystanders & 7) << 3)) ? "bystander plugins, some disabled" : "bystander plugins");
    std::vector<std::unique_ptr<UtestShell>> owned;
    for (int t = 0; t < n; t++) {
        TestSpec& s = g_prog[t];
        UtestShell* sh = s.ignored ? (UtestShell*)new IgnoredScriptShell(t, GROUPS[s.group], s.name.c_str(), s.line) : (UtestShell*)new ScriptShell(t, GROUPS[s.group], s.name.c_str(), s.line);
        owned.emplace_back(sh); g_shells.push_back(sh);
    }
    for (int t = n - 1; t >= 0; t--) reg.addTest(g_shells[t]);   // addTest prepends: register in reverse to run in program order
    UtestShell::setRethrowExceptions(false); UtestShell::restoreDefaultTestTerminator();
    TestOutput::setWorkingEnvironment(vs_env ? TestOutput::visualStudio : TestOutput::eclipse);
    g_crash_calls = 0; if (crash_f) UtestShell::setCrashMethod(crash_stub);
    UtestShell* cur_before = UtestShell::getCurrent(); TestResult* res_before = current_result();
    int depth_before = CppUTestVerif_JumpBufferDepth();

    if (prelude) {
        TestRegistry reg0; ScriptShell t0(0, "Ga", "prelude", 1);   // its script is test 0's: make it harmless by running with a filter that selects nothing
        reg0.addTest(&t0);
        std::vector<std::string> a0 = {"prog", "-sg", "NoSuchGroup"}; if (rethrow) a0.push_back("-e");   // the opposite of what the judged run asks for
        std::vector<const char*> av0; for (auto& a : a0) av0.push_back(a.c_str());
        std::string sink0; { Runner r0((int)av0.size(), av0.data(), &reg0, &sink0); r0.runAllTestsMain(); }
        g_trace.clear(); g_probe = Probe(); g_rep = -1;
        verif::cls("after an earlier run with the opposite -e setting");
    }
    // ---- run
    std::string out; int rv = 0; bool rv_valid = false; bool escaped = false;
#if CPPUTEST_HAVE_EXCEPTIONS
    try {
#endif
    if (use_runner) {
        std::vector<std::string> args = {"prog"};
        if (!rethrow && (any_throw || extra_e)) args.push_back("-e");   // without -e the documented behaviour is to rethrow out of the runner
        if (repeat > 1) args.push_back(sfmt("-r%d", repeat));
        if (group_filter) { args.push_back("-sg"); args.push_back(GROUPS[filter_group]); }
        if (run_ignored) args.push_back("-ri");
        if (verbosity == 1) args.push_back("-v"); else if (verbosity == 2) args.push_back("-vv");
        if (colour) args.push_back("-c");
        if (sepproc) args.push_back("-p");
        if (junit_v) args.push_back("-ojunit");
        if (crash_f) args.push_back("-f");
        std::vector<const char*> av; for (auto& a : args) av.push_back(a.c_str());
        if (use_static) {
            struct Scope { TestRegistry* reg; Scope(TestRegistry* g, std::string* o) : reg(g) { g_console = o; g_probe.rep_by_plugin = true; reg->setCurrentRegistry(reg); }
                           ~Scope() { g_console = NULLPTR; reg->setCurrentRegistry(NULLPTR); } } scope(&reg, &out);
            rv = CommandLineTestRunner::RunAllTests((int)av.size(), av.data()); rv_valid = true;
        } else {
            Runner runner((int)av.size(), av.data(), &reg, &out);
            rv = runner.runAllTestsMain(); rv_valid = true;
            out = runner.text();
        }
    } else {
        CaptureOutput o; TestResult tr(o);
        struct Keep { CaptureOutput& o; std::string& out; ~Keep() { out = o.text; } } keep{o, out};
        TestFilter f(GROUPS[filter_group]); f.strictMatching();
        if (group_filter) reg.setGroupFilters(&f);
        if (run_ignored) reg.setRunIgnored();
        UtestShell::setRethrowExceptions(rethrow);
        struct Unfilter { TestRegistry& reg; ~Unfilter() { reg.setGroupFilters(NULLPTR); } } unfilter{reg};
        reg.runAllTests(tr);
    }
#if CPPUTEST_HAVE_EXCEPTIONS
    } catch (const std::runtime_error&) { escaped = true; rv_valid = false; }
      catch (int) { escaped = true; rv_valid = false; }
#endif
    // An exception that leaves the run passes through the setjmp frame of runOneTest without popping it (one slot of the
    // ten-slot stack per abandoned run).  The run is abandoned at that point, so this is not judged (DESIGN.md section 9,
    // observations); the slots are popped here so that later cases start from the same depth.
    if (escaped) while (CppUTestVerif_JumpBufferDepth() > depth_before) PlatformSpecificRestoreJumpBuffer();
    TestOutput::setWorkingEnvironment(TestOutput::eclipse);
    UtestShell::resetCrashMethod(); UtestShell::restoreDefaultTestTerminator();
    UtestShell::setRethrowExceptions(false);
    bool had_colour = false;
    if (use_runner && colour) {   // colour only wraps the summary in escape sequences: strip them, then judge as usual
        std::string plain; for (size_t i = 0; i < out.size(); i++) { if (out[i] == '\033') { size_t m = out.find('m', i); if (m == std::string::npos) break; i = m; } else plain.push_back(out[i]); }
        had_colour = out.find("\033[") != std::string::npos;
        out = plain;
    }

    // ---- oracle
    if (sepproc) g_trace.clear();   // the children's statements are not visible to the parent
    V_CHECK(!g_probe.bad, "C01:history-invariant", "%s [%s]", g_probe.msg.c_str(), desc.c_str());
    V_CHECK(CppUTestVerif_JumpBufferDepth() == depth_before, "C01:jump-depth", "jump-buffer depth %d after the run, %d before [%s]", CppUTestVerif_JumpBufferDepth(), depth_before, desc.c_str());
    // (when an exception left the run the library leaves both as they were inside the test; they are only ever compared, never followed)
    if (!escaped) V_CHECK(UtestShell::getCurrent() == cur_before && current_result() == res_before, "C01:current-restored", "current test / result not restored after the run [%s]", desc.c_str());
    bool aborted = false; int completed = 0;    // repetitions that ran to their summary
    std::vector<RepModel> ms; for (int k = 0; k < repeat && !aborted; k++) { ms.push_back(model_repetition(group_filter, filter_group, run_ignored, k, sepproc, rethrow, &aborted)); if (!aborted) completed++; }
    const RepModel& m = ms[0];
    if (use_runner && colour && completed > 0) V_CHECK(had_colour, "C01:colour", "-c given but the summary carries no colour sequence [%s]", desc.c_str());
    V_CHECK(escaped == aborted, "C01:rethrow", "%s [%s]", escaped ? "an exception left the run although none was to be rethrown" : "rethrow mode: the unexpected exception did not leave the run", desc.c_str());
    // trace: the events of every repetition, in order (up to the exception that left the run)
    std::vector<TraceEv> want; for (size_t k = 0; k < ms.size(); k++) want.insert(want.end(), ms[k].trace.begin(), ms[k].trace.end());
    bool teardown_after_throw = false;
    if (aborted && g_trace.size() > want.size() && !want.empty() && want.back().phase < 2) {
        // the statement lets the teardown of the abandoned test run or not; nothing else may follow the exception
        bool only_teardown = true; for (size_t i = want.size(); i < g_trace.size(); i++) if (g_trace[i].test != want.back().test || g_trace[i].phase != 2) only_teardown = false;
        if (only_teardown && std::equal(want.begin(), want.end(), g_trace.begin())) { teardown_after_throw = true; g_trace.resize(want.size()); }
    }
    if (!(want == g_trace)) {
        size_t i = 0; while (i < want.size() && i < g_trace.size() && want[i] == g_trace[i]) i++;
        std::string w = i < want.size() ? sfmt("test %d phase %d action %d", want[i].test, want[i].phase, want[i].idx) : "end", g = i < g_trace.size() ? sfmt("test %d phase %d action %d", g_trace[i].test, g_trace[i].phase, g_trace[i].idx) : "end";
        return verif::fail("C01:trace", "executed statements differ from the lifecycle model at event %zu: expected %s, got %s [%s]", i, w.c_str(), g.c_str(), desc.c_str());
    }
    if (!sepproc && !aborted) V_CHECK(g_probe.pre_seen == (int)(m.ran * repeat) && g_probe.post_seen == g_probe.pre_seen, "C01:plugin-actions", "plugin saw %d pre / %d post actions, expected %zu", g_probe.pre_seen, g_probe.post_seen, m.ran * repeat);
    // failures printed exactly once each
    std::vector<FailRec> got = parse_failures(out);
    if (vs_env) for (auto& f : got) {   // file(line) is the Visual Studio form of file:line
        size_t o = f.loc.rfind('('); V_CHECK(o != std::string::npos && f.loc.size() > o + 2 && f.loc.back() == ')' && f.loc.find(':') == std::string::npos, "C01:failure-print", "Visual Studio format asked for, location printed as '%s' [%s]", f.loc.c_str(), desc.c_str());
        f.loc = f.loc.substr(0, o) + ":" + f.loc.substr(o + 1, f.loc.size() - o - 2);
    } else for (auto& f : got) V_CHECK(f.loc.find('(') == std::string::npos, "C01:failure-print", "location printed as '%s' in the default format [%s]", f.loc.c_str(), desc.c_str());
    std::multiset<FailRec> gs(got.begin(), got.end()), ws;
    for (size_t k = 0; k < ms.size(); k++) ws.insert(ms[k].fails.begin(), ms[k].fails.end());
    if (teardown_after_throw) for (auto& f : gs) if (!ws.count(f)) ws.insert(f);   // failures of that teardown are not modelled
    if (gs != ws) {
        for (auto& f : ws) if (gs.count(f) != ws.count(f)) return verif::fail("C01:failure-print", "failure %s at %s in %s printed %zu time(s), expected %zu [%s]", f.kind.c_str(), f.loc.c_str(), f.test.c_str(), gs.count(f), ws.count(f), desc.c_str());
        for (auto& f : gs) if (!ws.count(f)) return verif::fail("C01:failure-print", "unexpected failure record %s at %s in %s [%s]", f.kind.c_str(), f.loc.c_str(), f.test.c_str(), desc.c_str());
    }
    // summaries, one per repetition, each judged against that repetition's model
    std::vector<Summary> sums;
    V_CHECK(parse_summaries(out, sums), "C01:summary-format", "cannot parse a summary line [%s] output: %.300s", desc.c_str(), out.c_str());
    V_CHECK((int)sums.size() == completed, "C01:summary-count", "%zu summaries for %d completed repetition(s) [%s]", sums.size(), completed, desc.c_str());
    bool all_ok = true;
    for (int k = 0; k < completed; k++) {
        const Summary& s = sums[k]; const RepModel& mk = ms[k];
        bool want_ok = mk.failures == 0 && (mk.ran + mk.ignored) > 0;
        all_ok = all_ok && want_ok;
        V_CHECK(s.ok == want_ok, "C01:summary-verdict", "summary of repetition %d reads %s with %zu failures, %zu ran, %zu ignored [%s]", k + 1, s.ok ? "OK" : "Errors", mk.failures, mk.ran, mk.ignored, desc.c_str());
        V_CHECK(s.tests == (long)mk.tests && s.ran == (long)mk.ran && s.checks == (long)mk.checks && s.ignored == (long)mk.ignored && s.filtered == (long)mk.filtered,
                "C01:summary-counts", "summary of repetition %d: %ld tests %ld ran %ld checks %ld ignored %ld filtered; model %zu/%zu/%zu/%zu/%zu [%s]", k + 1, s.tests, s.ran, s.checks, s.ignored, s.filtered, mk.tests, mk.ran, mk.checks, mk.ignored, mk.filtered, desc.c_str());
        if (!s.ok) { if (mk.failures) V_CHECK(!s.ran_nothing && s.failures == (long)mk.failures, "C01:summary-failures", "summary of repetition %d states %ld failures, model %zu [%s]", k + 1, s.failures, mk.failures, desc.c_str());
                     else V_CHECK(s.ran_nothing, "C01:summary-failures", "no failure and nothing run, but the summary does not say so"); }
    }
    if (rv_valid) V_CHECK((rv == 0) == all_ok, "C01:return-value", "runner returned %d, repetitions all OK = %d [%s]", rv, all_ok, desc.c_str());
    { bool differ = false; for (size_t k = 1; k < ms.size(); k++) if (ms[k].failures != ms[0].failures) differ = true; if (differ) verif::cls("repetitions-differ"); }

    // ---- non-trivial rule
    int consecutive = 0, best = 0; bool fail_then_pass = false, outside_body = false, prev_failed = false;
    for (auto& s : g_prog) {
        bool f = s.plugin_pre || s.plugin_post;
        for (int ph = 0; ph < 3; ph++) for (auto& a : s.phase[ph]) if (is_failing(a.act)) { f = true; if (ph != 1) outside_body = true; }
        if (f) { consecutive++; best = std::max(best, consecutive); } else { consecutive = 0; if (prev_failed) fail_then_pass = true; }
        prev_failed = f;
    }
    nontrivial = (n >= 2 && outside_body) || best >= 11 || fail_then_pass;
    if (best >= 11) verif::cls("run-of-11+-failing"); if (use_runner) verif::cls("via-runner"); else verif::cls("via-registry");
    if (sepproc) verif::cls("-p (separate process)");
    if (use_static) verif::cls("static RunAllTests + real console output"); if (rethrow) verif::cls("rethrow mode"); if (aborted) verif::cls("exception left the run");
    if (vs_env) verif::cls("visual-studio format"); if (junit_v) verif::cls("-ojunit -v composite"); if (crash_f) verif::cls(g_crash_calls ? "-f, crash method called" : "-f");
    if (use_runner && verbosity) verif::cls(verbosity == 1 ? "-v" : "-vv"); if (use_runner && colour) verif::cls("-c");
    { bool t = false; for (auto& s : g_prog) for (int ph = 0; ph < 3; ph++) for (auto& a : s.phase[ph]) if (a.act == FAIL_IN_TRY) t = true; if (t) verif::cls("failing check inside try/catch(std::exception)"); }
    if (repeat > 1) verif::cls("repeat>1"); if (any_throw) verif::cls("throws"); if (group_filter) verif::cls("group-filter"); if (run_ignored) verif::cls("run-ignored");
    return 0;
}

}  // namespace

extern "C" const char* verif_property(void) { return "C01"; }
extern "C" void verif_init(void) {
    verif::install_fake_time();
    PlatformSpecificFPuts = fputs_stub; PlatformSpecificFlush = flush_stub; PlatformSpecificFOpen = fopen_stub; PlatformSpecificFClose = fclose_stub;
}
extern "C" int verif_case(const uint8_t* data, size_t size) {
    Reader r(data, size);
    bool nontrivial = false; std::string desc;
    int rc = run_case(r, nontrivial, desc);
    verif::note_case(nontrivial, r.h, [&] { return desc.size() > 700 ? desc.substr(0, 700) + "..." : desc; });
    return rc;
}
extern "C" int verif_known_repro(const char*) { return -1; }
