// C15 — injected out-of-memory hits exactly the designated allocations.
//
// Decoder (first byte = mode, 0 = simplest):
//   mode D  direct history on one FailableMemoryAllocator: failAllocNumber(current+k), failNthAllocAt(n, file, line)
//           over 3 files x 2 lines, alloc_memory from mixed locations, free, checkAllFailedAllocsWereDone (inside a
//           fixture), clearFailedAllocs; an implicit "were all done" check closes every history.
//   mode W  ON window: three FailableMemoryAllocators installed as the current malloc / new / new[] allocators and
//           the real entry points cpputest_malloc/calloc/strdup/strndup/realloc/free_location, operator new / new[]
//           (location, plain, nothrow), plus cpputest_malloc_set_out_of_memory[_countdown] / set_not_out_of_memory.
//   mode E  "every allocation point in turn": a decoded workload of N allocations is replayed N times (twice for the
//           direct form) with the k-th allocation designated (global index, location x local index, or C countdown)
//           while a background designation of another kind stays pending.
// Oracle: the model of DESIGN.md appendix A.3, written over fixed arrays (it also runs inside the ON window, where the
//         interpreter must not allocate): global index g per allocator, per-designation location counts since
//         registration, a call fails iff some designation names it, every designation naming it is consumed.
#include "common.h"
#include "CppUTest/TestHarness_c.h"
#include <new>
#include <setjmp.h>
#include <signal.h>

#undef new      // CppUTest's headers define new as new(__FILE__, __LINE__); the operators are called by name here

using verif::Reader;
using verif::sfmt;

namespace {

#define K_LOCGLOBAL "C15:location-fires-on-global-index"
#define K_WALK      "C15:walk-stops-at-first-fired-designation"
#define K_STRDUP    "C15:strdup-null-deref-under-oom"

// ---- locations: 3 files x 2 lines, plus the location the entry points without file/line use -------------------
const int NLOC = 7;
// two separately stored copies of every file name: designations are registered with one copy, allocations are made
// with the other (the code has to compare contents, not pointers)
char fA1[] = "fileA.c", fB1[] = "fileB.c", fC1[] = "dir/fileC.cpp", fU1[] = "<unknown>";
char fA2[] = "fileA.c", fB2[] = "fileB.c", fC2[] = "dir/fileC.cpp", fU2[] = "<unknown>";
const char* const alloc_file[NLOC] = { fA1, fA1, fB1, fB1, fC1, fC1, fU1 };
const char* const desig_file[NLOC] = { fA2, fA2, fB2, fB2, fC2, fC2, fU2 };
const size_t loc_line[NLOC] = { 10, 20, 10, 20, 10, 20, 0 };

// ---- failure record usable inside the ON window (no allocation) -------------------------------------------------
char g_sig[96], g_msg[1024];
bool g_bad;
void bad(const char* sig, const char* fmt, ...) __attribute__((format(printf, 2, 3)));
void bad(const char* sig, const char* fmt, ...) {
    if (g_bad) return;
    g_bad = true;
    snprintf(g_sig, sizeof g_sig, "%s", sig);
    va_list ap; va_start(ap, fmt); vsnprintf(g_msg, sizeof g_msg, fmt, ap); va_end(ap);
}
// readable trace of the case (fixed buffer; truncated silently)
char g_desc[1400]; size_t g_desc_n;
void desc(const char* fmt, ...) __attribute__((format(printf, 1, 2)));
void desc(const char* fmt, ...) {
    if (g_desc_n >= sizeof g_desc - 1) return;
    va_list ap; va_start(ap, fmt); int k = vsnprintf(g_desc + g_desc_n, sizeof g_desc - g_desc_n, fmt, ap); va_end(ap);
    if (k > 0) g_desc_n += (size_t)k; if (g_desc_n >= sizeof g_desc) g_desc_n = sizeof g_desc - 1;
    if (g_desc_n + 2 < sizeof g_desc) { g_desc[g_desc_n++] = ';'; g_desc[g_desc_n++] = ' '; g_desc[g_desc_n] = 0; }
    if (verif::g_explain) { va_list ap2; va_start(ap2, fmt); vfprintf(stderr, fmt, ap2); va_end(ap2); fputc('\n', stderr); }
}
// class histogram inside the window: fixed counters, flushed to verif::cls afterwards
enum { C_ALLOC, C_ALLOC_FAILS, C_DESIG_GLOBAL, C_DESIG_LOC, C_DESIG_PAST, C_FREE, C_CHECK_PENDING, C_CHECK_CLEAN, C_CLEAR,
       C_COINCIDENCE, C_MALLOC, C_CALLOC, C_STRDUP, C_STRNDUP, C_REALLOC, C_NEW, C_NEWARR, C_NOTHROW, C_COUNTDOWN, C_SETOOM,
       C_NOTOOM, C_OOM_CALL, C_ENUM_GLOBAL, C_ENUM_LOC, C_ENUM_COUNTDOWN, C_PLAIN, C_INT_LINE, C_COUNT_RESET, C_COUNT_GET, C_ENUM_FAMILIES, C_NCLS };
const char* const cls_name[C_NCLS] = { "alloc", "alloc-designated-to-fail", "designate-global", "designate-location", "designate-global-already-passed",
       "free", "check-with-pending", "check-clean", "clear", "one-call-named-twice", "cpputest_malloc", "cpputest_calloc", "cpputest_strdup",
       "cpputest_strndup", "cpputest_realloc", "new", "new[]", "nothrow-new", "countdown", "set_out_of_memory", "set_not_out_of_memory",
       "call-inside-oom-window", "enumerate-by-global-index", "enumerate-by-location", "enumerate-by-countdown",
       "plain-entry-point(no file,line)", "new(file,int line)", "cpputest_malloc_count_reset", "cpputest_malloc_get_count", "enumerate-through-malloc/new/new[]-families" };
unsigned g_cls[C_NCLS];

// ---- the model (A.3) --------------------------------------------------------------------------------------------
const int MAXD = 24;
struct Desig { bool is_loc; int n; int loc; int count; };
struct Model {
    int g = 0; Desig d[MAXD]; int nd = 0;
    void clear() { g = 0; nd = 0; }
    bool names_next(const Desig& x, int loc) const { return x.is_loc ? (x.loc == loc && x.count + 1 == x.n) : (x.n == g + 1); }
    bool equivalent_pending(bool is_loc, int n, int loc) const {   // "distinct designations": the same designation is not given twice
        for (int i = 0; i < nd; i++) {
            if (d[i].is_loc != is_loc) continue;
            if (!is_loc && d[i].n == n) return true;
            if (is_loc && d[i].loc == loc && d[i].n - d[i].count == n) return true;
        }
        return false;
    }
    bool add(bool is_loc, int n, int loc) { if (nd >= MAXD) return false; d[nd++] = Desig{is_loc, n, loc, 0}; return true; }
    int namers(int loc) const { int k = 0; for (int i = 0; i < nd; i++) if (names_next(d[i], loc)) k++; return k; }
    // pending location designations for this location that see the call without being its target
    int observers(int loc) const { int k = 0; for (int i = 0; i < nd; i++) if (d[i].is_loc && d[i].loc == loc && !names_next(d[i], loc)) k++; return k; }
    // ... and those among them that were registered BEFORE a designation naming the call (d[] is kept in registration order)
    int observers_older_than_namer(int loc) const {
        int last_namer = -1; for (int i = 0; i < nd; i++) if (names_next(d[i], loc)) last_namer = i;
        int k = 0; for (int i = 0; i < last_namer; i++) if (d[i].is_loc && d[i].loc == loc && !names_next(d[i], loc)) k++;
        return k;
    }
    // pending location designations for ANOTHER location whose n equals the global index of the next call
    int foreign_index_matches(int loc) const { int k = 0; for (int i = 0; i < nd; i++) if (d[i].is_loc && d[i].loc != loc && d[i].n == g + 1) k++; return k; }
    // the call happens: true = it must fail
    bool on_alloc(int loc) {
        bool fail = false; int w = 0;
        for (int i = 0; i < nd; i++) {
            bool fire = names_next(d[i], loc);
            if (d[i].is_loc && d[i].loc == loc) d[i].count++;
            if (fire) fail = true; else d[w++] = d[i];
        }
        nd = w; g++;
        return fail;
    }
    // number of pending designations that differ pairwise in kind or location (for the NT rule): kinds + distinct locations
    int variety() const {
        bool glob = false; bool locs[NLOC] = {false}; int v = 0;
        for (int i = 0; i < nd; i++) { if (!d[i].is_loc) { if (!glob) { glob = true; v++; } } else if (!locs[d[i].loc]) { locs[d[i].loc] = true; v++; } }
        return v;
    }
};

// ---- NT bookkeeping: allocations from >= 2 locations while >= 2 pending designations of different kinds/locations
struct NT {
    bool seen[NLOC] = {false}; int distinct = 0;
    void alloc_with_variety(int variety, int loc) { if (variety >= 2 && !seen[loc]) { seen[loc] = true; distinct++; } }
    bool nontrivial() const { return distinct >= 2; }
};

// listed findings: flags read once (verif::known() allocates, which is not allowed inside an ON window);
// the exclusions are counted in fixed counters and booked with verif::known() after the case
bool g_k_locglobal, g_k_walk, g_k_strdup; unsigned g_x_locglobal, g_x_walk, g_x_strdup;
bool listed(const char* key) { for (auto& k : verif::g_known) if (k == key) return true; return false; }

// taint: a situation in which one of the two known defects may have desynchronised code and model
bool g_taint_locglobal, g_taint_walk;
const char* mismatch_sig(const char* generic) { return g_taint_walk ? K_WALK : (g_taint_locglobal ? K_LOCGLOBAL : generic); }

// ---- SEGV guard: run f(); true when it died on a memory access (used only for strdup/strndup with a NULL block expected)
sigjmp_buf g_segv_jmp;
void segv_handler(int) { siglongjmp(g_segv_jmp, 1); }
template <class F> bool died_on_segv(F f) {
    struct sigaction sa, old_segv, old_bus;
    memset(&sa, 0, sizeof sa); sa.sa_handler = segv_handler; sigemptyset(&sa.sa_mask); sa.sa_flags = SA_NODEFER;
    sigaction(SIGSEGV, &sa, &old_segv); sigaction(SIGBUS, &sa, &old_bus);
    volatile bool crashed = false;
    if (sigsetjmp(g_segv_jmp, 1) == 0) f(); else crashed = true;
    sigaction(SIGSEGV, &old_segv, nullptr); sigaction(SIGBUS, &old_bus, nullptr);
    return crashed;
}

// ---- reporter of the private global detector: a report is never expected in this harness ---------------------------
struct Reporter : MemoryLeakFailure {
    int calls = 0; char first[300];
    void fail(char* s) CPPUTEST_OVERRIDE { if (calls++ == 0) snprintf(first, sizeof first, "%s", s ? s : "(null)"); }
};
Reporter* g_reporter; MemoryLeakDetector* g_detector;
FailableMemoryAllocator *g_direct, *g_fm, *g_fn, *g_fa;

void check_all_done_body(void* a) { ((FailableMemoryAllocator*)a)->checkAllFailedAllocsWereDone(); }

// "were all done" check against the model; returns false after recording a failure
bool do_check(FailableMemoryAllocator* fa, const Model& m, const char* when) {
    verif::FixtureRun fr = verif::run_in_fixture(check_all_done_body, fa);
    bool pending = m.nd > 0;
    g_cls[pending ? C_CHECK_PENDING : C_CHECK_CLEAN]++;
    if (pending && fr.failures != 1) { bad(mismatch_sig("C15:pending-designation-not-reported"), "%s: %d designation(s) pending but checkAllFailedAllocsWereDone raised %zu failures", when, m.nd, fr.failures); return false; }
    if (!pending && fr.failures != 0) {
        bad(mismatch_sig("C15:done-designation-reported-missing"), "%s: every designated failure happened (or was cleared) but checkAllFailedAllocsWereDone failed the test: %s", when, verif::printable(fr.output).substr(0, 300).c_str());
        return false;
    }
    if (pending) {   // the message has to name a designation that really is pending
        bool named = false;
        for (int i = 0; i < m.nd && !named; i++) {
            std::string want = m.d[i].is_loc ? sfmt("Expected failing alloc at %s:%d was never done", desig_file[m.d[i].loc], (int)loc_line[m.d[i].loc])
                                             : sfmt("Expected allocation number %d was never done", m.d[i].n);
            named = fr.output.find(want) != std::string::npos;
        }
        if (!named) { bad(mismatch_sig("C15:missing-report-names-no-pending-designation"), "%s: the failure text names no pending designation: %s", when, verif::printable(fr.output).substr(0, 300).c_str()); return false; }
    }
    return true;
}

// exclusion by construction for the listed findings: true = this allocation call must not be made
bool excluded_call(const Model& m, int loc) {
    if (m.foreign_index_matches(loc) > 0) { if (g_k_locglobal) { g_x_locglobal++; return true; } g_taint_locglobal = true; }
    int nm = m.namers(loc);
    if (nm >= 2 || m.observers_older_than_namer(loc) >= 1) { if (g_k_walk) { g_x_walk++; return true; } g_taint_walk = true; }
    return false;
}
// With a finding listed the generator moves the allocation to the next location (cyclically) at which the listed condition
// does not arise, and only drops it when there is none: the search keeps its allocations.  -1 = drop.
bool would_exclude(const Model& m, int loc) {
    if (g_k_locglobal && m.foreign_index_matches(loc) > 0) return true;
    return g_k_walk && (m.namers(loc) >= 2 || m.observers_older_than_namer(loc) >= 1);
}
int admissible_location(const Model& m, int loc) {
    if (!would_exclude(m, loc)) { excluded_call(m, loc); return loc; }      // (sets the taint flags for findings that are not listed)
    for (int k = 1; k < NLOC - 1; k++) { int l = (loc + k) % (NLOC - 1); if (!would_exclude(m, l)) { excluded_call(m, loc); excluded_call(m, l); return l; } }
    excluded_call(m, loc);
    return -1;
}
// judge one allocation result; `failed` = NULL or bad_alloc
bool judge(const char* what, int loc, bool failed, bool expect_fail, bool foreign, int g_after) {
    if (failed == expect_fail) return true;
    if (failed) bad(foreign ? K_LOCGLOBAL : mismatch_sig("C15:undesignated-allocation-failed"),
                    "%s at %s:%zu (allocation #%d of its allocator) failed although no designation names it%s", what, alloc_file[loc], loc_line[loc], g_after,
                    foreign ? "; a pending location designation for ANOTHER location has n equal to this global index" : "");
    else bad(mismatch_sig("C15:designated-allocation-succeeded"), "%s at %s:%zu (allocation #%d of its allocator) succeeded although a designation names it", what, alloc_file[loc], loc_line[loc], g_after);
    return false;
}

// =================================================================================================================
// mode D: direct history
// =================================================================================================================
const int MAXLIVE = 48;
struct Live { char* p; size_t size; int fam; };   // fam: 0 malloc-family / direct, 1 new, 2 new[]

// one designation from two bytes: selector, then (k) or (location, n)
void decode_designation(Reader& r, Model& m, FailableMemoryAllocator* fa, const char* tag) {
    uint32_t sel = r.below(5), v = r.below(240);
    if (sel < 2) {
        int k = v % 10;                                         // k == 0: the index has passed already -> never fires, stays pending
        int n = m.g + k;
        if (m.equivalent_pending(false, n, 0) || m.nd >= MAXD) return;
        m.add(false, n, 0); fa->failAllocNumber(n);
        g_cls[k == 0 ? C_DESIG_PAST : C_DESIG_GLOBAL]++;
        desc("%s.failAllocNumber(%d)", tag, n);
    } else {
        int loc = (int)(v % 6); if (v >= 228) loc = NLOC - 1;
        int n = 1 + (int)(v / 6 % 4); if (v >= 216 && v < 228) n = 0;   // n == 0: no allocation is the 0-th one -> never fires, stays pending
        if (m.equivalent_pending(true, n, loc) || m.nd >= MAXD) return;
        m.add(true, n, loc); fa->failNthAllocAt(n, desig_file[loc], loc_line[loc]);
        g_cls[C_DESIG_LOC]++;
        desc("%s.failNthAllocAt(%d, %s:%zu)", tag, n, desig_file[loc], loc_line[loc]);
    }
}

void run_direct(Reader& r, NT& nt) {
    FailableMemoryAllocator* fa = g_direct;
    Model m; Live live[MAXLIVE]; int nlive = 0;
    int npre = (int)r.below(6);
    for (int i = 0; i < npre; i++) decode_designation(r, m, fa, "fa");
    int nops = 8 + (int)r.below(24);
    for (int op = 0; op < nops && !g_bad; op++) {
        uint32_t kind = r.below(32); if (kind == 31) kind = 15; else kind = kind % 15;     // clear is rare: it empties the pending set
        if (kind < 8) {                                   // alloc_memory
            uint32_t v = r.below(240); int loc = (int)(v % 6); size_t size = 1 + v / 6;
            { int l2 = admissible_location(m, loc);
              if (l2 < 0) {   // every location runs into a listed finding and the global index cannot advance: start over with an empty set
                  fa->clearFailedAllocs(); m.clear(); g_taint_locglobal = g_taint_walk = false; g_cls[C_CLEAR]++;
                  desc("(listed finding: no admissible location for the next allocation) fa.clearFailedAllocs()");
              } else loc = l2; }
            nt.alloc_with_variety(m.variety(), loc);
            if (m.namers(loc) >= 2) g_cls[C_COINCIDENCE]++;
            bool foreign = m.foreign_index_matches(loc) > 0;
            bool expect_fail = m.on_alloc(loc);
            char* p = fa->alloc_memory(size, alloc_file[loc], loc_line[loc]);
            g_cls[C_ALLOC]++; if (expect_fail) g_cls[C_ALLOC_FAILS]++;
            desc("fa.alloc_memory(%zu, %s:%zu) -> %s [model: %s]", size, alloc_file[loc], loc_line[loc], p ? "block" : "NULL", expect_fail ? "NULL" : "block");
            if (p) { memset(p, 0x5a, size); if (nlive < MAXLIVE) live[nlive++] = Live{p, size, 0}; else fa->free_memory(p, size, alloc_file[loc], loc_line[loc]); }
            judge("alloc_memory", loc, p == NULLPTR, expect_fail, foreign, m.g);
        } else if (kind < 12) {
            decode_designation(r, m, fa, "fa");
        } else if (kind < 14) {                           // free
            if (!nlive) continue;
            int i = (int)r.below((uint32_t)nlive);
            fa->free_memory(live[i].p, live[i].size, alloc_file[0], 1); live[i] = live[--nlive]; g_cls[C_FREE]++;
            desc("fa.free_memory(block)");
        } else if (kind == 14) {                          // were all done?
            desc("fa.checkAllFailedAllocsWereDone() [model: %d pending]", m.nd);
            do_check(fa, m, "checkAllFailedAllocsWereDone");
        } else {                                          // clear
            fa->clearFailedAllocs(); m.clear(); g_cls[C_CLEAR]++;
            g_taint_locglobal = g_taint_walk = false;
            desc("fa.clearFailedAllocs()");
        }
    }
    if (!g_bad) { desc("closing checkAllFailedAllocsWereDone() [model: %d pending]", m.nd); do_check(fa, m, "closing check"); }
    fa->clearFailedAllocs();
    if (!g_bad) {                                         // after clear nothing fails and nothing is pending
        Model empty;
        for (int i = 0; i < 3 && !g_bad; i++) {
            char* p = fa->alloc_memory(8, alloc_file[i * 2], loc_line[i * 2]);
            if (!p) bad("C15:allocation-fails-after-clear", "allocation #%d after clearFailedAllocs() returned NULL", i + 1); else fa->free_memory(p, 8, alloc_file[0], 1);
        }
        if (!g_bad && (r.h & 3) == 0) do_check(fa, empty, "check after clearFailedAllocs");     // (a fixture run is the expensive part of a case)
        fa->clearFailedAllocs();
    }
    for (int i = 0; i < nlive; i++) fa->free_memory(live[i].p, live[i].size, alloc_file[0], 1);
}

// =================================================================================================================
// mode W: the real entry points inside an ON window
// =================================================================================================================
enum { W_MALLOC, W_CALLOC, W_STRDUP, W_STRNDUP, W_NEW, W_NEWARR, W_NOTHROW, W_PLAINNEW, W_REALLOC, W_FREE, W_DESIG_G, W_DESIG_L, W_COUNTDOWN, W_SETOOM, W_NOTOOM, W_CLEAR, W_COUNT_RESET, W_COUNT_GET };
struct WOp { uint8_t kind; uint8_t loc; uint8_t which; uint16_t a; uint16_t b; uint8_t slot; bool plain; };   // plain: the entry point without file/line (new: int line; delete: sized)
const int MAXOPS = 48;
const char g_text[] = "the quick brown fox jumps over the lazy dog";   // strdup source

struct CModel {                 // C-level out-of-memory simulation
    bool armed = false; int remaining = 0; bool oom = false;
    // a malloc happens: true = it finds the allocator replaced by the null allocator
    bool on_malloc() { if (armed && !oom) { if (--remaining <= 0) { oom = true; armed = false; } } return oom; }
};

struct Window {
    Model m[3]; CModel c; Live live[MAXLIVE]; int nlive = 0; NT* nt;
    FailableMemoryAllocator* fa[3];
    int variety() const { return m[0].variety() + m[1].variety() + m[2].variety() + ((c.armed || c.oom) ? 1 : 0); }
    void keep(char* p, size_t size, int fam) { if (nlive < MAXLIVE) live[nlive++] = Live{p, size, fam}; else release(Live{p, size, fam}); }
    void release(const Live& l, bool plain = false) {
        if (l.fam == 0) { if (plain) cpputest_free(l.p); else cpputest_free_location(l.p, alloc_file[0], 77); }
        else if (l.fam == 1) { if (plain) ::operator delete(l.p, l.size); else ::operator delete(l.p); }
        else { if (plain) ::operator delete[](l.p, l.size); else ::operator delete[](l.p); }
    }
    // model of cpputest_malloc_get_count(): every malloc/calloc/strdup/strndup call since the last reset, failed or not.  The
    // counter is process-wide, so the model starts from the value read when the script starts (only an explicit reset zeroes it:
    // a case must mean the same in a fresh process as in the middle of a campaign)
    int mcount = 0, mbase = cpputest_malloc_get_count();
    bool count_ok(const char* when) {
        int got = cpputest_malloc_get_count() - mbase;
        if (got == mcount) return true;
        bad("C15:malloc-count-wrong", "%s: cpputest_malloc_get_count() = %d after %d malloc-family calls since the last reset (the count is what sizes a countdown loop over every allocation point)", when, got, mcount);
        return false;
    }
    // one allocation through an entry point of family fam (0 malloc, 1 new, 2 new[]); returns false when the case is decided
    bool allocation(const WOp& o) {
        int fam = (o.kind == W_NEW || o.kind == W_NOTHROW || o.kind == W_PLAINNEW) ? 1 : (o.kind == W_NEWARR ? 2 : 0);
        int loc = (o.kind == W_NOTHROW || o.kind == W_PLAINNEW || (o.plain && fam == 0)) ? NLOC - 1 : o.loc;
        bool in_oom = false;
        if (fam == 0) {
            // would this malloc start / continue the simulated OOM?  (peek: the model is advanced below)
            CModel peek = c; in_oom = peek.on_malloc();
        }
        if (!in_oom) {
            int l2 = loc == NLOC - 1 ? (excluded_call(m[fam], loc) ? -1 : loc) : admissible_location(m[fam], loc);
            if (l2 < 0) {   // every location runs into a listed finding and the global index cannot advance: start over with an empty set
                fa[fam]->clearFailedAllocs(); m[fam].clear(); g_taint_locglobal = g_taint_walk = false; g_cls[C_CLEAR]++;
                desc("(listed finding: no admissible location for the next allocation) allocator[%d].clearFailedAllocs()", fam);
            } else loc = l2;
        }
        bool foreign = !in_oom && m[fam].foreign_index_matches(loc) > 0;
        bool expect_fail;
        bool str_entry = o.kind == W_STRDUP || o.kind == W_STRNDUP;
        if (fam == 0) { c.on_malloc(); mcount++; expect_fail = in_oom ? true : m[0].on_alloc(loc); }
        else expect_fail = m[fam].on_alloc(loc);
        if (o.plain) g_cls[fam == 0 ? C_PLAIN : (o.kind == W_NEW || o.kind == W_NEWARR) ? C_INT_LINE : C_PLAIN]++;
        if (str_entry && expect_fail && g_k_strdup) {
            g_x_strdup++;
            // listed finding: the call would write through NULL.  Keep code and model in step with a plain malloc.
            void* q = cpputest_malloc_location(4, alloc_file[loc], loc_line[loc]);
            desc("(listed finding: strdup under failing malloc replaced by cpputest_malloc) -> %s", q ? "block" : "NULL");
            if (q) keep((char*)q, 4, 0);
            return judge("cpputest_malloc", loc, q == NULLPTR, true, foreign, m[0].g);
        }
        nt->alloc_with_variety(variety(), loc);
        if (in_oom) g_cls[C_OOM_CALL]++;
        if (expect_fail) g_cls[C_ALLOC_FAILS]++;
        char* p = NULLPTR; size_t size = 1 + o.a % 200; bool failed = false; const char* what = "?";
        const char* f = alloc_file[loc]; size_t line = loc_line[loc];
        switch (o.kind) {
        case W_MALLOC: what = o.plain ? "cpputest_malloc" : "cpputest_malloc_location"; g_cls[C_MALLOC]++; p = (char*)(o.plain ? cpputest_malloc(size) : cpputest_malloc_location(size, f, line)); failed = !p; break;
        case W_CALLOC: { what = "cpputest_calloc_location"; g_cls[C_CALLOC]++; size_t num = 1 + o.b % 6; size = 1 + o.a % 40;
                         if (o.plain) what = "cpputest_calloc";
                         p = (char*)(o.plain ? cpputest_calloc(num, size) : cpputest_calloc_location(num, size, f, line)); failed = !p; size *= num;
                         if (p) for (size_t i = 0; i < size; i++) if (p[i]) { bad("C15:calloc-not-zeroed", "calloc block byte %zu is not zero", i); break; }
                         break; }
        case W_STRDUP: case W_STRNDUP: {
            size_t off = o.a % (sizeof g_text); const char* src = g_text + off; size_t n = o.b % 24;
            bool nd = o.kind == W_STRNDUP; what = nd ? (o.plain ? "cpputest_strndup" : "cpputest_strndup_location") : (o.plain ? "cpputest_strdup" : "cpputest_strdup_location"); g_cls[nd ? C_STRNDUP : C_STRDUP]++;
            size_t len = strlen(src); if (nd && n < len) len = n; size = len + 1;
            // always guarded: when code and model disagree about the underlying malloc the call must not take the process down
            bool crashed = died_on_segv([&] { p = o.plain ? (nd ? cpputest_strndup(src, n) : cpputest_strdup(src)) : (nd ? cpputest_strndup_location(src, n, f, line) : cpputest_strdup_location(src, f, line)); });
            if (crashed && !expect_fail) { failed = true; break; }      // the malloc failed although the model lets it succeed: judged below
            if (crashed) { bad(K_STRDUP, "%s(\"%s\") while its malloc is designated to fail (%s) wrote through the NULL block instead of returning NULL", what, src, in_oom ? "simulated out-of-memory" : "failable allocator"); return false; }
            failed = !p;
            if (p && (strlen(p) != len || memcmp(p, src, len) != 0)) bad("C15:strdup-wrong-copy", "%s copied \"%s\" as \"%.60s\"", what, src, p);
            break; }
        case W_NEW: what = "operator new(size, file, line)"; g_cls[C_NEW]++; try { p = (char*)(o.plain ? ::operator new(size, f, (int)line) : ::operator new(size, f, line)); if (!p) bad("C15:throwing-new-returned-null", "%s returned NULL", what); } catch (const std::bad_alloc&) { failed = true; } break;
        case W_PLAINNEW: what = "operator new(size)"; g_cls[C_NEW]++; try { p = (char*)::operator new(size); if (!p) bad("C15:throwing-new-returned-null", "%s returned NULL", what); } catch (const std::bad_alloc&) { failed = true; } break;
        case W_NEWARR: what = "operator new[](size, file, line)"; g_cls[C_NEWARR]++; try { p = (char*)(o.plain ? ::operator new[](size, f, (int)line) : ::operator new[](size, f, line)); if (!p) bad("C15:throwing-new-returned-null", "%s returned NULL", what); } catch (const std::bad_alloc&) { failed = true; } break;
        case W_NOTHROW: what = "operator new(size, nothrow)"; g_cls[C_NOTHROW]++; try { p = (char*)::operator new(size, std::nothrow); failed = !p; } catch (...) { bad("C15:nothrow-new-threw", "nothrow new threw"); } break;
        }
        desc("%s at %s:%zu -> %s [model: %s%s]", what, f, line, failed ? "NULL/bad_alloc" : "block", expect_fail ? "fails" : "block", in_oom ? ", inside simulated OOM" : "");
        if (g_bad) { if (p) keep(p, size, fam); return false; }
        if (p) { if (o.kind != W_STRDUP && o.kind != W_STRNDUP && o.kind != W_CALLOC) memset(p, 0x5a, size); keep(p, size, fam); }
        return judge(what, loc, failed, expect_fail, foreign, m[fam].g);
    }
    void run(const WOp* ops, int nops) {
        for (int i = 0; i < nops && !g_bad; i++) {
            const WOp& o = ops[i];
            switch (o.kind) {
            default: allocation(o); break;
            case W_REALLOC: {
                if (c.oom || !nlive) break;
                int s = o.slot % nlive; if (live[s].fam != 0) break;
                size_t ns = 1 + o.a % 300; char first = live[s].p[0];
                char* q = (char*)(o.plain ? cpputest_realloc(live[s].p, ns) : cpputest_realloc_location(live[s].p, ns, alloc_file[o.loc], loc_line[o.loc])); g_cls[C_REALLOC]++;
                if (o.plain) g_cls[C_PLAIN]++;
                desc("cpputest_realloc_location(block, %zu) -> %s", ns, q ? "block" : "NULL");
                if (!q) { bad("C15:undesignated-allocation-failed", "realloc to %zu bytes returned NULL although no failure was injected", ns); live[s] = live[--nlive]; break; }
                if (q[0] != first) bad("C15:realloc-lost-content", "realloc changed the first byte");
                live[s].p = q; live[s].size = ns; break; }
            case W_FREE: {
                if (c.oom || !nlive) break;           // A.3: frees are deferred until the simulated OOM is over
                int s = o.slot % nlive; release(live[s], o.plain); live[s] = live[--nlive]; g_cls[C_FREE]++; desc("free/delete(block)"); break; }
            case W_DESIG_G: {
                Model& mm = m[o.which]; int k = o.a % 8 == 7 ? 0 : 1 + o.a % 9; int n = mm.g + k;
                if (mm.equivalent_pending(false, n, 0) || mm.nd >= MAXD) break;
                mm.add(false, n, 0); fa[o.which]->failAllocNumber(n); g_cls[k ? C_DESIG_GLOBAL : C_DESIG_PAST]++;
                desc("allocator[%d].failAllocNumber(%d)", o.which, n); break; }
            case W_DESIG_L: {
                Model& mm = m[o.which]; int n = o.a % 32 == 31 ? 0 : 1 + o.a % 4;
                if (mm.equivalent_pending(true, n, o.loc) || mm.nd >= MAXD) break;
                mm.add(true, n, o.loc); fa[o.which]->failNthAllocAt(n, desig_file[o.loc], loc_line[o.loc]); g_cls[C_DESIG_LOC]++;
                desc("allocator[%d].failNthAllocAt(%d, %s:%zu)", o.which, n, desig_file[o.loc], loc_line[o.loc]); break; }
            case W_COUNTDOWN: {
                if (c.oom) break;
                int n = o.a % 5; cpputest_malloc_set_out_of_memory_countdown(n); g_cls[C_COUNTDOWN]++;
                if (n == 0) { c.oom = true; c.armed = false; } else { c.armed = true; c.remaining = n; }
                desc("cpputest_malloc_set_out_of_memory_countdown(%d)", n); break; }
            case W_SETOOM: if (c.oom) break; cpputest_malloc_set_out_of_memory(); c.oom = true; c.armed = false; g_cls[C_SETOOM]++; desc("cpputest_malloc_set_out_of_memory()"); break;
            case W_NOTOOM: not_oom(); break;
            case W_COUNT_RESET: cpputest_malloc_count_reset(); mcount = 0; mbase = 0; g_cls[C_COUNT_RESET]++; desc("cpputest_malloc_count_reset()"); break;
            case W_COUNT_GET: g_cls[C_COUNT_GET]++; desc("cpputest_malloc_get_count() [model: %d]", mcount); count_ok("cpputest_malloc_get_count"); break;
            case W_CLEAR: fa[o.which]->clearFailedAllocs(); m[o.which].clear(); g_cls[C_CLEAR]++; g_taint_locglobal = g_taint_walk = false; desc("allocator[%d].clearFailedAllocs()", o.which); break;
            }
            if (g_reporter->calls) bad("C15:detector-report-during-injection", "the leak detector reported a failure: %.200s", g_reporter->first);
        }
    }
    void not_oom() {
        bool was = c.oom;
        cpputest_malloc_set_not_out_of_memory(); g_cls[C_NOTOOM]++;
        desc("cpputest_malloc_set_not_out_of_memory()");
        c = CModel();
        if (was && getCurrentMallocAllocator() != fa[0]) bad("C15:allocator-not-restored-after-oom", "after set_not_out_of_memory the current malloc allocator is \"%s\", not the one that was installed before the simulated OOM", getCurrentMallocAllocator()->name());
        // a countdown that was cancelled before it reached zero leaves no saved allocator: the call then installs the default one.
        // Re-installing the allocator is a stated precondition of this generator (see notes/C15.md), not judged.
        setCurrentMallocAllocator(fa[0]);
    }
    void finish() {
        if (c.oom || c.armed) not_oom();
        if (!g_bad) {   // restored: the next allocation of each family is governed by the designations alone again
            WOp o{}; o.kind = W_MALLOC; o.loc = 0; o.a = 7; allocation(o);
        }
        if (!g_bad) count_ok("end of the script");
        for (int i = 0; i < nlive; i++) release(live[i]);
        nlive = 0;
        for (int k = 0; k < 3; k++) fa[k]->clearFailedAllocs();
    }
};

struct OnWindow {   // overloads on, our allocators current; everything restored on exit
    OnWindow() {
        g_reporter->calls = 0;
        cpputest_malloc_set_not_out_of_memory();
        setCurrentMallocAllocator(g_fm); setCurrentNewAllocator(g_fn); setCurrentNewArrayAllocator(g_fa);
        MemoryLeakWarningPlugin::turnOnDefaultNotThreadSafeNewDeleteOverloads();
    }
    ~OnWindow() {
        MemoryLeakWarningPlugin::turnOffNewDeleteOverloads();
        cpputest_malloc_set_not_out_of_memory();
        setCurrentMallocAllocatorToDefault(); setCurrentNewAllocatorToDefault(); setCurrentNewArrayAllocatorToDefault();
    }
};

void run_window(Reader& r, NT& nt) {
    static WOp ops[MAXOPS];
    int nops = 0;
    auto push = [&](WOp o) { if (nops < MAXOPS) ops[nops++] = o; };
    int npre = (int)r.below(6);
    for (int i = 0; i < npre; i++) {
        WOp o{}; o.kind = r.below(5) < 2 ? W_DESIG_G : W_DESIG_L; uint32_t v = r.below(240);
        o.which = (uint8_t)(v / 60 % 3); o.loc = (uint8_t)(v % 6); o.a = (uint16_t)(v / 6); push(o);
    }
    int n = 8 + (int)r.below(24);
    for (int i = 0; i < n; i++) {     // three bytes per operation: kind, (location, allocator), argument
        static const uint8_t table[] = { W_MALLOC, W_MALLOC, W_MALLOC, W_CALLOC, W_STRDUP, W_STRNDUP, W_NEW, W_NEW, W_NEWARR, W_NOTHROW, W_PLAINNEW, W_REALLOC, W_FREE, W_FREE,
                                         W_DESIG_G, W_DESIG_L, W_DESIG_L, W_DESIG_L, W_COUNTDOWN, W_COUNTDOWN, W_SETOOM, W_NOTOOM, W_NOTOOM, W_CLEAR,
                                         W_COUNT_GET, W_COUNT_RESET };     // (appended: the first 24 entries keep their index)
        WOp o{}; o.kind = table[r.below(sizeof table)];
        uint32_t v = r.below(240), a = r.below(256);
        o.loc = (uint8_t)(v % 6);
        if (o.kind == W_DESIG_L && v >= 228) o.loc = NLOC - 1;
        o.plain = (v / 24) % 2 == 1;
        o.which = (uint8_t)(v / 6 % 4 % 3); o.a = (uint16_t)a; o.b = (uint16_t)(a * 7 % 251); o.slot = (uint8_t)(a % 64);
        push(o);
    }
    static Window w; w = Window(); w.nt = &nt; w.fa[0] = g_fm; w.fa[1] = g_fn; w.fa[2] = g_fa;
    {
        OnWindow on;
        w.run(ops, nops);
        w.finish();
    }
    if (!g_bad && g_detector->totalMemoryLeaks(mem_leak_period_all) != 0)
        bad("C15:blocks-left-tracked", "%zu blocks still tracked after every block of the case was released", g_detector->totalMemoryLeaks(mem_leak_period_all));
}

// =================================================================================================================
// mode E: every allocation point of a workload in turn
// =================================================================================================================
void run_enumeration(Reader& r, NT& nt) {
    int N = 2 + (int)r.below(7);
    struct Step { uint8_t loc; uint8_t entry; uint16_t a; } w[8];
    uint32_t eform = r.below(4);                          // 0, 1 direct form; 2 C countdown form (ON window); 3 malloc/new/new[] families (ON window)
    bool c_level = eform == 2, families = eform == 3;
    for (int i = 0; i < N; i++) { uint32_t v = r.below(240); w[i].loc = (uint8_t)(v % 6); w[i].entry = (uint8_t)(v / 6 % 4); w[i].a = (uint16_t)(v * 2 + i); }
    // background designation of another kind that stays pending during every replay
    uint32_t bg = 1 + r.below(3);                          // 1 global beyond the workload, 2 location beyond its occurrences, 3 both
    int bg_loc = (int)r.below(NLOC - 1);
    int occ[NLOC] = {0}; for (int i = 0; i < N; i++) occ[w[i].loc]++;
    desc("workload of %d allocations:", N);
    for (int i = 0; i < N; i++) desc("  #%d at %s:%zu", i + 1, alloc_file[w[i].loc], loc_line[w[i].loc]);

    if (!c_level && !families) {
        FailableMemoryAllocator* fa = g_direct;
        for (int style = 0; style < 2 && !g_bad; style++) {          // 0: by global index, 1: by location x local index
            for (int k = 1; k <= N && !g_bad; k++) {
                fa->clearFailedAllocs(); Model m; g_taint_locglobal = g_taint_walk = false;
                if (bg & 1) { m.add(false, N + 1 + bg_loc, 0); fa->failAllocNumber(N + 1 + bg_loc); }
                if (bg & 2) { m.add(true, occ[bg_loc] + 1, bg_loc); fa->failNthAllocAt(occ[bg_loc] + 1, desig_file[bg_loc], loc_line[bg_loc]); }
                if (style == 0) { m.add(false, k, 0); fa->failAllocNumber(k); g_cls[C_ENUM_GLOBAL]++; }
                else { int j = 0; for (int i = 0; i < k; i++) if (w[i].loc == w[k - 1].loc) j++;
                       m.add(true, j, w[k - 1].loc); fa->failNthAllocAt(j, desig_file[w[k - 1].loc], loc_line[w[k - 1].loc]); g_cls[C_ENUM_LOC]++; }
                desc("replay with allocation #%d designated %s%s", k, style ? "by location" : "by global index", bg == 1 ? " + pending global designation" : bg == 2 ? " + pending location designation" : bg == 3 ? " + pending global and location designations" : "");
                bool skipped = false;
                for (int i = 0; i < N && !g_bad; i++) {
                    int loc = w[i].loc;
                    if (excluded_call(m, loc)) { skipped = true; break; }
                    nt.alloc_with_variety(m.variety(), loc);
                    bool foreign = m.foreign_index_matches(loc) > 0;
                    bool expect_fail = m.on_alloc(loc);
                    if (expect_fail != (i + 1 == k)) { bad("C15:harness-model-inconsistent", "internal: model designates #%d instead of #%d", i + 1, k); break; }
                    size_t size = 1 + w[i].a % 64;
                    char* p = fa->alloc_memory(size, alloc_file[loc], loc_line[loc]); g_cls[C_ALLOC]++; if (expect_fail) g_cls[C_ALLOC_FAILS]++;
                    if (p) fa->free_memory(p, size, alloc_file[loc], loc_line[loc]);
                    judge("alloc_memory", loc, p == NULLPTR, expect_fail, foreign, m.g);
                }
                if (skipped) { desc("(replay cut short: listed finding)"); continue; }
                // the designated one is consumed, the background one is still pending: judged once per style on the last replay
                if (!g_bad && k == N) do_check(fa, m, "check after the last replay");
            }
        }
        fa->clearFailedAllocs();
        return;
    }
    static Window win; win = Window(); win.nt = &nt; win.fa[0] = g_fm; win.fa[1] = g_fn; win.fa[2] = g_fa;
    if (families) {
        // the workload goes through cpputest_malloc / new / new[] / nothrow new with FailableMemoryAllocators behind all three families;
        // allocation k is designated on ITS allocator, by that allocator's own index or by (location, local index)
        static const uint8_t entry[4] = { W_MALLOC, W_NEW, W_NEWARR, W_NOTHROW };
        auto fam_of = [&](int i) { return w[i].entry == 0 ? 0 : w[i].entry == 2 ? 2 : 1; };
        auto loc_of = [&](int i) { return (w[i].entry == 3 || (w[i].entry == 0 && (w[i].a & 1))) ? NLOC - 1 : (int)w[i].loc; };
        OnWindow on;
        for (int style = 0; style < 2 && !g_bad; style++) for (int k = 1; k <= N && !g_bad; k++) {
            g_cls[C_ENUM_FAMILIES]++;
            for (int f = 0; f < 3; f++) { win.fa[f]->clearFailedAllocs(); win.m[f].clear(); }
            int fk = fam_of(k - 1), lk = loc_of(k - 1), jg = 0, jl = 0;
            for (int i = 0; i < k; i++) if (fam_of(i) == fk) { jg++; if (loc_of(i) == lk) jl++; }
            if (bg & 1) { int other = (fk + 1) % 3; win.m[other].add(false, N + 1, 0); win.fa[other]->failAllocNumber(N + 1); }
            if (bg & 2) { int other = (fk + 2) % 3; win.m[other].add(true, N + 1, bg_loc); win.fa[other]->failNthAllocAt(N + 1, desig_file[bg_loc], loc_line[bg_loc]); }
            if (style == 0) { win.m[fk].add(false, jg, 0); win.fa[fk]->failAllocNumber(jg); }
            else { win.m[fk].add(true, jl, lk); win.fa[fk]->failNthAllocAt(jl, desig_file[lk], loc_line[lk]); }
            desc("replay with allocation #%d designated on allocator[%d] %s", k, fk, style ? "by location" : "by its index");
            int failures = 0;
            for (int i = 0; i < N && !g_bad; i++) {
                WOp o{}; o.kind = entry[w[i].entry]; o.loc = w[i].loc; o.a = w[i].a; o.plain = (w[i].a & 1) != 0;
                int before = win.nlive;
                win.allocation(o);
                if (!g_bad && win.nlive == before) { failures++; if (i + 1 != k) bad("C15:harness-model-inconsistent", "internal: allocation #%d failed in the replay that designates #%d", i + 1, k); }
            }
            if (!g_bad && failures != 1) bad("C15:harness-model-inconsistent", "internal: %d failures in a replay with one designation", failures);
            for (int i = 0; i < win.nlive; i++) win.release(win.live[i], (i & 1) != 0);
            win.nlive = 0;
            if (g_reporter->calls) bad("C15:detector-report-during-injection", "the leak detector reported a failure: %.200s", g_reporter->first);
        }
        win.finish();
        return;
    }
    // C level: countdown(k) for every k, the real malloc-family entry points, default bookkeeping
    {
        OnWindow on;
        if (bg & 1) { win.m[0].add(false, 1000, 0); g_fm->failAllocNumber(1000); }
        if (bg & 2) { win.m[1].add(true, 3, bg_loc); g_fn->failNthAllocAt(3, desig_file[bg_loc], loc_line[bg_loc]); }
        {   // the in-tree idiom: run the workload once, read cpputest_malloc_get_count(), then loop the countdown over 1..count
            static const uint8_t entry[4] = { W_MALLOC, W_CALLOC, W_STRDUP, W_STRNDUP };
            cpputest_malloc_count_reset(); win.mcount = 0; win.mbase = 0; g_cls[C_COUNT_RESET]++; g_cls[C_COUNT_GET]++;
            for (int i = 0; i < N && !g_bad; i++) { WOp o{}; o.kind = entry[w[i].entry]; o.loc = w[i].loc; o.a = w[i].a; o.b = (uint16_t)(w[i].a >> 3); o.plain = (w[i].a & 1) != 0; win.allocation(o); }
            if (!g_bad && win.mcount != N) bad("C15:harness-model-inconsistent", "internal: %d malloc-family calls counted for a workload of %d", win.mcount, N);
            if (!g_bad) win.count_ok("dry run of the workload");
            for (int i = 0; i < win.nlive; i++) win.release(win.live[i], (i & 1) != 0);
            win.nlive = 0;
        }
        for (int k = 0; k <= N && !g_bad; k++) {
            g_cls[C_ENUM_COUNTDOWN]++;
            cpputest_malloc_set_out_of_memory_countdown(k);
            if (k == 0) { win.c.oom = true; win.c.armed = false; } else { win.c.armed = true; win.c.remaining = k; win.c.oom = false; }
            desc("replay after cpputest_malloc_set_out_of_memory_countdown(%d)", k);
            for (int i = 0; i < N && !g_bad; i++) {
                static const uint8_t entry[4] = { W_MALLOC, W_CALLOC, W_STRDUP, W_STRNDUP };
                WOp o{}; o.kind = entry[w[i].entry]; o.loc = w[i].loc; o.a = w[i].a; o.b = (uint16_t)(w[i].a >> 3); o.plain = (w[i].a & 1) != 0;
                bool expect_oom = (k == 0) || (i + 1 >= k);
                CModel peek = win.c; bool model_oom = peek.on_malloc();
                if (model_oom != expect_oom) { bad("C15:harness-model-inconsistent", "internal: countdown model disagrees with the A.3 rule at malloc #%d after countdown(%d)", i + 1, k); break; }
                win.allocation(o);
            }
            if (g_bad) break;
            win.not_oom();
            for (int i = 0; i < win.nlive; i++) win.release(win.live[i]);
            win.nlive = 0;
            // normal behaviour restored
            void* p = cpputest_malloc_location(16, alloc_file[0], loc_line[0]); win.m[0].on_alloc(0); win.mcount++;
            if (!p) bad("C15:malloc-fails-after-reset", "cpputest_malloc returned NULL after set_not_out_of_memory (countdown %d)", k); else cpputest_free_location(p, alloc_file[0], 1);
            if (g_reporter->calls) bad("C15:detector-report-during-injection", "the leak detector reported a failure: %.200s", g_reporter->first);
        }
        win.finish();
    }
    if (!g_bad && g_detector->totalMemoryLeaks(mem_leak_period_all) != 0)
        bad("C15:blocks-left-tracked", "%zu blocks still tracked after every block of the case was released", g_detector->totalMemoryLeaks(mem_leak_period_all));
}

}  // namespace

extern "C" const char* verif_property(void) { return "C15"; }
extern "C" void verif_init(void) {
    g_reporter = new Reporter();
    g_detector = new MemoryLeakDetector(g_reporter);
    MemoryLeakWarningPlugin::setGlobalDetector(g_detector, g_reporter);
    g_detector->enable();
    verif::install_fake_time();
    g_k_locglobal = listed(K_LOCGLOBAL); g_k_walk = listed(K_WALK); g_k_strdup = listed(K_STRDUP);
}

extern "C" int verif_case(const uint8_t* data, size_t size) {
    Reader r(data, size);
    g_bad = false; g_sig[0] = g_msg[0] = 0; g_desc_n = 0; g_desc[0] = 0; memset(g_cls, 0, sizeof g_cls);
    g_taint_locglobal = g_taint_walk = false; g_x_locglobal = g_x_walk = g_x_strdup = 0;
    // fresh allocators for every case ("since construction" is part of the model; nothing may carry over between cases)
    FailableMemoryAllocator direct("verif failable allocator", "malloc", "free"), fm("verif failable malloc", "malloc", "free"),
                            fn("verif failable new", "new", "delete"), fa("verif failable new[]", "new []", "delete []");
    g_direct = &direct; g_fm = &fm; g_fn = &fn; g_fa = &fa;
    struct Drop { ~Drop() { g_direct->clearFailedAllocs(); g_fm->clearFailedAllocs(); g_fn->clearFailedAllocs(); g_fa->clearFailedAllocs(); g_direct = g_fm = g_fn = g_fa = NULLPTR; } } drop;
    g_detector->clearAllAccounting(mem_leak_period_all);
    // the process-wide malloc counter is never zero when a script starts (also in a fresh replay process): a reset that does
    // nothing is then visible in the shortest case "reset, get" and every failure replays from its file
    { void* warm = cpputest_malloc_location(1, "warmup.c", 1); cpputest_free_location(warm, "warmup.c", 1); }
    NT nt;
    uint32_t mode = r.below(8);     // 0-3 direct history, 4-6 entry points in an ON window, 7 enumeration
    if (mode <= 3) { verif::cls("mode:direct-history"); run_direct(r, nt); }
    else if (mode <= 6) { verif::cls("mode:entry-points-on-window"); run_window(r, nt); }
    else { verif::cls("mode:every-allocation-point-in-turn"); run_enumeration(r, nt); }
    for (int i = 0; i < C_NCLS; i++) if (g_cls[i]) verif::cls(cls_name[i]);
    for (unsigned i = 0; i < g_x_locglobal; i++) verif::known(K_LOCGLOBAL);
    for (unsigned i = 0; i < g_x_walk; i++) verif::known(K_WALK);
    for (unsigned i = 0; i < g_x_strdup; i++) verif::known(K_STRDUP);
    if (verif::g_explain) fprintf(stderr, "non-trivial: %s\n", nt.nontrivial() ? "yes" : "no");
    if (nt.nontrivial()) verif::cls(mode <= 3 ? "nontrivial:direct-history" : mode <= 6 ? "nontrivial:entry-points-on-window" : "nontrivial:every-allocation-point-in-turn");
    verif::note_case(nt.nontrivial(), r.h, [&] { return std::string(g_desc).substr(0, 600); });
    if (g_bad) return verif::fail(g_sig, "%s", g_msg);
    return 0;
}

extern "C" int verif_known_repro(const char* key) {
    std::string k(key);
    if (k == K_LOCGLOBAL) {
        // failNthAllocAt(2, fileA:10); the 2nd allocation overall is made at fileB:10 and must succeed
        FailableMemoryAllocator fa;
        fa.failNthAllocAt(2, desig_file[0], loc_line[0]);
        char* a = fa.alloc_memory(4, alloc_file[2], loc_line[2]);
        char* b = fa.alloc_memory(4, alloc_file[2], loc_line[2]);
        bool defect = (b == NULLPTR);
        if (a) fa.free_memory(a, 4, "", 0); if (b) fa.free_memory(b, 4, "", 0);
        fa.clearFailedAllocs();
        return defect ? 1 : 0;
    }
    if (k == K_WALK) {
        // allocation #1 at fileA:10 is named by failAllocNumber(1) and is the 1st of 2 for failNthAllocAt(2, fileA:10):
        // the 2nd allocation at fileA:10 must fail and nothing may be left pending
        FailableMemoryAllocator fa;
        fa.failNthAllocAt(2, desig_file[0], loc_line[0]);
        fa.failAllocNumber(1);
        char* a = fa.alloc_memory(4, alloc_file[0], loc_line[0]);
        char* b = fa.alloc_memory(4, alloc_file[0], loc_line[0]);
        bool defect = !(a == NULLPTR && b == NULLPTR);
        if (a) fa.free_memory(a, 4, "", 0); if (b) fa.free_memory(b, 4, "", 0);
        fa.clearFailedAllocs();
        return defect ? 1 : 0;
    }
    if (k == K_STRDUP) {
        char* p = NULLPTR; bool crashed;
        {
            OnWindow on;
            cpputest_malloc_set_out_of_memory();
            crashed = died_on_segv([&] { p = cpputest_strdup_location("abc", alloc_file[0], 1); });
            cpputest_malloc_set_not_out_of_memory();
            if (!crashed && p) cpputest_free_location(p, alloc_file[0], 1);
        }
        return (crashed || p != NULLPTR) ? 1 : 0;
    }
    return -1;
}
