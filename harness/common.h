// CppUTest-side helpers shared by the harnesses.
#pragma once
#include "verif_rt.h"
#include "CppUTest/TestHarness.h"
#include "CppUTest/TestRegistry.h"
#include "CppUTest/TestOutput.h"
#include "CppUTest/TestResult.h"
#include "CppUTest/TestTestingFixture.h"
#include "CppUTest/MemoryLeakWarningPlugin.h"
#include "CppUTest/MemoryLeakDetector.h"
#include "CppUTest/TestMemoryAllocator.h"
#include "CppUTest/PlatformSpecificFunctions.h"
#include <string>
#include <vector>

namespace verif {

// The library replaces the global operator new/delete and routes them through the leak detector.
// Harness, rapidcheck and libFuzzer allocations must be plain malloc: switch the overloads off before main.
struct OverloadsOff { OverloadsOff() { MemoryLeakWarningPlugin::turnOffNewDeleteOverloads(); } };
static OverloadsOff overloads_off_;

// no check reads the clock
static long fake_millis_value = 0;
static inline unsigned long fake_millis() { return (unsigned long)(fake_millis_value += 1); }
static inline const char* fake_time_string() { return "1978-10-03T00:00:00"; }
static inline void install_fake_time() {
    GetPlatformSpecificTimeInMillis = fake_millis;
    GetPlatformSpecificTimeString = fake_time_string;
}

// run `fn(arg)` as the body of one test inside a private registry/result/output
struct FixtureRun { size_t failures, checks; std::string output; };

class ExecLambda : public ExecFunction {
public:
    void (*fn_)(void*); void* arg_;
    ExecLambda(void (*fn)(void*), void* arg) : fn_(fn), arg_(arg) {}
    void exec() CPPUTEST_OVERRIDE { fn_(arg_); }
};

static inline FixtureRun run_in_fixture(void (*fn)(void*), void* arg) {
    FixtureRun r;
    {
        TestTestingFixture fixture;
        ExecLambda ex(fn, arg);
        fixture.setTestFunction(&ex);
        fixture.runAllTests();
        r.failures = fixture.getFailureCount();
        r.checks = fixture.getCheckCount();
        r.output = fixture.getOutput().asCharString();
    }
    return r;
}

}  // namespace verif
