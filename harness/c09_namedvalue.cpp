// C09 — mock parameter values compare by mathematical value, symmetrically; integer getters return exactly the
//        stored integer or fail the test.
// Decoder: byte 0 selects the mode.
//   255      -> one block of the exhaustive lattice product: ordered integer type pair (ta,tb) = next byte % 36;
//               every lattice(ta) x lattice(tb) pair is compared in both directions and every lattice(ta) value is read
//               through getter tb inside a fixture (36 corpus seeds "exh-*.bin" enumerate the whole product in both tiers)
//   208..239 -> RECYCLED operands: the pair is generated as in "other" below, then A, B or both are produced by a HISTORY:
//               1..3 earlier setters (half of them an object / const object of TypeA..TypeD, the rest any kind) on the
//               SAME MockNamedValue object before the judged value is set - directly, or (when every step has a
//               MockSupport::setData* overload) through mock().setData / setDataObject / setDataConstObject on one name
//               followed by getData.  Metamorphic oracle: history does not matter - equals in both directions and the
//               getter sweep are judged exactly as for a fresh value holding the last value set.
//   240..254 -> ALIASED operands: both values refer to the same storage.  Memory buffers: two sub-ranges (offset, length)
//               of one exact-size block (same pointer with same / shorter / longer / zero length, overlapping ranges
//               buf+k); strings: two pointers into one NUL-terminated block (same pointer, pointer into the middle),
//               or a string and a buffer on the same address; objects / const objects: the same object under independent
//               type names, repository settings and const-ness; pointer kinds: one address (a function's, or NULL)
//               under two of the three pointer kinds.  The oracle is unchanged (length and content, content, receiver's
//               comparator, identity within one type, different types never equal).
//   other    -> one ordered pair (A,B): A generated freely, B either freely (mode%4==0) or derived from A
//               (same payload / neighbour / wrap-alias or sibling kind); both directions of equals() are judged, and every
//               integer operand is read through two different integer getters chosen by the input, each call inside its
//               own one-test fixture.
// After the pair judgement every operand is additionally READ BACK (bytes at the end of the input, so older corpus files
// keep their meaning): getType() and toString() of both operands are compared with an independent rendering of the stored
// value (decimal + hex for integers, true/false, the string itself, 0x<address>, %.6g, "Size = n | HexContents = ..",
// the comparator's text or the "No comparator found" text), and one typed read chosen by the input runs inside a
// fixture: the getter(s) of the stored kind (getBoolValue, getDoubleValue + getDoubleTolerance, getStringValue,
// getPointerValue, getConstPointerValue, getFunctionPointerValue, getMemoryBuffer + getSize, getObjectPointer +
// getConstObjectPointer) must return exactly what was stored; a getter of another kind (typed getter on another kind,
// integer getter on a non-integer, typed getter on an integer) must fail the test (a void* / const void* cross read may
// instead return the identical address) - never a value of another type.
// Oracle: __int128 equality for integer pairs; identity / content rules for the other kinds; receiver's tolerance for
//         doubles (literal rule: NaN -> unequal, same value -> equal, else |a-b| <= tol); receiver's comparator for custom
//         objects; different type names with at most one integer operand -> false.  Getters: failure recorded, or the
//         value returned is exactly the stored integer; a value not representable in the getter's type must fail; the
//         getter of the stored type itself must succeed.
#include "common.h"
#include "CppUTestExt/MockNamedValue.h"
#include "CppUTestExt/MockSupport.h"
#include <memory>
#include <limits.h>
#include <float.h>
#include <math.h>
#include <limits>

using verif::Reader;
using verif::sfmt;

namespace {

typedef __int128 i128;

enum Kind { K_INT, K_UINT, K_LONG, K_ULONG, K_LL, K_ULL, K_BOOL, K_PTR, K_CPTR, K_FPTR, K_STR, K_MEM, K_DBL, K_OBJ, K_COBJ, K_N };
const char* const KNAME[K_N] = {"int", "unsigned-int", "long-int", "unsigned-long-int", "long-long-int", "unsigned-long-long-int",
                                "bool", "void*", "const-void*", "fptr", "string", "membuf", "double", "object", "const-object"};
const char* const GETTER[6] = {"getIntValue", "getUnsignedIntValue", "getLongIntValue", "getUnsignedLongIntValue",
                               "getLongLongIntValue", "getUnsignedLongLongIntValue"};
inline bool is_int(int k) { return k < 6; }

const i128 P31 = (i128)1 << 31, P32 = (i128)1 << 32, P63 = (i128)1 << 63, P64 = (i128)1 << 64;
i128 lo_of(int t) { switch (t) { case 0: return INT_MIN; case 2: return LONG_MIN; case 4: return LLONG_MIN; default: return 0; } }
i128 hi_of(int t) { switch (t) { case 0: return INT_MAX; case 1: return UINT_MAX; case 2: return LONG_MAX; case 3: return ULONG_MAX; case 4: return LLONG_MAX; default: return ULLONG_MAX; } }
bool fits(int t, i128 v) { return v >= lo_of(t) && v <= hi_of(t); }
// the value a C cast to type t would produce (modular)
i128 wrap_to(int t, i128 v) {
    uint64_t u = (uint64_t)v;
    switch (t) {
    case 0: return (i128)(int32_t)(uint32_t)u;
    case 1: return (i128)(uint32_t)u;
    case 2: case 4: return (i128)(int64_t)u;
    default: return (i128)u;
    }
}
std::string i2s(i128 v) {
    if (v >= (i128)LLONG_MIN && v <= (i128)LLONG_MAX) return sfmt("%lld", (long long)v);
    if (v >= 0 && v <= (i128)ULLONG_MAX) return sfmt("%llu", (unsigned long long)v);
    return "(out of range)";
}
// "boundary" operand for the non-trivial rule: in the sign / width boundary region (negative, or at or above 2^31-1)
bool boundary(i128 v) { return v < 0 || v >= INT_MAX; }

std::vector<i128> g_lattice[6];
void build_lattices() {
    std::vector<i128> base = {0, 1, -1,
        P31 - 1, P31, P31 + 1, -P31 - 1, -P31, -P31 + 1,
        P32 - 1, P32, P32 + 1, -P32 - 1, -P32, -P32 + 1,
        P63 - 1, P63, P63 + 1, -P63, -P63 + 1, P64 - 1, P64 - 2};
    for (int t = 0; t < 6; t++) {
        std::vector<i128>& L = g_lattice[t];
        auto add = [&](i128 v) { if (!fits(t, v)) return; for (i128 x : L) if (x == v) return; L.push_back(v); };
        for (i128 v : base) add(v);
        add(lo_of(t)); add(lo_of(t) + 1); add(hi_of(t)); add(hi_of(t) - 1);
    }
}

void set_int(MockNamedValue& m, int t, i128 v) {
    switch (t) {
    case 0: m.setValue((int)v); break;
    case 1: m.setValue((unsigned int)v); break;
    case 2: m.setValue((long int)v); break;
    case 3: m.setValue((unsigned long int)v); break;
    case 4: m.setValue((long long)v); break;
    default: m.setValue((unsigned long long)v); break;
    }
}

// ---- payload pools (indices are decoded, addresses never are) ----
char g_ptr_targets[4];
volatile int g_sink;
void fn1() { g_sink = 1; }
void fn2() { g_sink = 2; }
void fn3() { g_sink = 3; }
typedef void (*Fn)();
Fn g_fns[4] = {NULLPTR, fn1, fn2, fn3};

struct Obj { int v; int tag; };
Obj g_pool[4] = {{0, 0}, {0, 1}, {1, 2}, {2, 3}};   // pool[0] and pool[1]: same content, different identity
const char* const OTYPE[4] = {"TypeA", "TypeB", "TypeC", "TypeD"};   // A, D: comparator installed; B: copier only; C: nothing
// The comparators validate their arguments against the pool and never dereference anything else: being handed something
// that is not an object (e.g. the raw bytes of an int through a stale comparator) is recorded as an oracle failure.
bool g_cmp_bad = false; std::string g_cmp_bad_msg;
bool in_pool(const void* p) { for (int i = 0; i < 4; i++) if (p == (const void*)&g_pool[i]) return true; return false; }
struct ContentComparator : MockNamedValueComparator {
    const char* name;
    explicit ContentComparator(const char* n) : name(n) {}
    bool isEqual(const void* a, const void* b) CPPUTEST_OVERRIDE {
        if (!in_pool(a) || !in_pool(b)) {
            if (!g_cmp_bad) g_cmp_bad_msg = sfmt("the %s comparator was called with (%s, %s)", name, in_pool(a) ? "an object" : "something that is not an object", in_pool(b) ? "an object" : "something that is not an object");
            g_cmp_bad = true; return false;
        }
        return ((const Obj*)a)->v == ((const Obj*)b)->v;
    }
    SimpleString valueToString(const void* a) CPPUTEST_OVERRIDE { return in_pool(a) ? StringFrom(((const Obj*)a)->v) : SimpleString("(not an object)"); }
};
struct NopCopier : MockNamedValueCopier { void copy(void*, const void*) CPPUTEST_OVERRIDE {} };
ContentComparator g_cmpA("TypeA"), g_cmpD("TypeD");
NopCopier g_copier;
MockNamedValueComparatorsAndCopiersRepository* g_repo;

const double DVALS[] = {0.0, -0.0, 1.0, -1.0, 0.005, 1.005, 0.995, 1.0 + DBL_EPSILON, 4.9406564584124654e-324, -4.9406564584124654e-324,
                        DBL_MIN, DBL_MAX, -DBL_MAX, (double)INFINITY, -(double)INFINITY, (double)NAN, 1e308, 3.0};
const size_t NDVALS = sizeof DVALS / sizeof DVALS[0];
// index 0: the default tolerance through the one-argument setter
const double DTOLS[] = {0.005, 0.0, 0.005, 4.9406564584124654e-324, DBL_EPSILON, 1.0, DBL_MAX, (double)INFINITY, (double)NAN};
const size_t NDTOLS = sizeof DTOLS / sizeof DTOLS[0];
double bits2d(uint64_t b) { double d; memcpy(&d, &b, 8); return d; }
std::string d2s(double d) { uint64_t b; memcpy(&b, &d, 8); return sfmt("%.17g[%016llx]", d, (unsigned long long)b); }

struct Val {
    int kind = K_INT;
    int prefill = 0;
    i128 iv = 0;                 // integers
    bool b = false;              // bool
    int pidx = 0;                // pointer kinds
    bool fnpool = false;         // void* / const void* holding a function's address (aliased pointer kinds)
    const char* ext = nullptr;   // aliased operands: points into storage owned by the case, not by this value
    bool is_null = false;        // string / membuf
    std::string bytes;           // string content / buffer content
    double d = 0, tol = 0.005; bool tol_default = true;
    int otype = 0, oidx = 0; bool repo_on = true;
    // recycled operand: earlier values set on the same MockNamedValue object (the judged value is this descriptor, set last)
    std::vector<std::unique_ptr<Val>> history;
    bool store_neighbours_ok = true;
    bool via_store = false;      // history executed through mock().setData* on one name, value fetched with getData
    // materialised
    MockNamedValue* mv = nullptr;
    char* buf = nullptr;
    ~Val() { delete mv; free(buf); }
    Val() {}
    Val(const Val&) = delete;
    void* addr() const { return pidx == 0 ? NULLPTR : ((fnpool || kind == K_FPTR) ? (void*)g_fns[pidx] : (void*)&g_ptr_targets[pidx]); }
    int addr_key() const { return pidx == 0 ? 0 : ((fnpool || kind == K_FPTR) ? 4 : 0) + pidx; }
    bool has_cmp() const { return repo_on && (otype == 0 || otype == 3); }
    std::string tag() const { return (kind == K_OBJ || kind == K_COBJ) ? std::string(OTYPE[otype]) : std::string(KNAME[kind]); }
    std::string render() const {
        std::string p = prefill ? sfmt("{prefill%d}", prefill) : "";
        switch (kind) {
        case K_BOOL: return p + sfmt("bool:%d", (int)b);
        case K_PTR: case K_CPTR: case K_FPTR: return p + sfmt("%s:#%d%s", KNAME[kind], pidx, fnpool ? "(fn address)" : "");
        case K_STR: return p + (is_null ? std::string("string:NULL") : "string:\"" + verif::printable(bytes) + "\"");
        case K_MEM: return p + (is_null ? std::string("membuf:NULL/0") : sfmt("membuf[%zu]:\"", bytes.size()) + verif::printable(bytes) + "\"");
        case K_DBL: return p + "double:" + d2s(d) + (tol_default ? std::string("~default") : "~" + d2s(tol));
        case K_OBJ: case K_COBJ: return p + sfmt("%s:%s#%d(v=%d)%s", KNAME[kind], OTYPE[otype], oidx, g_pool[oidx].v, repo_on ? "" : "[no repository]");
        default: return p + std::string(KNAME[kind]) + ":" + i2s(iv);
        }
    }
    const char* stored_ptr() const { return ext ? ext : buf; }   // what was handed to setValue(const char*) / setMemoryBuffer
    const char* cstr() {   // exact-size private copy: ASan sees over-reads
        if (ext) return ext;
        if (!is_null && !buf) { buf = (char*)malloc(bytes.size() + 1); memcpy(buf, bytes.c_str(), bytes.size() + 1); }
        return buf;
    }
    // set this value on m (a fresh object, or one that already holds earlier values)
    void apply(MockNamedValue& m) {
        switch (kind) {
        case K_BOOL: m.setValue(b); break;
        case K_PTR: m.setValue(addr()); break;
        case K_CPTR: m.setValue((const void*)addr()); break;
        case K_FPTR: m.setValue(g_fns[pidx]); break;
        case K_STR: m.setValue(cstr()); break;
        case K_MEM:
            if (ext) { m.setMemoryBuffer((const unsigned char*)ext, bytes.size()); break; }
            if (!is_null) { buf = (char*)malloc(bytes.size() ? bytes.size() : 1); memcpy(buf, bytes.data(), bytes.size()); }
            m.setMemoryBuffer((const unsigned char*)buf, bytes.size()); break;
        case K_DBL: if (tol_default) m.setValue(d); else m.setValue(d, tol); break;
        case K_OBJ: case K_COBJ:
            MockNamedValue::setDefaultComparatorsAndCopiersRepository(repo_on ? g_repo : NULLPTR);
            if (kind == K_OBJ) m.setObjectPointer(OTYPE[otype], &g_pool[oidx]); else m.setConstObjectPointer(OTYPE[otype], &g_pool[oidx]);
            MockNamedValue::setDefaultComparatorsAndCopiersRepository(NULLPTR);
            break;
        default: set_int(m, kind, iv); break;
        }
    }
    // MockSupport's data store has overloads for these only
    bool store_compatible() const {
        switch (kind) {
        case K_INT: case K_UINT: case K_BOOL: case K_PTR: case K_CPTR: case K_FPTR: case K_OBJ: case K_COBJ: return true;
        case K_STR: return true;
        case K_DBL: return tol_default;
        default: return false;
        }
    }
    void store_set(const char* name) {   // mock() installs its own repository (same comparators / copiers as g_repo)
        switch (kind) {
        case K_INT: mock().setData(name, (int)iv); break;
        case K_UINT: mock().setData(name, (unsigned int)iv); break;
        case K_BOOL: mock().setData(name, b); break;
        case K_PTR: mock().setData(name, addr()); break;
        case K_CPTR: mock().setData(name, (const void*)addr()); break;
        case K_FPTR: mock().setData(name, g_fns[pidx]); break;
        case K_STR: mock().setData(name, cstr()); break;
        case K_DBL: mock().setData(name, d); break;
        case K_OBJ: mock().setDataObject(name, OTYPE[otype], &g_pool[oidx]); break;
        default: mock().setDataConstObject(name, OTYPE[otype], &g_pool[oidx]); break;
        }
    }
    void materialise(const char* slot) {
        if (history.empty()) {
            mv = new MockNamedValue("p");
            // the value object is a tagged union: fill the whole union first so that a read of the wrong member is visible
            if (prefill == 1) mv->setValue((unsigned long long)0xA5FFFFFFFFFFFFFFULL);
            else if (prefill == 2) mv->setValue(bits2d(0xFFF7A5A5A5A5A5A5ULL), bits2d(0x7FF0000000000001ULL));
            apply(*mv);
        } else if (via_store) {
            // decoys around the slot (a longer name first, a prefix of the name last): the lookup by name has to walk the
            // list and match the whole name; a decoy coming back is caught by the type / text / equality judgements
            std::string longer = std::string(slot) + "-decoy", prefix = std::string(slot).substr(0, strlen(slot) - 1);
            mock().setData(longer.c_str(), "decoy value");
            for (auto& h : history) h->store_set(slot);
            mock().setData(prefix.c_str(), "decoy value");
            store_set(slot);
            mock().setData((prefix + "?").c_str(), 24242);
            mv = new MockNamedValue(mock().getData(slot));
            {   // the neighbours must still hold their own values (a lookup that matches a wrong name writes into them)
                MockNamedValue d1 = mock().getData(longer.c_str()), d2 = mock().getData(prefix.c_str()), d3 = mock().getData((prefix + "?").c_str()), d4 = mock().getData((std::string(slot) + "-absent").c_str());
                store_neighbours_ok = std::string(d1.getType().asCharString()) == "const char*" && std::string(d1.toString().asCharString()) == "decoy value"
                    && std::string(d2.getType().asCharString()) == "const char*" && std::string(d2.toString().asCharString()) == "decoy value"
                    && std::string(d3.getType().asCharString()) == "int" && std::string(d3.toString().asCharString()) == "24242 (0x5eb2)"
                    && std::string(d4.getName().asCharString()).empty();
            }
            MockNamedValue::setDefaultComparatorsAndCopiersRepository(NULLPTR);
        } else {
            mv = new MockNamedValue("p");
            for (auto& h : history) h->apply(*mv);
            apply(*mv);
        }
    }
    // OUT OF DOMAIN (maintainer's decision, see notes/C09.md "Observation (not judged)"): the judged value is an object set
    // while NO default repository is installed and an earlier step of the history left a comparator or copier on the value
    // object.  The object setters only touch comparator_/copier_ when a repository is installed, so the old ones stay; the
    // statement says nothing about custom objects and mock() always installs its repository.  Such a pair is not judged.
    bool object_without_repository_after_comparator() const {
        if (history.empty() || via_store || !(kind == K_OBJ || kind == K_COBJ) || repo_on) return false;
        bool left = false;
        for (auto& h : history) if ((h->kind == K_OBJ || h->kind == K_COBJ) && h->repo_on) left = (h->otype != 2);   // TypeA/D comparator, TypeA/B copier, TypeC nothing
        return left;
    }
    std::string render_history() const {
        if (history.empty()) return "";
        std::string o = via_store ? " via mock().setData*: " : " on one object: ";
        for (auto& h : history) o += h->render() + " -> ";
        return "[history" + o + "this]";
    }
};

i128 gen_int(Reader& r, int t) {
    uint32_t c = r.below(16);   // 10/16 lattice, 5/16 random 64-bit pattern cut to the type, 1/16 small number
    if (c < 10) return g_lattice[t][r.below((uint32_t)g_lattice[t].size())];
    if (c < 15) return wrap_to(t, (i128)r.u64());
    i128 s = r.u8(); bool neg = r.flag();
    return (neg && lo_of(t) < 0) ? -s : s;
}
void gen_tol(Reader& r, Val& v) {
    uint32_t ti = r.below((uint32_t)NDTOLS + 1);
    if (ti == NDTOLS) { v.tol = fabs(bits2d(r.u64())); v.tol_default = false; }   // never negative (A.5)
    else { v.tol = DTOLS[ti]; v.tol_default = (ti == 0); }
}
void gen_val(Reader& r, Val& v) {
    uint32_t sel = r.below(40);   // 15 kinds once, then 25 more integer slots: integers 77.5 %, every other kind 2.5 %
    v.kind = sel < (uint32_t)K_N ? (int)sel : (int)((sel - K_N) % 6);
    v.prefill = (int)r.below(3);
    switch (v.kind) {
    case K_BOOL: v.b = r.flag(); break;
    case K_PTR: case K_CPTR: case K_FPTR: v.pidx = (int)r.below(4); break;
    case K_STR: if (r.below(8) == 7) v.is_null = true; else v.bytes = r.str(4, "abA"); break;
    case K_MEM: if (r.below(8) == 7) v.is_null = true; else v.bytes = r.str(6, "\0\1a\xff", 4); break;
    case K_DBL:
        if (r.below(4) < 3) v.d = DVALS[r.below((uint32_t)NDVALS)]; else v.d = bits2d(r.u64());
        gen_tol(r, v); break;
    case K_OBJ: case K_COBJ: v.otype = (int)r.below(4); v.oidx = (int)r.below(4); v.repo_on = r.below(4) != 3; break;
    default: v.iv = gen_int(r, v.kind); break;
    }
}
// B from A.  rel 1: same payload; 2: neighbouring payload; 3: wrap alias (integers) / sibling kind with the same payload
void derive_val(Reader& r, const Val& a, uint32_t rel, Val& v) {
    v.prefill = (int)r.below(3);
    if (is_int(a.kind)) {
        int tb = (int)r.below(6);
        i128 cand = a.iv;
        if (rel == 2) cand = a.iv + (r.flag() ? 1 : -1);
        else if (rel == 3) {
            switch (r.below(4)) {
            case 0: cand = (i128)(uint32_t)(uint64_t)a.iv; break;                // low 32 bits, zero-extended
            case 1: cand = (i128)(int32_t)(uint32_t)(uint64_t)a.iv; break;       // low 32 bits, sign-extended
            case 2: cand = a.iv < 0 ? a.iv + P64 : a.iv - P64; break;            // the other reading of the same 64 bits
            default: cand = a.iv < 0 ? a.iv + P32 : a.iv - P32; break;           // the other reading of the same 32 bits
            }
        }
        v.kind = tb;
        v.iv = fits(tb, cand) ? cand : wrap_to(tb, cand);
        return;
    }
    v.kind = a.kind;
    v.b = a.b; v.pidx = a.pidx; v.is_null = a.is_null; v.bytes = a.bytes; v.d = a.d; v.otype = a.otype; v.oidx = a.oidx;
    if (a.kind == K_DBL) gen_tol(r, v);
    if (a.kind == K_OBJ || a.kind == K_COBJ) { v.repo_on = r.below(4) != 3; v.kind = r.flag() ? K_COBJ : K_OBJ; }
    if (rel == 1) return;
    if (rel == 2) {
        switch (a.kind) {
        case K_BOOL: v.b = !a.b; break;
        case K_PTR: case K_CPTR: case K_FPTR: v.pidx = (a.pidx + 1 + (int)r.below(3)) % 4; break;
        case K_STR: {
            uint32_t c = r.below(4);
            if (a.is_null) { v.is_null = false; v.bytes = c == 0 ? "" : "a"; break; }
            if (c == 0) { if (!v.bytes.empty()) v.bytes.pop_back(); else v.is_null = true; }
            else if (c == 1) v.bytes.push_back('a');
            else if (c == 2) { if (!v.bytes.empty()) v.bytes[0] = (char)(v.bytes[0] ^ 0x20); else v.bytes = "A"; }
            else { if (!v.bytes.empty()) v.bytes.back() = (v.bytes.back() == 'a' ? 'b' : 'a'); else v.bytes = "b"; }
            break; }
        case K_MEM: {
            uint32_t c = r.below(4);
            if (a.is_null) { v.is_null = false; v.bytes = c == 0 ? std::string() : std::string(1, '\0'); break; }
            if (c == 0) { if (!v.bytes.empty()) v.bytes.pop_back(); else v.is_null = true; }
            else if (c == 1) v.bytes.push_back((char)r.pick((const unsigned char[]){0, 1, 'a', 0xff}));
            else if (c == 2) { if (!v.bytes.empty()) v.bytes.back() = (char)(v.bytes.back() ^ 1); else v.bytes = std::string(1, '\1'); }
            else { if (!v.bytes.empty()) v.bytes[0] = (char)(v.bytes[0] ^ 0x80); else v.bytes = std::string(1, '\xff'); }
            break; }
        case K_DBL: {
            double t = a.tol;
            switch (r.below(7)) {
            case 0: v.d = a.d + t; break;
            case 1: v.d = a.d - t; break;
            case 2: v.d = nextafter(a.d + t, (double)INFINITY); break;
            case 3: v.d = nextafter(a.d - t, -(double)INFINITY); break;
            case 4: v.d = -a.d; break;
            case 5: v.d = nextafter(a.d, (double)INFINITY); break;
            default: v.d = nextafter(a.d + t, -(double)INFINITY); break;
            }
            break; }
        default: v.oidx = (int)r.below(4); break;
        }
        return;
    }
    // rel 3: sibling kind, same payload
    switch (a.kind) {
    case K_BOOL: v.kind = (int)r.below(6); v.iv = a.b ? 1 : 0; break;
    case K_PTR: v.kind = r.flag() ? K_FPTR : K_CPTR; break;
    case K_CPTR: v.kind = r.flag() ? K_FPTR : K_PTR; break;
    case K_FPTR: v.kind = r.flag() ? K_CPTR : K_PTR; break;
    case K_STR: v.kind = K_MEM; if (a.is_null) v.bytes.clear(); break;
    case K_MEM: v.kind = K_STR; { size_t z = v.bytes.find('\0'); if (z != std::string::npos) v.bytes.resize(z); } break;
    case K_DBL: v.kind = (int)r.below(6); v.iv = (a.d == 1.0) ? 1 : 0; break;
    default: v.otype = (a.otype + 1 + (int)r.below(3)) % 4; break;
    }
}

// RECYCLED operand: 1..3 earlier setters on the same object; half of the steps are objects (the values that install a
// comparator / copier), the rest any kind.
void gen_val(Reader& r, Val& v);
void gen_history(Reader& r, Val& v) {
    uint32_t n = 1 + r.below(3);
    bool store = r.flag();
    for (uint32_t i = 0; i < n; i++) {
        std::unique_ptr<Val> h(new Val());
        if (r.flag()) gen_val(r, *h);
        else { h->kind = r.flag() ? K_COBJ : K_OBJ; h->otype = (int)r.below(4); h->oidx = (int)r.below(4); h->repo_on = r.below(4) != 3; }
        v.history.push_back(std::move(h));
    }
    bool compat = v.store_compatible() && !v.ext;
    for (auto& h : v.history) compat = compat && h->store_compatible();
    v.via_store = store && compat;
    if (v.via_store) {   // mock() always installs its repository
        v.repo_on = true;
        for (auto& h : v.history) h->repo_on = true;
    }
}

// ALIASED operands: A and B refer to the same storage (owned by `st`).  Returns a class name for the histogram.
struct Storage { char* p = nullptr; ~Storage() { free(p); } };
std::string gen_alias(Reader& r, Val& a, Val& b, Storage& st, bool& distinct_views) {
    uint32_t sub = r.below(4);
    a.prefill = (int)r.below(3); b.prefill = (int)r.below(3);
    switch (sub) {
    case 0: {   // two sub-ranges of one exact-size block
        std::string S = r.str(8, "a\0\xff", 3);
        uint32_t n = (uint32_t)S.size();
        st.p = (char*)malloc(n ? n : 1); memcpy(st.p, S.data(), n);
        uint32_t oa = r.below(n + 1), la = r.below(n - oa + 1), ob = r.flag() ? r.below(n + 1) : oa, lb = r.below(n - ob + 1);   // half the cases: same pointer
        a.kind = b.kind = K_MEM;
        a.bytes = S.substr(oa, la); a.ext = st.p + oa;
        b.bytes = S.substr(ob, lb); b.ext = st.p + ob;
        distinct_views = (oa != ob || la != lb);
        if (oa == ob) return la == lb ? "alias:membuf:same-pointer-same-length" : (la == 0 || lb == 0) ? "alias:membuf:same-pointer-zero-vs-nonzero-length" : "alias:membuf:same-pointer-different-length";
        bool overlap = (oa < ob + lb && ob < oa + la);
        return overlap ? "alias:membuf:overlapping-ranges" : "alias:membuf:disjoint-ranges-of-one-block"; }
    case 1: {   // two pointers into one NUL-terminated block; B may also be a buffer on that address
        std::string S = r.str(6, "abA");
        uint32_t n = (uint32_t)S.size();
        st.p = (char*)malloc(n + 1); memcpy(st.p, S.c_str(), n + 1);
        uint32_t oa = r.below(n + 1), ob = r.flag() ? r.below(n + 1) : oa;
        a.kind = K_STR; a.bytes = S.substr(oa); a.ext = st.p + oa;
        if (r.below(4) == 3) {
            uint32_t lb = r.below(n + 1 - ob + 1);   // may include the terminating NUL
            b.kind = K_MEM; b.bytes = std::string(st.p + ob, lb); b.ext = st.p + ob;
            distinct_views = true;
            return oa == ob ? "alias:string-vs-membuf:same-address" : "alias:string-vs-membuf:same-block";
        }
        b.kind = K_STR; b.bytes = S.substr(ob); b.ext = st.p + ob;
        distinct_views = (oa != ob);
        return oa == ob ? "alias:string:same-pointer" : "alias:string:pointer-into-the-other-string"; }
    case 2: {   // one object under independent type names / repository settings / const-ness
        a.oidx = b.oidx = (int)r.below(4);
        a.otype = (int)r.below(4); b.otype = (int)r.below(4);
        a.repo_on = r.below(4) != 3; b.repo_on = r.below(4) != 3;
        a.kind = r.flag() ? K_COBJ : K_OBJ; b.kind = r.flag() ? K_COBJ : K_OBJ;
        distinct_views = (a.otype != b.otype || a.has_cmp() != b.has_cmp());
        if (a.otype != b.otype) return "alias:object:same-address-different-type-name";
        return (a.has_cmp() && b.has_cmp()) ? "alias:object:same-address-same-type-with-comparator" : (a.has_cmp() || b.has_cmp()) ? "alias:object:same-address-same-type-one-side-has-comparator" : "alias:object:same-address-same-type-no-comparator"; }
    default: {  // one address (a function's, or NULL) under two of the three pointer kinds
        a.pidx = b.pidx = (int)r.below(4);
        a.fnpool = b.fnpool = true;
        a.kind = K_PTR + (int)r.below(3); b.kind = K_PTR + (int)r.below(3);
        distinct_views = (a.kind != b.kind);
        return a.kind == b.kind ? "alias:pointer:same-address-same-kind" : "alias:pointer:same-address-across-kinds"; }
    }
}

// expected answer of recv.equals(arg): 1 true, 0 false, -1 not judged
int expected(const Val& x, const Val& y, const char** why) {
    *why = "";
    if (is_int(x.kind) && is_int(y.kind)) { *why = "integers compare by mathematical value"; return x.iv == y.iv ? 1 : 0; }
    if (x.tag() != y.tag()) { *why = "different types never compare equal"; return 0; }
    switch (x.kind) {
    case K_BOOL: *why = "bool by identity"; return x.b == y.b;
    case K_PTR: case K_CPTR: case K_FPTR: *why = "pointer by identity"; return x.addr_key() == y.addr_key();
    case K_STR:
        *why = "string by content";
        if (x.is_null && y.is_null) return 1;
        if (x.is_null || y.is_null) return (x.bytes.empty() && y.bytes.empty()) ? -1 : 0;   // NULL vs "": the statement gives no rule
        return x.bytes == y.bytes;
    case K_MEM: *why = "memory buffer by length and content"; return x.bytes == y.bytes;
    case K_DBL: {
        *why = "double: NaN unequal; same value equal; else |a-b| <= receiver's tolerance";
        double a = x.d, b = y.d, t = x.tol;
        if (a != a || b != b) return 0;
        if (t != t) return a == b ? -1 : 0;          // NaN tolerance on identical values: not judged
        if (a == b) return 1;
        return fabs(a - b) <= t ? 1 : 0; }
    default:
        *why = "custom object: receiver's comparator decides, no comparator -> unequal";
        if (!x.has_cmp()) return 0;
        return g_pool[x.oidx].v == g_pool[y.oidx].v;
    }
}

struct GetterCall { const MockNamedValue* v; int getter; bool returned; i128 result; };
void getter_body(void* p) {
    GetterCall* g = (GetterCall*)p;
    switch (g->getter) {
    case 0: g->result = g->v->getIntValue(); break;
    case 1: g->result = g->v->getUnsignedIntValue(); break;
    case 2: g->result = g->v->getLongIntValue(); break;
    case 3: g->result = g->v->getUnsignedLongIntValue(); break;
    case 4: g->result = g->v->getLongLongIntValue(); break;
    default: g->result = g->v->getUnsignedLongLongIntValue(); break;
    }
    g->returned = true;
}
std::string sig_getter(const char* what, int getter, int stored) { return sfmt("C09:getter-%s:%s:%s", what, GETTER[getter], KNAME[stored]); }
const char* const KEY_LL_OF_UL = "C09:getter-wrong-number:getLongLongIntValue:unsigned-long-int";
const char* const KEY_OPP_INF = "C09:doubles-opposite-infinities";

// one getter call inside a private one-test fixture
int check_getter(const MockNamedValue& mv, int stored, i128 value, int getter, bool count) {
    if (stored == K_ULONG && getter == 4 && value > (i128)LLONG_MAX && verif::known(KEY_LL_OF_UL)) return 0;   // known finding: skip this one call
    GetterCall g = {&mv, getter, false, 0};
    verif::FixtureRun fr = verif::run_in_fixture(getter_body, &g);
    bool representable = fits(getter, value);
    if (count) verif::cls(sfmt("getter:%s-of-%s:%s", GETTER[getter] + 3, KNAME[stored], fr.failures ? "fails" : "returns").c_str());
    if (fr.failures == 0) {
        if (!g.returned)
            return verif::fail(sig_getter("vanished", getter, stored).c_str(), "%s() of a stored %s %s neither returned nor failed the test", GETTER[getter], KNAME[stored], i2s(value).c_str());
        if (g.result != value)
            return verif::fail(sig_getter("wrong-number", getter, stored).c_str(), "%s() of a stored %s %s returned %s without failing the test (%s)", GETTER[getter], KNAME[stored],
                               i2s(value).c_str(), i2s(g.result).c_str(), representable ? "value is representable in the getter's type" : "value is not representable in the getter's type: the test must fail");
    } else {
        if (getter == stored)
            return verif::fail(sig_getter("same-type-failed", getter, stored).c_str(), "%s() of a stored %s %s failed the test: %s", GETTER[getter], KNAME[stored], i2s(value).c_str(), fr.output.substr(0, 300).c_str());
    }
    return 0;
}

int judge_equals(const Val& x, const Val& y, bool got, const char* dir) {
    const char* why;
    int exp = expected(x, y, &why);
    if (exp < 0 || exp == (int)got) return 0;
    std::string sig;
    if (is_int(x.kind) && is_int(y.kind)) sig = sfmt("C09:integer-equals-wrong:%s:%s", KNAME[x.kind], KNAME[y.kind]);
    else if (x.tag() != y.tag()) sig = "C09:different-types-compare-equal";
    else if (x.kind == K_DBL) {
        bool opp_inf = std::isinf(x.d) && std::isinf(y.d) && x.d != y.d;
        if (opp_inf) { if (verif::known(KEY_OPP_INF)) return 0; sig = KEY_OPP_INF; }   // known finding (C03's doubles_equal): accept the known answer
        else sig = "C09:double-equals-wrong";
    }
    else sig = sfmt("C09:%s-equals-wrong", KNAME[x.kind == K_COBJ ? K_OBJ : x.kind]);
    return verif::fail(sig.c_str(), "%s: (%s%s).equals(%s%s) returned %s, expected %s [%s]", dir, x.render().c_str(), x.render_history().c_str(), y.render().c_str(), y.render_history().c_str(), got ? "true" : "false", exp ? "true" : "false", why);
}

// ---- read-back of non-integer payloads, cross-kind reads, getType, toString ----
const char* const TYPENAME[K_N] = {"int", "unsigned int", "long int", "unsigned long int", "long long int", "unsigned long long int",
                                   "bool", "void*", "const void*", "void (*)()", "const char*", "const unsigned char*", "double", "", ""};
const char* const TGETTER[8] = {"getBoolValue", "getDoubleValue", "getDoubleTolerance", "getStringValue", "getPointerValue",
                                "getConstPointerValue", "getFunctionPointerValue", "getMemoryBuffer"};
const int TKIND[8] = {K_BOOL, K_DBL, K_DBL, K_STR, K_PTR, K_CPTR, K_FPTR, K_MEM};
struct ReadCall { const MockNamedValue* v; int getter; bool returned; bool rb; double rd; const void* rp; Fn rf; };
void read_body(void* p) {
    ReadCall* g = (ReadCall*)p;
    switch (g->getter) {
    case 0: g->rb = g->v->getBoolValue(); break;
    case 1: g->rd = g->v->getDoubleValue(); break;
    case 2: g->rd = g->v->getDoubleTolerance(); break;
    case 3: g->rp = g->v->getStringValue(); break;
    case 4: g->rp = g->v->getPointerValue(); break;
    case 5: g->rp = g->v->getConstPointerValue(); break;
    case 6: g->rf = g->v->getFunctionPointerValue(); break;
    default: g->rp = g->v->getMemoryBuffer(); break;
    }
    g->returned = true;
}
bool same_bits(double a, double b) { return memcmp(&a, &b, sizeof a) == 0; }
// typed getter `getter` (0..7) on operand v
int check_typed_read(const Val& v, int getter) {
    ReadCall g = {v.mv, getter, false, false, 0, nullptr, nullptr};
    verif::FixtureRun fr = verif::run_in_fixture(read_body, &g);
    bool same_kind = (v.kind == TKIND[getter]);
    if (same_kind) {
        verif::cls(sfmt("read:%s-of-%s:%s", TGETTER[getter] + 3, KNAME[v.kind], fr.failures ? "fails" : "returns").c_str());
        if (fr.failures || !g.returned)
            return verif::fail(sfmt("C09:getter-same-type-failed:%s:%s", TGETTER[getter], KNAME[v.kind]).c_str(), "%s() of (%s%s) failed the test: %s", TGETTER[getter], v.render().c_str(), v.render_history().c_str(), fr.output.substr(0, 300).c_str());
        bool ok = true; std::string got;
        switch (getter) {
        case 0: ok = (g.rb == v.b); got = g.rb ? "true" : "false"; break;
        case 1: ok = same_bits(g.rd, v.d); got = d2s(g.rd); break;
        case 2: ok = same_bits(g.rd, v.tol); got = d2s(g.rd); break;
        case 3: ok = (g.rp == (const void*)v.stored_ptr()); got = g.rp ? "another pointer" : "NULL"; break;
        case 4: case 5: ok = (g.rp == v.addr()); got = g.rp ? "another address" : "NULL"; break;
        case 6: ok = (g.rf == g_fns[v.pidx]); got = g.rf ? "another function" : "NULL"; break;
        default: ok = (g.rp == (const void*)v.stored_ptr()); got = g.rp ? "another pointer" : "NULL"; break;
        }
        if (!ok)
            return verif::fail(sfmt("C09:getter-wrong-value:%s:%s", TGETTER[getter], KNAME[v.kind]).c_str(), "%s() of (%s%s) returned %s instead of exactly what was stored", TGETTER[getter], v.render().c_str(), v.render_history().c_str(), got.c_str());
        return 0;
    }
    verif::cls(sfmt("read:cross-kind:%s:%s", TGETTER[getter] + 3, fr.failures ? "fails" : "returns").c_str());
    if (fr.failures) return 0;
    // no failure recorded: only the identical address through the sibling void* / const void* getter is "exactly what was stored"
    if ((getter == 4 || getter == 5) && (v.kind == K_PTR || v.kind == K_CPTR) && g.returned && g.rp == v.addr()) return 0;
    return verif::fail(sfmt("C09:getter-cross-type-returned:%s:%s", TGETTER[getter], KNAME[v.kind]).c_str(), "%s() of (%s%s) returned a value without failing the test although the stored value has another type", TGETTER[getter], v.render().c_str(), v.render_history().c_str());
}
// integer getter on a non-integer operand: there is no integer to return, the test must fail
int check_integer_getter_on_other_kind(const Val& v, int getter) {
    GetterCall g = {v.mv, getter, false, 0};
    verif::FixtureRun fr = verif::run_in_fixture(getter_body, &g);
    verif::cls(sfmt("read:integer-getter-of-non-integer:%s", fr.failures ? "fails" : "returns").c_str());
    if (fr.failures) return 0;
    return verif::fail(sfmt("C09:getter-cross-type-returned:%s:%s", GETTER[getter], KNAME[v.kind]).c_str(), "%s() of (%s%s) returned %s without failing the test although no integer is stored", GETTER[getter], v.render().c_str(), v.render_history().c_str(), i2s(g.result).c_str());
}
std::string hexbytes(const std::string& b) { std::string o; for (size_t i = 0; i < b.size(); i++) { if (i) o += " "; o += sfmt("%02X", (unsigned char)b[i]); } return o; }
bool contains_nocase(const std::string& s, const char* w) { std::string a; for (char c : s) a.push_back((char)tolower((unsigned char)c)); return a.find(w) != std::string::npos; }
// getType() and toString() against an independent rendering of the stored value
int check_type_and_text(const Val& v, bool comparator_not_judged) {
    std::string type = v.mv->getType().asCharString();
    std::string want_type = (v.kind == K_OBJ || v.kind == K_COBJ) ? std::string(OTYPE[v.otype]) : std::string(TYPENAME[v.kind]);
    if (type != want_type)
        return verif::fail(sfmt("C09:type-name-wrong:%s", KNAME[v.kind]).c_str(), "getType() of (%s%s) is \"%s\", expected \"%s\"", v.render().c_str(), v.render_history().c_str(), type.c_str(), want_type.c_str());
    SimpleString rendered = v.mv->toString();
    const char* cs = rendered.asCharString();
    std::string text = cs ? cs : "(NULL)", want; bool ok;
    switch (v.kind) {
    case K_INT: want = sfmt("%d (0x%x)", (int)v.iv, (unsigned)(int)v.iv); break;
    case K_UINT: want = sfmt("%u (0x%x)", (unsigned)v.iv, (unsigned)v.iv); break;
    case K_LONG: want = sfmt("%ld (0x%lx)", (long)v.iv, (unsigned long)(long)v.iv); break;
    case K_ULONG: want = sfmt("%lu (0x%lx)", (unsigned long)v.iv, (unsigned long)v.iv); break;
    case K_LL: want = sfmt("%lld (0x%llx)", (long long)v.iv, (unsigned long long)(long long)v.iv); break;
    case K_ULL: want = sfmt("%llu (0x%llx)", (unsigned long long)v.iv, (unsigned long long)v.iv); break;
    case K_BOOL: want = v.b ? "true" : "false"; break;
    case K_PTR: case K_CPTR: case K_FPTR: want = sfmt("0x%lx", (unsigned long)(uintptr_t)v.addr()); break;
    case K_STR: want = v.is_null && !v.ext ? std::string() : v.bytes; break;
    case K_MEM: want = (v.is_null && !v.ext) ? std::string("(null)") : sfmt("Size = %u | HexContents = ", (unsigned)v.bytes.size()) + hexbytes(v.bytes); break;
    case K_DBL:
        if (v.d != v.d) { ok = contains_nocase(text, "nan"); want = "(a text naming NaN)"; goto judged; }
        if (std::isinf(v.d)) { ok = contains_nocase(text, "inf"); want = "(a text naming infinity)"; goto judged; }
        want = sfmt("%.6g", v.d); break;
    default:
        if (comparator_not_judged) return 0;
        want = v.has_cmp() ? sfmt("%d", g_pool[v.oidx].v) : sfmt("No comparator found for type: \"%s\"", OTYPE[v.otype]); break;
    }
    ok = (text == want);
judged:
    if (!ok)
        return verif::fail(sfmt("C09:toString-wrong:%s", KNAME[v.kind == K_COBJ ? K_OBJ : v.kind]).c_str(), "toString() of (%s%s) is \"%s\", expected \"%s\"", v.render().c_str(), v.render_history().c_str(), verif::printable(text).substr(0, 200).c_str(), verif::printable(want).c_str());
    return 0;
}
// the read-back of one operand; `x` is one input byte (0 = the getters of the stored kind)
int read_back(const Val& v, uint32_t x, bool comparator_not_judged) {
    if (check_type_and_text(v, comparator_not_judged)) return 1;
    if (is_int(v.kind)) {   // the integer getters have been swept already; sometimes also a typed getter, which must fail
        if (x % 16 == 1) return check_typed_read(v, (int)((x / 16) % 8));   // 1 in 16: a fixture with a failing check costs ~100 us
        return 0;
    }
    if (x % 4 != 0) {
        uint32_t g = (x / 4) % 14;
        return g < 8 ? check_typed_read(v, (int)g) : check_integer_getter_on_other_kind(v, (int)g - 8);
    }
    switch (v.kind) {   // the getter(s) of the stored kind
    case K_BOOL: return check_typed_read(v, 0);
    case K_DBL: return check_typed_read(v, 1) || check_typed_read(v, 2);
    case K_STR: return check_typed_read(v, 3);
    case K_PTR: return check_typed_read(v, 4);
    case K_CPTR: return check_typed_read(v, 5);
    case K_FPTR: return check_typed_read(v, 6);
    case K_MEM:
        if (v.mv->getSize() != v.bytes.size())
            return verif::fail("C09:getter-wrong-value:getSize:membuf", "getSize() of (%s%s) is %zu", v.render().c_str(), v.render_history().c_str(), v.mv->getSize());
        return check_typed_read(v, 7);
    default:   // objects: the two unchecked pointer getters return the stored address
        verif::cls("read:ObjectPointer-of-object");
        if (!comparator_not_judged) {   // comparator / copier as registered for the type name in the repository installed at set time
            MockNamedValueComparator* wc = v.has_cmp() ? (v.otype == 0 ? (MockNamedValueComparator*)&g_cmpA : (MockNamedValueComparator*)&g_cmpD) : NULLPTR;
            MockNamedValueCopier* wp = (v.repo_on && (v.otype == 0 || v.otype == 1)) ? (MockNamedValueCopier*)&g_copier : NULLPTR;
            if (v.mv->getComparator() != wc || v.mv->getCopier() != wp)
                return verif::fail("C09:getter-wrong-value:getComparator:object", "getComparator()/getCopier() of (%s%s) are not the ones registered for \"%s\" (%s repository)", v.render().c_str(), v.render_history().c_str(), OTYPE[v.otype], v.repo_on ? "with" : "without");
        }
        if (v.mv->getObjectPointer() != (void*)&g_pool[v.oidx] || v.mv->getConstObjectPointer() != (const void*)&g_pool[v.oidx])
            return verif::fail("C09:getter-wrong-value:getObjectPointer:object", "getObjectPointer()/getConstObjectPointer() of (%s%s) do not return the stored object", v.render().c_str(), v.render_history().c_str());
        return 0;
    }
}

int run_block(uint32_t k) {
    int ta = (int)(k / 6), tb = (int)(k % 6);
    verif::cls(sfmt("exhaustive-block:%s/%s", KNAME[ta], KNAME[tb]).c_str());
    Val a, b; a.kind = ta; b.kind = tb;
    a.mv = new MockNamedValue("a"); b.mv = new MockNamedValue("b");
    // different stale bytes in the two unions, so that a comparison through a wider member than the stored one is visible
    a.mv->setValue((unsigned long long)0xA5FFFFFFFFFFFFFFULL); b.mv->setValue((unsigned long long)0x5A00000000000000ULL);
    for (i128 va : g_lattice[ta]) {
        a.iv = va; set_int(*a.mv, ta, va);
        for (i128 vb : g_lattice[tb]) {
            b.iv = vb; set_int(*b.mv, tb, vb);
            bool ab = a.mv->equals(*b.mv), ba = b.mv->equals(*a.mv);
            if (verif::g_explain && ab) fprintf(stderr, "  %s == %s\n", a.render().c_str(), b.render().c_str());
            if (judge_equals(a, b, ab, "A.equals(B)")) return 1;
            if (judge_equals(b, a, ba, "B.equals(A)")) return 1;
        }
        if (check_getter(*a.mv, ta, va, tb, false)) return 1;
    }
    return 0;
}

int run_pair(Reader& r, uint32_t mode, bool& nontrivial, std::string& desc) {
    uint32_t rel = mode % 4;
    Storage st;            // declared before the values: they are destroyed first
    Val a, b;
    if (mode >= 240) {
        bool distinct_views = false;
        std::string c = gen_alias(r, a, b, st, distinct_views);
        verif::cls(c.c_str());
        if (distinct_views) nontrivial = true;
        desc = sfmt("A=%s B=%s ALIASED (%s)", a.render().c_str(), b.render().c_str(), c.c_str() + 6);
    } else {
        gen_val(r, a);
        if (rel == 0) gen_val(r, b); else derive_val(r, a, rel, b);
        desc = sfmt("A=%s B=%s rel=%u", a.render().c_str(), b.render().c_str(), rel);
        verif::cls(sfmt("relation:%u", rel).c_str());
    }
    if (mode >= 208 && mode < 240) {
        uint32_t which = r.below(3);   // 0: A, 1: B, 2: both
        Val* ops[2] = {&a, &b};
        for (int i = 0; i < 2; i++) {
            if (which != 2 && which != (uint32_t)i) continue;
            Val& v = *ops[i];
            gen_history(r, v);
            bool other_kind = false, had_cmp = false;
            for (auto& h : v.history) { if (h->tag() != v.tag()) other_kind = true; if ((h->kind == K_OBJ || h->kind == K_COBJ) && h->has_cmp()) had_cmp = true; }
            if (other_kind) nontrivial = true;
            verif::cls(v.via_store ? "recycled:through-mock-data-store" : "recycled:setters-on-one-object");
            verif::cls(sfmt("recycled:%s-history-of-%zu", i ? "B" : "A", v.history.size()).c_str());
            bool obj_final = (v.kind == K_OBJ || v.kind == K_COBJ);
            if (had_cmp) verif::cls(obj_final ? "recycled:object-with-comparator-then-object" : "recycled:object-with-comparator-then-native");
            else verif::cls(obj_final ? "recycled:other-then-object" : "recycled:other-then-native");
            desc += sfmt(" %s%s", i ? "B" : "A", v.render_history().c_str());
        }
    }
    if (verif::g_explain) fprintf(stderr, "  %s\n", desc.c_str());
    verif::cls(sfmt("pair:%s/%s", KNAME[a.kind], KNAME[b.kind]).c_str());
    g_cmp_bad = false;
    a.materialise("c09-slot-a"); b.materialise("c09-slot-b");
    bool ab = a.mv->equals(*b.mv), ba = b.mv->equals(*a.mv);
    if (a.via_store || b.via_store) { mock().clear(); MockNamedValue::setDefaultComparatorsAndCopiersRepository(NULLPTR); }
    desc += sfmt(" -> %d/%d", (int)ab, (int)ba);
    if (verif::g_explain) fprintf(stderr, "  A.equals(B)=%d B.equals(A)=%d\n", (int)ab, (int)ba);
    const char* why;
    { int e = expected(a, b, &why); verif::cls(e < 0 ? "expected:not-judged" : e ? "expected:equal" : "expected:unequal"); }
    if (is_int(a.kind) && is_int(b.kind)) {
        if (a.kind != b.kind && (boundary(a.iv) || boundary(b.iv))) nontrivial = true;
        if (a.iv != b.iv && wrap_to(a.kind, b.iv) == a.iv) verif::cls("integer-pair:wrap-alias");
    }
    if (!a.store_neighbours_ok || !b.store_neighbours_ok)
        return verif::fail("C09:data-store-lookup-wrong-entry", "after setting and reading the slot by name, a neighbouring entry of mock()'s data list (a longer name, a prefix of the name, an absent name) no longer holds its own value: %s", desc.c_str());
    if (g_cmp_bad)
        return verif::fail("C09:comparator-called-with-non-object", "%s while comparing %s", g_cmp_bad_msg.c_str(), desc.c_str());
    if (a.object_without_repository_after_comparator() || b.object_without_repository_after_comparator()) {
        // only the equals verdicts of this pair are skipped; the getter sweep of an integer operand below still runs
        verif::cls("out-of-domain:object-set-without-repository-after-comparator");
        static bool observed = false;
        if (!observed) { observed = true; verif::observe("not judged (out of domain): pairs with an object that was set while no default repository is installed, on a value object that still carries the comparator/copier of an earlier object value (see class out-of-domain:object-set-without-repository-after-comparator; example: corpus/C09/c09_namedvalue/out-of-domain-object-set-without-repository-after-comparator.bin)"); }
    } else {
        if (judge_equals(a, b, ab, "A.equals(B)")) return 1;
        if (judge_equals(b, a, ba, "B.equals(A)")) return 1;
        if (is_int(a.kind) && is_int(b.kind) && ab != ba)   // implied by the two judgements above; kept as the literal statement
            return verif::fail("C09:integer-equals-asymmetric", "(%s).equals(%s)=%d but the reverse=%d", a.render().c_str(), b.render().c_str(), (int)ab, (int)ba);
    }
    // getter sweep: every integer operand through two different getters chosen by the input, each call in its own fixture
    // (a fixture costs ~60 us; all 36 stored-type x getter combinations over the whole lattice are enumerated by the blocks)
    const Val* ops[2] = {&a, &b};
    for (const Val* v : ops) {
        if (!is_int(v->kind)) continue;
        int g1 = (int)r.below(6), g2 = (g1 + 1 + (int)r.below(5)) % 6;
        if (boundary(v->iv)) nontrivial = true;
        verif::cls(boundary(v->iv) ? "integer-operand:boundary" : "integer-operand:plain");
        desc += sfmt(" %s(%s)", GETTER[g1], v == &a ? "A" : "B");
        if (check_getter(*v->mv, v->kind, v->iv, g1, true)) return 1;
        desc += sfmt(" %s(%s)", GETTER[g2], v == &a ? "A" : "B");
        if (check_getter(*v->mv, v->kind, v->iv, g2, true)) return 1;
    }
    // read-back of both operands (bytes at the very end of the input: older inputs select the getters of the stored kind)
    for (const Val* v : ops)
        if (read_back(*v, r.u8(), v->object_without_repository_after_comparator())) return 1;
    return 0;
}

}  // namespace

extern "C" const char* verif_property(void) { return "C09"; }
extern "C" void verif_init(void) {
    build_lattices();
    verif::install_fake_time();
    g_repo = new MockNamedValueComparatorsAndCopiersRepository();
    g_repo->installComparator("TypeA", g_cmpA);
    g_repo->installCopier("TypeA", g_copier);
    g_repo->installCopier("TypeB", g_copier);
    g_repo->installComparator("TypeD", g_cmpD);
    mock().installComparatorsAndCopiers(*g_repo);   // the data-store histories run against mock()'s own repository
    MockNamedValue::setDefaultComparatorsAndCopiersRepository(NULLPTR);
    if (fn1 == fn2 || fn2 == fn3 || fn1 == fn3) { fprintf(stderr, "C09 harness: function pointer pool is not distinct\n"); abort(); }
}
extern "C" int verif_case(const uint8_t* data, size_t size) {
    Reader r(data, size);
    MockNamedValue::setDefaultComparatorsAndCopiersRepository(NULLPTR);
    bool nontrivial = false; std::string desc; int rc;
    uint32_t mode = r.u8();
    verif::cls(size < 12 ? "input:shorter-than-12-bytes" : "input:12-bytes-or-more");
    if (mode == 255) {
        uint32_t k = r.below(36);
        desc = sfmt("exhaustive block %s x %s (%zu x %zu lattice pairs, both directions; getter %s over lattice(%s))", KNAME[k / 6], KNAME[k % 6],
                    g_lattice[k / 6].size(), g_lattice[k % 6].size(), GETTER[k % 6], KNAME[k / 6]);
        if (verif::g_explain) fprintf(stderr, "  %s\n", desc.c_str());
        nontrivial = true;
        rc = run_block(k);
    } else {
        rc = run_pair(r, mode, nontrivial, desc);
    }
    MockNamedValue::setDefaultComparatorsAndCopiersRepository(NULLPTR);
    verif::note_case(nontrivial, r.h, [&] { return desc; });
    return rc;
}
extern "C" int verif_known_repro(const char* key) {
    std::string k(key);
    if (k == KEY_LL_OF_UL) {
        // an unsigned long above LLONG_MAX read as long long: must fail the test, returns -2^63 instead
        MockNamedValue v("p"); v.setValue((unsigned long int)1 << 63);
        GetterCall g = {&v, 4, false, 0};
        verif::FixtureRun fr = verif::run_in_fixture(getter_body, &g);
        return (fr.failures == 0 && g.returned && g.result != P63) ? 1 : 0;
    }
    if (k == KEY_OPP_INF) {
        MockNamedValue a("p"), b("p"); a.setValue((double)INFINITY, 0.005); b.setValue(-(double)INFINITY, 0.005);
        return (a.equals(b) || b.equals(a)) ? 1 : 0;
    }
    return -1;
}
