// C17 — pointers set for a test are restored after it; plugin actions nest properly; removal by name removes exactly that plugin.
// Part (a): 1..4 consecutive scripted tests in a private registry with a SetPointerPlugin; every test redirects (UT_PTR_SET)
//           or plainly writes some of 40 target pointers in setup / body / teardown and ends each phase by passing, failing
//           or throwing.  An observer plugin installed last samples all targets in its pre action (before everything) and
//           in its post action (after every other post action).
// Part (b): 0..7 uniquely named recording plugins; interleaved install / removePluginByName / getPluginByName /
//           countPlugins / enable / disable / resetPlugins / run-one-test; the model is a std::vector of plugin ids.
// Oracle:  (a) array model of the targets; (b) list model.  ASan guards the 32-entry table (a global with redzones).
#include "common.h"
#include <stdexcept>

using verif::Reader;
using verif::sfmt;

namespace {

struct CaptureOutput : TestOutput {
    std::string text;
    void printBuffer(const char* s) CPPUTEST_OVERRIDE { text += s; }
    void flush() CPPUTEST_OVERRIDE {}
};

const char* KEY_REMOVE = "C17:removePluginByName-beyond-second-position";

// =================================================================================================================
// part (a)
const int NT = 40;
void* g_target[NT];
inline void* val(uint32_t v) { return (void*)(uintptr_t)(0x2000 + v); }
inline void* base_val(int t) { return (void*)(uintptr_t)(0x1000 + (unsigned)t); }

enum { S_REDIRECT, S_PLAIN, S_BURST };
enum { O_PASS, O_FAIL, O_THROW_INT, O_THROW_STD };
struct Step { int kind; int target; uint32_t value; int count; int stride; };
struct Phase { std::vector<Step> steps; int outcome; };
struct TestScript { Phase ph[3]; };

class ScriptTest : public Utest {
public:
    const TestScript* s_;
    explicit ScriptTest(const TestScript* s) : s_(s) {}
    static void run_phase(const Phase& p) {
        for (const Step& st : p.steps) {
            switch (st.kind) {
            case S_REDIRECT: UT_PTR_SET(g_target[st.target], val(st.value)); break;
            case S_PLAIN: g_target[st.target] = val(st.value); break;
            case S_BURST: for (int i = 0; i < st.count; i++) UT_PTR_SET(g_target[(st.target + i * st.stride) % NT], val(st.value + (uint32_t)i)); break;
            }
        }
        switch (p.outcome) {
        case O_FAIL: FAIL("scripted failure"); break;
        case O_THROW_INT: throw 42;
        case O_THROW_STD: throw std::runtime_error("scripted exception");
        default: break;
        }
    }
    void setup() CPPUTEST_OVERRIDE { run_phase(s_->ph[0]); }
    void testBody() CPPUTEST_OVERRIDE { run_phase(s_->ph[1]); }
    void teardown() CPPUTEST_OVERRIDE { run_phase(s_->ph[2]); }
};
class ScriptShell : public UtestShell {
public:
    const TestScript* s_;
    ScriptShell() : UtestShell("C17", "scripted", "c17_plugins.cpp", 1), s_(NULLPTR) {}
    Utest* createTest() CPPUTEST_OVERRIDE { return new ScriptTest(s_); }
};

struct Sample { void* v[NT]; size_t failures; };
class Observer : public TestPlugin {
public:
    std::vector<Sample> pre, post;
    Observer() : TestPlugin("observer") {}
    static Sample take(TestResult& r) { Sample s; for (int i = 0; i < NT; i++) s.v[i] = g_target[i]; s.failures = r.getFailureCount(); return s; }
    void preTestAction(UtestShell&, TestResult& r) CPPUTEST_OVERRIDE { pre.push_back(take(r)); }
    void postTestAction(UtestShell&, TestResult& r) CPPUTEST_OVERRIDE { post.push_back(take(r)); }
};
class QuietPlugin : public TestPlugin { public: explicit QuietPlugin(const char* n) : TestPlugin(n) {} };

const char* outcome_name(int o) { static const char* n[] = {"pass", "FAIL", "throw-int", "throw-std"}; return n[o]; }
const char* phase_name(int p) { static const char* n[] = {"setup", "body", "teardown"}; return n[p]; }

Phase gen_phase(Reader& r, std::string& desc, int& last_target) {
    Phase p;
    int nsteps = (int)r.below(5);
    for (int i = 0; i < nsteps; i++) {
        Step st{S_REDIRECT, 0, 0, 1, 0};
        uint32_t k = r.below(8);
        st.target = (int)r.below(NT);
        st.value = r.below(200);
        if (k <= 2) { st.kind = S_REDIRECT; desc += sfmt("set(t%d,%u) ", st.target, st.value); }
        else if (k == 3) { st.kind = S_REDIRECT; st.target = last_target; desc += sfmt("set(t%d,%u) ", st.target, st.value); }   // the target touched last, again
        else if (k == 4) { st.kind = S_PLAIN; if (r.flag()) st.target = last_target; desc += sfmt("write(t%d,%u) ", st.target, st.value); }
        else {
            st.kind = S_BURST;
            st.count = k == 7 ? r.pick((const int[]){16, 30, 31, 32, 33, 36}) : r.pick((const int[]){2, 3, 5, 8, 15});
            st.stride = r.pick((const int[]){1, 0, 3, 7});
            desc += sfmt("set%dx(t%d+%d*i,%u+i) ", st.count, st.target, st.stride, st.value);
        }
        last_target = st.target;
        p.steps.push_back(st);
    }
    uint32_t o = r.below(8);                          // 0..4 pass
    p.outcome = o < 5 ? O_PASS : (int)(o - 4);
    if (p.outcome != O_PASS) desc += sfmt("%s ", outcome_name(p.outcome));
    return p;
}

int run_a(Reader& r, bool& nontrivial, std::string& desc) {
    int ntests = 1 + (int)r.below(4);
    bool extra_before = r.flag(), extra_between = r.flag();
    std::vector<TestScript> scripts((size_t)ntests);
    int last_target = 0;
    for (int t = 0; t < ntests; t++) {
        desc += sfmt("T%d{", t);
        for (int p = 0; p < 3; p++) { desc += sfmt("%s: ", phase_name(p)); scripts[(size_t)t].ph[p] = gen_phase(r, desc, last_target); }
        desc += "} ";
    }
    if (verif::g_explain) fprintf(stderr, "part a: %s\n", desc.c_str());

    // ---- reset the global state the case touches
    for (int i = 0; i < NT; i++) g_target[i] = base_val(i);
    UtestShell::setRethrowExceptions(false);
    SetPointerPlugin setp("SetPointerPlugin");      // the constructor empties the process-wide table
    QuietPlugin q1("quiet1"), q2("quiet2");
    Observer obs;
    TestRegistry reg;
    if (extra_before) reg.installPlugin(&q1);
    reg.installPlugin(&setp);
    if (extra_between) reg.installPlugin(&q2);
    reg.installPlugin(&obs);                          // last installed: first pre action, last post action
    std::vector<ScriptShell> shells((size_t)ntests);
    for (int t = ntests - 1; t >= 0; t--) { shells[(size_t)t].s_ = &scripts[(size_t)t]; reg.addTest(&shells[(size_t)t]); }   // addTest prepends
    CaptureOutput out;
    TestResult res(out);
    reg.runAllTests(res);

    // ---- model
    void* cur[NT];
    for (int i = 0; i < NT; i++) cur[i] = base_val(i);
    V_CHECK(obs.pre.size() == (size_t)ntests && obs.post.size() == (size_t)ntests, "C17:observer-not-called", "observer saw %zu pre / %zu post actions for %d tests", obs.pre.size(), obs.post.size(), ntests);
    size_t failures_before = 0;
    for (int t = 0; t < ntests; t++) {
        for (int i = 0; i < NT; i++)
            V_CHECK(obs.pre[(size_t)t].v[i] == cur[i], "C17:target-changed-between-tests", "target %d is %p at the start of test %d, model says %p", i, obs.pre[(size_t)t].v[i], t, cur[i]);
        bool redirected[NT]; void* before[NT]; int times[NT];
        for (int i = 0; i < NT; i++) { redirected[i] = false; before[i] = NULLPTR; times[i] = 0; }
        int filled = 0; size_t failures = 0; bool overflow = false;
        bool setup_ok = true;
        for (int p = 0; p < 3; p++) {
            if (p == 1 && !setup_ok) continue;        // a failed / throwing setup skips the body, not the teardown
            const Phase& ph = scripts[(size_t)t].ph[p];
            bool aborted = false;
            for (const Step& st : ph.steps) {
                int reps = st.kind == S_BURST ? st.count : 1;
                for (int i = 0; i < reps && !aborted; i++) {
                    int tg = st.kind == S_BURST ? (st.target + i * st.stride) % NT : st.target;
                    void* v = val(st.kind == S_BURST ? st.value + (uint32_t)i : st.value);
                    if (st.kind == S_PLAIN) { cur[tg] = v; continue; }
                    if (filled >= SetPointerPlugin::MAX_SET) { aborted = true; overflow = true; failures++; break; }   // the documented limit
                    if (!redirected[tg]) { redirected[tg] = true; before[tg] = cur[tg]; }
                    times[tg]++; filled++;
                    cur[tg] = v;
                }
                if (aborted) break;
            }
            if (!aborted && ph.outcome != O_PASS) { failures++; aborted = true; }
            if (p == 0 && aborted) setup_ok = false;
        }
        for (int i = 0; i < NT; i++) if (redirected[i]) cur[i] = before[i];
        for (int i = 0; i < NT; i++) if (times[i] >= 2) { nontrivial = true; verif::cls("a:nt:target-redirected-twice"); break; }
        if (overflow) { nontrivial = true; verif::cls("a:nt:more-than-32-redirections"); }
        if (failures) { nontrivial = true; verif::cls("a:nt:failing-test"); }
        verif::cls(filled == 0 ? "a:redirections:0" : filled < 8 ? "a:redirections:1-7" : filled < 32 ? "a:redirections:8-31" : "a:redirections:32");

        const Sample& after = obs.post[(size_t)t];
        for (int i = 0; i < NT; i++) {
            if (after.v[i] == cur[i]) continue;
            if (redirected[i]) return verif::fail("C17:redirected-target-not-restored", "test %d redirected target %d %d time(s); after the post actions it is %p, before its first redirection it was %p (%d table entries%s)",
                                                  t, i, times[i], after.v[i], cur[i], filled, overflow ? ", limit exceeded" : "");
            return verif::fail("C17:unredirected-target-changed", "test %d never redirected target %d; after the post actions it is %p, the test left it at %p", t, i, after.v[i], cur[i]);
        }
        size_t delta = after.failures - failures_before;
        failures_before = after.failures;
        if (overflow) V_CHECK(delta >= 1 && out.text.find("Maximum number of function pointers installed!") != std::string::npos, "C17:limit-exceeded-without-failure",
                              "test %d made a 33rd redirection but recorded %zu failure(s) / no limit message", t, delta);
        if (failures == 0) V_CHECK(delta == 0, "C17:spurious-failure", "test %d stays within the limit and passes all phases but recorded %zu failure(s): %s", t, delta, verif::printable(out.text).substr(0, 400).c_str());
        else V_CHECK(delta >= 1, "C17:failure-lost", "test %d fails in the model but recorded no failure", t);
    }
    for (int i = 0; i < NT; i++) V_CHECK(g_target[i] == cur[i], "C17:target-changed-after-run", "target %d changed after the last post action", i);
    return 0;
}

// =================================================================================================================
// part (b)
const int NP = 7;
struct LogEntry { char what; int id; };
std::vector<LogEntry>* g_log;

class RecPlugin : public TestPlugin {
public:
    int id_;
    RecPlugin(int id, const char* name) : TestPlugin(name), id_(id) {}
    void preTestAction(UtestShell&, TestResult&) CPPUTEST_OVERRIDE { g_log->push_back(LogEntry{'<', id_}); }
    void postTestAction(UtestShell&, TestResult&) CPPUTEST_OVERRIDE { g_log->push_back(LogEntry{'>', id_}); }
};
int g_body_outcome;
void chain_body(void*) {
    g_log->push_back(LogEntry{'T', 0});
    if (g_body_outcome == O_FAIL) FAIL("scripted failure");
    if (g_body_outcome == O_THROW_INT) throw 42;
}
std::string render_log(const std::vector<LogEntry>& l) { std::string s; for (const LogEntry& e : l) s += e.what == 'T' ? std::string("T ") : sfmt("%c%d ", e.what, e.id); return s; }
std::string render_chain(const std::vector<int>& c) { std::string s = "["; for (size_t i = 0; i < c.size(); i++) s += sfmt("%sP%d", i ? "," : "", c[i]); return s + "]"; }

struct Chains {
    TestRegistry reg;
    RecPlugin* pl[NP];
    std::vector<int> chain;     // head first = last installed first
    bool enabled[NP];
    std::vector<LogEntry> log;
    Chains() { static const char* names[NP] = {"P0", "P1", "P2", "P3", "P4", "P5", "P6"}; for (int i = 0; i < NP; i++) { pl[i] = new RecPlugin(i, names[i]); enabled[i] = true; } g_log = &log; }
    ~Chains() { for (int i = 0; i < NP; i++) delete pl[i]; g_log = NULLPTR; }
    int pos_of(int k) const { for (size_t i = 0; i < chain.size(); i++) if (chain[i] == k) return (int)i; return -1; }
    // the chain the registry really holds (bounded walk: a corrupted chain may be cyclic)
    bool actual(std::vector<int>& out) {
        out.clear();
        TestPlugin* p = reg.getFirstPlugin();
        for (int steps = 0; steps < 2 * NP + 2; steps++) {
            if (p == NullTestPlugin::instance()) return true;
            if (p == NULLPTR) return false;
            int id = -1; for (int i = 0; i < NP; i++) if (p == pl[i]) id = i;
            if (id < 0) return false;
            out.push_back(id);
            p = p->getNext();
        }
        return false;
    }
    int check_chain(const char* after) {
        std::vector<int> a;
        bool ok = actual(a);
        V_CHECK(ok && a == chain, "C17:plugin-chain-differs", "after %s the registry holds %s%s, expected %s", after, render_chain(a).c_str(), ok ? "" : " (not terminated by the null plugin)", render_chain(chain).c_str());
        int n = reg.countPlugins();
        V_CHECK(n == (int)chain.size(), "C17:countPlugins-differs", "after %s countPlugins() = %d, expected %zu", after, n, chain.size());
        return 0;
    }
};

int run_b(Reader& r, bool& nontrivial, std::string& desc) {
    Chains c;
    UtestShell::setRethrowExceptions(false);
    int nops = 1 + (int)r.below(40);
    for (int op = 0; op < nops && !r.empty(); op++) {
        uint32_t kind = r.below(12);
        int k = (int)r.below(NP);
        if (verif::g_explain) fprintf(stderr, "  op#%d kind=%u k=%d chain=%s\n", op, kind, k, render_chain(c.chain).c_str());
        if (kind <= 3) {   // install a plugin that is not in the chain (installing one twice would make the chain cyclic: not in the domain)
            int tries = 0; while (c.pos_of(k) >= 0 && tries < NP) { k = (k + 1) % NP; tries++; }
            if (c.pos_of(k) >= 0) kind = 4;
            else {
                verif::cls("b:install");
                c.reg.installPlugin(c.pl[k]);
                c.chain.insert(c.chain.begin(), k);
                desc += sfmt("+P%d ", k);
                if (int e = c.check_chain(sfmt("installPlugin(P%d)", k).c_str())) return e;
                continue;
            }
        }
        if (kind == 4 || kind == 5) {   // remove by name: an installed plugin, a plugin that is not installed, or a name nobody has
            bool nobody = (kind == 5 && r.below(4) == 0);
            if (kind == 4 && !c.chain.empty() && c.pos_of(k) < 0) k = c.chain[(size_t)k % c.chain.size()];   // prefer an installed one
            std::string name = nobody ? "nobody" : c.pl[k]->getName().asCharString();
            int pos = nobody ? -1 : c.pos_of(k);
            if (pos >= 2 && verif::known(KEY_REMOVE)) { verif::cls("b:remove-skipped-known-finding"); continue; }
            verif::cls(pos < 0 ? "b:remove-not-installed" : pos == 0 ? "b:remove-position-1" : pos == 1 ? "b:remove-position-2" : "b:remove-position-3+");
            if (c.chain.size() >= 3) { nontrivial = true; verif::cls("b:nt:removal-from-chain-of-3+"); }
            std::vector<int> old = c.chain;
            desc += sfmt("-%s@%d ", name.c_str(), pos);
            c.reg.removePluginByName(name.c_str());
            if (pos >= 0) c.chain.erase(c.chain.begin() + pos);
            std::vector<int> a; bool ok = c.actual(a);
            if (ok && pos >= 2 && a == old)
                return verif::fail(KEY_REMOVE, "removePluginByName(\"%s\") removed nothing: the plugin is at position %d of %s", name.c_str(), pos + 1, render_chain(old).c_str());
            V_CHECK(ok && a == c.chain, "C17:removePluginByName-wrong-chain", "removePluginByName(\"%s\") on %s left %s%s, expected %s", name.c_str(), render_chain(old).c_str(), render_chain(a).c_str(),
                    ok ? "" : " (not terminated by the null plugin)", render_chain(c.chain).c_str());
            if (int e = c.check_chain("removePluginByName")) return e;
            continue;
        }
        if (kind == 6) {   // lookup
            verif::cls("b:getPluginByName");
            bool nobody = r.below(5) == 0;
            TestPlugin* got = c.reg.getPluginByName(nobody ? "nobody" : c.pl[k]->getName().asCharString());
            TestPlugin* want = (!nobody && c.pos_of(k) >= 0) ? c.pl[k] : NULLPTR;
            desc += sfmt("?P%d ", k);
            V_CHECK(got == want, "C17:getPluginByName-differs", "getPluginByName(\"%s\") on %s returned %s", nobody ? "nobody" : c.pl[k]->getName().asCharString(), render_chain(c.chain).c_str(),
                    got == NULLPTR ? "nothing" : got == NullTestPlugin::instance() ? "the null plugin" : "another plugin");
            continue;
        }
        if (kind == 7 || kind == 8) {   // enable / disable (installed or not)
            bool en = kind == 7;
            verif::cls(en ? "b:enable" : "b:disable");
            if (en) c.pl[k]->enable(); else c.pl[k]->disable();
            c.enabled[k] = en;
            desc += sfmt("%sP%d ", en ? "en" : "dis", k);
            V_CHECK(c.pl[k]->isEnabled() == en, "C17:isEnabled-differs", "isEnabled() of P%d is %d after %s()", k, (int)c.pl[k]->isEnabled(), en ? "enable" : "disable");
            continue;
        }
        if (kind == 9 && r.below(4) == 0) {
            verif::cls("b:resetPlugins");
            c.reg.resetPlugins(); c.chain.clear(); desc += "reset ";
            if (int e = c.check_chain("resetPlugins")) return e;
            continue;
        }
        {   // run one test through the chain
            g_body_outcome = (int)r.below(4); if (g_body_outcome == 3) g_body_outcome = O_PASS;
            verif::cls(sfmt("b:run-chain-of-%zu", c.chain.size()).c_str());
            c.log.clear();
            ExecFunctionTestShell shell;
            verif::ExecLambda ex(chain_body, NULLPTR);
            shell.testFunction_ = &ex;
            TestRegistry* regp = &c.reg;
            regp->addTest(&shell);
            CaptureOutput out; TestResult res(out);
            regp->runAllTests(res);
            regp->unDoLastAddTest();
            std::vector<LogEntry> want;
            for (size_t i = 0; i < c.chain.size(); i++) if (c.enabled[c.chain[i]]) want.push_back(LogEntry{'<', c.chain[i]});
            want.push_back(LogEntry{'T', 0});
            for (size_t i = c.chain.size(); i-- > 0;) if (c.enabled[c.chain[i]]) want.push_back(LogEntry{'>', c.chain[i]});
            desc += sfmt("run(%s) ", outcome_name(g_body_outcome));
            bool disabled_in_chain = false; for (int id : c.chain) if (!c.enabled[id]) disabled_in_chain = true;
            if (disabled_in_chain) verif::cls("b:run-with-disabled-plugin");
            std::string got_s = render_log(c.log), want_s = render_log(want);
            V_CHECK(got_s == want_s, "C17:plugin-action-order", "chain %s (disabled:%s) test outcome %s: actions ran as \"%s\", expected \"%s\"", render_chain(c.chain).c_str(),
                    [&] { std::string d; for (int i = 0; i < NP; i++) if (!c.enabled[i]) d += sfmt(" P%d", i); return d.empty() ? std::string(" none") : d; }().c_str(), outcome_name(g_body_outcome), got_s.c_str(), want_s.c_str());
            size_t wantf = g_body_outcome == O_PASS ? 0 : 1;
            V_CHECK(res.getFailureCount() == wantf, "C17:run-failure-count", "test with outcome %s recorded %zu failures", outcome_name(g_body_outcome), res.getFailureCount());
        }
    }
    return c.check_chain("the whole history");
}

}  // namespace

extern "C" const char* verif_property(void) { return "C17"; }
extern "C" void verif_init(void) { verif::install_fake_time(); }
extern "C" int verif_case(const uint8_t* data, size_t size) {
    Reader r(data, size);
    bool nontrivial = false; std::string desc;
    int rc;
    if (r.below(2) == 0) { verif::cls("part:a-set-pointer"); desc = "a: "; rc = run_a(r, nontrivial, desc); }
    else { verif::cls("part:b-chains"); desc = "b: "; rc = run_b(r, nontrivial, desc); }
    if (verif::g_explain) fprintf(stderr, "case: %s\n", desc.c_str());
    verif::note_case(nontrivial, r.h, [&] { return desc.substr(0, 600); });
    return rc;
}
extern "C" int verif_known_repro(const char* key) {
    if (std::string(key) != KEY_REMOVE) return -1;
    // chain A,B,C,D (installed in that order: D is first), remove "B" = third position
    TestRegistry reg;
    RecPlugin a(0, "A"), b(1, "B"), c(2, "C"), d(3, "D");
    reg.installPlugin(&a); reg.installPlugin(&b); reg.installPlugin(&c); reg.installPlugin(&d);
    reg.removePluginByName("B");
    return reg.countPlugins() == 4 && reg.getPluginByName("B") == &b ? 1 : 0;
}
