// C17 — pointers set for a test are restored after it; plugin actions nest properly; removal by name removes exactly that plugin.
// Part (a): 1..4 consecutive scripted tests in a private registry with a SetPointerPlugin; every test redirects (UT_PTR_SET)
//           or plainly writes some of 40 target pointers in setup / body / teardown and ends each phase by passing, failing
//           or throwing.  An observer plugin installed last samples all targets in its pre action (before everything) and
//           in its post action (after every other post action).
// Part (b): 0..7 uniquely named recording plugins; interleaved install / removePluginByName / getPluginByName /
//           countPlugins / enable / disable / resetPlugins / run-one-test; the model is a std::vector of plugin ids.
// Part (c): a run of 2..5 tests during which the chain changes: test phases and plugin pre/post actions install a plugin,
//           remove one by name (newest, middle, oldest), enable / disable one or call resetPlugins.  Part (a) has a "lazy"
//           variant in which the SetPointerPlugin itself is installed from inside a test of the run.
// Oracle:  (a) array model of the targets; (b) list model; (c) list model + per-test snapshot, see part (c).  ASan guards the 32-entry table (a global with redzones).
#include "common.h"
#include "CppUTest/CommandLineTestRunner.h"
#include <stdexcept>

using verif::Reader;
using verif::sfmt;

namespace {

struct CaptureOutput : TestOutput {
    std::string text;
    void printBuffer(const char* s) CPPUTEST_OVERRIDE { text += s; }
    void flush() CPPUTEST_OVERRIDE {}
};

const char* KEY_REMOVE = "C17:removePluginByName-beyond-second-position";
const char* KEY_SEVERAL = "C17:removePluginByName-removes-several-carriers";
// plugin names: unique ("P0".."P6") or drawn from a small pool so that different plugin objects share a name
// (one pool member is the name of the built-in SetPointerPlugin)
const int NPLUG = 7;
std::vector<std::string> gen_names(Reader& r, bool dup, std::string& desc) {
    std::vector<std::string> n;
    static const char* POOL[] = {"Logger", "SetPointerPlugin", "Other", "MemoryLeakPlugin"};
    if (!dup) { for (int i = 0; i < NPLUG; i++) n.push_back(sfmt("P%d", i)); return n; }
    uint32_t pool = 2 + r.below(3);
    desc += "names:";
    for (int i = 0; i < NPLUG; i++) { n.push_back(POOL[r.below(pool)]); desc += sfmt(" P%d=%s", i, n.back().c_str()); }
    desc += "; ";
    return n;
}
// `now` must be `old` with exactly one element removed, and that element must carry `name`; returns its id, -1 otherwise
int one_carrier_left(const std::vector<int>& old, const std::vector<int>& now, const std::vector<std::string>& names, const std::string& name) {
    if (now.size() + 1 != old.size()) return -1;
    size_t i = 0; while (i < now.size() && old[i] == now[i]) i++;
    for (size_t j = i; j < now.size(); j++) if (old[j + 1] != now[j]) return -1;
    return names[(size_t)old[i]] == name ? old[i] : -1;
}

// =================================================================================================================
// part (a)
const int NT = 40;
void* g_target[NT];
inline void* val(uint32_t v) { return (void*)(uintptr_t)(0x2000 + v); }
inline void* base_val(int t) { return (void*)(uintptr_t)(0x1000 + (unsigned)t); }

enum { S_REDIRECT, S_PLAIN, S_BURST, S_INSTALL_SETP };
TestRegistry* g_a_reg; TestPlugin* g_a_setp;   // part (a), lazy mode: the SetPointerPlugin is installed from inside a test
enum { O_PASS, O_FAIL, O_THROW_INT, O_THROW_STD };
struct Step { int kind; int target; uint32_t value; int count; int stride; };
struct Phase { std::vector<Step> steps; int outcome; };
struct TestScript { Phase ph[3]; };

class ScriptTest : public Utest {
public:
    const TestScript* s_;
    explicit ScriptTest(const TestScript* s) : s_(s) {}
    static void run_phase(const Phase& p) {
        for (const Step& st : p.steps) {
            switch (st.kind) {
            case S_REDIRECT: UT_PTR_SET(g_target[st.target], val(st.value)); break;
            case S_PLAIN: g_target[st.target] = val(st.value); break;
            case S_BURST: for (int i = 0; i < st.count; i++) UT_PTR_SET(g_target[(st.target + i * st.stride) % NT], val(st.value + (uint32_t)i)); break;
            case S_INSTALL_SETP: g_a_reg->installPlugin(g_a_setp); break;
            }
        }
        switch (p.outcome) {
        case O_FAIL: FAIL("scripted failure"); break;
        case O_THROW_INT: throw 42;
        case O_THROW_STD: throw std::runtime_error("scripted exception");
        default: break;
        }
    }
    void setup() CPPUTEST_OVERRIDE { run_phase(s_->ph[0]); }
    void testBody() CPPUTEST_OVERRIDE { run_phase(s_->ph[1]); }
    void teardown() CPPUTEST_OVERRIDE { run_phase(s_->ph[2]); }
};
class ScriptShell : public UtestShell {
public:
    const TestScript* s_;
    ScriptShell() : UtestShell("C17", "scripted", "c17_plugins.cpp", 1), s_(NULLPTR) {}
    Utest* createTest() CPPUTEST_OVERRIDE { return new ScriptTest(s_); }
};

struct Sample { void* v[NT]; size_t failures; };
class Observer : public TestPlugin {
public:
    std::vector<Sample> pre, post;
    Observer() : TestPlugin("observer") {}
    static Sample take(TestResult& r) { Sample s; for (int i = 0; i < NT; i++) s.v[i] = g_target[i]; s.failures = r.getFailureCount(); return s; }
    void preTestAction(UtestShell&, TestResult& r) CPPUTEST_OVERRIDE { pre.push_back(take(r)); }
    void postTestAction(UtestShell&, TestResult& r) CPPUTEST_OVERRIDE { post.push_back(take(r)); }
};
class QuietPlugin : public TestPlugin {
public:
    int pre = 0, post = 0;
    explicit QuietPlugin(const char* n) : TestPlugin(n) {}
    void preTestAction(UtestShell&, TestResult&) CPPUTEST_OVERRIDE { pre++; }
    void postTestAction(UtestShell&, TestResult&) CPPUTEST_OVERRIDE { post++; }
};

const char* outcome_name(int o) { static const char* n[] = {"pass", "FAIL", "throw-int", "throw-std"}; return n[o]; }
const char* phase_name(int p) { static const char* n[] = {"setup", "body", "teardown"}; return n[p]; }

Phase gen_phase(Reader& r, std::string& desc, int& last_target) {
    Phase p;
    int nsteps = (int)r.below(5);
    for (int i = 0; i < nsteps; i++) {
        Step st{S_REDIRECT, 0, 0, 1, 0};
        uint32_t k = r.below(8);
        st.target = (int)r.below(NT);
        st.value = r.below(200);
        if (k <= 2) { st.kind = S_REDIRECT; desc += sfmt("set(t%d,%u) ", st.target, st.value); }
        else if (k == 3) { st.kind = S_REDIRECT; st.target = last_target; desc += sfmt("set(t%d,%u) ", st.target, st.value); }   // the target touched last, again
        else if (k == 4) { st.kind = S_PLAIN; if (r.flag()) st.target = last_target; desc += sfmt("write(t%d,%u) ", st.target, st.value); }
        else {
            st.kind = S_BURST;
            st.count = k == 7 ? r.pick((const int[]){16, 30, 31, 32, 33, 36}) : r.pick((const int[]){2, 3, 5, 8, 15});
            st.stride = r.pick((const int[]){1, 0, 3, 7});
            desc += sfmt("set%dx(t%d+%d*i,%u+i) ", st.count, st.target, st.stride, st.value);
        }
        last_target = st.target;
        p.steps.push_back(st);
    }
    uint32_t o = r.below(8);                          // 0..4 pass
    p.outcome = o < 5 ? O_PASS : (int)(o - 4);
    if (p.outcome != O_PASS) desc += sfmt("%s ", outcome_name(p.outcome));
    return p;
}

// array model of the targets + verdict for a run of scripted tests.  Tests with index >= by_next_from are judged by the
// observer's NEXT pre sample / the state after the run (the restoring plugin is newer than the observer), the others by
// the observer's own post sample.
int judge_targets(const std::vector<TestScript>& scripts, const Observer& obs, int by_next_from, size_t final_failures, const std::string& outtext, bool& nontrivial) {
    int ntests = (int)scripts.size();
    void* cur[NT];
    for (int i = 0; i < NT; i++) cur[i] = base_val(i);
    V_CHECK(obs.pre.size() == (size_t)ntests && obs.post.size() == (size_t)ntests, "C17:observer-not-called", "observer saw %zu pre / %zu post actions for %d tests", obs.pre.size(), obs.post.size(), ntests);
    size_t failures_before = 0;
    for (int t = 0; t < ntests; t++) {
        for (int i = 0; i < NT; i++)
            V_CHECK(obs.pre[(size_t)t].v[i] == cur[i], "C17:target-changed-between-tests", "target %d is %p at the start of test %d, model says %p", i, obs.pre[(size_t)t].v[i], t, cur[i]);
        bool redirected[NT]; void* before[NT]; int times[NT];
        for (int i = 0; i < NT; i++) { redirected[i] = false; before[i] = NULLPTR; times[i] = 0; }
        int filled = 0; size_t failures = 0; bool overflow = false;
        bool setup_ok = true;
        for (int p = 0; p < 3; p++) {
            if (p == 1 && !setup_ok) continue;        // a failed / throwing setup skips the body, not the teardown
            const Phase& ph = scripts[(size_t)t].ph[p];
            bool aborted = false;
            for (const Step& st : ph.steps) {
                int reps = st.kind == S_BURST ? st.count : 1;
                for (int i = 0; i < reps && !aborted; i++) {
                    int tg = st.kind == S_BURST ? (st.target + i * st.stride) % NT : st.target;
                    void* v = val(st.kind == S_BURST ? st.value + (uint32_t)i : st.value);
                    if (st.kind == S_INSTALL_SETP) continue;
                    if (st.kind == S_PLAIN) { cur[tg] = v; continue; }
                    if (filled >= SetPointerPlugin::MAX_SET) { aborted = true; overflow = true; failures++; break; }   // the documented limit
                    if (!redirected[tg]) { redirected[tg] = true; before[tg] = cur[tg]; }
                    times[tg]++; filled++;
                    cur[tg] = v;
                }
                if (aborted) break;
            }
            if (!aborted && ph.outcome != O_PASS) { failures++; aborted = true; }
            if (p == 0 && aborted) setup_ok = false;
        }
        for (int i = 0; i < NT; i++) if (redirected[i]) cur[i] = before[i];
        for (int i = 0; i < NT; i++) if (times[i] >= 2) { nontrivial = true; verif::cls("a:nt:target-redirected-twice"); break; }
        if (overflow) { nontrivial = true; verif::cls("a:nt:more-than-32-redirections"); }
        if (failures) { nontrivial = true; verif::cls("a:nt:failing-test"); }
        verif::cls(filled == 0 ? "a:redirections:0" : filled < 8 ? "a:redirections:1-7" : filled < 32 ? "a:redirections:8-31" : "a:redirections:32");

        Sample final_state;
        if (t >= by_next_from && t + 1 >= ntests) { for (int i = 0; i < NT; i++) final_state.v[i] = g_target[i]; final_state.failures = final_failures; }
        const Sample& after = (t >= by_next_from) ? (t + 1 < ntests ? obs.pre[(size_t)t + 1] : final_state) : obs.post[(size_t)t];
        for (int i = 0; i < NT; i++) {
            if (after.v[i] == cur[i]) continue;
            if (redirected[i]) return verif::fail("C17:redirected-target-not-restored", "test %d redirected target %d %d time(s); after the post actions it is %p, before its first redirection it was %p (%d table entries%s)",
                                                  t, i, times[i], after.v[i], cur[i], filled, overflow ? ", limit exceeded" : "");
            return verif::fail("C17:unredirected-target-changed", "test %d never redirected target %d; after the post actions it is %p, the test left it at %p", t, i, after.v[i], cur[i]);
        }
        size_t delta = after.failures - failures_before;
        failures_before = after.failures;
        if (overflow) V_CHECK(delta >= 1 && outtext.find("Maximum number of function pointers installed!") != std::string::npos, "C17:limit-exceeded-without-failure",
                              "test %d made a 33rd redirection but recorded %zu failure(s) / no limit message", t, delta);
        if (failures == 0) V_CHECK(delta == 0, "C17:spurious-failure", "test %d stays within the limit and passes all phases but recorded %zu failure(s): %s", t, delta, verif::printable(outtext).substr(0, 400).c_str());
        else V_CHECK(delta >= 1, "C17:failure-lost", "test %d fails in the model but recorded no failure", t);
    }
    for (int i = 0; i < NT; i++) V_CHECK(g_target[i] == cur[i], "C17:target-changed-after-run", "target %d changed after the last post action", i);
    return 0;
}

int run_a(Reader& r, bool& nontrivial, std::string& desc, bool dup) {
    int ntests = 1 + (int)r.below(4);
    bool extra_before = r.flag(), extra_between = r.flag();
    std::vector<TestScript> scripts((size_t)ntests);
    int last_target = 0;
    for (int t = 0; t < ntests; t++) {
        desc += sfmt("T%d{", t);
        for (int p = 0; p < 3; p++) { desc += sfmt("%s: ", phase_name(p)); scripts[(size_t)t].ph[p] = gen_phase(r, desc, last_target); }
        desc += "} ";
    }
    // lazy mode: the SetPointerPlugin is installed during the run, at the end of a phase of test L; up to and including that
    // test nothing is redirected (only plain writes) and every phase passes, so "restored after the test" is only claimed for
    // tests that start with the plugin installed.  The plugin is then the newest one: its post action runs after the observer's,
    // so those tests are judged by the observer's next pre sample / the state after the run.
    int lazy_test = -1;
    if (ntests >= 2 && r.below(3) == 2) {
        lazy_test = (int)r.below((uint32_t)ntests - 1);
        int lazy_phase = (int)r.below(3);
        for (int t = 0; t <= lazy_test; t++) for (int p = 0; p < 3; p++) {
            Phase& ph = scripts[(size_t)t].ph[p];
            ph.outcome = O_PASS;
            for (Step& st : ph.steps) { st.kind = S_PLAIN; st.count = 1; }
        }
        scripts[(size_t)lazy_test].ph[lazy_phase].steps.push_back(Step{S_INSTALL_SETP, 0, 0, 1, 0});
        desc += sfmt("[lazy: tests 0..%d only write; SetPointerPlugin installed in %s of T%d] ", lazy_test, phase_name(lazy_phase), lazy_test);
        verif::cls("a:lazy-set-pointer-plugin");
        nontrivial = true;
    }
    if (verif::g_explain) fprintf(stderr, "part a: %s\n", desc.c_str());

    // ---- reset the global state the case touches
    for (int i = 0; i < NT; i++) g_target[i] = base_val(i);
    UtestShell::setRethrowExceptions(false);
    SetPointerPlugin setp("SetPointerPlugin");      // the constructor empties the process-wide table
    // neighbours of the SetPointerPlugin; with shared names one of them may carry the built-in plugin's own name
    const char* n1 = "quiet1"; const char* n2 = "quiet2";
    if (dup) { n1 = r.pick((const char* const[]){"SetPointerPlugin", "quiet1", "twin"}); n2 = r.pick((const char* const[]){"SetPointerPlugin", "twin", "quiet2"});
               desc += sfmt("[neighbours named \"%s\" (before) and \"%s\" (after)] ", n1, n2); }
    QuietPlugin q1(n1), q2(n2);
    Observer obs;
    TestRegistry reg;
    if (extra_before) reg.installPlugin(&q1);
    g_a_reg = &reg; g_a_setp = &setp;
    if (lazy_test < 0) reg.installPlugin(&setp);
    if (extra_between) reg.installPlugin(&q2);
    reg.installPlugin(&obs);                          // last installed: first pre action, last post action
    std::vector<ScriptShell> shells((size_t)ntests);
    for (int t = ntests - 1; t >= 0; t--) { shells[(size_t)t].s_ = &scripts[(size_t)t]; reg.addTest(&shells[(size_t)t]); }   // addTest prepends
    CaptureOutput out;
    TestResult res(out);
    reg.runAllTests(res);
    {
        int installed = (extra_before ? 1 : 0) + (extra_between ? 1 : 0) + 2;
        V_CHECK(reg.countPlugins() == installed, "C17:countPlugins-differs", "%d plugins were installed, countPlugins() = %d", installed, reg.countPlugins());
        if (extra_before) V_CHECK(q1.pre == ntests && q1.post == ntests, "C17:installed-plugin-missed-action", "plugin \"%s\" installed before the SetPointerPlugin saw %d pre / %d post actions in a run of %d tests", n1, q1.pre, q1.post, ntests);
        if (extra_between) V_CHECK(q2.pre == ntests && q2.post == ntests, "C17:installed-plugin-missed-action", "plugin \"%s\" installed after the SetPointerPlugin saw %d pre / %d post actions in a run of %d tests", n2, q2.pre, q2.post, ntests);
    }

    return judge_targets(scripts, obs, lazy_test >= 0 ? lazy_test : 1000, res.getFailureCount(), out.text, nontrivial);
}

// =================================================================================================================
// part (b)
const int NP = 7;
struct LogEntry { char what; int id; };
std::vector<LogEntry>* g_log;

class RecPlugin : public TestPlugin {
public:
    int id_;
    RecPlugin(int id, const char* name) : TestPlugin(name), id_(id) {}
    void preTestAction(UtestShell&, TestResult&) CPPUTEST_OVERRIDE { g_log->push_back(LogEntry{'<', id_}); }
    void postTestAction(UtestShell&, TestResult&) CPPUTEST_OVERRIDE { g_log->push_back(LogEntry{'>', id_}); }
    // accepts the option "-p<own name>"
    bool parseArguments(int, const char* const* av, int index) CPPUTEST_OVERRIDE { g_log->push_back(LogEntry{'A', id_}); return SimpleString(av[index]) == (SimpleString("-p") + getName()); }
};
int g_body_outcome;
void chain_body(void*) {
    g_log->push_back(LogEntry{'T', 0});
    if (g_body_outcome == O_FAIL) FAIL("scripted failure");
    if (g_body_outcome == O_THROW_INT) throw 42;
}
std::string render_log(const std::vector<LogEntry>& l) { std::string s; for (const LogEntry& e : l) s += e.what == 'T' ? std::string("T ") : sfmt("%c%d ", e.what, e.id); return s; }
std::string render_chain(const std::vector<int>& c) { std::string s = "["; for (size_t i = 0; i < c.size(); i++) s += sfmt("%sP%d", i ? "," : "", c[i]); return s + "]"; }

struct Chains {
    TestRegistry reg;
    RecPlugin* pl[NP];
    std::vector<int> chain;     // head first = last installed first
    bool enabled[NP];
    std::vector<LogEntry> log;
    std::vector<std::string> names;
    explicit Chains(const std::vector<std::string>& n) : names(n) { for (int i = 0; i < NP; i++) { pl[i] = new RecPlugin(i, names[(size_t)i].c_str()); enabled[i] = true; } g_log = &log; }
    std::vector<int> carriers(const std::string& name) const { std::vector<int> v; for (int id : chain) if (names[(size_t)id] == name) v.push_back(id); return v; }
    ~Chains() { for (int i = 0; i < NP; i++) delete pl[i]; g_log = NULLPTR; }
    int pos_of(int k) const { for (size_t i = 0; i < chain.size(); i++) if (chain[i] == k) return (int)i; return -1; }
    // the chain the registry really holds (bounded walk: a corrupted chain may be cyclic)
    bool actual(std::vector<int>& out) {
        out.clear();
        TestPlugin* p = reg.getFirstPlugin();
        for (int steps = 0; steps < 2 * NP + 2; steps++) {
            if (p == NullTestPlugin::instance()) return true;
            if (p == NULLPTR) return false;
            int id = -1; for (int i = 0; i < NP; i++) if (p == pl[i]) id = i;
            if (id < 0) return false;
            out.push_back(id);
            p = p->getNext();
        }
        return false;
    }
    int check_chain(const char* after) {
        std::vector<int> a;
        bool ok = actual(a);
        V_CHECK(ok && a == chain, "C17:plugin-chain-differs", "after %s the registry holds %s%s, expected %s", after, render_chain(a).c_str(), ok ? "" : " (not terminated by the null plugin)", render_chain(chain).c_str());
        int n = reg.countPlugins();
        V_CHECK(n == (int)chain.size(), "C17:countPlugins-differs", "after %s countPlugins() = %d, expected %zu", after, n, chain.size());
        return 0;
    }
};

int run_b(Reader& r, bool& nontrivial, std::string& desc, bool dup) {
    Chains c(gen_names(r, dup, desc));
    UtestShell::setRethrowExceptions(false);
    int nops = 1 + (int)r.below(40);
    for (int op = 0; op < nops && !r.empty(); op++) {
        uint32_t kind = r.below(12);
        int k = (int)r.below(NP);
        if (verif::g_explain) fprintf(stderr, "  op#%d kind=%u k=%d chain=%s\n", op, kind, k, render_chain(c.chain).c_str());
        if (kind <= 3) {   // install a plugin that is not in the chain (installing one twice would make the chain cyclic: not in the domain)
            int tries = 0; while (c.pos_of(k) >= 0 && tries < NP) { k = (k + 1) % NP; tries++; }
            if (c.pos_of(k) >= 0) kind = 4;
            else {
                verif::cls("b:install");
                c.reg.installPlugin(c.pl[k]);
                c.chain.insert(c.chain.begin(), k);
                desc += sfmt("+P%d ", k);
                if (int e = c.check_chain(sfmt("installPlugin(P%d)", k).c_str())) return e;
                continue;
            }
        }
        if (kind == 4 || kind == 5) {   // remove by name: an installed plugin, a plugin that is not installed, or a name nobody has
            bool nobody = (kind == 5 && r.below(4) == 0);
            if (kind == 4 && !c.chain.empty() && c.pos_of(k) < 0) k = c.chain[(size_t)k % c.chain.size()];   // prefer an installed one
            std::string name = nobody ? "nobody" : c.names[(size_t)k];
            std::vector<int> car = c.carriers(name);
            int pos = nobody ? -1 : c.pos_of(k);
            if (pos >= 2 && verif::known(KEY_REMOVE)) { verif::cls("b:remove-skipped-known-finding"); continue; }
            if (car.size() >= 2 && verif::known(KEY_SEVERAL)) { verif::cls("b:remove-skipped-known-finding"); continue; }
            verif::cls(car.size() >= 2 ? "b:remove-name-with-several-carriers" : car.empty() ? "b:remove-not-installed" : pos == 0 ? "b:remove-position-1" : pos == 1 ? "b:remove-position-2" : "b:remove-position-3+");
            if (c.chain.size() >= 3) { nontrivial = true; verif::cls("b:nt:removal-from-chain-of-3+"); }
            std::vector<int> old = c.chain;
            desc += sfmt("-%s(%zu carriers) ", name.c_str(), car.size());
            c.reg.removePluginByName(name.c_str());
            std::vector<int> a; bool ok = c.actual(a);
            if (car.empty()) {
                V_CHECK(ok && a == old, "C17:removePluginByName-wrong-chain", "removePluginByName(\"%s\") (nobody in the chain has that name) on %s left %s", name.c_str(), render_chain(old).c_str(), render_chain(a).c_str());
            } else {
                if (ok && a == old && c.pos_of(car[0]) >= 2 && car.size() == 1)
                    return verif::fail(KEY_REMOVE, "removePluginByName(\"%s\") removed nothing: the plugin is at position %d of %s", name.c_str(), c.pos_of(car[0]) + 1, render_chain(old).c_str());
                // exactly ONE plugin object leaves the chain and it carries the name (with several carriers: any of them); all others stay, in order
                int gone = ok ? one_carrier_left(old, a, c.names, name) : -1;
                if (ok && gone < 0 && car.size() >= 2 && a.size() + 1 < old.size())
                    return verif::fail(KEY_SEVERAL, "removePluginByName(\"%s\") on %s (%zu plugins carry that name) removed %zu plugins, left %s", name.c_str(), render_chain(old).c_str(), car.size(), old.size() - a.size(), render_chain(a).c_str());
                V_CHECK(gone >= 0, "C17:removePluginByName-wrong-chain", "removePluginByName(\"%s\") on %s left %s%s; expected exactly one plugin named so to leave", name.c_str(), render_chain(old).c_str(), render_chain(a).c_str(),
                        ok ? "" : " (not terminated by the null plugin)");
                c.chain = a;
            }
            if (int e = c.check_chain("removePluginByName")) return e;
            continue;
        }
        if (kind == 6) {   // lookup
            verif::cls("b:getPluginByName");
            bool nobody = r.below(5) == 0;
            std::string name = nobody ? "nobody" : c.names[(size_t)k];
            TestPlugin* got = c.reg.getPluginByName(name.c_str());
            std::vector<int> car = c.carriers(name);
            desc += sfmt("?%s ", name.c_str());
            bool good = car.empty() ? got == NULLPTR : false;
            for (int id : car) if (got == c.pl[id]) good = true;          // several carriers: any of them
            V_CHECK(good, "C17:getPluginByName-differs", "getPluginByName(\"%s\") on %s (%zu installed plugins carry that name) returned %s", name.c_str(), render_chain(c.chain).c_str(), car.size(),
                    got == NULLPTR ? "nothing" : got == NullTestPlugin::instance() ? "the null plugin" : "a plugin that is not installed under that name");
            continue;
        }
        if (kind == 7 || kind == 8) {   // enable / disable (installed or not)
            bool en = kind == 7;
            verif::cls(en ? "b:enable" : "b:disable");
            if (en) c.pl[k]->enable(); else c.pl[k]->disable();
            c.enabled[k] = en;
            desc += sfmt("%sP%d ", en ? "en" : "dis", k);
            V_CHECK(c.pl[k]->isEnabled() == en, "C17:isEnabled-differs", "isEnabled() of P%d is %d after %s()", k, (int)c.pl[k]->isEnabled(), en ? "enable" : "disable");
            continue;
        }
        uint32_t sub = kind == 9 ? r.below(4) : 9;
        if (kind == 9 && sub == 0) {
            verif::cls("b:resetPlugins");
            c.reg.resetPlugins(); c.chain.clear(); desc += "reset ";
            if (int e = c.check_chain("resetPlugins")) return e;
            continue;
        }
        if (kind == 9 && sub == 1) {   // a "-p..." option offered to the chain: asked newest first (enabled or not) until one accepts
            verif::cls("b:parseAllArguments");
            bool nobody = r.below(4) == 0;
            std::string opt = "-p" + (nobody ? std::string("nobody") : c.names[(size_t)k]);
            const char* av[3] = {"prog", "-v", opt.c_str()};
            c.log.clear();
            bool got = r.flag() ? c.reg.getFirstPlugin()->parseAllArguments(3, av, 2) : c.reg.getFirstPlugin()->parseAllArguments(3, const_cast<char**>(av), 2);
            std::vector<LogEntry> want; bool accepted = false;
            for (int id : c.chain) { want.push_back(LogEntry{'A', id}); if (!nobody && c.names[(size_t)id] == c.names[(size_t)k]) { accepted = true; break; } }
            desc += sfmt("parse(%s) ", opt.c_str());
            V_CHECK(got == accepted && render_log(c.log) == render_log(want), "C17:parseAllArguments-differs", "option %s offered to %s: plugins asked \"%s\" -> %d, expected \"%s\" -> %d", opt.c_str(), render_chain(c.chain).c_str(),
                    render_log(c.log).c_str(), (int)got, render_log(want).c_str(), (int)accepted);
            continue;
        }
        {   // run one test through the chain
            g_body_outcome = (int)r.below(4); if (g_body_outcome == 3) g_body_outcome = O_PASS;
            verif::cls(sfmt("b:run-chain-of-%zu", c.chain.size()).c_str());
            c.log.clear();
            ExecFunctionTestShell shell;
            verif::ExecLambda ex(chain_body, NULLPTR);
            shell.testFunction_ = &ex;
            TestRegistry* regp = &c.reg;
            regp->addTest(&shell);
            CaptureOutput out; TestResult res(out);
            regp->runAllTests(res);
            regp->unDoLastAddTest();
            std::vector<LogEntry> want;
            for (size_t i = 0; i < c.chain.size(); i++) if (c.enabled[c.chain[i]]) want.push_back(LogEntry{'<', c.chain[i]});
            want.push_back(LogEntry{'T', 0});
            for (size_t i = c.chain.size(); i-- > 0;) if (c.enabled[c.chain[i]]) want.push_back(LogEntry{'>', c.chain[i]});
            desc += sfmt("run(%s) ", outcome_name(g_body_outcome));
            bool disabled_in_chain = false; for (int id : c.chain) if (!c.enabled[id]) disabled_in_chain = true;
            if (disabled_in_chain) verif::cls("b:run-with-disabled-plugin");
            std::string got_s = render_log(c.log), want_s = render_log(want);
            V_CHECK(got_s == want_s, "C17:plugin-action-order", "chain %s (disabled:%s) test outcome %s: actions ran as \"%s\", expected \"%s\"", render_chain(c.chain).c_str(),
                    [&] { std::string d; for (int i = 0; i < NP; i++) if (!c.enabled[i]) d += sfmt(" P%d", i); return d.empty() ? std::string(" none") : d; }().c_str(), outcome_name(g_body_outcome), got_s.c_str(), want_s.c_str());
            size_t wantf = g_body_outcome == O_PASS ? 0 : 1;
            V_CHECK(res.getFailureCount() == wantf, "C17:run-failure-count", "test with outcome %s recorded %zu failures", outcome_name(g_body_outcome), res.getFailureCount());
        }
    }
    return c.check_chain("the whole history");
}


// =================================================================================================================
// part (c): the chain changes WHILE a run of 2..5 tests is in progress
//
// Reference points (from the statement + TestRegistry::runAllTests / UtestShell::runOneTestInCurrentProcess):
//   * a test's pre actions go to the plugins that are installed and enabled when its pre actions start, newest first;
//   * its post actions go, in exactly the reverse order, to those of them that are still installed and enabled;
//   * for a plugin whose status is changed *inside* that very test (installed, removed, enabled, disabled, reset, from a test
//     phase or from another plugin's action) the statement leaves open whether it still/already takes part in that test:
//     both are accepted (the unchanged code gives e.g. no post action to a plugin removed from the middle of the chain, but one
//     to the removed newest plugin; none to a plugin installed in the test).  From the next test on the change is binding.
// Only well-defined changes are generated: never a plugin that is already in the chain is installed, a plugin's action never
// removes / disables / enables the plugin it belongs to.
enum { C_INSTALL, C_REMOVE, C_ENABLE, C_DISABLE, C_RESET, C_REMOVE_NOBODY };
struct COp { int kind; int k; int alt; };
struct CPhase { std::vector<COp> ops; int outcome; };
struct CTest { CPhase ph[3]; };
struct CAction { int test; int plugin; bool post; COp op; };
struct CRecord { bool started = false, in_test = false; std::vector<int> snapshot; std::vector<int> pre_log, post_log; bool touched_pre[NP], touched[NP]; };

struct Mid;
Mid* g_mid;
class MidPlugin : public TestPlugin {
public:
    int id_;
    MidPlugin(int id, const char* name) : TestPlugin(name), id_(id) {}
    void preTestAction(UtestShell& t, TestResult&) CPPUTEST_OVERRIDE;
    void postTestAction(UtestShell& t, TestResult&) CPPUTEST_OVERRIDE;
};
class MidTest : public Utest {
public:
    int idx_;
    explicit MidTest(int idx) : idx_(idx) {}
    void setup() CPPUTEST_OVERRIDE; void testBody() CPPUTEST_OVERRIDE; void teardown() CPPUTEST_OVERRIDE;
};
class MidShell : public UtestShell {
public:
    int idx_;
    MidShell() : UtestShell("C17", "midrun", "c17_plugins.cpp", 2), idx_(0) {}
    Utest* createTest() CPPUTEST_OVERRIDE { return new MidTest(idx_); }
};

struct Mid {
    TestRegistry reg;
    MidPlugin* pl[NP];
    std::vector<int> chain; bool enabled[NP];
    std::vector<CTest> tests; std::vector<CAction> actions; std::vector<CRecord> rec;
    int cur = -1;
    bool bad = false; std::string badsig, badmsg, trace;
    int changes_before_last = 0;
    std::vector<std::string> names;
    explicit Mid(const std::vector<std::string>& n) : names(n) { for (int i = 0; i < NP; i++) { pl[i] = new MidPlugin(i, names[(size_t)i].c_str()); enabled[i] = true; } g_mid = this; }
    std::vector<int> current_chain(bool& ok) {
        std::vector<int> a; ok = true;
        TestPlugin* p = reg.getFirstPlugin();
        for (int steps = 0; ; steps++) {
            if (p == NullTestPlugin::instance()) break;
            int id = -1; for (int i = 0; i < NP; i++) if (p == pl[i]) id = i;
            if (p == NULLPTR || id < 0 || steps > 2 * NP) { ok = false; break; }
            a.push_back(id); p = p->getNext();
        }
        return a;
    }
    ~Mid() { for (int i = 0; i < NP; i++) delete pl[i]; g_mid = NULLPTR; }
    int pos_of(int k) const { for (size_t i = 0; i < chain.size(); i++) if (chain[i] == k) return (int)i; return -1; }
    void fail(const char* sig, const std::string& msg) { if (!bad) { bad = true; badsig = sig; badmsg = msg; } }
    void touch(int k) { if (cur >= 0 && rec[(size_t)cur].in_test) rec[(size_t)cur].touched[k] = true; }
    void check_chain(const char* after) {
        bool ok; std::vector<int> a = current_chain(ok);
        if (!ok || a != chain) fail("C17:plugin-chain-differs", sfmt("after %s (during a run) the registry holds %s, expected %s", after, render_chain(a).c_str(), render_chain(chain).c_str()));
    }
    // apply one change to the real registry and to the model; `self` = plugin whose action is executing (-1 in a test phase)
    void apply(COp op, int self, const char* where) {
        if (bad) return;
        int k = op.k;
        switch (op.kind) {
        case C_INSTALL: {
            int tries = 0; while (pos_of(k) >= 0 && tries < NP) { k = (k + 1) % NP; tries++; }
            if (pos_of(k) >= 0) return;
            reg.installPlugin(pl[k]); chain.insert(chain.begin(), k); touch(k);
            trace += sfmt("%s:+P%d ", where, k); verif::cls("c:install-during-run"); break; }
        case C_REMOVE: case C_REMOVE_NOBODY: {
            if (op.kind == C_REMOVE && pos_of(k) < 0 && !chain.empty() && op.alt % 4 != 0) k = chain[(size_t)op.alt % chain.size()];   // mostly an installed one
            std::string name = op.kind == C_REMOVE ? names[(size_t)k] : std::string("nobody");
            std::vector<int> car; for (int id : chain) if (names[(size_t)id] == name) car.push_back(id);
            if (self >= 0 && names[(size_t)self] == name) return;        // never the plugin whose action is executing
            if (car.size() >= 2 && verif::known(KEY_SEVERAL)) return;
            std::vector<int> old = chain;
            reg.removePluginByName(name.c_str());
            int pos = -1;
            if (!car.empty()) {
                bool ok; std::vector<int> a = current_chain(ok);
                int gone = ok ? one_carrier_left(old, a, names, name) : -1;        // several carriers: any ONE of them may leave
                if (gone < 0) {
                    fail(ok && car.size() >= 2 && a.size() + 1 < old.size() ? KEY_SEVERAL : "C17:removePluginByName-wrong-chain",
                         sfmt("removePluginByName(\"%s\") during a run on %s (%zu carriers of the name) left %s; exactly one plugin named so must leave", name.c_str(), render_chain(old).c_str(), car.size(), render_chain(a).c_str()));
                    return;
                }
                pos = 0; while (old[(size_t)pos] != gone) pos++;
                chain = a; touch(gone);
            }
            trace += sfmt("%s:-%s@%d ", where, name.c_str(), pos);
            verif::cls(car.size() >= 2 ? "c:remove-name-with-several-carriers-during-run" : pos < 0 ? "c:remove-not-installed-during-run" : pos == 0 ? "c:remove-newest-during-run" : pos == (int)chain.size() ? "c:remove-oldest-during-run" : "c:remove-middle-during-run"); break; }
        case C_ENABLE: case C_DISABLE: {
            if (k == self) return;
            bool en = op.kind == C_ENABLE;
            if (enabled[k] != en) touch(k);
            if (en) pl[k]->enable(); else pl[k]->disable();
            enabled[k] = en;
            trace += sfmt("%s:%sP%d ", where, en ? "en" : "dis", k); verif::cls(en ? "c:enable-during-run" : "c:disable-during-run"); break; }
        case C_RESET: {
            for (int id : chain) touch(id);
            reg.resetPlugins(); chain.clear();
            trace += sfmt("%s:reset ", where); verif::cls("c:reset-during-run"); break; }
        }
        if (cur >= 0 && cur + 1 < (int)tests.size()) changes_before_last++;
        check_chain(where);
    }
    void begin_test(int idx) {
        if (cur == idx && rec[(size_t)idx].started) return;
        if (cur >= 0) rec[(size_t)cur].in_test = false;
        cur = idx;
        CRecord& rc = rec[(size_t)idx];
        rc.started = true; rc.in_test = true;
        for (int id : chain) if (enabled[id]) rc.snapshot.push_back(id);
        trace += sfmt("| T%d %s: ", idx, render_chain(rc.snapshot).c_str());
    }
    void plugin_action(int id, UtestShell& t, bool post) {
        int idx = static_cast<MidShell&>(t).idx_;
        begin_test(idx);
        (post ? rec[(size_t)idx].post_log : rec[(size_t)idx].pre_log).push_back(id);
        for (const CAction& a : actions) if (a.test == idx && a.plugin == id && a.post == post) apply(a.op, id, sfmt("%s(P%d)", post ? "post" : "pre", id).c_str());
    }
    void phase(int idx, int p) {
        begin_test(idx);
        CRecord& rc = rec[(size_t)idx];
        if (p == 0) for (int i = 0; i < NP; i++) rc.touched_pre[i] = rc.touched[i];   // the pre actions are over
        const CPhase& ph = tests[(size_t)idx].ph[p];
        for (const COp& op : ph.ops) apply(op, -1, phase_name(p));
        switch (ph.outcome) {
        case O_FAIL: FAIL("scripted failure"); break;
        case O_THROW_INT: throw 42;
        case O_THROW_STD: throw std::runtime_error("scripted exception");
        default: break;
        }
    }
};
void MidPlugin::preTestAction(UtestShell& t, TestResult&) { g_mid->plugin_action(id_, t, false); }
void MidPlugin::postTestAction(UtestShell& t, TestResult&) { g_mid->plugin_action(id_, t, true); }
void MidTest::setup() { g_mid->phase(idx_, 0); }
void MidTest::testBody() { g_mid->phase(idx_, 1); }
void MidTest::teardown() { g_mid->phase(idx_, 2); }

COp gen_cop(Reader& r, std::string& desc) {
    uint32_t kind = r.below(8); int k = (int)r.below(NP);
    COp op{C_INSTALL, k, 0};
    if (kind <= 2) op.kind = C_INSTALL; else if (kind <= 4) { op.kind = C_REMOVE; op.alt = (int)r.below(64); } else if (kind == 5) op.kind = C_DISABLE; else if (kind == 6) op.kind = C_ENABLE;
    else op.kind = r.below(4) == 0 ? C_RESET : C_REMOVE_NOBODY;
    static const char* n[] = {"+", "-", "en", "dis", "reset", "-nobody"};
    desc += (op.kind == C_RESET || op.kind == C_REMOVE_NOBODY) ? sfmt("%s ", n[op.kind]) : sfmt("%sP%d ", n[op.kind], k);
    return op;
}
std::string render_ids(const std::vector<int>& v) { std::string s; for (int id : v) s += sfmt("P%d ", id); return s.empty() ? "(none)" : s; }

int run_c(Reader& r, bool& nontrivial, std::string& desc, bool dup) {
    Mid m(gen_names(r, dup, desc));
    UtestShell::setRethrowExceptions(false);
    int n0 = (int)r.below(5);
    desc += "before the run: ";
    for (int i = 0; i < n0; i++) { int k = (int)r.below(NP); int tries = 0; while (m.pos_of(k) >= 0 && tries < NP) { k = (k + 1) % NP; tries++; }
        if (m.pos_of(k) < 0) { m.reg.installPlugin(m.pl[k]); m.chain.insert(m.chain.begin(), k); desc += sfmt("+P%d ", k); } }
    int ndis = (int)r.below(3);
    for (int i = 0; i < ndis; i++) { int k = (int)r.below(NP); m.pl[k]->disable(); m.enabled[k] = false; desc += sfmt("disP%d ", k); }
    int ntests = 2 + (int)r.below(4);
    m.tests.resize((size_t)ntests); m.rec.resize((size_t)ntests);
    for (CRecord& rc : m.rec) for (int i = 0; i < NP; i++) rc.touched[i] = rc.touched_pre[i] = false;
    for (int t = 0; t < ntests; t++) {
        desc += sfmt("T%d{", t);
        for (int p = 0; p < 3; p++) {
            CPhase& ph = m.tests[(size_t)t].ph[p];
            uint32_t n = r.below(4); int nops = n <= 1 ? 0 : (int)n - 1;
            if (nops) desc += sfmt("%s: ", phase_name(p));
            for (int i = 0; i < nops; i++) ph.ops.push_back(gen_cop(r, desc));
            uint32_t o = r.below(8); ph.outcome = o < 6 ? O_PASS : (o == 6 ? O_FAIL : O_THROW_INT);
            if (ph.outcome != O_PASS) desc += sfmt("%s:%s ", phase_name(p), outcome_name(ph.outcome));
        }
        desc += "} ";
    }
    int nact = (int)r.below(3);
    for (int i = 0; i < nact; i++) {
        CAction a; a.test = (int)r.below((uint32_t)ntests); a.plugin = (int)r.below(NP); a.post = r.flag();
        desc += sfmt("[%s of P%d in T%d: ", a.post ? "post" : "pre", a.plugin, a.test); a.op = gen_cop(r, desc); desc += "] ";
        m.actions.push_back(a);
    }
    if (verif::g_explain) fprintf(stderr, "part c: %s\n", desc.c_str());
    m.check_chain("the installs before the run");
    std::vector<MidShell> shells((size_t)ntests);
    for (int t = ntests - 1; t >= 0; t--) { shells[(size_t)t].idx_ = t; m.reg.addTest(&shells[(size_t)t]); }
    CaptureOutput out; TestResult res(out);
    m.reg.runAllTests(res);
    if (verif::g_explain) fprintf(stderr, "trace: %s\n", m.trace.c_str());
    if (m.bad) return verif::fail(m.badsig.c_str(), "%s", m.badmsg.c_str());
    if (m.changes_before_last) { nontrivial = true; verif::cls("c:nt:chain-changed-before-a-later-test-of-the-run"); }
    for (int t = 0; t < ntests; t++) {
        const CRecord& rc = m.rec[(size_t)t];
        V_CHECK(rc.started, "C17:test-of-run-not-executed", "test %d of the run never started", t);
        for (int phase = 0; phase < 2; phase++) {
            const bool* open = phase == 0 ? rc.touched_pre : rc.touched;          // plugins whose participation in this test is left open
            const std::vector<int>& log = phase == 0 ? rc.pre_log : rc.post_log;
            std::vector<int> want, got;
            for (int id : rc.snapshot) if (!open[id]) want.push_back(id);
            if (phase == 1) want = std::vector<int>(want.rbegin(), want.rend());
            bool dup = false, stranger = false; int seen[NP] = {0};
            for (int id : log) { if (seen[id]++) dup = true; if (!open[id]) got.push_back(id); }
            for (int id : log) if (!open[id]) { bool in = false; for (int w : rc.snapshot) if (w == id) in = true; if (!in) stranger = true; }
            if (got != want || dup || stranger) {
                std::string o; for (int i = 0; i < NP; i++) if (open[i]) o += sfmt("P%d ", i);
                return verif::fail("C17:plugin-action-order-in-run", "test %d of a run of %d: %s actions went to [%s]; installed and enabled when its pre actions started: %s(newest first); changed inside this test (either way accepted): %s; so the %s actions of the others must be [%s]. trace: %s",
                                   t, ntests, phase ? "post" : "pre", render_ids(log).c_str(), render_ids(rc.snapshot).c_str(), o.empty() ? "none" : o.c_str(), phase ? "post" : "pre", render_ids(want).c_str(), m.trace.c_str());
            }
        }
    }
    m.check_chain("the run");
    if (m.bad) return verif::fail(m.badsig.c_str(), "%s", m.badmsg.c_str());
    return 0;
}


// =================================================================================================================
// part (d): the same through CommandLineTestRunner::runAllTestsMain — the runner installs its own "SetPointerPlugin" on top of
// the user's plugins, offers every "-p..." option to the chain (TestPlugin::parseAllArguments), runs the tests and removes its
// plugin by name.  Reference: options are offered newest plugin first until one accepts, an option nobody accepts means no
// test runs; every test's redirections are restored; the user's plugins see every test in the stated order; afterwards the
// registry holds exactly the user's plugins again (the runner removes exactly the plugin it installed).
struct SinkOutput : TestOutput {
    std::string* sink;
    explicit SinkOutput(std::string* s) : sink(s) {}
    void printBuffer(const char* t) CPPUTEST_OVERRIDE { *sink += t; }
    void flush() CPPUTEST_OVERRIDE {}
};
class SinkRunner : public CommandLineTestRunner {
public:
    std::string* sink;
    SinkRunner(int ac, const char* const* av, TestRegistry* reg, std::string* s) : CommandLineTestRunner(ac, av, reg), sink(s) {}
protected:
    TestOutput* createConsoleOutput() CPPUTEST_OVERRIDE { return new SinkOutput(sink); }
};

int run_d(Reader& r, bool& nontrivial, std::string& desc) {
    bool dup = r.flag();
    Chains c(gen_names(r, dup, desc));
    for (int i = 0; i < NT; i++) g_target[i] = base_val(i);
    Observer obs;
    // the user's plugins (0..3 recording plugins), then the observer
    int nuser = (int)r.below(4);
    for (int i = 0; i < nuser; i++) {
        int k = (int)r.below(NP); int tries = 0; while (c.pos_of(k) >= 0 && tries < NP) { k = (k + 1) % NP; tries++; }
        if (verif::known(KEY_SEVERAL) && c.names[(size_t)k] == DEF_PLUGIN_SET_POINTER) { verif::cls("d:user-plugin-skipped-known-finding"); continue; }
        c.reg.installPlugin(c.pl[k]); c.chain.insert(c.chain.begin(), k); desc += sfmt("+P%d(%s) ", k, c.names[(size_t)k].c_str());
        if (r.below(4) == 0) { c.pl[k]->disable(); c.enabled[k] = false; desc += "disabled "; }
    }
    c.reg.installPlugin(&obs);
    int ntests = 1 + (int)r.below(3);
    bool opt_e = r.flag();
    std::vector<TestScript> scripts((size_t)ntests);
    int last_target = 0;
    for (int t = 0; t < ntests; t++) {
        desc += sfmt("T%d{", t);
        for (int p = 0; p < 3; p++) {
            desc += sfmt("%s: ", phase_name(p)); Phase& ph = scripts[(size_t)t].ph[p]; ph = gen_phase(r, desc, last_target);
            if (!opt_e && ph.outcome >= O_THROW_INT) ph.outcome = O_FAIL;      // without -e the runner lets exceptions escape: not in the domain
        }
        desc += "} ";
    }
    std::vector<std::string> args; args.push_back("prog"); if (opt_e) args.push_back("-e");
    int nopt = (int)r.below(3);
    std::vector<int> opt_plugin;       // for each -p option: a plugin id whose name it carries, or -1 for a name nobody accepts
    for (int i = 0; i < nopt; i++) {
        int k = (int)r.below(NP + 1);
        if (k < NP && !c.chain.empty() && c.pos_of(k) < 0 && r.flag()) k = c.chain[(size_t)k % c.chain.size()];
        opt_plugin.push_back(k < NP ? k : -1);
        args.push_back(k < NP ? "-p" + c.names[(size_t)k] : std::string("-pnobody"));
    }
    desc += "args:"; for (auto& a : args) desc += " " + a; desc += " ";
    if (verif::g_explain) fprintf(stderr, "part d: %s\n", desc.c_str());
    std::vector<const char*> av; for (auto& a : args) av.push_back(a.c_str());
    std::vector<ScriptShell> shells((size_t)ntests);
    for (int t = ntests - 1; t >= 0; t--) { shells[(size_t)t].s_ = &scripts[(size_t)t]; c.reg.addTest(&shells[(size_t)t]); }

    std::string text; int result;
    c.log.clear();
    {
        SinkRunner runner((int)av.size(), av.data(), &c.reg, &text);
        result = runner.runAllTestsMain();
    }
    UtestShell::setRethrowExceptions(false);
    UtestShell::resetCrashMethod();

    // ---- model: options
    std::vector<LogEntry> want; bool all_accepted = true;
    for (int k : opt_plugin) {
        bool accepted = false;
        for (int id : c.chain) { want.push_back(LogEntry{'A', id}); if (k >= 0 && c.names[(size_t)id] == c.names[(size_t)k]) { accepted = true; break; } }
        if (!accepted) { all_accepted = false; break; }
    }
    verif::cls(nopt == 0 ? "d:no-plugin-option" : all_accepted ? "d:plugin-options-accepted" : "d:plugin-option-rejected");
    if (all_accepted) for (int t = 0; t < ntests; t++) {
        for (size_t i = 0; i < c.chain.size(); i++) if (c.enabled[c.chain[i]]) want.push_back(LogEntry{'<', c.chain[i]});
        for (size_t i = c.chain.size(); i-- > 0;) if (c.enabled[c.chain[i]]) want.push_back(LogEntry{'>', c.chain[i]});
    }
    std::string got_s = render_log(c.log), want_s = render_log(want);
    V_CHECK(got_s == want_s, "C17:runner-plugin-actions", "runner with user chain %s: plugins saw \"%s\", expected \"%s\" (A = asked about an option, < pre, > post)", render_chain(c.chain).c_str(), got_s.c_str(), want_s.c_str());
    // ---- afterwards the registry holds the observer and the user's plugins, nothing else
    {
        std::vector<int> a; bool ok = false;
        TestPlugin* first = c.reg.getFirstPlugin();
        if (first == &obs) { c.reg.resetPlugins(); TestPlugin* p = obs.getNext();      // walk behind the observer with the bounded walker
            std::vector<TestPlugin*> chainp; ok = true;
            for (int steps = 0; p != NullTestPlugin::instance(); steps++) { int id = -1; for (int i = 0; i < NP; i++) if (p == c.pl[i]) id = i; if (id < 0 || steps > NP) { ok = false; break; } a.push_back(id); p = p->getNext(); } }
        if (!(ok && a == c.chain)) {
            bool shared = false; for (int id : c.chain) if (c.names[(size_t)id] == DEF_PLUGIN_SET_POINTER) shared = true;
            return verif::fail(shared && first == &obs && ok ? KEY_SEVERAL : "C17:runner-changed-user-plugins",
                               "after runAllTestsMain the registry %s %s; the user had installed the observer and %s%s", first == &obs ? "holds the observer and" : "does not start with the user's newest plugin;", ok ? render_chain(a).c_str() : "(unknown plugin in the chain)",
                               render_chain(c.chain).c_str(), shared ? " (one of them is named like the runner's own SetPointerPlugin)" : "");
        }
    }
    if (!all_accepted) {
        V_CHECK(obs.pre.empty() && obs.post.empty() && result != 0, "C17:runner-ran-despite-rejected-option", "an option no plugin accepts: %zu tests started, runAllTestsMain returned %d", obs.pre.size(), result);
        for (int i = 0; i < NT; i++) V_CHECK(g_target[i] == base_val(i), "C17:target-changed-after-run", "target %d changed although no test ran", i);
        return 0;
    }
    V_CHECK(obs.pre.size() == (size_t)ntests && obs.post.size() == (size_t)ntests, "C17:observer-not-called", "observer saw %zu pre / %zu post actions for %d tests run by the runner", obs.pre.size(), obs.post.size(), ntests);
    size_t final_failures = obs.post.back().failures;      // the runner's SetPointerPlugin never fails a test in its post action
    int e = judge_targets(scripts, obs, 0, final_failures, text, nontrivial);
    if (e) return e;
    V_CHECK((result == 0) == (final_failures == 0), "C17:runner-result", "runAllTestsMain returned %d with %zu failures", result, final_failures);
    if (nopt) nontrivial = true;
    return 0;
}


// =================================================================================================================
// part (e): a test that runs OTHER tests to completion from inside its body (as the framework's own tests do with
// TestTestingFixture): the outer test redirects pointers, then runs 1..3 inner tests on a private registry that has a
// SetPointerPlugin of its own (constructed before the outer run starts) or shares the outer plugin object, and the inner tests
// redirect pointers too (same or other targets).  The statement is applied at both levels: after an inner test's post actions
// every pointer IT redirected has the value it had before ITS first redirection (the outer test's stub value if the outer test
// had redirected it), pointers it did not redirect are untouched; after the outer test's post actions every pointer the outer
// test redirected has the value it had before the outer test's first redirection.  The table is process-wide, so inner
// redirections count against the same 32 entries; nested programs stay below 32 entries in total, the limit is not judged here.
const char* KEY_NEST = "C17:inner-test-post-action-restores-enclosing-tests-redirections";
enum { E_REDIRECT, E_PLAIN, E_INNER };
struct EStep { int kind; int target; uint32_t value; int prog; };
struct ETest { std::vector<EStep> steps; };
struct Nest {
    std::vector<EStep> outer;
    std::vector<std::vector<ETest> > programs;
    TestPlugin* inner_setp;
    std::vector<Sample> inner_pre, inner_post;
};
Nest* g_nest;
class InnerObserver : public TestPlugin {
public:
    InnerObserver() : TestPlugin("inner observer") {}
    void preTestAction(UtestShell&, TestResult& r) CPPUTEST_OVERRIDE { g_nest->inner_pre.push_back(Observer::take(r)); }
    void postTestAction(UtestShell&, TestResult& r) CPPUTEST_OVERRIDE { g_nest->inner_post.push_back(Observer::take(r)); }
};
class InnerTest : public Utest {
public:
    const ETest* t_;
    explicit InnerTest(const ETest* t) : t_(t) {}
    void testBody() CPPUTEST_OVERRIDE {
        for (const EStep& st : t_->steps) { if (st.kind == E_REDIRECT) UT_PTR_SET(g_target[st.target], val(st.value)); else g_target[st.target] = val(st.value); }
    }
};
class InnerShell : public UtestShell {
public:
    const ETest* t_;
    InnerShell() : UtestShell("C17", "inner", "c17_plugins.cpp", 3), t_(NULLPTR) {}
    Utest* createTest() CPPUTEST_OVERRIDE { return new InnerTest(t_); }
};
void run_inner_program(const std::vector<ETest>& prog) {
    TestRegistry reg;
    InnerObserver obs;
    reg.installPlugin(g_nest->inner_setp);
    reg.installPlugin(&obs);
    std::vector<InnerShell> shells(prog.size());
    for (size_t i = prog.size(); i-- > 0;) { shells[i].t_ = &prog[i]; reg.addTest(&shells[i]); }
    CaptureOutput out; TestResult res(out);
    reg.runAllTests(res);
}
class OuterNestTest : public Utest {
public:
    void testBody() CPPUTEST_OVERRIDE {
        for (const EStep& st : g_nest->outer) {
            if (st.kind == E_REDIRECT) UT_PTR_SET(g_target[st.target], val(st.value));
            else if (st.kind == E_PLAIN) g_target[st.target] = val(st.value);
            else run_inner_program(g_nest->programs[(size_t)st.prog]);
        }
    }
};
class OuterNestShell : public UtestShell {
public:
    OuterNestShell() : UtestShell("C17", "outer", "c17_plugins.cpp", 4) {}
    Utest* createTest() CPPUTEST_OVERRIDE { return new OuterNestTest(); }
};

int run_e(Reader& r, bool& nontrivial, std::string& desc) {
    Nest n; g_nest = &n;
    struct Unset { ~Unset() { g_nest = NULLPTR; } } unset;
    bool share = r.flag();
    int nsteps = 1 + (int)r.below(5);
    int small = 6;                                    // few targets: outer and inner tests meet on the same pointers
    for (int i = 0; i < nsteps; i++) {
        uint32_t k = r.below(4);
        EStep st{E_REDIRECT, (int)r.below((uint32_t)small), r.below(200), 0};
        if (k == 3 || (k == 2 && n.programs.empty())) {
            st.kind = E_INNER; st.prog = (int)n.programs.size();
            std::vector<ETest> prog((size_t)(1 + r.below(3)));
            desc += "inner{";
            for (ETest& t : prog) {
                int m = (int)r.below(4);
                desc += "t[";
                for (int q = 0; q < m; q++) { bool plain = r.below(4) == 3;
                    // known finding: once an inner post action has forgotten the outer test's entries, a plain write to such a pointer is never undone
                    if (plain && verif::known(KEY_NEST)) plain = false;
                    EStep is{plain ? E_PLAIN : E_REDIRECT, (int)r.below((uint32_t)small), r.below(200), 0}; t.steps.push_back(is); desc += sfmt("%s(t%d,%u) ", is.kind == E_PLAIN ? "write" : "set", is.target, is.value); }
                desc += "] ";
            }
            desc += "} ";
            n.programs.push_back(prog);
        } else desc += sfmt("set(t%d,%u) ", st.target, st.value);
        n.outer.push_back(st);
    }
    bool second = r.flag(); int second_count = second ? r.pick((const int[]){32, 1, 8, 31}) : 0;
    if (second) desc += sfmt("then a test with %d redirections ", second_count);
    desc += share ? "[inner runs share the outer SetPointerPlugin object]" : "[inner registry has its own SetPointerPlugin]";
    if (verif::g_explain) fprintf(stderr, "part e: %s\n", desc.c_str());

    for (int i = 0; i < NT; i++) g_target[i] = base_val(i);
    UtestShell::setRethrowExceptions(false);
    SetPointerPlugin setp_inner("SetPointerPlugin");   // both constructed before the outer run starts (the constructor empties the table)
    SetPointerPlugin setp("SetPointerPlugin");
    n.inner_setp = share ? (TestPlugin*)&setp : (TestPlugin*)&setp_inner;
    Observer obs;
    TestRegistry reg;
    reg.installPlugin(&setp); reg.installPlugin(&obs);
    OuterNestShell outer_shell; ScriptShell second_shell; TestScript second_script;
    if (second) { second_script.ph[1].steps.push_back(Step{S_BURST, 0, 100, second_count, 1}); second_script.ph[0].outcome = second_script.ph[1].outcome = second_script.ph[2].outcome = O_PASS; second_shell.s_ = &second_script; reg.addTest(&second_shell); }
    reg.addTest(&outer_shell);
    CaptureOutput out; TestResult res(out);
    reg.runAllTests(res);

    // ---- model
    void* cur[NT]; for (int i = 0; i < NT; i++) cur[i] = base_val(i);
    bool oredir[NT]; void* obefore[NT]; for (int i = 0; i < NT; i++) { oredir[i] = false; obefore[i] = NULLPTR; }
    size_t k = 0; bool inner_after_redirect = false, same_target = false;
    for (const EStep& st : n.outer) {
        if (st.kind == E_REDIRECT) { if (!oredir[st.target]) { oredir[st.target] = true; obefore[st.target] = cur[st.target]; } cur[st.target] = val(st.value); continue; }
        if (st.kind == E_PLAIN) { cur[st.target] = val(st.value); continue; }
        for (const ETest& t : n.programs[(size_t)st.prog]) {
            V_CHECK(k < n.inner_pre.size() && k < n.inner_post.size(), "C17:observer-not-called", "inner test #%zu did not run", k);
            for (int i = 0; i < NT; i++) V_CHECK(n.inner_pre[k].v[i] == cur[i], "C17:target-changed-between-tests", "target %d is %p at the start of inner test #%zu, model says %p", i, n.inner_pre[k].v[i], k, cur[i]);
            bool iredir[NT]; void* ibefore[NT]; for (int i = 0; i < NT; i++) { iredir[i] = false; ibefore[i] = NULLPTR; }
            for (const EStep& is : t.steps) {
                if (is.kind == E_REDIRECT && !iredir[is.target]) { iredir[is.target] = true; ibefore[is.target] = cur[is.target]; if (oredir[is.target]) same_target = true; }
                cur[is.target] = val(is.value);
            }
            for (int i = 0; i < NT; i++) { if (iredir[i]) cur[i] = ibefore[i]; if (oredir[i]) inner_after_redirect = true; }
            for (int i = 0; i < NT; i++) {
                void* got = n.inner_post[k].v[i];
                if (got == cur[i]) continue;
                if (oredir[i] && got == obefore[i]) {   // the enclosing test's redirection was undone by the inner test's post action
                    if (verif::known(KEY_NEST)) { cur[i] = got; continue; }
                    return verif::fail(KEY_NEST, "the outer test had redirected target %d (from %p); inner test #%zu %s; after the inner test's post actions the target is back at %p, expected %p (the value before the inner test's first redirection)",
                                       i, obefore[i], k, iredir[i] ? "redirected it too" : "did not redirect it", got, cur[i]);
                }
                return verif::fail(iredir[i] ? "C17:redirected-target-not-restored" : "C17:unredirected-target-changed", "inner test #%zu: target %d is %p after its post actions, expected %p", k, i, got, cur[i]);
            }
            k++;
        }
    }
    if (inner_after_redirect) { nontrivial = true; verif::cls("e:nt:inner-run-while-outer-redirections-are-live"); }
    if (same_target) verif::cls("e:inner-and-outer-redirect-the-same-target");
    verif::cls(share ? "e:shared-plugin-object" : "e:own-inner-plugin-object");
    for (int i = 0; i < NT; i++) if (oredir[i]) cur[i] = obefore[i];
    size_t want_obs = second ? 2 : 1;
    V_CHECK(obs.post.size() == want_obs, "C17:observer-not-called", "outer observer saw %zu post actions, expected %zu", obs.post.size(), want_obs);
    for (int i = 0; i < NT; i++) {
        if (obs.post[0].v[i] == cur[i]) continue;
        return verif::fail(oredir[i] ? "C17:redirected-target-not-restored" : "C17:unredirected-target-changed", "outer test (which ran %zu inner tests): target %d is %p after its post actions, expected %p%s", k, i, obs.post[0].v[i], cur[i],
                           oredir[i] ? " (its value before the outer test's first redirection)" : "");
    }
    V_CHECK(obs.post[0].failures == 0, "C17:spurious-failure", "the outer test stays far below the limit but recorded %zu failure(s): %s", obs.post[0].failures, verif::printable(out.text).substr(0, 300).c_str());
    if (second) {
        V_CHECK(obs.post[1].failures == 0, "C17:spurious-failure", "a test with %d redirections that runs after the nesting test recorded %zu failure(s): %s", second_count, obs.post[1].failures, verif::printable(out.text).substr(0, 300).c_str());
        for (int i = 0; i < NT; i++) V_CHECK(obs.post[1].v[i] == cur[i], "C17:redirected-target-not-restored", "the test after the nesting test: target %d is %p after its post actions, expected %p", i, obs.post[1].v[i], cur[i]);
    }
    for (int i = 0; i < NT; i++) V_CHECK(g_target[i] == cur[i], "C17:target-changed-after-run", "target %d changed after the last post action", i);
    return 0;
}

}  // namespace

extern "C" const char* verif_property(void) { return "C17"; }
extern "C" void verif_init(void) { verif::install_fake_time(); }
extern "C" int verif_case(const uint8_t* data, size_t size) {
    Reader r(data, size);
    bool nontrivial = false; std::string desc;
    int rc;
    static const char part_of[8] = {'a', 'b', 'c', 'b', 'a', 'c', 'b', 'd'};   // 0..3 keep the meaning they have in the corpus
    uint32_t sel = r.below(8);
    char part = part_of[sel];
    if (sel == 5 && r.flag()) part = 'e';        // 5: part (c) with shared names, or part (e)
    bool dup = sel >= 4;                        // 4..6: different plugin objects may share a name
    if (dup) verif::cls("names:shared");
    if (part == 'a') { verif::cls("part:a-set-pointer"); desc = "a: "; rc = run_a(r, nontrivial, desc, dup); }
    else if (part == 'b') { verif::cls("part:b-chains"); desc = "b: "; rc = run_b(r, nontrivial, desc, dup); }
    else if (part == 'c') { verif::cls("part:c-chain-changes-during-a-run"); desc = "c: "; rc = run_c(r, nontrivial, desc, dup); }
    else if (part == 'e') { verif::cls("part:e-nested-test-runs"); desc = "e: "; rc = run_e(r, nontrivial, desc); }
    else { verif::cls("part:d-command-line-runner"); desc = "d: "; rc = run_d(r, nontrivial, desc); }
    if (verif::g_explain) fprintf(stderr, "case: %s\n", desc.c_str());
    verif::note_case(nontrivial, r.h, [&] { return desc.substr(0, 600); });
    return rc;
}
extern "C" int verif_known_repro(const char* key) {
    if (std::string(key) == KEY_NEST) {
        // outer test: UT_PTR_SET(t0, stub), then runs one empty inner test on a private registry with its own SetPointerPlugin;
        // after the inner test's post actions t0 must still be the stub
        Nest n; g_nest = &n;
        n.outer.push_back(EStep{E_REDIRECT, 0, 7, 0});
        n.outer.push_back(EStep{E_INNER, 0, 0, 0});
        n.programs.push_back(std::vector<ETest>(1));
        for (int i = 0; i < NT; i++) g_target[i] = base_val(i);
        SetPointerPlugin inner("SetPointerPlugin"), outer("SetPointerPlugin");
        n.inner_setp = &inner;
        TestRegistry reg; reg.installPlugin(&outer);
        OuterNestShell shell; reg.addTest(&shell);
        CaptureOutput out; TestResult res(out);
        reg.runAllTests(res);
        int r = (n.inner_post.size() == 1 && n.inner_post[0].v[0] == base_val(0)) ? 1 : 0;
        g_nest = NULLPTR;
        return r;
    }
    if (std::string(key) == KEY_SEVERAL) {
        // two different plugin objects named "Logger" (A older, B newer) and a third plugin: removing "Logger" must take out exactly one
        TestRegistry reg;
        RecPlugin a(0, "Logger"), x(1, "Other"), b(2, "Logger");
        reg.installPlugin(&a); reg.installPlugin(&x); reg.installPlugin(&b);
        reg.removePluginByName("Logger");
        return reg.countPlugins() < 2 ? 1 : 0;
    }
    if (std::string(key) != KEY_REMOVE) return -1;
    // chain A,B,C,D (installed in that order: D is first), remove "B" = third position
    TestRegistry reg;
    RecPlugin a(0, "A"), b(1, "B"), c(2, "C"), d(3, "D");
    reg.installPlugin(&a); reg.installPlugin(&b); reg.installPlugin(&c); reg.installPlugin(&d);
    reg.removePluginByName("B");
    return reg.countPlugins() == 4 && reg.getPluginByName("B") == &b ? 1 : 0;
}
