// Engine wrapper 2: libFuzzer entry.  The oracle lives in verif_case; a violation flushes the
// counters, prints the signature and traps so libFuzzer saves the input as crash-*.
#include "verif_rt.h"
#include <unistd.h>

static const char* g_stats_path = nullptr;
static void at_exit() { verif::flush_stats(g_stats_path); }

extern "C" int LLVMFuzzerInitialize(int*, char***) {
    g_stats_path = getenv("VERIF_STATS");
    verif::load_known();
    verif_init();
    atexit(at_exit);
    return 0;
}

extern "C" int LLVMFuzzerTestOneInput(const uint8_t* data, size_t size) {
    if (verif_case(data, size)) {
        fprintf(stderr, "VERIF-FAIL sig=%s msg=%s\n", verif::g_fail_sig.c_str(), verif::g_fail_msg.c_str());
        verif::flush_stats(g_stats_path);
        __builtin_trap();
    }
    return 0;
}
