// C18 — the string buffer cache never aliases live buffers and gives everything back.
// Decoder: a history of up to 80 operations on a SimpleStringInternalCache over a recording underlying allocator
//          (direct calls or through a SimpleStringCacheAllocator), or real SimpleString traffic through a
//          GlobalSimpleStringCache.  The whole history runs as the body of one test inside a private registry so that the
//          "unknown release" warning (printed through UtestShell::getCurrent()) lands in a private TestResult/TestOutput.
// Oracle:  shadow of every buffer handed out (state, requested size, class at creation, fill pattern) + the recording
//          allocator's own books (outstanding / returned exactly once / size handed back); ASan for everything else.
#include <functional>   // before the CppUTest headers (they define `new` as a macro)
#include "common.h"
#include "CppUTest/SimpleStringInternalCache.h"
#include <unordered_map>
#include <new>
#undef new   // the leak-detector macro would rewrite the placement form used below

using verif::Reader;
using verif::sfmt;

namespace {

// ---------------------------------------------------------------------------------------------------------------
// private output: no SimpleString storage (in global mode the string allocator IS the cache under test)
struct CaptureOutput : TestOutput {
    std::string text;
    void printBuffer(const char* s) CPPUTEST_OVERRIDE { text += s; }
    void flush() CPPUTEST_OVERRIDE {}
};
size_t count_warnings(const std::string& t) {
    static const char w[] = "WARNING: Attempting to deallocate a String buffer";
    size_t n = 0, pos = 0;
    while ((pos = t.find(w, pos)) != std::string::npos) { n++; pos += sizeof w - 1; }
    return n;
}

// ---------------------------------------------------------------------------------------------------------------
// recording underlying allocator
struct Rec { char* p; size_t size; bool outstanding; bool handed; size_t freed_size; };

struct RecAlloc : TestMemoryAllocator {
    std::vector<Rec> recs;
    std::unordered_map<char*, size_t> by_ptr;   // lookups only, never iterated
    size_t n_out = 0, n_alloc = 0, n_free = 0;
    bool quarantine = false;                     // keep returned *handed-out* buffers readable until the end of the case
    bool bad = false; std::string badmsg;
    // re-entrancy: an allocator beneath the cache may itself build strings, i.e. request / release buffers of the same cache
    // from inside alloc_memory / free_memory (tracing or accounting allocators do)
    std::function<void()> hook; int depth = 0, maxdepth = 0; bool allow = false;
    void reenter() { if (allow && hook && depth < maxdepth) { depth++; hook(); depth--; } }
    RecAlloc() : TestMemoryAllocator("verif underlying allocator", "malloc", "free") {}
    char* alloc_memory(size_t size, const char*, size_t) CPPUTEST_OVERRIDE {
        char* p = (char*)malloc(size ? size : 1);
        memset(p, 0, size);
        recs.push_back(Rec{p, size, true, false, 0});
        by_ptr[p] = recs.size() - 1;
        n_out++; n_alloc++;
        reenter();
        return p;
    }
    void free_memory(char* memory, size_t size, const char*, size_t) CPPUTEST_OVERRIDE {
        auto it = by_ptr.find(memory);
        if (it == by_ptr.end() || !recs[it->second].outstanding) {
            if (!bad) { bad = true; badmsg = sfmt("block %p handed back to the underlying allocator but not outstanding (returned twice, or never obtained from it)", (void*)memory); }
            return;
        }
        Rec& rc = recs[it->second];
        rc.outstanding = false; rc.freed_size = size; n_out--; n_free++;
        if (!rc.handed && rc.size <= 256 && size != rc.size && !bad) {   // bookkeeping nodes and class-sized blocks: the cache knows their size
            bad = true; badmsg = sfmt("block obtained with size %zu handed back with size %zu", rc.size, size);
        }
        if (quarantine && rc.handed) {           // stays mapped: the harness may hand the stale pointer to dealloc again (it is printed with %s)
            if (rc.size) { memset(rc.p, '#', rc.size - 1); rc.p[rc.size - 1] = 0; }
        } else {
            by_ptr.erase(it);
            free(rc.p);
            rc.p = NULLPTR;
        }
        reenter();
    }
    // end of case: the cache must not have written into memory it had already given back
    bool quarantine_intact() const {
        for (const Rec& rc : recs) if (rc.p && !rc.outstanding && rc.size) {
            for (size_t i = 0; i + 1 < rc.size; i++) if (rc.p[i] != '#') return false;
            if (rc.p[rc.size - 1] != 0) return false;
        }
        return true;
    }
    void release_everything() {
        for (Rec& rc : recs) if (rc.p) { free(rc.p); rc.p = NULLPTR; }
        recs.clear(); by_ptr.clear();
    }
    ~RecAlloc() CPPUTEST_DESTRUCTOR_OVERRIDE { release_everything(); }
};

// ---------------------------------------------------------------------------------------------------------------
// reference: the documented size classes 32 / 64 / 96 / 128 / 256, everything larger is not cached
const size_t BOUND[5] = {32, 64, 96, 128, 256};
int cls_of(size_t s) { for (int i = 0; i < 5; i++) if (s <= BOUND[i]) return i; return 5; }
size_t cls_lo(int c) { return c == 0 ? 0 : BOUND[c - 1] + 1; }
size_t cls_hi(int c) { return c < 5 ? BOUND[c] : 1100; }
bool on_boundary(size_t s) { for (int i = 0; i < 5; i++) if (s == BOUND[i] || s == BOUND[i] + 1) return true; return false; }

size_t gen_size(Reader& r) {
    static const size_t T[] = {0, 1, 31, 32, 33, 63, 64, 65, 95, 96, 97, 127, 128, 129, 255, 256, 257, 1024};
    uint32_t k = r.below(20);
    if (k < 18) return T[k];
    if (k == 18) return r.below(1101);
    return r.below(300);
}
size_t size_in_class(Reader& r, int c) { return cls_lo(c) + r.below((uint32_t)(cls_hi(c) - cls_lo(c) + 1)); }

enum { LIVE, RELEASED, GONE };
const char* KEY_REENTRANT_UNCACHED = "C18:reentrant-uncached-request-drops-block";
struct Handle { char* p; size_t req; int cls; size_t rec; int state; char fill; uint64_t seq; };

struct Ctx { Reader* r; int rc; bool nontrivial; std::string desc; CaptureOutput* out; bool adaptor; bool global; bool fixture; int reentrant; };

void fill_buffer(char* p, size_t n, char f) { if (n) { memset(p, f, n - 1); p[n - 1] = 0; } }
bool buffer_intact(const char* p, size_t n, char f) {
    if (!n) return true;
    for (size_t i = 0; i + 1 < n; i++) if (p[i] != f) return false;
    return p[n - 1] == 0;
}

// ---------------------------------------------------------------------------------------------------------------
// direct mode
struct Direct {
    Ctx& c; Reader& r;
    RecAlloc rec;
    SimpleStringInternalCache cache;
    SimpleStringCacheAllocator* ad = NULLPTR;
    std::vector<Handle> H;
    std::unordered_map<char*, size_t> hidx;      // lookups only
    std::vector<char*> foreign;
    uint64_t seq = 0;
    size_t unknown = 0;
    bool alloc_since_start = false, clear_after_alloc = false;
    size_t last_idx = 0, cur_req = 0; int nested_rc = 0; bool in_alloc = false, saw_nested_uncached = false; int uncached_in_progress = 0;
    struct NoReentry { RecAlloc& a; bool was; explicit NoReentry(RecAlloc& x) : a(x), was(x.allow) { a.allow = false; } ~NoReentry() { a.allow = was; } };

    explicit Direct(Ctx& cc) : c(cc), r(*cc.r) { rec.quarantine = true; H.reserve(2048); }
    // called from inside the recording allocator while the cache is in the middle of an alloc / release: an ordinary request
    // (of the size being served, or any size) happens at that point; it is kept for a later release step or released at once
    void reenter() {
        if (nested_rc || H.size() + 4 > H.capacity() || r.below(3) != 0) return;
        size_t s = r.flag() ? cur_req : gen_size(r);
        // known finding: an uncached request made while the cache is obtaining an uncached block drops off the uncached list
        if (uncached_in_progress > 0 && s > 256) { if (verif::known(KEY_REENTRANT_UNCACHED)) s %= 257; else saw_nested_uncached = true; }
        verif::cls(rec.depth >= 2 ? "nested:request-depth-2" : "nested:request");
        c.nontrivial = true; c.desc += "<";
        int e = op_alloc(s);
        if (e == 0 && r.flag()) { verif::cls("nested:released-at-once"); e = op_release(last_idx, H[last_idx].req, "nested-release"); }
        c.desc += ">";
        if (e) nested_rc = e;
    }
    ~Direct() { for (char* f : foreign) free(f); }

    char* do_alloc(size_t s) { return ad ? ad->alloc_memory(s, __FILE__, __LINE__) : cache.alloc(s); }
    void do_dealloc(char* p, size_t s) { if (ad) ad->free_memory(p, s, __FILE__, __LINE__); else cache.dealloc(p, s); }

    int check_warnings(const char* after) {
        size_t w = count_warnings(c.out->text), want = unknown ? 1 : 0;
        V_CHECK(w == want, w > want ? "C18:unknown-release-warning-repeated-or-spurious" : "C18:unknown-release-without-warning",
                "%zu warning(s) printed after %zu release(s) of buffers the cache does not know (expected %zu) [after %s]", w, unknown, want, after);
        return 0;
    }
    int check_books(const char* after) {
        if (rec.bad) return verif::fail("C18:underlying-allocator-contract", "%s [after %s]", rec.badmsg.c_str(), after);
        for (const Handle& h : H) if (h.state == LIVE && !rec.recs[h.rec].outstanding)
            return verif::fail("C18:live-buffer-returned-to-underlying", "buffer %p (requested %zu) is still in use but its block went back to the underlying allocator [after %s]", (void*)h.p, h.req, after);
        return 0;
    }
    std::vector<size_t> pick_set(int state) { std::vector<size_t> v; for (size_t i = 0; i < H.size(); i++) if (H[i].state == state) v.push_back(i); return v; }

    int op_alloc(size_t s) {
        verif::cls("op:alloc"); verif::cls(sfmt("alloc-class:%d", cls_of(s)).c_str());
        if (on_boundary(s)) { c.nontrivial = true; verif::cls("nt:boundary-size"); }
        if (clear_after_alloc) { c.nontrivial = true; verif::cls("nt:clear-between-allocations"); clear_after_alloc = false; }
        alloc_since_start = true;
        size_t outer_req = cur_req; bool outer_in = in_alloc; cur_req = s; in_alloc = true;
        if (s > 256) uncached_in_progress++;
        char* p = do_alloc(s);
        if (s > 256) uncached_in_progress--;
        cur_req = outer_req; in_alloc = outer_in;
        c.desc += sfmt("a(%zu);", s);
        std::string ctx = sfmt("alloc(%zu)", s);
        V_CHECK(p != NULLPTR, "C18:alloc-returned-null", "alloc(%zu) returned NULL", s);
        auto it = rec.by_ptr.find(p);
        V_CHECK(it != rec.by_ptr.end() && rec.recs[it->second].outstanding, "C18:handed-out-not-a-live-underlying-block",
                "alloc(%zu) handed out %p, which is not the start of a block currently obtained from the underlying allocator", s, (void*)p);
        Rec& rc = rec.recs[it->second];
        V_CHECK(rc.size >= s, "C18:buffer-smaller-than-request", "alloc(%zu) handed out a block of only %zu bytes", s, rc.size);
        auto hi = hidx.find(p);
        if (hi != hidx.end() && H[hi->second].rec == it->second) {
            Handle& h = H[hi->second];
            V_CHECK(h.state != LIVE, "C18:aliases-live-buffer", "alloc(%zu) handed out %p, which is still in use (requested %zu earlier)", s, (void*)p, h.req);
            V_CHECK(h.cls == cls_of(s), "C18:reused-for-other-class", "buffer created for size class %d (first request) reused for a request of %zu bytes (class %d)", h.cls, s, cls_of(s));
            verif::cls("alloc:reuse");
            h.req = s; h.state = LIVE; h.fill = (char)('a' + seq % 26); h.seq = ++seq;
            last_idx = hi->second;
            fill_buffer(p, s, h.fill);
        } else {
            verif::cls("alloc:fresh");
            rc.handed = true;
            Handle h{p, s, cls_of(s), it->second, LIVE, (char)('a' + seq % 26), 0};
            h.seq = ++seq;
            fill_buffer(p, s, h.fill);
            hidx[p] = H.size();
            last_idx = H.size();
            H.push_back(h);
        }
        return check_books(ctx.c_str());
    }

    // release of a live buffer with a size of its own class
    int op_release(size_t idx, size_t size, const char* what) {
        Handle& h = H[idx];
        V_CHECK(buffer_intact(h.p, h.req, h.fill), "C18:live-buffer-content-changed", "content of live buffer %p (requested %zu) changed while in use", (void*)h.p, h.req);
        for (const Handle& o : H) if (o.state == LIVE && o.cls == h.cls && o.seq > h.seq) { c.nontrivial = true; verif::cls("nt:release-not-most-recent"); break; }
        if (on_boundary(size)) { c.nontrivial = true; verif::cls("nt:boundary-size"); }
        std::string ctx = sfmt("%s(#%zu req=%zu, size=%zu)", what, idx, h.req, size);
        c.desc += sfmt("d(#%zu,%zu);", idx, size);
        size_t frees_before = rec.n_free;
        bool outer_in = in_alloc; in_alloc = false;
        if (h.cls == 5) h.state = GONE;              // being handed back: a request nested in that call must not see it as in use
        do_dealloc(h.p, size);
        in_alloc = outer_in;
        if (h.cls < 5) {
            h.state = RELEASED;
            V_CHECK(rec.recs[h.rec].outstanding, "C18:cached-block-not-kept", "released buffer of class %d went straight back to the underlying allocator [%s]", h.cls, ctx.c_str());
            V_CHECK(rec.n_free == frees_before, "C18:release-freed-other-blocks", "releasing a cached buffer handed %zu block(s) back to the underlying allocator [%s]", rec.n_free - frees_before, ctx.c_str());
        } else {
            h.state = GONE;
            const Rec& rc = rec.recs[h.rec];
            V_CHECK(!rc.outstanding, "C18:uncached-block-not-returned", "released uncached buffer (%zu bytes) was not handed back to the underlying allocator [%s]", h.req, ctx.c_str());
            V_CHECK(rc.freed_size == size, "C18:returned-with-wrong-size", "uncached buffer released with size %zu was handed back with size %zu [%s]", size, rc.freed_size, ctx.c_str());
        }
        if (int e = check_warnings(ctx.c_str())) return e;
        return check_books(ctx.c_str());
    }

    // release of something the cache does not know: one warning in total, nothing changes
    int op_unknown(char* p, size_t size, const std::string& ctx) {
        size_t frees_before = rec.n_free, allocs_before = rec.n_alloc;
        c.desc += ctx + ";";
        do_dealloc(p, size);
        unknown++;
        if (int e = check_warnings(ctx.c_str())) return e;
        V_CHECK(rec.n_free == frees_before && rec.n_alloc == allocs_before, "C18:unknown-release-touched-underlying", "an unknown release caused %zu return(s) / %zu request(s) at the underlying allocator [%s]",
                rec.n_free - frees_before, rec.n_alloc - allocs_before, ctx.c_str());
        return check_books(ctx.c_str());
    }

    int op_has_free(size_t s) {
        if (s > 256) s = 256;                      // documented for cached sizes only
        verif::cls("op:hasFreeBlocksOfSize");
        bool got = cache.hasFreeBlocksOfSize(s);
        size_t n = 0; for (const Handle& h : H) if (h.state == RELEASED && h.cls == cls_of(s)) n++;
        c.desc += sfmt("hasFree(%zu);", s);
        V_CHECK(got == (n > 0), "C18:hasFreeBlocksOfSize-disagrees", "hasFreeBlocksOfSize(%zu) -> %d but %zu released buffer(s) of class %d are cached", s, (int)got, n, cls_of(s));
        return 0;
    }
    int op_clear_cache() {
        NoReentry quiet(rec);                      // no requests are generated while the cache is being emptied
        verif::cls("op:clearCache");
        if (alloc_since_start) clear_after_alloc = true;
        c.desc += "clearCache;";
        cache.clearCache();
        for (Handle& h : H) if (h.state == RELEASED) {
            const Rec& rc = rec.recs[h.rec];
            V_CHECK(!rc.outstanding, "C18:clearCache-kept-free-block", "clearCache left the released buffer %p (class %d) with the cache", (void*)h.p, h.cls);
            V_CHECK(rc.freed_size == rc.size, "C18:returned-with-wrong-size", "block obtained with size %zu handed back with size %zu by clearCache", rc.size, rc.freed_size);
            h.state = GONE;
        }
        return check_books("clearCache");
    }
    int op_clear_all(const char* what) {
        NoReentry quiet(rec);
        verif::cls("op:clearAll");
        if (alloc_since_start) clear_after_alloc = true;
        c.desc += "clearAll;";
        for (const Handle& h : H) if (h.state == LIVE)
            V_CHECK(buffer_intact(h.p, h.req, h.fill), "C18:live-buffer-content-changed", "content of live buffer %p (requested %zu) changed while in use", (void*)h.p, h.req);
        cache.clearAllIncludingCurrentlyUsedMemory();
        for (Handle& h : H) {
            const Rec& rc = rec.recs[h.rec];
            if (h.state != GONE && h.cls < 5 && !rc.outstanding)
                V_CHECK(rc.freed_size == rc.size, "C18:returned-with-wrong-size", "block obtained with size %zu handed back with size %zu by clear-all", rc.size, rc.freed_size);
            h.state = GONE;                          // the shadow drops its live set
        }
        if (rec.bad) return verif::fail("C18:underlying-allocator-contract", "%s [after %s]", rec.badmsg.c_str(), what);
        V_CHECK(rec.n_out == 0, "C18:not-returned-after-clear-all", "%zu block(s) obtained from the underlying allocator were not handed back by %s (obtained %zu, returned %zu)", rec.n_out, what, rec.n_alloc, rec.n_free);
        return 0;
    }

    int ops() {
        if (ad) {
            V_CHECK(std::string(ad->name()) == "SimpleStringCacheAllocator" && std::string(ad->alloc_name()) == rec.alloc_name() && std::string(ad->free_name()) == rec.free_name()
                    && ad->originalAllocator() == &rec && ad->actualAllocator() == rec.actualAllocator(), "C18:adaptor-identity", "SimpleStringCacheAllocator does not report its original allocator's identity");
        }
        int nops = 1 + (int)r.below(80);
        for (int op = 0; op < nops && !r.empty(); op++) {
            uint32_t kind = r.below(16);
            std::vector<size_t> live = pick_set(LIVE);
            if (verif::g_explain) fprintf(stderr, "  op#%d kind=%u live=%zu\n", op, kind, live.size());
            int e = 0;
            if (kind >= 5 && kind <= 8 && live.empty()) kind = 0;
            if (kind == 11 && live.empty()) kind = 0;
            if (kind <= 4) e = op_alloc(gen_size(r));
            else if (kind == 14) { size_t b = BOUND[r.below(5)] + r.below(2); e = op_alloc(b); }
            else if (kind <= 7) { verif::cls("op:release"); size_t i = live[r.below((uint32_t)live.size())]; e = op_release(i, H[i].req, "release"); }
            else if (kind == 8) { verif::cls("op:release-other-size-same-class"); size_t i = live[r.below((uint32_t)live.size())]; e = op_release(i, size_in_class(r, H[i].cls), "release-other-size"); }
            else if (kind == 9 || kind == 10) {
                std::vector<size_t> dead;
                if (kind == 10) for (size_t i = 0; i < H.size(); i++) if (H[i].state != LIVE) dead.push_back(i);
                if (!dead.empty()) {
                    verif::cls("op:release-again");
                    size_t i = dead[r.below((uint32_t)dead.size())];
                    size_t s = r.flag() ? size_in_class(r, H[i].cls) : H[i].req;
                    e = op_unknown(H[i].p, s, sfmt("again(#%zu %s,size=%zu)", i, H[i].state == RELEASED ? "cached" : "returned", s));
                } else {
                    verif::cls("op:release-foreign");
                    std::string t = "F" + r.str(8, "xyz");
                    char* f = (char*)malloc(t.size() + 1); memcpy(f, t.c_str(), t.size() + 1); foreign.push_back(f);
                    size_t s = gen_size(r);
                    e = op_unknown(f, s, sfmt("foreign(\"%s\",size=%zu)", t.c_str(), s));
                }
            }
            else if (kind == 11) {
                verif::cls("op:release-live-with-other-class-size");
                size_t i = live[r.below((uint32_t)live.size())];
                int oc = (H[i].cls + 1 + (int)r.below(5)) % 6;
                size_t s = size_in_class(r, oc);
                e = op_unknown(H[i].p, s, sfmt("wrongclass(#%zu req=%zu,size=%zu)", i, H[i].req, s));   // "Ignoring it!": the buffer stays in use
            }
            else if (kind == 12) e = op_clear_cache();
            else if (kind == 13) e = op_has_free(gen_size(r));
            else { if (r.below(4) == 0) e = op_clear_all("clearAllIncludingCurrentlyUsedMemory"); else e = op_has_free(BOUND[r.below(5)]); }
            if (e == 0) e = nested_rc;
            if (e) return e;
        }
        return 0;
    }

    int run() {
        if (c.reentrant) { rec.maxdepth = c.reentrant; rec.allow = true; rec.hook = [this]() { reenter(); }; verif::cls("mode:allocator-beneath-re-enters-the-cache"); c.desc += sfmt("reentrant%d:", c.reentrant); }
        if (c.adaptor) ad = new SimpleStringCacheAllocator(cache, &rec); else cache.setAllocator(&rec);
        int rc = ops();
        if (rc == 0) rc = op_clear_all("the final clearAllIncludingCurrentlyUsedMemory");
        else cache.clearAllIncludingCurrentlyUsedMemory();
        if (rc == 0) rc = check_warnings("the whole history");
        if (rc == 0 && !rec.quarantine_intact()) rc = verif::fail("C18:wrote-into-returned-memory", "memory already handed back to the underlying allocator was written afterwards");
        rec.allow = false;
        if (rc && saw_nested_uncached && (verif::g_fail_sig == "C18:not-returned-after-clear-all" || verif::g_fail_sig.find("unknown-release-warning") != std::string::npos)) {
            std::string m = verif::g_fail_msg;
            verif::fail(KEY_REENTRANT_UNCACHED, "an uncached request made from inside the allocator beneath the cache while the cache was obtaining an uncached block was dropped from the cache's books: %s", m.c_str());
        }
        delete ad; ad = NULLPTR;                   // resets the cache's allocator; ~SimpleStringInternalCache frees its class table with the default allocator
        return rc;
    }
};

// ---------------------------------------------------------------------------------------------------------------
// global mode: real SimpleString traffic through a GlobalSimpleStringCache
size_t gen_len(Reader& r) {
    static const size_t T[] = {0, 1, 30, 31, 32, 62, 63, 64, 94, 95, 96, 126, 127, 128, 254, 255, 256, 300};
    uint32_t k = r.below(20);
    if (k < 18) return T[k];
    if (k == 18) return r.below(700);
    return r.below(40);
}
std::string gen_text(Reader& r, size_t len) { std::string s(len, (char)('A' + r.below(26))); if (len > 2) s[len / 2] = (char)('0' + r.below(10)); return s; }

// fixture variant: the output object of the running test is a stock StringBufferTestOutput created BEFORE the cache is installed;
// it only counts how deep the print path nests and how often the warning is started, and cuts a runaway recursion so that it
// is reported as a violation instead of a stack overflow.
struct NestOutput : StringBufferTestOutput {
    int depth = 0, maxDepth = 0, warnings = 0; bool cut = false;
    void printBuffer(const char* t) CPPUTEST_OVERRIDE {
        depth++; if (depth > maxDepth) maxDepth = depth;
        if (strstr(t, "WARNING: Attempting to deallocate a String buffer")) warnings++;
        if (depth > 8) cut = true; else StringBufferTestOutput::printBuffer(t);
        depth--;
    }
};
void call_function(void* p) { (*(std::function<void()>*)p)(); }

int run_global(Ctx& c, bool fixture) {
    Reader& r = *c.r;
    RecAlloc rec;
    TestMemoryAllocator* before = SimpleString::getStringAllocator();
    SimpleString::setStringAllocator(&rec);
    struct Restore { TestMemoryAllocator* a; ~Restore() { SimpleString::setStringAllocator(a); } } restore{before};

    const int NS = 4;
    std::vector<SimpleString*> pre; std::vector<std::string> prem;
    int npre = (int)r.below(3);
    for (int i = 0; i < npre; i++) { std::string t = "static-" + gen_text(r, r.below(50)); pre.push_back(new SimpleString(t.c_str())); prem.push_back(t); }
    std::vector<bool> reassigned((size_t)npre, false);
    NestOutput* nout = NULLPTR;
    TestRegistry ireg; ExecFunctionTestShell ishell;
    alignas(NestOutput) static char rawout[sizeof(NestOutput)];
    if (fixture) {   // its collecting string owns a buffer obtained while not caching; never destructed (its last buffer belongs to the cache)
        nout = new (rawout) NestOutput();
        if (r.flag()) { nout->print("printed before the cache existed\n"); c.desc += "preprint;"; }
    }
    size_t pre_blocks = rec.n_out;
    size_t ignored = 0;
    int rc = 0;
    // a release that happens between two tests of the inner run (e.g. by its progress dot) is reported to the enclosing test's output
    auto warnings_now = [&]() -> size_t { return (fixture ? (size_t)nout->warnings : 0) + count_warnings(c.out->text); };
    std::string inner_text; size_t inner_failures = 0;
    // the strings live in raw storage: with `abandon` they are still alive when the global cache is destroyed (which must hand
    // their buffers back all the same) and are never destructed afterwards
    bool abandon = r.below(4) == 3;
    alignas(SimpleString) static char raw[NS][sizeof(SimpleString)];
    {
        GlobalSimpleStringCache gc;
        SimpleString* s[NS]; std::string m[NS]; int mcls[NS]; uint64_t mseq[NS]; uint64_t seq = 0;
        for (int i = 0; i < NS; i++) { s[i] = new (raw[i]) SimpleString(); mcls[i] = 0; mseq[i] = ++seq; }
        auto replaced = [&](int i, size_t newlen) {   // approximate model of the buffer traffic, for the non-trivial rule only
            for (int q = 0; q < NS; q++) if (q != i && mcls[q] == mcls[i] && mseq[q] > mseq[i]) { c.nontrivial = true; verif::cls("nt:release-not-most-recent"); break; }
            if (on_boundary(newlen + 1)) { c.nontrivial = true; verif::cls("nt:boundary-size"); }
            mcls[i] = cls_of(newlen + 1); mseq[i] = ++seq;
        };
        if (SimpleString::getStringAllocator() != gc.getAllocator() || std::string(SimpleString::getStringAllocator()->name()) != "SimpleStringCacheAllocator")
            rc = verif::fail("C18:global-cache-not-installed", "GlobalSimpleStringCache did not install its allocator");
        int nops = 1 + (int)r.below(40);
        std::function<void()> traffic = [&]() {
        for (int op = 0; rc == 0 && op < nops && !r.empty(); op++) {
            uint32_t kind = r.below(fixture ? 10 : 8);
            int i = (int)r.below(NS), j = (int)r.below(NS);
            if (verif::g_explain) fprintf(stderr, "  op#%d kind=%u i=%d j=%d\n", op, kind, i, j);
            switch (kind) {
            default:
            case 0: case 1: { size_t len = gen_len(r); std::string t = gen_text(r, len); *s[i] = SimpleString(t.c_str()); m[i] = t; replaced(i, len); verif::cls("gop:assign"); c.desc += sfmt("s%d=len%zu;", i, len); break; }
            case 2: { if (m[i].size() + m[j].size() > 1200) { *s[i] = ""; m[i] = ""; } else { *s[i] += *s[j]; m[i] += std::string(m[j]); } replaced(i, m[i].size()); verif::cls("gop:append"); c.desc += sfmt("s%d+=s%d;", i, j); break; }
            case 3: { *s[i] = *s[j]; m[i] = m[j]; replaced(i, m[i].size()); verif::cls("gop:copy"); c.desc += sfmt("s%d=s%d;", i, j); break; }
            case 4: { s[i]->~SimpleString(); s[i] = new (raw[i]) SimpleString(); m[i] = ""; replaced(i, 0); verif::cls("gop:destroy-create"); c.desc += sfmt("renew s%d;", i); break; }
            case 5: { if (pre.empty()) { verif::cls("gop:noop"); break; }
                      // a string whose buffer was obtained while not caching is destroyed while caching: the documented "unknown release"
                      bool was = reassigned.back();
                      delete pre.back(); pre.pop_back(); prem.pop_back(); reassigned.pop_back(); c.desc += "~static;";
                      if (was) { verif::cls("gop:destroy-reassigned-static"); break; }        // its buffer came from the cache by now: an ordinary release
                      ignored++; c.nontrivial = true; verif::cls("gop:destroy-static");
                      size_t w = warnings_now();
                      if (w != 1) rc = verif::fail(w > 1 ? "C18:unknown-release-warning-repeated-or-spurious" : "C18:unknown-release-without-warning", "%zu warning(s) after %zu release(s) of buffers allocated while not caching", w, ignored);
                      break; }
            case 6: { size_t pos = r.below((uint32_t)m[j].size() + 2), len = r.below((uint32_t)m[j].size() + 2); SimpleString t = s[j]->subString(pos, len);
                      std::string mt = pos >= m[j].size() ? "" : m[j].substr(pos, len); *s[i] = t; m[i] = mt; replaced(i, mt.size()); verif::cls("gop:substring"); c.desc += sfmt("s%d=s%d.sub;", i, j); break; }
            case 7: { int n = (int)r.below(1000); std::string a = m[j].substr(0, 400); SimpleString t = StringFromFormat("%s|%d", a.c_str(), n); std::string mt = a + "|" + std::to_string(n);
                      *s[i] = t; m[i] = mt; replaced(i, mt.size()); verif::cls("gop:format"); c.desc += sfmt("s%d=fmt(s%d);", i, j); break; }
            case 8: { std::string t = "note " + gen_text(r, r.below(90)); UT_PRINT(t.c_str()); verif::cls("gop:print-in-test"); c.desc += "print;"; break; }   // output is produced while caching
            case 9: { if (pre.empty()) { verif::cls("gop:noop"); break; }
                      // a string created before the cache gets a new value while caching: its old buffer is an unknown release, the new one is the cache's
                      size_t k = (size_t)j % pre.size(); std::string t = "restatic-" + gen_text(r, gen_len(r) % 200);
                      *pre[k] = SimpleString(t.c_str()); prem[k] = t; c.desc += sfmt("static%zu=len%zu;", k, t.size());
                      if (!reassigned[k]) { reassigned[k] = true; ignored++; c.nontrivial = true; verif::cls("gop:reassign-static"); }
                      size_t w = warnings_now();
                      if (w != 1) rc = verif::fail(w > 1 ? "C18:unknown-release-warning-repeated-or-spurious" : "C18:unknown-release-without-warning", "%zu warning(s) after %zu release(s) of buffers allocated while not caching", w, ignored);
                      break; }
            }
            if (rc == 0 && fixture && nout->cut) rc = verif::fail("C18:unknown-release-warning-recursion", "printing the unknown-release warning re-entered the print path more than 8 levels deep (%d warnings started)", nout->warnings);
            for (int q = 0; rc == 0 && q < NS; q++) {
                const char* cs = s[q]->asCharString();
                if (cs == NULLPTR || m[q] != cs) rc = verif::fail("C18:string-content-changed", "after op#%d (kind %u) string %d reads \"%s\", expected \"%s\"", op, kind, q, cs ? verif::printable(cs).substr(0, 200).c_str() : "(NULL)", verif::printable(m[q]).substr(0, 200).c_str());
            }
            for (size_t q = 0; rc == 0 && q < pre.size(); q++) if (prem[q] != pre[q]->asCharString()) rc = verif::fail("C18:string-content-changed", "a string created before caching changed");
            if (rc == 0 && rec.bad) rc = verif::fail("C18:underlying-allocator-contract", "%s [after op#%d kind %u]", rec.badmsg.c_str(), op, kind);
        }
        };
        if (fixture) {   // the traffic is the body of a test that reports into the pre-cache output object
            verif::ExecLambda ex(call_function, &traffic);
            ishell.testFunction_ = &ex;
            ireg.addTest(&ishell);
            TestResult ires(*nout);
            ireg.runAllTests(ires);
            inner_failures = ires.getFailureCount();
            inner_text = nout->getOutput().asCharString();
            if (rc == 0 && nout->cut) rc = verif::fail("C18:unknown-release-warning-recursion", "printing the unknown-release warning re-entered the print path more than 8 levels deep (%d warnings started)", nout->warnings);
            if (rc == 0 && inner_failures) rc = verif::fail("C18:test-failed", "the test producing the traffic failed: %s", verif::printable(inner_text).substr(0, 500).c_str());
            if (rc == 0 && nout->maxDepth > 2) rc = verif::fail("C18:unknown-release-warning-recursion", "print path nested %d deep (one print plus one warning = 2)", nout->maxDepth);
            ignored++;                                 // the output's own pre-cache buffer: released by the first print of the run
            verif::cls("g:fixture-output-created-before-cache");
        } else traffic();
        // pre-cache strings that were given a new value own a cache buffer now: they must go before the cache does
        for (size_t k = pre.size(); k-- > 0;) if (reassigned[k]) { delete pre[k]; pre.erase(pre.begin() + (long)k); prem.erase(prem.begin() + (long)k); reassigned.erase(reassigned.begin() + (long)k); }
        if (abandon && rc == 0) { verif::cls("g:strings-alive-at-destruction"); c.desc += "abandon;"; }
        else for (int i = 0; i < NS; i++) s[i]->~SimpleString();
    }   // ~GlobalSimpleStringCache: clears everything, restores the previous string allocator
    if (rc == 0 && rec.bad) rc = verif::fail("C18:underlying-allocator-contract", "%s [at destruction of the global cache]", rec.badmsg.c_str());
    if (rc == 0 && SimpleString::getStringAllocator() != &rec) rc = verif::fail("C18:global-cache-did-not-restore-allocator", "string allocator after ~GlobalSimpleStringCache is not the one installed before it");
    SimpleString::setStringAllocator(&rec);
    // everything obtained through the cache is back; what is still out are the buffers of the pre-cache strings (alive, or "ignored" on release)
    if (rc == 0 && rec.n_out != pre_blocks) rc = verif::fail("C18:not-returned-after-destroy", "%zu block(s) outstanding after the global cache was destroyed, expected %zu (buffers of strings created before it)", rec.n_out, pre_blocks);
    for (SimpleString* p : pre) delete p;
    if (rc == 0 && rec.bad) rc = verif::fail("C18:underlying-allocator-contract", "%s [after the window]", rec.badmsg.c_str());
    if (rc == 0 && rec.n_out != ignored) rc = verif::fail("C18:not-returned-after-destroy", "%zu block(s) outstanding at the end, expected %zu (ignored releases)", rec.n_out, ignored);
    if (rc == 0) { size_t w = warnings_now(), want = ignored ? 1 : 0;
        if (w != want) rc = verif::fail(w > want ? "C18:unknown-release-warning-repeated-or-spurious" : "C18:unknown-release-without-warning", "%zu warning(s) in total, expected %zu", w, want); }
    return rc;
}

void body(void* arg) {
    Ctx* c = (Ctx*)arg;
    if (c->global) c->rc = run_global(*c, c->fixture);
    else { Direct d(*c); c->rc = d.run(); }
}

}  // namespace

extern "C" const char* verif_property(void) { return "C18"; }
extern "C" void verif_init(void) { verif::install_fake_time(); }
extern "C" int verif_case(const uint8_t* data, size_t size) {
    Reader r(data, size);
    CaptureOutput out;
    Ctx c{&r, 0, false, "", &out, false, false, false, 0};
    uint32_t mode = r.below(8);
    c.global = mode >= 6;
    c.fixture = mode == 7;
    c.reentrant = mode == 2 || mode == 5 ? 1 : mode == 3 ? 2 : 0;   // modes 0, 1, 4 keep the meaning they have in the corpus
    c.adaptor = mode == 4 || mode == 5;
    verif::cls(c.fixture ? "mode:global-cache-fixture-output" : c.global ? "mode:global-cache" : c.adaptor ? "mode:adaptor" : "mode:direct");
    c.desc = c.fixture ? "global+fixture:" : c.global ? "global:" : c.adaptor ? "adaptor:" : "direct:";
    size_t failures = 0;
    {
        ExecFunctionTestShell shell;
        verif::ExecLambda ex(body, &c);
        shell.testFunction_ = &ex;
        TestRegistry reg;
        reg.addTest(&shell);
        TestResult res(out);
        reg.runAllTests(res);
        failures = res.getFailureCount();
    }
    int rc = c.rc;
    if (rc == 0 && failures) rc = verif::fail("C18:test-failed", "the test running the history failed: %s", verif::printable(out.text).substr(0, 600).c_str());
    if (verif::g_explain) fprintf(stderr, "case: %s\noutput: %s\n", c.desc.c_str(), verif::printable(out.text).c_str());
    verif::note_case(c.nontrivial, r.h, [&] { return c.desc; });
    return rc;
}
extern "C" int verif_known_repro(const char* key) {
    if (std::string(key) != KEY_REENTRANT_UNCACHED) return -1;
    // the allocator beneath requests 300 bytes from the cache while the cache obtains the bookkeeping node for a 300-byte request
    struct Re : RecAlloc { SimpleStringInternalCache* cache; char* nested = NULLPTR; bool done = false;
        char* alloc_memory(size_t size, const char* f, size_t l) CPPUTEST_OVERRIDE { char* p = RecAlloc::alloc_memory(size, f, l); if (!done) { done = true; nested = cache->alloc(300); } return p; } } rec;
    SimpleStringInternalCache cache;
    rec.cache = &cache;
    cache.setAllocator(&rec);
    cache.alloc(300);
    cache.clearAllIncludingCurrentlyUsedMemory();
    return rec.n_out != 0 ? 1 : 0;
}
