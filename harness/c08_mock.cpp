// C08 — mock verdict is exact.
// Decoder: a scenario over an own MockSupport object (scopes "", "a", "b") with a recording, non-terminating
//          MockFailureReporter: 4 functions with fixed signatures (0..3 typed inputs of every parameter kind, 0..2 output
//          parameters, optional object pool, optional ignore-other-parameters, optional return type), 1..6 expectations
//          (expectOneCall / expectNCalls(0..3) / expectNoCall), per-scope strict order, ignoreOtherCalls, a disable()/tracing()
//          window; actual calls = the expansion of the expectation multiset, permuted, then 0..2 mutations, parameters
//          passed in a decoded order.  Parameter values come from a per-scenario pool of three per parameter, built from
//          lattices of boundary values (integers that agree in their low 8/16/32 bits, limits, sign boundaries, mixed
//          integer kinds on the two sides, doubles around the tolerance, strings/buffers with common prefixes, pointers that
//          differ in high bits, custom types with comparator/copier).
// Oracle:  independent multiset model (DESIGN.md appendix A.1), values compared mathematically.
// Plugin mode (first byte with bits 5 and 6 set, 1 case in 4): 2..4 such scenarios as consecutive tests of one private
//          TestRegistry/TestResult under the repository's MockSupportPlugin; per test: failure count, first line, mock() clear.
#include "common.h"
#include "CppUTestExt/MockSupport.h"
#include "CppUTestExt/MockSupportPlugin.h"
#include "CppUTestExt/MockFailure.h"
#include <algorithm>
#include <limits.h>
#include <math.h>

using verif::Reader;
using verif::sfmt;

namespace {

typedef __int128 i128;

// ---------------------------------------------------------------------------------------------- domain
enum PType { T_BOOL, T_INT, T_UINT, T_LONG, T_ULONG, T_LLONG, T_ULLONG, T_DOUBLE, T_STR, T_PTR, T_CPTR, T_FPTR, T_MEM, T_OBJ, NTYPES };
const char* const kTypeName[NTYPES] = {"bool", "int", "uint", "long", "ulong", "llong", "ullong", "double", "str", "ptr", "cptr", "fptr", "mem", "VType"};
bool is_int(PType t) { return t >= T_INT && t <= T_ULLONG; }

struct VObj { int content; };     // custom input type "VType", compared by content
struct VOut { int content; };     // custom output type "VOut", copied by a copier
VObj g_vin[9] = {{10}, {20}, {30}, {10}, {20}, {30}, {11}, {21}, {31}};   // [k+3]: other object, same content; [k+6]: near miss
struct VComparator : MockNamedValueComparator {
    bool isEqual(const void* a, const void* b) CPPUTEST_OVERRIDE { return ((const VObj*)a)->content == ((const VObj*)b)->content; }
    SimpleString valueToString(const void* o) CPPUTEST_OVERRIDE { return StringFrom(((const VObj*)o)->content); }
};
struct VCopier : MockNamedValueCopier {
    void copy(void* out, const void* in) CPPUTEST_OVERRIDE { *(VOut*)out = *(const VOut*)in; }
};
VComparator g_cmp; VCopier g_cpy;

char g_slots[16];
char g_objs[4];                      // [0..2]: object pool; [3]: an object no expectation names
int g_nullObj = -1;                  // the pool index that stands for the NULL object in this scenario (-1: none)
void* obj_ptr(int idx) { return idx == g_nullObj ? (void*)0 : (void*)&g_objs[idx]; }
const char* const kRetStr[6] = {"r0", "r1", "r2", "r3", "r4", "r5"};
const char* const kScope[3] = {"", "a", "b"};
const char* const kFunc[4] = {"f0", "f1", "f2", "f3"};
const char* const kIn[3] = {"p0", "p1", "p2"};
const char* const kOut[2] = {"o0", "o1"};

struct Val {
    PType type = T_INT; i128 i = 0; double d = 0, tol = 0; int tolKind = 0; std::string s; uintptr_t p = 0; int obj = 0;
};

bool fits(PType t, i128 v) {
    switch (t) {
    case T_INT: return v >= INT_MIN && v <= INT_MAX;
    case T_UINT: return v >= 0 && v <= (i128)UINT_MAX;
    case T_LONG: case T_LLONG: return v >= (i128)LLONG_MIN && v <= (i128)LLONG_MAX;
    case T_ULONG: case T_ULLONG: return v >= 0 && v <= (i128)ULLONG_MAX;
    default: return false;
    }
}
// the reference comparison: expectation value e against actual value a, by mathematical value
bool value_equal(const Val& e, const Val& a) {
    if (is_int(e.type) && is_int(a.type)) return e.i == a.i;
    if (e.type != a.type) return false;
    switch (e.type) {
    case T_BOOL: return (e.i != 0) == (a.i != 0);
    case T_DOUBLE: return e.d == a.d || fabs(e.d - a.d) <= e.tol;
    case T_STR: case T_MEM: return e.s == a.s;
    case T_PTR: case T_CPTR: case T_FPTR: return e.p == a.p;
    case T_OBJ: return g_vin[e.obj].content == g_vin[a.obj].content;
    default: return false;
    }
}
std::string i128_text(i128 v) {
    if (v == 0) return "0";
    bool neg = v < 0; unsigned __int128 u = neg ? (unsigned __int128)(-(v + 1)) + 1 : (unsigned __int128)v;
    std::string s; while (u) { s.insert(s.begin(), (char)('0' + (int)(u % 10))); u /= 10; }
    return neg ? "-" + s : s;
}
std::string val_text(const Val& v) {
    if (is_int(v.type)) return i128_text(v.i) + ":" + kTypeName[v.type];
    switch (v.type) {
    case T_BOOL: return v.i ? "true" : "false";
    case T_DOUBLE: return sfmt("%.17g%s", v.d, v.tolKind ? sfmt("~%g", v.tol).c_str() : "");
    case T_STR: return "\"" + verif::printable(v.s) + "\"";
    case T_MEM: return "mem[" + verif::printable(v.s) + "]";
    case T_PTR: return sfmt("ptr:%#lx", (unsigned long)v.p);
    case T_CPTR: return sfmt("cptr:%#lx", (unsigned long)v.p);
    case T_FPTR: return sfmt("fptr:%#lx", (unsigned long)v.p);
    default: return sfmt("VType{%d}#%d", g_vin[v.obj].content, v.obj);
    }
}
// canonical text of an expectation value: equal values (in the model's sense) have equal keys
std::string val_key(const Val& v) {
    if (is_int(v.type)) return i128_text(v.i);
    if (v.type == T_OBJ) return sfmt("V%d", g_vin[v.obj].content);
    if (v.type == T_BOOL) return v.i ? "T" : "F";
    return val_text(v);
}

// ---- lattices
const i128 LI[] = {0, 1, 2, -1, 0x10, 0x110, 0x10010, 0x100000010LL, 0x7f, 0x80, 0xff, 0x100, 0x7fff, 0x8000, 0xffff, 0x10000,
                   INT_MAX, (i128)INT_MAX + 1, UINT_MAX, (i128)UINT_MAX + 1, INT_MIN, (i128)INT_MIN - 1, LLONG_MAX, LLONG_MIN,
                   (i128)ULLONG_MAX, (i128)LLONG_MAX + 1, -0x100000010LL, 0x1234567800000010LL, -2, 100, 0xfffffff0LL, -0x80};
const size_t NLI = sizeof LI / sizeof LI[0];
const double LD[] = {0.0, 1.5, -2.0, 3.5, 100.25, 1e6, -1e6, 7.0};
const char* const LS[] = {"", "a", "ab", "abc", "b", "a\xff", "a\x80", "a b", "abcdefghijklmnopqrstuvwxyz0123456789", "A"};
const char* const LM[] = {"", "\x01", "\x01\x02", "\x01\x02\x03", "\x7f", "\xff\xfe", "\x01\x02\x04", "\x01\x03"};
const uintptr_t LP[] = {0, 0x10, 0x100000010UL, 0x7f0000000010UL, (uintptr_t)&g_slots[0], (uintptr_t)&g_slots[1], 0xffffffff00000010UL, 0x11};
const double kTol[4] = {0.005, 0.5, 0.0, 1e-9};    // kind 0: the default tolerance of withDoubleParameter(name, value)

i128 pick_int(unsigned b, PType te, PType ta) {
    for (size_t k = 0; k < NLI; k++) { i128 v = LI[(b + NLI - k) % NLI]; if (fits(te, v) && fits(ta, v)) return v; }
    return 0;
}
i128 derive_int(i128 v, i128 delta, unsigned b, PType te, PType ta) {
    i128 w = v + delta;
    return (fits(te, w) && fits(ta, w)) ? w : pick_int(b, te, ta);
}
// an actual-side value close to v but different: same low 8/16/32 bits, neighbours, sign flip
i128 near_int(i128 v, PType ta, unsigned sel) {
    const i128 cand[] = {v + ((i128)1 << 32), v - ((i128)1 << 32), v + 0x10000, v - 0x10000, v + 0x100, v - 0x100, v + 1, v - 1, -v, v + ((i128)1 << 33)};
    const size_t n = sizeof cand / sizeof cand[0];
    for (size_t k = 0; k < n; k++) { i128 w = cand[(sel + k) % n]; if (w != v && fits(ta, w)) return w; }
    return v + 1;
}

enum RetType { R_NONE, R_BOOL, R_INT, R_UINT, R_LONG, R_ULONG, R_LLONG, R_ULLONG, R_DOUBLE, R_STR, R_PTR, R_CPTR, R_FPTR, NRET };
const char* const kRetName[NRET] = {"none", "bool", "int", "uint", "long", "ulong", "llong", "ullong", "double", "str", "ptr", "cptr", "fptr"};
const char* const kRetTypeString[NRET] = {"", "bool", "int", "unsigned int", "long int", "unsigned long int", "long long int", "unsigned long long int",
                                          "double", "const char*", "void*", "const void*", "void (*)()"};

struct ParamSpec { PType te, ta; int tolKind; Val pool[3]; };
struct FuncSpec { int nin; ParamSpec in[3]; int nout; int okind[2]; size_t osz[2]; bool ignoreOther, objects; int ret; };   // okind: 0 plain bytes, 1 custom type "VOut"
struct ExpSpec {
    int scope, func, count, how;     // how: 0 expectOneCall, 1 expectNCalls, 2 expectNoCall
    int val[3]; int obj; bool hasRet; bool unmod[2]; std::vector<uint8_t> out[2]; VOut outv[2];
    bool dead;                       // declared while the scope was disabled: not an expectation at all
    bool bare;                       // declared without any parameter, output, object or ignoreOtherParameters although the function has parameters
    int consumed;                    // model state
};
enum StepKind { S_IN, S_OUT, S_OBJ };
struct Step { int kind; std::string name; Val v; int idx; int variant; int obj; int okind; };   // variant: 0 same, 1 near miss, 2/3 equal but represented differently
struct CallSpec {
    int scope, func; bool unknown; std::vector<Step> steps; int fetch; bool probe; int origin; std::string mut;
    unsigned readSel = 0;            // which of the getters that admit the stored return value reads it back
};
Step in_step(const std::string& name, const Val& v, int idx) { Step s; s.kind = S_IN; s.name = name; s.v = v; s.idx = idx; s.variant = 0; s.obj = 0; s.okind = 0; return s; }
Step out_step(const std::string& name, int okind) { Step s; s.kind = S_OUT; s.name = name; s.idx = 0; s.variant = 0; s.obj = 0; s.okind = okind; return s; }
Step obj_step(int obj) { Step s; s.kind = S_OBJ; s.idx = 0; s.variant = 0; s.obj = obj; s.okind = 0; return s; }
Val int_val(int v) { Val x; x.type = T_INT; x.i = v; return x; }

std::string scoped(int scope, const std::string& fn) { return scope == 0 ? fn : std::string(kScope[scope]) + "::" + fn; }
std::string fname(const CallSpec& c) { return c.unknown ? std::string("nofn") : std::string(kFunc[c.func]); }

std::string ordinal(unsigned n) {
    const char* suf = "th";
    unsigned m100 = n % 100, m10 = n % 10;
    if (m100 < 11 || m100 > 13) { if (m10 == 1) suf = "st"; else if (m10 == 2) suf = "nd"; else if (m10 == 3) suf = "rd"; }
    return sfmt("%u%s", n, suf);
}

// ---------------------------------------------------------------------------------------------- reporter
struct RecReporter : MockFailureReporter {
    int n = 0; std::vector<std::string> msgs;
    void failTest(const MockFailure& failure) CPPUTEST_OVERRIDE { n++; msgs.push_back(failure.getMessage().asCharString()); }
};
std::string first_line(const std::string& s) { size_t p = s.find('\n'); return p == std::string::npos ? s : s.substr(0, p); }

// ---------------------------------------------------------------------------------------------- diagnoses
struct Allow { const char* cls; std::string text; bool exact; };
typedef std::vector<Allow> AllowSet;

Allow a_unexpected(const std::string& fn) { return {"unexpected-call", "Mock Failure: Unexpected call to function: " + fn, true}; }
Allow a_additional(const std::string& fn, unsigned nth) { return {"additional-call", "Mock Failure: Unexpected additional (" + ordinal(nth) + ") call to function: " + fn, true}; }
Allow a_name_in(const std::string& fn, const std::string& p) { return {"unexpected-parameter-name", "Mock Failure: Unexpected parameter name to function \"" + fn + "\": " + p, true}; }
Allow a_name_out(const std::string& fn, const std::string& p) { return {"unexpected-output-parameter-name", "Mock Failure: Unexpected output parameter name to function \"" + fn + "\": " + p, true}; }
Allow a_type_out(const std::string& fn, const std::string& p, int okind) { return {"unexpected-output-parameter-type", std::string("Mock Failure: Unexpected parameter type \"") + (okind ? "VOut" : "void*") + "\" to output parameter \"" + p + "\" to function \"" + fn + "\"", true}; }
Allow a_value(const std::string& fn, const std::string& p) { return {"unexpected-parameter-value", "Mock Failure: Unexpected parameter value to parameter \"" + p + "\" to function \"" + fn + "\": <", false}; }
Allow a_object(const std::string& fn) { return {"unexpected-object", "MockFailure: Function called on an unexpected object: " + fn, true}; }
Allow a_missing_param(const std::string& fn) { return {"missing-parameter", "Mock Failure: Expected parameter for function \"" + fn + "\" did not happen.", true}; }
Allow a_missing_object(const std::string& fn) { return {"missing-object", "Mock Failure: Expected call on object for function \"" + fn + "\" but it did not happen.", true}; }
Allow a_unfulfilled() { return {"unfulfilled", "Mock Failure: Expected call WAS NOT fulfilled.", true}; }
Allow a_out_of_order() { return {"out-of-order", "Mock Failure: Out of order calls", true}; }

const Allow* match_allowed(const AllowSet& set, const std::string& line) {
    for (auto& a : set) {
        if (a.exact ? (line == a.text) : (line.compare(0, a.text.size(), a.text) == 0)) return &a;
    }
    return nullptr;
}
std::string render_allowed(const AllowSet& set) {
    std::string s;
    for (auto& a : set) { if (!s.empty()) s += " | "; s += a.text; if (!a.exact) s += "..."; }
    return s;
}

// ---------------------------------------------------------------------------------------------- reference model
// Written from the property statement and DESIGN.md A.1; uses only the decoded specifications, never the code under test.
struct Model {
    const FuncSpec* fs; std::vector<ExpSpec>* ex; int iocMode; int strictMask;
    bool pendingSet[3] = {false, false, false}; AllowSet pending[3];   // unmatched call of a scope, not finalised yet
    std::vector<std::string> seq[3];                                      // classes of the numbered calls of a scope
    bool disabled[3] = {false, false, false}, tracing[3] = {false, false, false};
    // state of the call in progress
    std::vector<int> cons; bool ignored = false; bool traced = false; int matched = -1;
    // bookkeeping for the (fixed) finding C08:stale-parameter-match-state only, never used for a verdict
    std::vector<char> stale, flagged;
    bool stale_candidate() const { for (int i : cons) if (stale[(size_t)i]) return true; return false; }

    bool ioc(int s) const { return iocMode == 1 || (iocMode == 2 && s == 1) || (iocMode == 3 && s == 2); }
    const Val& exp_val(const ExpSpec& e, int i) const { return fs[e.func].in[i].pool[e.val[i]]; }
    std::string class_key(const ExpSpec& e) const {
        const FuncSpec& f = fs[e.func];
        std::string k = kFunc[e.func];
        if (e.bare) return k + "#bare";
        if (f.objects) k += sfmt("@%d", e.obj);
        for (int i = 0; i < f.nin; i++) k += "," + val_key(exp_val(e, i));
        return k;
    }
    int in_index(const FuncSpec& f, const std::string& n) const { for (int i = 0; i < f.nin; i++) if (n == kIn[i]) return i; return -1; }
    int out_index(const FuncSpec& f, const std::string& n) const { for (int i = 0; i < f.nout; i++) if (n == kOut[i]) return i; return -1; }
    bool seen(const CallSpec& c, int kind, const char* name) const { for (auto& s : c.steps) if (s.kind == kind && (kind == S_OBJ || s.name == name)) return true; return false; }

    bool ign(const ExpSpec& e) const { return fs[e.func].ignoreOther && !e.bare; }
    bool needs_object(const ExpSpec& e) const { return fs[e.func].objects && !e.bare; }
    bool lacks_param(const ExpSpec& e, const CallSpec& c) const {
        if (e.bare) return false;
        const FuncSpec& f = fs[e.func];
        for (int i = 0; i < f.nin; i++) if (!seen(c, S_IN, kIn[i])) return true;
        for (int i = 0; i < f.nout; i++) if (!seen(c, S_OUT, kOut[i])) return true;
        return false;
    }
    // everything this expectation asks for was passed (ignore-other expectations: possibly more)
    bool complete_for(const ExpSpec& e, const CallSpec& c) const { return !lacks_param(e, c) && (!needs_object(e) || seen(c, S_OBJ, "")); }
    bool agrees(const ExpSpec& e, const Step& s) const {
        const FuncSpec& f = fs[e.func];
        if (s.kind == S_IN) { int i = e.bare ? -1 : in_index(f, s.name); if (i < 0) return ign(e); return value_equal(exp_val(e, i), s.v); }
        if (s.kind == S_OUT) { int i = e.bare ? -1 : out_index(f, s.name); if (i < 0) return ign(e); return f.okind[i] == s.okind; }
        return !needs_object(e) || s.obj == e.obj;
    }
    // some expectation on the function (open or not) lists a parameter of that name: "unexpected value", else "unexpected name"
    bool listed(const CallSpec& c, const Step& s) const {
        const FuncSpec& f = fs[c.func];
        if ((s.kind == S_IN ? in_index(f, s.name) : out_index(f, s.name)) < 0) return false;
        for (auto& e : *ex) if (live(e, c.scope, c.func) && e.how != 2 && !e.bare) return true;
        return false;
    }
    bool live(const ExpSpec& e, int scope, int func) const { return !e.dead && e.scope == scope && e.func == func; }
    // the call is exactly a call of a class whose expectations were all used up already (a surplus call)
    bool surplus(const CallSpec& c) const {
        if (c.unknown) return false;
        for (auto& e : *ex) {
            if (!live(e, c.scope, c.func) || e.count == 0 || e.consumed < e.count || !complete_for(e, c)) continue;
            bool all = true;
            for (auto& s : c.steps) if (!agrees(e, s)) all = false;
            if (all) return true;
        }
        return false;
    }
    unsigned fulfilled_for(int scope, int func) const { unsigned n = 0; for (auto& e : *ex) if (live(e, scope, func)) n += (unsigned)e.consumed; return n; }

    // disable()/enable()/tracing(): target 0 = the root (propagates to every scope), 1/2 = that scope only
    void window(int kind, int target, bool on) {
        for (int s = 0; s < 3; s++) if (target == 0 || target == s) { if (kind == 1) disabled[s] = on; else tracing[s] = on; }
    }

    // -- begin of an actual call.  Returns true when a report is due at this position (set filled in).
    bool begin(const CallSpec& c, AllowSet& due, bool& tolerateMore) {
        ignored = false; traced = false; matched = -1; cons.clear(); tolerateMore = false;
        stale.resize(ex->size(), 0); flagged.assign(ex->size(), 0);
        if (pendingSet[c.scope]) { due = pending[c.scope]; tolerateMore = true; return true; }   // finalisation of the previous call of this scope
        if (disabled[c.scope]) { ignored = true; return false; }
        if (tracing[c.scope]) { ignored = true; traced = true; return false; }
        std::string fn = scoped(c.scope, fname(c));
        bool named = false;
        if (!c.unknown) for (auto& e : *ex) if (live(e, c.scope, c.func)) named = true;
        if (!named) {
            if (ioc(c.scope)) { ignored = true; return false; }
            due.push_back(a_unexpected(fn)); return true;
        }
        for (size_t i = 0; i < ex->size(); i++) { auto& e = (*ex)[i]; if (live(e, c.scope, c.func) && e.consumed < e.count) cons.push_back((int)i); }
        if (cons.empty()) {
            unsigned done = fulfilled_for(c.scope, c.func);
            due.push_back(done > 0 ? a_additional(fn, done + 1) : a_unexpected(fn));
            return true;
        }
        return false;
    }
    // -- one parameter / object of the call in progress
    bool step(const CallSpec& c, const Step& s, AllowSet& due) {
        if (ignored) return false;
        std::vector<int> keep;
        for (int i : cons) if (agrees((*ex)[i], s)) keep.push_back(i);
        cons = keep;
        const FuncSpec& f = fs[c.func];
        if (!cons.empty()) {
            bool islisted = (s.kind == S_IN && in_index(f, s.name) >= 0) || (s.kind == S_OUT && out_index(f, s.name) >= 0) || (s.kind == S_OBJ && f.objects);
            if (islisted) for (int i : cons) flagged[(size_t)i] = 1;
            return false;
        }
        std::string fn = scoped(c.scope, fname(c));
        if (s.kind == S_IN) due.push_back(!listed(c, s) ? a_name_in(fn, s.name) : a_value(fn, s.name));
        else if (s.kind == S_OUT) due.push_back(!listed(c, s) ? a_name_out(fn, s.name) : a_type_out(fn, s.name, s.okind));
        else due.push_back(a_object(fn));
        // A.1 rule 2 / A.5: a surplus call while another class of the function is open may also be called "additional call"
        if (surplus(c)) due.push_back(a_additional(fn, fulfilled_for(c.scope, c.func) + 1));
        return true;
    }
    // -- all parameters passed: matched (consumes the first declared open expectation of the class) or left unmatched
    void finish(const CallSpec& c, AllowSet& deferred) {
        if (ignored) return;
        std::string fn = scoped(c.scope, fname(c));
        for (int i : cons) if (complete_for((*ex)[(size_t)i], c)) { matched = i; break; }      // first declared open expectation the call is a complete call of
        if (matched >= 0) {
            (*ex)[(size_t)matched].consumed++; seq[c.scope].push_back(class_key((*ex)[(size_t)matched]));
            for (size_t i = 0; i < flagged.size(); i++) if (flagged[i]) stale[i] = 1;
            for (int i : cons) stale[(size_t)i] = 0;
            return;
        }
        bool mp = false, mo = false;
        for (int i : cons) { const ExpSpec& e = (*ex)[(size_t)i]; if (lacks_param(e, c)) mp = true; if (needs_object(e) && !seen(c, S_OBJ, "")) mo = true; }
        if (mp) deferred.push_back(a_missing_param(fn));
        if (mo) deferred.push_back(a_missing_object(fn));
    }
    bool any_pending(AllowSet& due) const {
        bool any = false;
        for (int s = 0; s < 3; s++) if (pendingSet[s]) { any = true; due.insert(due.end(), pending[s].begin(), pending[s].end()); }
        return any;
    }
    bool calls_left() const { for (auto& e : *ex) if (!e.dead && e.consumed != e.count) return true; return false; }
    bool order_differs() const {
        for (int s = 0; s < 3; s++) {
            if (!(strictMask & (1 << s))) continue;
            std::vector<std::string> want;
            for (auto& e : *ex) if (!e.dead && e.scope == s) for (int k = 0; k < e.count; k++) want.push_back(class_key(e));
            if (want != seq[s]) return true;
        }
        return false;
    }
    bool end(AllowSet& due) const {
        if (any_pending(due)) return true;
        if (calls_left()) { due.push_back(a_unfulfilled()); if (order_differs()) due.push_back(a_out_of_order()); return true; }
        if (order_differs()) { due.push_back(a_out_of_order()); return true; }
        return false;
    }
};

// ---------------------------------------------------------------------------------------------- decoder
struct Case {
    FuncSpec fs[4]; int strictMask, iocMode;
    int nullObj = -1;                           // object index that is the NULL pointer (on both sides), -1 none
    int installStyle = 0;                       // comparator/copier: 0 before the scopes exist, 1 after (propagation), 2 after, as a repository
    int winKind = 0, winTarget = 0; size_t winStart = 0, winLen = 0;   // 1 disable()..enable(), 2 tracing(true)..tracing(false) around calls [winStart, winStart+winLen)
    std::vector<ExpSpec> ex; std::vector<CallSpec> calls;
    int nmut = 0; int permMode = 0; bool interleaved = false;
    std::vector<std::string> mutkinds;
};

void build_pool(ParamSpec& ps, unsigned base, unsigned pattern) {
    for (int j = 0; j < 3; j++) { ps.pool[j] = Val(); ps.pool[j].type = ps.te; ps.pool[j].tolKind = ps.tolKind; ps.pool[j].tol = kTol[ps.tolKind]; }
    if (is_int(ps.te)) {
        i128 v = pick_int(base, ps.te, ps.ta), a, b;
        switch (pattern) {
        default:
        case 0: a = pick_int(base + 1, ps.te, ps.ta); b = pick_int(base + 2, ps.te, ps.ta); break;
        case 1: a = derive_int(v, (i128)1 << 32, base + 1, ps.te, ps.ta); b = derive_int(v, (i128)1 << 33, base + 2, ps.te, ps.ta); break;
        case 2: a = derive_int(v, 0x10000, base + 1, ps.te, ps.ta); b = derive_int(v, (i128)1 << 32, base + 2, ps.te, ps.ta); break;
        case 3: a = derive_int(v, 0x100, base + 1, ps.te, ps.ta); b = derive_int(v, 0x10000, base + 2, ps.te, ps.ta); break;
        case 4: a = derive_int(-v, 0, base + 1, ps.te, ps.ta); b = derive_int(v, 1, base + 2, ps.te, ps.ta); break;
        case 5: a = derive_int(v, 1, base + 1, ps.te, ps.ta); b = derive_int(v, -1, base + 2, ps.te, ps.ta); break;
        case 6: a = pick_int(base + 7, ps.te, ps.ta); b = pick_int(base + 13, ps.te, ps.ta); break;
        case 7: a = v; b = pick_int(base + 1, ps.te, ps.ta); break;          // the same value twice: one class
        }
        ps.pool[0].i = v; ps.pool[1].i = a; ps.pool[2].i = b;
        return;
    }
    static const unsigned offs[8][3] = {{0, 1, 2}, {0, 3, 5}, {0, 2, 4}, {0, 1, 3}, {0, 5, 6}, {0, 1, 5}, {0, 7, 3}, {0, 0, 1}};
    for (int j = 0; j < 3; j++) {
        unsigned k = base + offs[pattern][j];
        Val& v = ps.pool[j];
        switch (ps.te) {
        case T_BOOL: v.i = k & 1; break;
        case T_DOUBLE: v.d = LD[k % 8]; break;
        case T_STR: v.s = LS[k % 10]; break;
        case T_MEM: v.s = LM[k % 8]; break;
        case T_PTR: case T_CPTR: case T_FPTR: v.p = LP[k % 8]; break;
        case T_OBJ: v.obj = (int)(k % 3); break;
        default: break;
        }
    }
}
// the value an actual call passes for pool entry idx: the same value (variant 0), a near miss (1), or the same value represented differently (2, 3)
Val actual_of(const ParamSpec& ps, int idx, int variant, unsigned sel) {
    Val v = ps.pool[idx];
    if (is_int(ps.te)) { v.type = ps.ta; if (variant == 1) v.i = near_int(v.i, ps.ta, sel); return v; }
    switch (ps.te) {
    case T_BOOL: if (variant == 1) v.i = !v.i; break;
    case T_DOUBLE:
        if (variant == 1) v.d = v.tol > 0 ? v.d + 1.1 * v.tol : nextafter(v.d, INFINITY);
        else if (variant == 2) v.d = v.d + 1e-3 * v.tol;
        else if (variant == 3) v.d = v.d + 0.9 * v.tol;
        break;
    case T_STR:
        if (variant == 1) { if (sel % 3 == 0 || v.s.empty()) v.s += (sel % 3 == 2 ? "\x80" : "x"); else if (sel % 3 == 1) v.s.erase(v.s.size() - 1); else { char ch = (char)(v.s[v.s.size() - 1] ^ 0x80); v.s[v.s.size() - 1] = ch ? ch : 'x'; } }   // never an embedded NUL: it would end the C string
        break;
    case T_MEM:
        if (variant == 1) { if (sel % 3 == 0 || v.s.empty()) v.s += '\x09'; else if (sel % 3 == 1) v.s.erase(v.s.size() - 1); else v.s[v.s.size() - 1] = (char)(v.s[v.s.size() - 1] + 1); }
        break;
    case T_PTR: case T_CPTR: case T_FPTR:
        if (variant == 1) v.p = sel % 3 == 0 ? (v.p ^ ((uintptr_t)1 << 32)) : sel % 3 == 1 ? (v.p ^ ((uintptr_t)1 << 40)) : v.p + 1;
        break;
    case T_OBJ: if (variant == 1) v.obj = v.obj % 3 + 6; else if (variant >= 2) v.obj = v.obj % 3 + 3; break;
    default: break;
    }
    return v;
}

CallSpec call_from(const Case& cs, int ei) {
    const ExpSpec& e = cs.ex[(size_t)ei]; const FuncSpec& f = cs.fs[e.func];
    CallSpec c; c.scope = e.scope; c.func = e.func; c.unknown = false; c.fetch = 0; c.probe = false; c.origin = ei;
    if (e.bare) return c;
    for (int i = 0; i < f.nin; i++) c.steps.push_back(in_step(kIn[i], actual_of(f.in[i], e.val[i], 0, 0), e.val[i]));
    for (int i = 0; i < f.nout; i++) c.steps.push_back(out_step(kOut[i], f.okind[i]));
    if (f.objects) c.steps.push_back(obj_step(e.obj));
    return c;
}

void decode(Reader& r, Case& cs) {
    uint8_t flags = r.u8();
    cs.strictMask = flags & 7; cs.iocMode = (flags >> 3) & 3; cs.installStyle = flags >> 7;
    for (int f = 0; f < 4; f++) {
        uint8_t b = r.u8(), b2 = r.u8(), b3 = r.u8();
        FuncSpec& s = cs.fs[f];
        s.nin = b & 3;
        static const int nouts[4] = {0, 1, 2, 1};
        s.nout = nouts[(b >> 2) & 3];
        s.ignoreOther = ((b >> 4) & 3) == 1;
        s.objects = ((b >> 6) & 3) == 1;
        s.ret = b2 % NRET;
        s.osz[0] = 1 + (b2 / 13) % 8; s.osz[1] = 1 + (b2 / 104) % 3;
        s.okind[0] = (b3 & 3) == 1; s.okind[1] = ((b3 >> 2) & 3) == 1;
        for (int i = 0; i < s.nin; i++) {
            uint8_t tb = r.u8(), pb = r.u8();
            static const PType types[16] = {T_INT, T_STR, T_ULONG, T_DOUBLE, T_PTR, T_BOOL, T_UINT, T_LONG, T_LLONG, T_ULLONG, T_CPTR, T_FPTR, T_MEM, T_OBJ, T_ULONG, T_LONG};
            ParamSpec& ps = s.in[i];
            ps.te = types[tb & 15]; ps.ta = ps.te; ps.tolKind = (tb >> 6) & 3;
            if (is_int(ps.te)) { unsigned mix = tb >> 4; if (mix >= 6) ps.ta = (PType)(T_INT + (ps.te - T_INT + 1 + (mix - 6) % 5) % 6); }   // every ordered pair of integer kinds
            build_pool(ps, pb & 31, pb >> 5);
        }
    }
    static const int nexps[8] = {1, 2, 3, 4, 5, 6, 3, 4};
    int nexp = nexps[r.below(8)];
    for (int i = 0; i < nexp; i++) {
        uint8_t b = r.u8(), b2 = r.u8(), b3 = r.u8();
        ExpSpec e;
        static const int scopes[4] = {0, 1, 2, 0};
        e.scope = scopes[b & 3]; e.func = (b >> 2) & 3;
        if (i > 0 && (b3 & 0x80)) { e.scope = cs.ex[(size_t)i - 1].scope; e.func = cs.ex[(size_t)i - 1].func; }   // another expectation on the same function
        static const int hows[16] = {0, 1, 1, 1, 1, 2, 1, 1, 1, 0, 1, 1, 1, 1, 1, 1};      // 0 expectOneCall, 1 expectNCalls, 2 expectNoCall
        static const int counts[16] = {1, 2, 3, 1, 0, 0, 2, 3, 2, 1, 3, 2, 1, 3, 2, 0};
        e.how = hows[b >> 4]; e.count = counts[b >> 4];
        for (int k = 0; k < 3; k++) e.val[k] = ((b2 >> (2 * k)) & 3) % 3;
        e.obj = ((b2 >> 6) & 3) % 3;
        e.hasRet = (b3 & 1) != 0 && cs.fs[e.func].ret != R_NONE;
        e.unmod[0] = ((b3 >> 1) & 7) == 7 && !cs.fs[e.func].okind[0]; e.unmod[1] = ((b3 >> 4) & 7) == 7 && !cs.fs[e.func].okind[1];
        for (int k = 0; k < 2; k++) { for (size_t j = 0; j < cs.fs[e.func].osz[k]; j++) e.out[k].push_back((uint8_t)(0x10 * (i + 1) + 8 * k + j)); e.outv[k].content = 0x1000 * (i + 1) + k; }
        e.dead = false; e.consumed = 0;
        { const FuncSpec& ff = cs.fs[e.func]; unsigned bsel = (b3 >> 1) & 7; e.bare = (bsel == 5 || bsel == 6) && e.how != 2 && ff.nin + ff.nout >= 1; }
        cs.ex.push_back(e);
    }
    // actual calls: expansion in declaration order
    for (int i = 0; i < nexp; i++) for (int k = 0; k < cs.ex[(size_t)i].count; k++) cs.calls.push_back(call_from(cs, i));
    // mutations are decoded before the permutation so that short inputs still carry them; applied after it
    { static const int nm[4] = {0, 1, 2, 1}; cs.nmut = nm[r.below(4)]; }
    struct Mut { uint32_t kind; uint8_t target, aux; } muts[2];
    for (int m = 0; m < cs.nmut; m++) { muts[m].kind = r.below(11); muts[m].target = r.u8(); muts[m].aux = r.u8(); }
    // configuration windows: disable()/tracing() around some calls, one expectation declared while its scope is disabled
    uint8_t w = r.u8(), w2 = r.u8(), w3 = r.u8();
    { static const int nulls[8] = {-1, 0, 1, 3, 0, 2, -1, 0}; cs.nullObj = nulls[w >> 5]; }
    { static const int kinds[8] = {0, 1, 2, 0, 0, 0, 0, 0}; cs.winKind = kinds[w & 7]; static const int targets[4] = {0, 1, 2, 0}; cs.winTarget = targets[(w >> 3) & 3]; }
    if ((w3 & 7) == 1) cs.ex[(size_t)((w3 >> 3) % nexp)].dead = true;
    if (w3 & 0x40) cs.installStyle = 2;
    // permutation
    { static const int pm[5] = {0, 1, 2, 1, 2}; cs.permMode = pm[r.below(5)]; }   // 0 declaration order, 1 shuffle, 2 shuffle that keeps declaration order inside strict scopes
    std::vector<CallSpec> decl = cs.calls;
    size_t n = cs.calls.size();
    if (cs.permMode != 0 && n > 1) {
        for (size_t i = 0; i + 1 < n; i++) { size_t j = i + r.below((uint32_t)(n - i)); std::swap(cs.calls[i], cs.calls[j]); }
        if (cs.permMode == 2) {   // keep the shuffled scope pattern, restore declaration order inside every strict scope
            std::vector<CallSpec> byscope[3]; size_t next[3] = {0, 0, 0};
            for (auto& c : decl) byscope[c.scope].push_back(c);
            for (auto& c : cs.calls) { int s = c.scope; if (cs.strictMask & (1 << s)) c = byscope[s][next[s]++]; }
        }
    }
    for (size_t i = 0; i < n; i++) if (cs.calls[i].origin != decl[i].origin) cs.interleaved = true;
    // mutations
    for (int m = 0; m < cs.nmut; m++) {
        static const char* const kn[11] = {"drop", "duplicate", "change-value", "rename-parameter", "omit-parameter", "wrong-object", "unknown-function", "swap", "extra-parameter", "wrong-scope", "change-output-type"};
        uint32_t kind = muts[m].kind; uint8_t aux = muts[m].aux;
        std::string label = kn[kind];
        if (cs.calls.empty()) {   // nothing to mutate: the only possible deviation is a call nobody expects
            CallSpec c; c.scope = 0; c.func = aux & 3; c.unknown = false; c.fetch = 0; c.probe = false; c.origin = -1; c.mut = "added";
            cs.calls.push_back(c); cs.mutkinds.push_back("added-call"); continue;
        }
        size_t t = muts[m].target % cs.calls.size();
        CallSpec& c = cs.calls[t];
        switch (kind) {
        case 0: cs.calls.erase(cs.calls.begin() + (long)t); break;
        case 1: { CallSpec d = c; d.mut += "dup;"; size_t at = aux % (cs.calls.size() + 1); cs.calls.insert(cs.calls.begin() + (long)at, d); break; }
        case 2: {
            std::vector<size_t> ins; for (size_t i = 0; i < c.steps.size(); i++) if (c.steps[i].kind == S_IN) ins.push_back(i);
            if (ins.empty()) { label = "noop(change-value:no-parameter)"; break; }
            Step& s = c.steps[ins[aux % ins.size()]];
            int spec_i = -1; for (int i = 0; i < cs.fs[c.func].nin; i++) if (s.name == kIn[i]) spec_i = i;
            if (spec_i < 0) { label = "noop(change-value:renamed)"; break; }
            const ParamSpec& ps = cs.fs[c.func].in[spec_i];
            if ((aux >> 6) == 3) {   // a type that never compares equal to the declared one
                Val nv; if (ps.te == T_STR) { nv.type = T_INT; nv.i = 7; } else { nv.type = T_STR; nv.s = "7"; }
                s.v = nv; s.variant = 1; label = "change-type"; c.mut += "type;"; }
            else if ((aux >> 6) == 2) { s.v = actual_of(ps, s.idx, 1, aux & 15); s.variant = 1; label = "near-miss-value"; c.mut += "near;"; }
            else { s.idx = (s.idx + 1 + ((aux >> 4) & 1)) % 3; s.v = actual_of(ps, s.idx, 0, 0); s.variant = 0; c.mut += "value;"; }
            break; }
        case 3: {
            std::vector<size_t> ps; for (size_t i = 0; i < c.steps.size(); i++) if (c.steps[i].kind != S_OBJ) ps.push_back(i);
            if (ps.empty()) { label = "noop(rename-parameter:no-parameter)"; break; }
            Step& s = c.steps[ps[aux % ps.size()]]; s.name = "zz"; c.mut += "rename;";
            if (s.kind == S_OUT) label = "rename-output-parameter";
            break; }
        case 4: {
            std::vector<size_t> ps; for (size_t i = 0; i < c.steps.size(); i++) if (c.steps[i].kind != S_OBJ) ps.push_back(i);
            if (ps.empty()) { label = "noop(omit-parameter:no-parameter)"; break; }
            size_t at = ps[aux % ps.size()];
            if (c.steps[at].kind == S_OUT) label = "omit-output-parameter";
            c.steps.erase(c.steps.begin() + (long)at); c.mut += "omit;";
            break; }
        case 5: {
            bool had = false;
            for (auto& s : c.steps) if (s.kind == S_OBJ) { had = true;
                if ((aux & 3) == 0) { s.obj = 3; }                               // an object nobody expects
                else if ((aux & 3) == 1) { s.obj = -1; label = "omit-object"; }  // no object at all
                else s.obj = (s.obj + 1 + ((aux >> 2) & 1)) % 3; }               // another pool object
            if (had) { c.steps.erase(std::remove_if(c.steps.begin(), c.steps.end(), [](const Step& s) { return s.kind == S_OBJ && s.obj < 0; }), c.steps.end()); c.mut += "object;"; }
            else { c.steps.push_back(obj_step((aux >> 2) & 3)); label = "object-on-objectless-function"; c.mut += "object;"; }
            break; }
        case 6: c.unknown = true; c.mut += "unknown;"; break;
        case 7: { size_t u = aux % cs.calls.size(); if (u == t) label = "noop(swap:same)"; std::swap(cs.calls[t], cs.calls[u]); break; }
        case 8: { size_t at = aux % (c.steps.size() + 1); c.steps.insert(c.steps.begin() + (long)at, in_step("xx", int_val(7), 0)); c.mut += "extra;"; break; }
        case 9: c.scope = (c.scope + 1 + (aux & 1)) % 3; c.mut += "scope;"; break;
        case 10: {
            std::vector<size_t> os; for (size_t i = 0; i < c.steps.size(); i++) if (c.steps[i].kind == S_OUT) os.push_back(i);
            if (os.empty()) { label = "noop(change-output-type:no-output)"; break; }
            Step& s = c.steps[os[aux % os.size()]]; s.okind ^= 1; c.mut += "outtype;";
            break; }
        }
        cs.mutkinds.push_back(label);
    }
    cs.winStart = cs.calls.empty() ? 0 : (w2 & 15) % cs.calls.size(); cs.winLen = 1 + (w2 >> 4) % 4;
    // per call: order of the parameters, ignored extras, how the return value is fetched, expectedCallsLeft probe
    for (auto& c : cs.calls) {
        uint8_t ord = r.u8(), d = r.u8(), e = r.u8();
        static const int fetches[8] = {0, 1, 2, 3, 4, 5, 6, 0};   // 0/1 returnValue() of call/scope, 2 none, 3/4 typed getter, 5/6 typed ...OrDefault
        c.fetch = fetches[e & 7]; c.readSel = e >> 5;
        c.probe = ((d >> 6) & 3) == 1;
        const FuncSpec& f = cs.fs[c.func];
        int eqv = (e >> 3) & 3;                                  // 2, 3: pass every unmutated value in its other representation
        if (!c.unknown && eqv >= 2) for (auto& s : c.steps) if (s.kind == S_IN && s.variant == 0) {
            for (int i = 0; i < f.nin; i++) if (s.name == kIn[i]) { s.v = actual_of(f.in[i], s.idx, eqv, 0); s.variant = eqv; }
        }
        if (!c.unknown && f.ignoreOther) {
            static const int extras[4] = {0, 1, 2, 1};
            int ne = extras[(d >> 2) & 3];
            if (ne >= 1) c.steps.push_back(in_step("x0", int_val(2), 0));
            if (ne >= 2) c.steps.push_back(out_step("x1", (d & 1)));
        }
        if (!c.unknown && !f.objects && ((d >> 4) & 3) == 1) {
            bool has = false; for (auto& s : c.steps) if (s.kind == S_OBJ) has = true;
            if (!has) c.steps.push_back(obj_step(d & 3));   // object passed to a function whose expectations name none: ignored
        }
        if (c.steps.size() > 16) c.steps.resize(16);
        size_t k = c.steps.size();
        if (k > 1) {
            std::rotate(c.steps.begin(), c.steps.begin() + (long)(ord % k), c.steps.end());
            if ((ord / k) & 1) std::reverse(c.steps.begin(), c.steps.end());
            if ((ord / (2 * k)) & 1) std::swap(c.steps[0], c.steps[1]);
        }
    }
}

std::string render(const Case& cs) {
    std::string s = sfmt("strict=%d%d%d ioc=%d install=%d", cs.strictMask & 1, (cs.strictMask >> 1) & 1, (cs.strictMask >> 2) & 1, cs.iocMode, cs.installStyle);
    if (cs.nullObj >= 0) s += sfmt(" obj%d=NULL", cs.nullObj);
    if (cs.winKind) s += sfmt(" %s(%s) around calls [%zu,%zu)", cs.winKind == 1 ? "disable" : "tracing", cs.winTarget == 0 ? "root" : kScope[cs.winTarget], cs.winStart, cs.winStart + cs.winLen);
    s += ";";
    for (auto& e : cs.ex) {
        const FuncSpec& f = cs.fs[e.func];
        s += sfmt(" E:%s x%d%s%s", scoped(e.scope, kFunc[e.func]).c_str(), e.count, e.how == 2 ? "(noCall)" : "", e.dead ? "[declared-while-disabled]" : "");
        if (e.bare) s += sfmt("(bare)%s", e.hasRet ? sfmt("->%s", kRetName[f.ret]).c_str() : "");
        else if (e.how != 2) {
            s += "(";
            for (int i = 0; i < f.nin; i++) s += sfmt("%s%s=%s", i ? "," : "", kIn[i], val_text(f.in[i].pool[e.val[i]]).c_str());
            for (int i = 0; i < f.nout; i++) s += f.okind[i] ? sfmt(",%s:VOut", kOut[i]) : sfmt(",%s:out%zu%s", kOut[i], f.osz[i], e.unmod[i] ? "u" : "");
            s += ")";
            if (f.objects) s += sfmt("@obj%d", e.obj);
            if (f.ignoreOther) s += "+ignoreOther";
            if (e.hasRet) s += sfmt("->%s", kRetName[f.ret]);
        }
        s += ";";
    }
    s += " CALLS:";
    for (auto& c : cs.calls) {
        s += sfmt(" %s(", scoped(c.scope, fname(c)).c_str());
        bool first = true;
        for (auto& st : c.steps) {
            if (!first) s += ","; first = false;
            if (st.kind == S_IN) s += sfmt("%s=%s%s", st.name.c_str(), val_text(st.v).c_str(), st.variant == 1 ? "!" : st.variant >= 2 ? "~" : "");
            else if (st.kind == S_OUT) s += sfmt("%s:%s", st.name.c_str(), st.okind ? "VOut" : "out");
            else s += sfmt("@obj%d", st.obj);
        }
        s += sfmt(")f%dr%u%s", c.fetch, c.readSel, c.probe ? "?left" : "");
        if (!c.mut.empty()) s += "[" + c.mut + "]";
    }
    return s;
}

// ---------------------------------------------------------------------------------------------- execution helpers
struct Position { int call; const char* phase; int step; };
std::string pos_text(const Position& p) {
    if (p.call < 0) return "end of test (checkExpectations)";
    if (p.step >= 0) return sfmt("actual call #%d, %s %d", p.call, p.phase, p.step);
    return sfmt("actual call #%d, %s", p.call, p.phase);
}

// compares what the model says is due at this position with what the reporter received; 0 go on, 1 violation, 2 reported as due
int judge(const Position& pos, bool due, const AllowSet& set, bool tolerateMore, const RecReporter& rep, int before, const std::string& scenario, std::string& outcome, const char* knownKeyForMore = nullptr) {
    int got = rep.n - before;
    if (!due) {
        if (got > 0) return verif::fail("C08:failure-nobody-caused", "at %s the reporter received \"%s\" although every call so far matches an open expectation [%s]",
                                        pos_text(pos).c_str(), first_line(rep.msgs[(size_t)before]).c_str(), scenario.c_str());
        return 0;
    }
    if (got == 0) return verif::fail("C08:deviation-not-reported", "at %s the model expects the failure (%s) but the reporter received nothing [%s]",
                                     pos_text(pos).c_str(), render_allowed(set).c_str(), scenario.c_str());
    std::string line = first_line(rep.msgs[(size_t)before]);
    const Allow* a = match_allowed(set, line);
    if (!a) return verif::fail("C08:wrong-diagnosis", "at %s the reporter received \"%s\"; allowed for this deviation: %s [%s]",
                               pos_text(pos).c_str(), line.c_str(), render_allowed(set).c_str(), scenario.c_str());
    if (got > 1 && !tolerateMore && !(knownKeyForMore && verif::known(knownKeyForMore)))
        return verif::fail("C08:reported-more-than-once", "at %s one deviation produced %d reports: \"%s\" then \"%s\" [%s]",
                           pos_text(pos).c_str(), got, line.c_str(), first_line(rep.msgs[(size_t)before + 1]).c_str(), scenario.c_str());
    if (got > 1 && tolerateMore) verif::cls("artefact:second-report-in-compound-step");
    outcome = a->cls;
    return 2;
}

void expect_param(MockExpectedCall& x, const char* name, const Val& v) {
    switch (v.type) {
    case T_BOOL: x.withBoolParameter(name, v.i != 0); break;
    case T_INT: x.withIntParameter(name, (int)v.i); break;
    case T_UINT: x.withUnsignedIntParameter(name, (unsigned int)v.i); break;
    case T_LONG: x.withLongIntParameter(name, (long)v.i); break;
    case T_ULONG: x.withUnsignedLongIntParameter(name, (unsigned long)v.i); break;
    case T_LLONG: x.withLongLongIntParameter(name, (long long)v.i); break;
    case T_ULLONG: x.withUnsignedLongLongIntParameter(name, (unsigned long long)v.i); break;
    case T_DOUBLE: if (v.tolKind == 0) x.withDoubleParameter(name, v.d); else x.withDoubleParameter(name, v.d, v.tol); break;
    case T_STR: x.withStringParameter(name, v.s.c_str()); break;
    case T_PTR: x.withPointerParameter(name, (void*)v.p); break;
    case T_CPTR: x.withConstPointerParameter(name, (const void*)v.p); break;
    case T_FPTR: x.withFunctionPointerParameter(name, (void (*)())v.p); break;
    case T_MEM: x.withMemoryBufferParameter(name, (const unsigned char*)v.s.data(), v.s.size()); break;
    default: x.withParameterOfType("VType", name, &g_vin[v.obj]); break;
    }
}

struct RV { i128 i = 0; double d = 0; std::string s; uintptr_t p = 0; };
// return values: per kind six distinct boundary values (limits, sign boundaries, values agreeing in their low 32 bits)
RV expected_ret(int ret, int i) {
    static const i128 rint[6] = {100, INT_MAX, INT_MIN, -1, 0, 0x10000};
    static const i128 ruint[6] = {3000000000LL, UINT_MAX, 0x80000000LL, 0x7fffffff, 0, 0x10010};
    static const i128 rlong[6] = {0x10 - ((i128)1 << 32), LLONG_MIN, LLONG_MAX, -1, 0x100000010LL, 3000000000LL};
    static const i128 rulong[6] = {0x10, 0x100000010LL, (i128)ULLONG_MAX, (i128)1 << 63, LLONG_MAX, 3000000000LL};
    static const i128 rllong[6] = {LLONG_MIN, LLONG_MAX, -1, 0x100000010LL, -0x100000010LL, 0};
    static const i128 rullong[6] = {(i128)ULLONG_MAX, (i128)ULLONG_MAX - 1, (i128)1 << 63, LLONG_MAX, 0x100000010LL, 0x10};
    RV r;
    switch (ret) {
    case R_BOOL: r.i = i & 1; break;
    case R_INT: r.i = rint[i]; break;
    case R_UINT: r.i = ruint[i]; break;
    case R_LONG: r.i = rlong[i]; break;
    case R_ULONG: r.i = rulong[i]; break;
    case R_LLONG: r.i = rllong[i]; break;
    case R_ULLONG: r.i = rullong[i]; break;
    case R_DOUBLE: r.d = i + 0.25; break;
    case R_STR: r.s = kRetStr[i]; break;
    case R_PTR: r.p = 0x10 + ((uintptr_t)i << 32); break;
    case R_CPTR: r.p = 0x20 + ((uintptr_t)i << 40); break;
    case R_FPTR: r.p = 0x1000 + (uintptr_t)i * 16; break;
    }
    return r;
}
// the documented widening conversions of the integer getters: a stored integer of kind S with value v may be read through
// the getter of kind R exactly in these cases (every other combination fails a type check of the running test)
bool getter_admits(int R, int S, i128 v) {
    if (R == S) return true;
    switch (R) {
    case R_UINT: return S == R_INT && v >= 0;
    case R_LONG: return S == R_INT || S == R_UINT;
    case R_ULONG: return S == R_UINT || ((S == R_INT || S == R_LONG) && v >= 0);
    case R_LLONG: return S == R_INT || S == R_UINT || S == R_LONG || (S == R_ULONG && v <= (i128)LLONG_MAX);
    case R_ULLONG: return S == R_UINT || S == R_ULONG || ((S == R_INT || S == R_LONG || S == R_LLONG) && v >= 0);
    default: return false;
    }
}
int read_kind(int S, i128 v, unsigned sel) {
    if (S < R_INT || S > R_ULLONG) return S;
    int adm[6]; int n = 0;
    for (int R = R_INT; R <= R_ULLONG; R++) if (getter_admits(R, S, v)) adm[n++] = R;
    // the stored kind itself comes first so that selector 0 is the plain case
    int own = 0; for (int k = 0; k < n; k++) if (adm[k] == S) own = k;
    std::swap(adm[0], adm[own]);
    return adm[sel % (unsigned)n];
}
RV default_ret(int ret, bool otherThanBool) {
    RV r; r.i = ret == R_BOOL ? (otherThanBool ? 1 : 0) : 77; r.d = 77.5; r.s = "dflt"; r.p = 0x77;
    return r;
}
bool rv_equal(int ret, const RV& a, const RV& b) {
    switch (ret) {
    case R_DOUBLE: return a.d == b.d;
    case R_STR: return a.s == b.s;
    case R_PTR: case R_CPTR: case R_FPTR: return a.p == b.p;
    default: return a.i == b.i;
    }
}
std::string rv_text(int ret, const RV& a) {
    switch (ret) {
    case R_DOUBLE: return sfmt("%g", a.d);
    case R_STR: return "\"" + a.s + "\"";
    case R_PTR: case R_CPTR: case R_FPTR: return sfmt("%#lx", (unsigned long)a.p);
    default: return i128_text(a.i);
    }
}
void expect_return(MockExpectedCall& x, int ret, int i) {
    RV r = expected_ret(ret, i);
    switch (ret) {
    case R_BOOL: x.andReturnValue(r.i != 0); break;
    case R_INT: x.andReturnValue((int)r.i); break;
    case R_UINT: x.andReturnValue((unsigned int)r.i); break;
    case R_LONG: x.andReturnValue((long)r.i); break;
    case R_ULONG: x.andReturnValue((unsigned long)r.i); break;
    case R_LLONG: x.andReturnValue((long long)r.i); break;
    case R_ULLONG: x.andReturnValue((unsigned long long)r.i); break;
    case R_DOUBLE: x.andReturnValue(r.d); break;
    case R_STR: x.andReturnValue(kRetStr[i]); break;
    case R_PTR: x.andReturnValue((void*)r.p); break;
    case R_CPTR: x.andReturnValue((const void*)r.p); break;
    case R_FPTR: x.andReturnValue((void (*)())r.p); break;
    }
}
// the value out of a MockNamedValue whose type string has been checked already
RV from_named(const MockNamedValue& v, int ret) {
    RV r;
    switch (ret) {
    case R_BOOL: r.i = v.getBoolValue(); break;
    case R_INT: r.i = v.getIntValue(); break;
    case R_UINT: r.i = v.getUnsignedIntValue(); break;
    case R_LONG: r.i = v.getLongIntValue(); break;
    case R_ULONG: r.i = v.getUnsignedLongIntValue(); break;
    case R_LLONG: r.i = v.getLongLongIntValue(); break;
    case R_ULLONG: r.i = v.getUnsignedLongLongIntValue(); break;
    case R_DOUBLE: r.d = v.getDoubleValue(); break;
    case R_STR: { const char* s = v.getStringValue(); r.s = s ? s : "(null)"; break; }
    case R_PTR: r.p = (uintptr_t)v.getPointerValue(); break;
    case R_CPTR: r.p = (uintptr_t)v.getConstPointerValue(); break;
    case R_FPTR: r.p = (uintptr_t)v.getFunctionPointerValue(); break;
    }
    return r;
}
// typed getters of the call object / of the MockSupport object, plain or ...OrDefault
RV typed_fetch(MockActualCall& ac, MockSupport* sc, bool viaScope, int ret, bool orDefault, const RV& d) {
    RV r;
#define PICK(CALLV, CALLD, SCV, SCD) (viaScope ? (orDefault ? (SCD) : (SCV)) : (orDefault ? (CALLD) : (CALLV)))
    switch (ret) {
    case R_BOOL: r.i = PICK(ac.returnBoolValue(), ac.returnBoolValueOrDefault(d.i != 0), sc->boolReturnValue(), sc->returnBoolValueOrDefault(d.i != 0)); break;
    case R_INT: r.i = PICK(ac.returnIntValue(), ac.returnIntValueOrDefault((int)d.i), sc->intReturnValue(), sc->returnIntValueOrDefault((int)d.i)); break;
    case R_UINT: r.i = PICK(ac.returnUnsignedIntValue(), ac.returnUnsignedIntValueOrDefault((unsigned)d.i), sc->unsignedIntReturnValue(), sc->returnUnsignedIntValueOrDefault((unsigned)d.i)); break;
    case R_LONG: r.i = PICK(ac.returnLongIntValue(), ac.returnLongIntValueOrDefault((long)d.i), sc->longIntReturnValue(), sc->returnLongIntValueOrDefault((long)d.i)); break;
    case R_ULONG: r.i = PICK(ac.returnUnsignedLongIntValue(), ac.returnUnsignedLongIntValueOrDefault((unsigned long)d.i), sc->unsignedLongIntReturnValue(), sc->returnUnsignedLongIntValueOrDefault((unsigned long)d.i)); break;
    case R_LLONG: r.i = PICK(ac.returnLongLongIntValue(), ac.returnLongLongIntValueOrDefault((long long)d.i), sc->longLongIntReturnValue(), sc->returnLongLongIntValueOrDefault((long long)d.i)); break;
    case R_ULLONG: r.i = PICK(ac.returnUnsignedLongLongIntValue(), ac.returnUnsignedLongLongIntValueOrDefault((unsigned long long)d.i), sc->unsignedLongLongIntReturnValue(), sc->returnUnsignedLongLongIntValueOrDefault((unsigned long long)d.i)); break;
    case R_DOUBLE: r.d = PICK(ac.returnDoubleValue(), ac.returnDoubleValueOrDefault(d.d), sc->doubleReturnValue(), sc->returnDoubleValueOrDefault(d.d)); break;
    case R_STR: { const char* s = PICK(ac.returnStringValue(), ac.returnStringValueOrDefault("dflt"), sc->stringReturnValue(), sc->returnStringValueOrDefault("dflt")); r.s = s ? s : "(null)"; break; }
    case R_PTR: r.p = (uintptr_t)PICK(ac.returnPointerValue(), ac.returnPointerValueOrDefault((void*)d.p), sc->pointerReturnValue(), sc->returnPointerValueOrDefault((void*)d.p)); break;
    case R_CPTR: r.p = (uintptr_t)PICK(ac.returnConstPointerValue(), ac.returnConstPointerValueOrDefault((const void*)d.p), sc->constPointerReturnValue(), sc->returnConstPointerValueOrDefault((const void*)d.p)); break;
    case R_FPTR: r.p = (uintptr_t)PICK(ac.returnFunctionPointerValue(), ac.returnFunctionPointerValueOrDefault((void (*)())d.p), sc->functionPointerReturnValue(), sc->returnFunctionPointerValueOrDefault((void (*)())d.p)); break;
    }
#undef PICK
    return r;
}

void declare_expectations(MockSupport* const sc[3], Case& cs) {
    for (size_t i = 0; i < cs.ex.size(); i++) {
        ExpSpec& e = cs.ex[i]; const FuncSpec& f = cs.fs[e.func];
        sc[e.scope]->setDefaultComparatorsAndCopiersRepository();      // what mock(name) does on every use: custom types are looked up in this scope's repository
        struct Reenable { MockSupport* m; ~Reenable() { if (m) m->enable(); } } reenable{e.dead ? sc[e.scope] : nullptr};
        if (e.dead) sc[e.scope]->disable();          // everything declared now is dropped
        if (e.how == 2) { sc[e.scope]->expectNoCall(kFunc[e.func]); continue; }
        MockExpectedCall& x = e.how == 0 ? sc[e.scope]->expectOneCall(kFunc[e.func]) : sc[e.scope]->expectNCalls((unsigned)e.count, kFunc[e.func]);
        if (e.bare) { if (e.hasRet) expect_return(x, f.ret, (int)i); continue; }
        for (int k = 0; k < f.nin; k++) expect_param(x, kIn[k], f.in[k].pool[e.val[k]]);
        for (int k = 0; k < f.nout; k++) {
            if (f.okind[k]) x.withOutputParameterOfTypeReturning("VOut", kOut[k], &e.outv[k]);
            else if (e.unmod[k]) x.withUnmodifiedOutputParameter(kOut[k]);
            else x.withOutputParameterReturning(kOut[k], e.out[k].data(), e.out[k].size());
        }
        if (f.objects) x.onObject(obj_ptr(e.obj));
        if (f.ignoreOther) x.ignoreOtherParameters();
        if (e.hasRet) expect_return(x, f.ret, (int)i);
    }
}

struct OutBuf { uint8_t bytes[24]; VOut obj; };
void apply_step(MockActualCall& ac, const Step& s, OutBuf& ob) {
    const char* name = s.name.c_str();
    if (s.kind == S_OBJ) { ac.onObject(obj_ptr(s.obj)); return; }
    if (s.kind == S_OUT) { if (s.okind) ac.withOutputParameterOfType("VOut", name, &ob.obj); else ac.withOutputParameter(name, ob.bytes); return; }
    const Val& v = s.v;
    switch (v.type) {
    case T_BOOL: ac.withBoolParameter(name, v.i != 0); break;
    case T_INT: ac.withIntParameter(name, (int)v.i); break;
    case T_UINT: ac.withUnsignedIntParameter(name, (unsigned int)v.i); break;
    case T_LONG: ac.withLongIntParameter(name, (long)v.i); break;
    case T_ULONG: ac.withUnsignedLongIntParameter(name, (unsigned long)v.i); break;
    case T_LLONG: ac.withLongLongIntParameter(name, (long long)v.i); break;
    case T_ULLONG: ac.withUnsignedLongLongIntParameter(name, (unsigned long long)v.i); break;
    case T_DOUBLE: ac.withDoubleParameter(name, v.d); break;
    case T_STR: ac.withStringParameter(name, v.s.c_str()); break;
    case T_PTR: ac.withPointerParameter(name, (void*)v.p); break;
    case T_CPTR: ac.withConstPointerParameter(name, (const void*)v.p); break;
    case T_FPTR: ac.withFunctionPointerParameter(name, (void (*)())v.p); break;
    case T_MEM: ac.withMemoryBufferParameter(name, (const unsigned char*)v.s.data(), v.s.size()); break;
    default: ac.withParameterOfType("VType", name, &g_vin[v.obj]); break;
    }
}
void reset_outbufs(OutBuf* ob, size_t n) { for (size_t i = 0; i < n; i++) { memset(ob[i].bytes, 0xEE, sizeof ob[i].bytes); ob[i].obj.content = (int)0xEEEEEEEE; } }

void install_types(MockSupport& root, int style) {
    if (style == 2) { MockNamedValueComparatorsAndCopiersRepository repo; repo.installComparator("VType", g_cmp); repo.installCopier("VOut", g_cpy); root.installComparatorsAndCopiers(repo); }
    else { root.installComparator("VType", g_cmp); root.installCopier("VOut", g_cpy); }
}
void apply_window(MockSupport* const sc[3], const Case& cs, bool on) {
    MockSupport* t = sc[cs.winTarget];
    if (cs.winKind == 1) { if (on) t->disable(); else t->enable(); }
    else if (cs.winKind == 2) t->tracing(on);
}

// generator histogram; returns the NT verdict of DESIGN.md for one scenario
bool note_features(const Case& cs) {
    std::vector<std::string> classes;
    for (auto& c : cs.calls) { std::string k = scoped(c.scope, fname(c)); for (auto& s : c.steps) if (s.kind != S_OUT) k += sfmt("|%s%d.%s.%d", s.name.c_str(), s.kind, s.kind == S_IN ? val_key(s.v).c_str() : "", s.obj); classes.push_back(k); }
    std::sort(classes.begin(), classes.end()); classes.erase(std::unique(classes.begin(), classes.end()), classes.end());
    bool mutated = false; for (auto& m : cs.mutkinds) if (m.compare(0, 4, "noop") != 0) mutated = true;
    bool nontrivial = cs.calls.size() >= 3 && classes.size() >= 2 && (cs.interleaved || mutated);
    if (cs.calls.size() >= 3) verif::cls("shape:calls>=3");
    if (classes.size() >= 2) verif::cls("shape:classes>=2");
    if (cs.interleaved || mutated) verif::cls("shape:interleaved-or-mutated");
    if (cs.strictMask) verif::cls("feature:strict-order");
    if (cs.iocMode) verif::cls("feature:ignore-other-calls");
    if (cs.winKind == 1 && !cs.calls.empty()) verif::cls("feature:disable-window");
    if (cs.winKind == 2 && !cs.calls.empty()) verif::cls("feature:tracing-window");
    bool sc[3] = {false, false, false}, fio = false, fobj = false, fout = false, fret = false, nocall = false, multi = false, sameclass = false, dead = false, mixed = false, vout = false;
    for (size_t i = 0; i < cs.ex.size(); i++) { auto& e = cs.ex[i]; sc[e.scope] = true; const FuncSpec& f = cs.fs[e.func];
        if (f.ignoreOther) fio = true; if (f.objects) fobj = true; if (f.nout) fout = true; if (e.hasRet) { fret = true; verif::cls((std::string("rettype:") + kRetName[f.ret]).c_str()); }
        if (e.bare) verif::cls("feature:bare-expectation-on-a-function-with-parameters");
        if (e.count == 0) nocall = true; if (e.count > 1) multi = true; if (e.dead) dead = true;
        for (int k = 0; k < f.nout; k++) if (f.okind[k]) vout = true;
        if (e.how != 2) for (int k = 0; k < f.nin; k++) { verif::cls((std::string("paramtype:") + kTypeName[f.in[k].te]).c_str()); if (f.in[k].te != f.in[k].ta) mixed = true; }
        for (size_t j = 0; j < i; j++) if (cs.ex[j].scope == e.scope && cs.ex[j].func == e.func) sameclass = true; }
    if (sc[1] || sc[2]) verif::cls("feature:scopes");
    if (fio) verif::cls("feature:ignore-other-parameters");
    if (fobj) verif::cls("feature:objects");
    if (fobj && cs.nullObj >= 0 && cs.nullObj < 3) { bool used = false; for (auto& e : cs.ex) if (cs.fs[e.func].objects && e.how != 2 && e.obj == cs.nullObj) used = true; if (used) verif::cls("feature:expectation-on-the-NULL-object"); }
    if (fout) verif::cls("feature:output-parameters");
    if (vout) verif::cls("feature:custom-type-output-with-copier");
    if (mixed) verif::cls("feature:mixed-integer-kinds");
    if (fret) verif::cls("feature:return-values");
    if (nocall) verif::cls("feature:expect-no-call");
    if (multi) verif::cls("feature:expectNCalls>1");
    if (dead) verif::cls("feature:expectation-declared-while-disabled");
    if (sameclass) verif::cls("feature:several-expectations-on-one-function");
    if (cs.interleaved) verif::cls("feature:interleaved");
    bool eqv = false; for (auto& c : cs.calls) for (auto& s : c.steps) if (s.kind == S_IN && s.variant >= 2) eqv = true;
    if (eqv) verif::cls("feature:equal-value-other-representation");
    if (cs.mutkinds.empty()) verif::cls("mutation:none");
    for (auto& m : cs.mutkinds) verif::cls(("mutation:" + m).c_str());
    return nontrivial;
}

// fetches the return value in the decoded way and compares it with the consumed expectation's (or the default); 0 ok / 1 violation
int fetch_and_check(MockActualCall& ac, MockSupport* scope, const CallSpec& c, const ExpSpec* e, int ei, const FuncSpec* f, bool traced, const std::string& where, const std::string& scenario) {
    bool viaScope = c.fetch == 1 || c.fetch == 4 || c.fetch == 6;
    bool want = e && e->hasRet;
    bool has = viaScope ? scope->hasReturnValue() : ac.hasReturnValue();
    if (has != want) return verif::fail("C08:return-value", "%s: hasReturnValue() is %d, the consumed expectation %s a return value [%s]", where.c_str(), has, want ? "has" : "does not have", scenario.c_str());
    if (c.fetch <= 1) {                              // the generic MockNamedValue
        MockNamedValue v = viaScope ? scope->returnValue() : ac.returnValue();
        if (!want) {
            if (!traced || viaScope) { int d = viaScope ? scope->returnIntValueOrDefault(77) : ac.returnIntValueOrDefault(77);
                V_CHECK(d == 77, "C08:return-value", "%s: returnIntValueOrDefault(77) gave %d although no return value was specified [%s]", where.c_str(), d, scenario.c_str()); }
            return 0;
        }
        std::string type = v.getType().asCharString();
        V_CHECK(type == kRetTypeString[f->ret], "C08:return-value", "%s: returned a value of type <%s>, the consumed expectation #%d returns <%s> [%s]", where.c_str(), type.c_str(), ei, kRetTypeString[f->ret], scenario.c_str());
        RV exp = expected_ret(f->ret, ei);
        int rk = read_kind(f->ret, exp.i, c.readSel);
        RV got = from_named(v, rk);
        V_CHECK(rv_equal(rk, got, exp), "C08:return-value", "%s: returnValue() read through the %s getter gave %s, but the call consumed expectation #%d (declaration order) whose %s return value is %s [%s]", where.c_str(), kRetName[rk], rv_text(rk, got).c_str(), ei, kRetName[f->ret], rv_text(f->ret, exp).c_str(), scenario.c_str());
        verif::cls(rk == f->ret ? "checked:return-value" : "checked:return-value-through-wider-getter");
        return 0;
    }
    // typed getters: the plain form only when there is a value (on a call without one it fails a type check of the current test)
    int ret = f ? f->ret : R_INT; if (ret == R_NONE) ret = R_INT;
    if (!want && traced && !viaScope) return 0;      // the trace object's ...OrDefault forms are not part of this property
    bool orDefault = !want || c.fetch >= 5;
    RV exp = want ? expected_ret(ret, ei) : default_ret(ret, true);
    if (want) { int rk = read_kind(ret, exp.i, c.readSel); if (rk != ret) verif::cls("checked:typed-return-through-wider-getter"); ret = rk; }
    RV dflt = default_ret(ret, want ? exp.i == 0 : true);
    if (!want) exp = dflt;
    RV got = typed_fetch(ac, scope, viaScope, ret, orDefault, dflt);
    V_CHECK(rv_equal(ret, got, exp), "C08:return-value", "%s: %s %s getter%s returned %s, expected %s (%s) [%s]", where.c_str(), viaScope ? "MockSupport" : "call", kRetName[ret], orDefault ? "OrDefault" : "",
            rv_text(ret, got).c_str(), rv_text(ret, exp).c_str(), want ? sfmt("return value of the consumed expectation #%d", ei).c_str() : "the default, no return value specified", scenario.c_str());
    verif::cls(want ? (orDefault ? "checked:typed-return-OrDefault-with-value" : "checked:typed-return") : "checked:typed-return-OrDefault-default");
    return 0;
}

int run_case(Reader& r, bool& nontrivial, std::string& desc) {
    Case cs; decode(r, cs);
    desc = render(cs);
    if (verif::g_explain) fprintf(stderr, "CASE %s\n", desc.c_str());
    nontrivial = note_features(cs);
    verif::cls("mode:direct");
    g_nullObj = cs.nullObj;

    // -------- set up the real scenario
    RecReporter rep;
    MockSupport root;
    struct Clear { MockSupport& m; ~Clear() { m.clear(); m.removeAllComparatorsAndCopiers(); } } clear_at_exit{root};
    root.setMockFailureStandardReporter(&rep);
    root.setActiveReporter(&rep);
    root.setDefaultComparatorsAndCopiersRepository();
    root.crashOnFailure(false);
    if (cs.installStyle == 0) install_types(root, 0);
    MockSupport* sc[3] = {&root, root.getMockSupportScope("a"), root.getMockSupportScope("b")};
    if (cs.installStyle != 0) install_types(root, cs.installStyle);      // reaches the existing scopes by propagation
    sc[1]->setActiveReporter(&rep); sc[2]->setActiveReporter(&rep);
    for (int s = 0; s < 3; s++) if (cs.strictMask & (1 << s)) sc[s]->strictOrder();
    if (cs.iocMode == 1) root.ignoreOtherCalls(); else if (cs.iocMode == 2) sc[1]->ignoreOtherCalls(); else if (cs.iocMode == 3) sc[2]->ignoreOtherCalls();

    declare_expectations(sc, cs);
    if (rep.n != 0) return verif::fail("C08:failure-nobody-caused", "declaring the expectations already produced a report \"%s\" [%s]", first_line(rep.msgs[0]).c_str(), desc.c_str());

    // -------- run real code and model in lock step
    Model m; m.fs = cs.fs; m.ex = &cs.ex; m.iocMode = cs.iocMode; m.strictMask = cs.strictMask;
    std::string outcome = "pass";
    bool stopped = false;
    std::vector<std::string> tracedNames;
    for (size_t k = 0; k < cs.calls.size() && !stopped; k++) {
        CallSpec& c = cs.calls[k];
        MockSupport* scope = sc[c.scope];
        if (c.scope != 0 && (k & 1)) {      // a named scope is looked up again, as mock("a") does on every use: it must be the same object
            scope = root.getMockSupportScope(kScope[c.scope]);
            V_CHECK(scope == sc[c.scope], "C08:scope-identity", "looking up scope \"%s\" a second time gave a different MockSupport object [%s]", kScope[c.scope], desc.c_str());
        }
        if (cs.winKind && k == cs.winStart) { apply_window(sc, cs, true); m.window(cs.winKind, cs.winTarget, true); }
        if (cs.winKind && k == cs.winStart + cs.winLen) { apply_window(sc, cs, false); m.window(cs.winKind, cs.winTarget, false); }
        OutBuf obuf[16]; reset_outbufs(obuf, 16);
        std::string fn = fname(c);
        std::string where = sfmt("actual call #%zu %s", k, scoped(c.scope, fn).c_str());
        // begin
        int before = rep.n; AllowSet due; bool tol = false;
        scope->setDefaultComparatorsAndCopiersRepository();
        MockActualCall& ac = scope->actualCall(fn.c_str());
        bool isdue = m.begin(c, due, tol);
        if (verif::g_explain) fprintf(stderr, "  #%zu %s begin: reports=%d%s%s\n", k, scoped(c.scope, fn).c_str(), rep.n - before, isdue ? " (model: failure due)" : "", m.ignored ? " (model: ignored)" : "");
        int j = judge({(int)k, "begin", -1}, isdue, due, tol, rep, before, desc, outcome);
        if (j == 1) return 1;
        size_t resume = 0; bool ownFailure = false;
        if (j == 2) { stopped = true; ownFailure = !tol; }
        if (!stopped) {
            if (m.traced) { verif::cls("call:traced"); tracedNames.push_back(scoped(c.scope, fn)); }
            else if (m.ignored) verif::cls(m.disabled[c.scope] ? "call:ignored-while-disabled" : "call:ignored-by-ignoreOtherCalls");
            if (!m.ignored && m.stale_candidate() && verif::known("C08:stale-parameter-match-state")) { outcome = "excluded(stale-parameter-match-state)"; stopped = true; break; }
            // parameters and object, in the decoded order
            for (size_t si = 0; si < c.steps.size(); si++) {
                const Step& s = c.steps[si];
                before = rep.n; due.clear();
                apply_step(ac, s, obuf[si]);
                isdue = m.step(c, s, due);
                if (verif::g_explain) fprintf(stderr, "     step %zu kind=%d %s: reports=%d%s\n", si, s.kind, s.name.c_str(), rep.n - before, isdue ? " (model: failure due)" : "");
                j = judge({(int)k, "parameter/object step", (int)si}, isdue, due, false, rep, before, desc, outcome);
                if (j == 1) return 1;
                if (j == 2) { stopped = true; ownFailure = true; resume = si + 1; break; }
            }
        }
        if (stopped) {
            // a reporter that returns lets the mocked function go on: the rest of the chain must not report again ("fails the test once")
            if (ownFailure) {
                int n0 = rep.n;
                for (size_t si = resume; si < c.steps.size(); si++) apply_step(ac, c.steps[si], obuf[si]);
                (void)ac.hasReturnValue();
                verif::cls("checked:rest-of-failed-call-silent");
                V_CHECK(rep.n == n0, "C08:reported-more-than-once", "%s had failed already (\"%s\"); passing its remaining parameters reported again: \"%s\" [%s]", where.c_str(),
                        first_line(rep.msgs[(size_t)n0 - 1]).c_str(), first_line(rep.msgs[(size_t)n0]).c_str(), desc.c_str());
            }
            break;
        }
        AllowSet deferred;
        m.finish(c, deferred);
        bool unmatched = !m.ignored && m.matched < 0;
        // return value (finalises the call)
        if (c.fetch != 2) {
            before = rep.n;
            bool viaScope = c.fetch == 1 || c.fetch == 4 || c.fetch == 6;
            if (unmatched) {
                (void)(viaScope ? scope->hasReturnValue() : ac.hasReturnValue());
                j = judge({(int)k, "return value fetch", -1}, true, deferred, false, rep, before, desc, outcome);
                if (j == 1) return 1;
                stopped = true; break;
            }
            const ExpSpec* e = m.matched >= 0 ? &cs.ex[(size_t)m.matched] : nullptr;
            const FuncSpec* f = e ? &cs.fs[e->func] : (c.unknown ? nullptr : &cs.fs[c.func]);
            if (fetch_and_check(ac, scope, c, e, m.matched, f, m.traced, where, desc)) return 1;
            j = judge({(int)k, "return value fetch", -1}, false, deferred, false, rep, before, desc, outcome);
            if (j == 1) return 1;
        } else if (unmatched) { m.pendingSet[c.scope] = true; m.pending[c.scope] = deferred; verif::cls("call:unmatched-finalised-later"); }
        // output parameters of a successful (or ignored) call
        if (!unmatched) {
            const ExpSpec* e = m.matched >= 0 ? &cs.ex[(size_t)m.matched] : nullptr;
            for (size_t si = 0; si < c.steps.size(); si++) {
                const Step& s = c.steps[si]; if (s.kind != S_OUT) continue;
                std::vector<uint8_t> want(24, 0xEE); int wantobj = (int)0xEEEEEEEE;
                if (e && !e->bare) { int oi = m.out_index(cs.fs[e->func], s.name);
                    if (oi >= 0 && s.okind) { wantobj = e->outv[oi].content; verif::cls("checked:output-custom-type"); }
                    else if (oi >= 0 && !e->unmod[oi]) { std::copy(e->out[oi].begin(), e->out[oi].end(), want.begin()); verif::cls("checked:output-bytes"); } }
                if (memcmp(obuf[si].bytes, want.data(), 24) != 0 || obuf[si].obj.content != wantobj) {
                    std::string g, w; for (int q = 0; q < 12; q++) { g += sfmt("%02X ", obuf[si].bytes[q]); w += sfmt("%02X ", want[(size_t)q]); }
                    return verif::fail("C08:output-bytes", "%s output parameter %s: buffer is %s.. / object %#x but the consumed expectation #%d provides %s.. / object %#x (0xEE = untouched) [%s]",
                                       where.c_str(), s.name.c_str(), g.c_str(), (unsigned)obuf[si].obj.content, m.matched, w.c_str(), (unsigned)wantobj, desc.c_str());
                }
            }
        }
        // probe: expectedCallsLeft() finalises the last call of every scope
        if (c.probe) {
            before = rep.n; due.clear();
            bool left = root.expectedCallsLeft();
            isdue = m.any_pending(due);
            j = judge({(int)k, "expectedCallsLeft probe", -1}, isdue, due, true, rep, before, desc, outcome);
            if (j == 1) return 1;
            if (j == 2) { stopped = true; break; }
            verif::cls("checked:expectedCallsLeft");
            V_CHECK(left == m.calls_left(), "C08:expectedCallsLeft", "after actual call #%zu expectedCallsLeft() is %d, the model says %d [%s]", k, left, m.calls_left(), desc.c_str());
        }
    }
    if (!stopped) {
        if (!tracedNames.empty()) {      // every traced call is in the trace, in order
            std::string trace = root.getTraceOutput(); size_t at = 0;
            for (auto& n : tracedNames) { size_t p = trace.find("\nFunction name:" + n, at);
                V_CHECK(p != std::string::npos, "C08:trace", "tracing was on but the call to %s is not in getTraceOutput() (in call order) [%s]", n.c_str(), desc.c_str()); at = p + 1; }
            verif::cls("checked:trace-output");
        }
        if (cs.winKind && cs.calls.size() > cs.winStart && cs.calls.size() <= cs.winStart + cs.winLen) { apply_window(sc, cs, false); m.window(cs.winKind, cs.winTarget, false); }
        int before = rep.n; AllowSet due;
        root.checkExpectations();      // may delete the scopes (failTest clears first): sc[1], sc[2] are dead from here on
        bool isdue = m.end(due);
        if (verif::g_explain) fprintf(stderr, "  end: reports=%d%s\n", rep.n - before, isdue ? " (model: failure due)" : "");
        int j = judge({-1, "end", -1}, isdue, due, false, rep, before, desc, outcome, "C08:end-of-test-reports-twice");
        if (j == 1) return 1;
    }
    verif::cls(("outcome:" + outcome).c_str());
    if (outcome == "pass" && cs.strictMask) verif::cls("outcome:pass-under-strict-order");
    if (outcome == "pass" && cs.interleaved) verif::cls("outcome:pass-interleaved");
    return 0;
}

// ---------------------------------------------------------------------------------------------- plugin mode
// 2..4 scenarios run as consecutive tests of ONE private TestRegistry / TestResult with the repository's MockSupportPlugin
// installed (comparator and copier installed through the plugin), on the global mock() with the default (terminating)
// reporter during the test body and the plugin's own reporter at end of test.  Judged per test: number of failures (one
// deviation -> exactly one failure; a passing scenario -> none; a test that already failed by its own check -> no additional
// mock failure), first line of the mock failure against the model's set, and that nothing of test k is left in mock() when
// test k+1 starts.
struct Prediction { bool fails; bool atEnd; AllowSet set; int call; };

// the model alone over one scenario: the first position at which a report is due
Prediction simulate(Case& cs) {
    Model m; m.fs = cs.fs; m.ex = &cs.ex; m.iocMode = cs.iocMode; m.strictMask = cs.strictMask;
    for (auto& e : cs.ex) e.consumed = 0;
    for (size_t k = 0; k < cs.calls.size(); k++) {
        CallSpec& c = cs.calls[k];
        if (cs.winKind && k == cs.winStart) m.window(cs.winKind, cs.winTarget, true);
        if (cs.winKind && k == cs.winStart + cs.winLen) m.window(cs.winKind, cs.winTarget, false);
        AllowSet due; bool tol = false;
        if (m.begin(c, due, tol)) return {true, false, due, (int)k};
        for (auto& st : c.steps) { due.clear(); if (m.step(c, st, due)) return {true, false, due, (int)k}; }
        AllowSet deferred;
        m.finish(c, deferred);
        bool unmatched = !m.ignored && m.matched < 0;
        if (c.fetch != 2) { if (unmatched) return {true, false, deferred, (int)k}; }
        else if (unmatched) { m.pendingSet[c.scope] = true; m.pending[c.scope] = deferred; }
        if (c.probe) { due.clear(); if (m.any_pending(due)) return {true, false, due, (int)k}; }
    }
    AllowSet due;
    if (m.end(due)) return {true, true, due, -1};
    return {false, false, {}, -1};
}

const char* const kOwnCheckText = "own check of the test";
struct PluginTest { Case cs; int own; std::string desc; bool leftoverAtStart; };   // own: 0 none, 1 fails after declaring, 2 fails after the calls, 3 passing check

void plugin_body(void* arg) {
    PluginTest& t = *(PluginTest*)arg;
    Case& cs = t.cs;
    g_nullObj = cs.nullObj;
    if (mock().expectedCallsLeft()) t.leftoverAtStart = true;
    MockSupport* sc[3] = {&mock(), &mock("a"), &mock("b")};
    for (int s = 0; s < 3; s++) if (cs.strictMask & (1 << s)) sc[s]->strictOrder();
    if (cs.iocMode == 1) sc[0]->ignoreOtherCalls(); else if (cs.iocMode == 2) sc[1]->ignoreOtherCalls(); else if (cs.iocMode == 3) sc[2]->ignoreOtherCalls();
    declare_expectations(sc, cs);
    if (t.own == 1) FAIL(kOwnCheckText);
    if (t.own == 3) CHECK(true);
    for (size_t k = 0; k < cs.calls.size(); k++) {
        CallSpec& c = cs.calls[k];
        if (cs.winKind && k == cs.winStart) apply_window(sc, cs, true);
        if (cs.winKind && k == cs.winStart + cs.winLen) apply_window(sc, cs, false);
        OutBuf obuf[16]; reset_outbufs(obuf, 16);
        std::string fn = fname(c);
        sc[c.scope]->setDefaultComparatorsAndCopiersRepository();
        MockActualCall& ac = sc[c.scope]->actualCall(fn.c_str());       // any mock failure in here ends the test (default reporter)
        for (size_t si = 0; si < c.steps.size() && si < 16; si++) apply_step(ac, c.steps[si], obuf[si]);
        bool viaScope = c.fetch == 1 || c.fetch == 4 || c.fetch == 6;
        if (c.fetch != 2) { if (viaScope) { (void)sc[c.scope]->hasReturnValue(); (void)sc[c.scope]->returnValue(); } else { (void)ac.hasReturnValue(); (void)ac.returnValue(); } }
        if (c.probe) (void)mock().expectedCallsLeft();
    }
    if (cs.winKind && cs.calls.size() > cs.winStart && cs.calls.size() <= cs.winStart + cs.winLen) apply_window(sc, cs, false);
    if (t.own == 2) FAIL(kOwnCheckText);
}

struct RecOutput : TestOutput {
    std::vector<std::pair<std::string, std::string> > fails;
    void printBuffer(const char*) CPPUTEST_OVERRIDE {}
    void flush() CPPUTEST_OVERRIDE {}
    void printFailure(const TestFailure& f) CPPUTEST_OVERRIDE { fails.push_back(std::make_pair(std::string(f.getTestNameOnly().asCharString()), std::string(f.getMessage().asCharString()))); }
};
struct ScenarioShell : ExecFunctionTestShell {
    verif::ExecLambda fn;
    ScenarioShell(const char* name, void* arg) : fn(plugin_body, arg) { setGroupName("C08"); setTestName(name); testFunction_ = &fn; }
};

int run_plugin_case(Reader& r, bool& nontrivial, std::string& desc) {
    static const char* const names[4] = {"t0", "t1", "t2", "t3"};
    (void)r.u8();                                  // the byte that selected this mode
    int ntests = 2 + (int)r.below(3);
    std::vector<PluginTest> tests((size_t)ntests);
    for (int i = 0; i < ntests; i++) {
        static const int owns[8] = {0, 0, 1, 2, 3, 0, 2, 0};
        tests[(size_t)i].own = owns[r.below(8)];
        tests[(size_t)i].leftoverAtStart = false;
        decode(r, tests[(size_t)i].cs);
        static const char* const ownname[4] = {"", " OWN-CHECK-FAILS-BEFORE-CALLS", " OWN-CHECK-FAILS-AFTER-CALLS", " passing-own-check"};
        tests[(size_t)i].desc = render(tests[(size_t)i].cs);
        desc += sfmt("%sTEST %s%s: %s", i ? " || " : "PLUGIN RUN: ", names[i], ownname[tests[(size_t)i].own], tests[(size_t)i].desc.c_str());
        if (note_features(tests[(size_t)i].cs)) nontrivial = true;
    }
    verif::cls("mode:plugin");
    if (verif::g_explain) fprintf(stderr, "%s\n", desc.c_str());

    // model: what each test must end with
    struct Expect { int kind; AllowSet set; bool atEnd; };      // kind: 0 no failure, 1 own check, 2 mock failure
    std::vector<Expect> want((size_t)ntests);
    bool earlierFailed = false;
    for (int i = 0; i < ntests; i++) {
        PluginTest& t = tests[(size_t)i];
        Expect& w = want[(size_t)i]; w.kind = 0; w.atEnd = false;
        if (t.own == 1) { w.kind = 1; verif::cls("plugin-test:own-check-fails-before-calls"); }
        else {
            Prediction p = simulate(t.cs);
            for (auto& e : t.cs.ex) e.consumed = 0;
            if (p.fails && !p.atEnd) { w.kind = 2; w.set = p.set; }
            else if (t.own == 2) { w.kind = 1; verif::cls(p.fails ? "plugin-test:own-check-fails-then-no-end-of-test-report" : "plugin-test:own-check-fails-after-calls"); }
            else if (p.fails) { w.kind = 2; w.set = p.set; w.atEnd = true; }
        }
        if (w.kind == 2 && w.atEnd) { verif::cls("plugin-test:end-of-test-failure"); if (earlierFailed) verif::cls("plugin-test:end-of-test-failure-after-an-earlier-failed-test"); }
        if (w.kind == 2 && !w.atEnd) verif::cls("plugin-test:failure-during-the-calls");
        if (w.kind == 0) verif::cls(earlierFailed ? "plugin-test:passes-after-an-earlier-failed-test" : "plugin-test:passes");
        if (w.kind != 0) earlierFailed = true;
    }

    // real run
    RecOutput out; size_t total; bool leftoverAfterRun;
    {
        mock().clear();
        MockSupportPlugin plugin;
        plugin.installComparator("VType", g_cmp);
        plugin.installCopier("VOut", g_cpy);
        TestRegistry registry;
        TestResult result(out);
        std::vector<ScenarioShell*> shells;
        for (int i = 0; i < ntests; i++) shells.push_back(new ScenarioShell(names[i], &tests[(size_t)i]));
        registry.installPlugin(&plugin);
        for (int i = ntests - 1; i >= 0; i--) registry.addTest(shells[(size_t)i]);   // addTest prepends
        registry.setCurrentRegistry(&registry);
        registry.runAllTests(result);
        registry.setCurrentRegistry(NULLPTR);
        total = result.getFailureCount();
        leftoverAfterRun = mock().expectedCallsLeft();
        mock().clear();
        mock().setMockFailureStandardReporter(NULLPTR);
        for (auto* sh : shells) delete sh;
    }

    size_t wanted_total = 0;
    for (int i = 0; i < ntests; i++) {
        const Expect& w = want[(size_t)i];
        std::vector<std::string> got;
        for (auto& f : out.fails) if (f.first == names[i]) got.push_back(f.second);
        if (verif::g_explain) { fprintf(stderr, "  %s: %zu failure(s)%s", names[i], got.size(), w.kind == 0 ? " (model: passes)" : w.kind == 1 ? " (model: own check)" : " (model: mock failure)"); for (auto& g : got) fprintf(stderr, " [%s]", first_line(g).c_str()); fprintf(stderr, "\n"); }
        if (tests[(size_t)i].leftoverAtStart)
            return verif::fail("C08:plugin-mock-not-clear-between-tests", "test %s of one run started with expectedCallsLeft() true: something of the previous test is still in mock() [%s]", names[i], desc.c_str());
        if (w.kind != 0) wanted_total++;
        if (w.kind == 0 && !got.empty())
            return verif::fail("C08:plugin-failure-nobody-caused", "test %s (test %d of %d in one run) failed with \"%s\" although its actual calls match its expectations [%s]", names[i], i + 1, ntests, first_line(got[0]).c_str(), desc.c_str());
        if (w.kind != 0 && got.empty())
            return verif::fail("C08:plugin-deviation-not-reported", "test %s (test %d of %d in one run) passed, the model expects %s (%s) [%s]", names[i], i + 1, ntests,
                               w.kind == 1 ? "its own check to fail" : (w.atEnd ? "a mock failure at end of test" : "a mock failure during the calls"), w.kind == 2 ? render_allowed(w.set).c_str() : kOwnCheckText, desc.c_str());
        if (w.kind == 0) continue;
        std::string line = first_line(got[0]);
        if (w.kind == 1 && line != kOwnCheckText)
            return verif::fail("C08:plugin-wrong-diagnosis", "test %s: first failure is \"%s\", expected its own check [%s]", names[i], line.c_str(), desc.c_str());
        if (w.kind == 2 && !match_allowed(w.set, line))
            return verif::fail("C08:plugin-wrong-diagnosis", "test %s: first failure is \"%s\"; allowed for this deviation: %s [%s]", names[i], line.c_str(), render_allowed(w.set).c_str(), desc.c_str());
        if (got.size() > 1)
            return verif::fail("C08:plugin-test-failed-more-than-once", "test %s got %zu failures for one deviation: \"%s\" then \"%s\" [%s]", names[i], got.size(), line.c_str(), first_line(got[1]).c_str(), desc.c_str());
        if (w.kind == 2) verif::cls((std::string("plugin-outcome:") + match_allowed(w.set, line)->cls).c_str());
    }
    V_CHECK(total == wanted_total && out.fails.size() == wanted_total, "C08:plugin-failure-count", "the run reports %zu failures (%zu printed), the model expects %zu [%s]", total, out.fails.size(), wanted_total, desc.c_str());
    V_CHECK(!leftoverAfterRun, "C08:plugin-mock-not-clear-between-tests", "expectedCallsLeft() is true after the last test of the run [%s]", desc.c_str());
    return 0;
}

}  // namespace

extern "C" const char* verif_property(void) { return "C08"; }
extern "C" void verif_init(void) { verif::install_fake_time(); }
extern "C" int verif_case(const uint8_t* data, size_t size) {
    Reader r(data, size);
    bool nontrivial = false; std::string desc;
    bool plugin_mode = size > 0 && ((data[0] >> 5) & 3) == 3;     // direct mode uses the other bits of the first byte
    int rc = plugin_mode ? run_plugin_case(r, nontrivial, desc) : run_case(r, nontrivial, desc);
    verif::note_case(nontrivial, r.h, [&] { return desc; });
    return rc;
}
// ---------------------------------------------------------------------------------------------- known findings
namespace {
// two expectations on one function that agree on p0; the first call passes p0 first (both still candidates, both get the
// "p0 was passed" mark), then p1 rules the second expectation out -- its mark is never cleared.  The second call passes
// only p1=2: with the left-over mark the second expectation counts as completely matched, the missing parameter is not seen.
int repro_stale_state() {
    RecReporter rep; MockSupport m;
    m.setMockFailureStandardReporter(&rep); m.setActiveReporter(&rep); m.setDefaultComparatorsAndCopiersRepository();
    m.expectOneCall("f").withIntParameter("p0", 1).withIntParameter("p1", 1);
    m.expectOneCall("f").withIntParameter("p0", 1).withIntParameter("p1", 2);
    m.actualCall("f").withIntParameter("p0", 1).withIntParameter("p1", 1);
    m.actualCall("f").withIntParameter("p1", 2);           // p0 is missing
    m.checkExpectations();
    int reports = rep.n;
    m.clear();
    return reports == 0 ? 1 : 0;
}
// through the repository's own MockSupportPlugin (its reporter does not terminate the test): out-of-order calls plus a
// last call with a missing parameter give two failures for one test
void twice_body(void*) {
    mock().strictOrder();
    mock().expectOneCall("a"); mock().expectOneCall("b"); mock().expectOneCall("c").withIntParameter("p", 1);
    mock().actualCall("b"); mock().actualCall("a"); mock().actualCall("c");
}
int repro_reports_twice() {
    size_t failures;
    {
        MockSupportPlugin plugin;
        TestTestingFixture fixture;
        fixture.installPlugin(&plugin);
        verif::ExecLambda ex(twice_body, nullptr);
        fixture.setTestFunction(&ex);
        fixture.runAllTests();
        failures = fixture.getFailureCount();
    }
    mock().clear();
    return failures > 1 ? 1 : 0;
}
}  // namespace
extern "C" int verif_known_repro(const char* key) {
    std::string k(key);
    if (k == "C08:stale-parameter-match-state") return repro_stale_state();
    if (k == "C08:end-of-test-reports-twice") return repro_reports_twice();
    return -1;
}
