// C08 — mock verdict is exact.
// Decoder: a scenario over an own MockSupport object (scopes "", "a", "b") with a recording, non-terminating
//          MockFailureReporter: 4 functions with fixed signatures (0..3 typed inputs, 0..2 output parameters, optional
//          object pool, optional ignore-other-parameters, optional return type), 1..6 expectations (expectOneCall /
//          expectNCalls(0..3) / expectNoCall), per-scope strict order, ignoreOtherCalls; actual calls = the expansion of the
//          expectation multiset, permuted, then 0..2 mutations, parameters passed in a decoded order.
// Oracle:  independent multiset model (DESIGN.md appendix A.1): a call is judged by "is the prefix of what was passed
//          still consistent with some open expectation of that function"; compared are the position of the single report
//          (call index + begin/parameter step/return-value fetch/expectedCallsLeft probe/end of test), the first line of
//          the message against the set of diagnoses allowed there, the return value and output bytes of every
//          successful call, the result of expectedCallsLeft(), and the number of reports.
// Plugin mode (first byte with bits 5 and 6 set, 1 case in 4): 2..4 such scenarios as consecutive tests of one private
//          TestRegistry/TestResult under the repository's MockSupportPlugin; per test: failure count, first line, mock() clear.
#include "common.h"
#include "CppUTestExt/MockSupport.h"
#include "CppUTestExt/MockSupportPlugin.h"
#include "CppUTestExt/MockFailure.h"
#include <algorithm>

using verif::Reader;
using verif::sfmt;

namespace {

// ---------------------------------------------------------------------------------------------- domain
enum PType { T_INT, T_STR, T_ULONG, T_DOUBLE, T_PTR, T_BOOL, NTYPES };
const char* const kTypeName[NTYPES] = {"int", "str", "ulong", "double", "ptr", "bool"};
const int kInt[3] = {1, 2, -3};
const char* const kStr[3] = {"x", "y", ""};
const unsigned long kUlong[3] = {1UL, 2UL, 4000000000UL};
const double kDouble[3] = {0.5, 1.5, -2.0};
char g_slots[16];
char g_objs[3];                      // [0],[1]: object pool; [2]: an object no expectation names
const char* const kRetStr[6] = {"r0", "r1", "r2", "r3", "r4", "r5"};
const char* const kScope[3] = {"", "a", "b"};
const char* const kFunc[4] = {"f0", "f1", "f2", "f3"};
const char* const kIn[3] = {"p0", "p1", "p2"};
const char* const kOut[2] = {"o0", "o1"};

void* ptr_value(int i) { return i == 2 ? (void*)0 : (void*)&g_slots[i]; }
int canon(PType t, int v) { return t == T_BOOL ? (v & 1) : v; }     // bool has two values only

enum RetType { R_NONE, R_INT, R_STR, R_ULONG, R_PTR, R_DOUBLE, NRET };

struct FuncSpec { int nin; PType in[3]; int nout; size_t osz[2]; bool ignoreOther, objects; int ret; };
struct ExpSpec {
    int scope, func, count, how;     // how: 0 expectOneCall, 1 expectNCalls, 2 expectNoCall
    int val[3]; int obj; bool hasRet; bool unmod[2]; std::vector<uint8_t> out[2];
    int consumed;                    // model state
};
enum StepKind { S_IN, S_OUT, S_OBJ };
struct Step { int kind; std::string name; PType type; int val; int obj; };
struct CallSpec {
    int scope, func; bool unknown; std::vector<Step> steps; int fetch; bool probe; int origin; std::string mut;
};

std::string scoped(int scope, const std::string& fn) { return scope == 0 ? fn : std::string(kScope[scope]) + "::" + fn; }
std::string fname(const CallSpec& c) { return c.unknown ? std::string("nofn") : std::string(kFunc[c.func]); }

std::string ordinal(unsigned n) {
    const char* suf = "th";
    unsigned m100 = n % 100, m10 = n % 10;
    if (m100 < 11 || m100 > 13) { if (m10 == 1) suf = "st"; else if (m10 == 2) suf = "nd"; else if (m10 == 3) suf = "rd"; }
    return sfmt("%u%s", n, suf);
}
std::string value_text(PType t, int v) {
    switch (t) {
    case T_INT: return sfmt("%d", kInt[v]);
    case T_STR: return sfmt("\"%s\"", kStr[v]);
    case T_ULONG: return sfmt("%luUL", kUlong[v]);
    case T_DOUBLE: return sfmt("%g", kDouble[v]);
    case T_PTR: return v == 2 ? "NULL" : sfmt("&slot%d", v);
    default: return (v & 1) ? "true" : "false";
    }
}

// ---------------------------------------------------------------------------------------------- reporter
struct RecReporter : MockFailureReporter {
    int n = 0; std::vector<std::string> msgs;
    void failTest(const MockFailure& failure) CPPUTEST_OVERRIDE { n++; msgs.push_back(failure.getMessage().asCharString()); }
};
std::string first_line(const std::string& s) { size_t p = s.find('\n'); return p == std::string::npos ? s : s.substr(0, p); }

// ---------------------------------------------------------------------------------------------- diagnoses
struct Allow { const char* cls; std::string text; bool exact; };
typedef std::vector<Allow> AllowSet;

Allow a_unexpected(const std::string& fn) { return {"unexpected-call", "Mock Failure: Unexpected call to function: " + fn, true}; }
Allow a_additional(const std::string& fn, unsigned nth) { return {"additional-call", "Mock Failure: Unexpected additional (" + ordinal(nth) + ") call to function: " + fn, true}; }
Allow a_name_in(const std::string& fn, const std::string& p) { return {"unexpected-parameter-name", "Mock Failure: Unexpected parameter name to function \"" + fn + "\": " + p, true}; }
Allow a_name_out(const std::string& fn, const std::string& p) { return {"unexpected-output-parameter-name", "Mock Failure: Unexpected output parameter name to function \"" + fn + "\": " + p, true}; }
Allow a_value(const std::string& fn, const std::string& p) { return {"unexpected-parameter-value", "Mock Failure: Unexpected parameter value to parameter \"" + p + "\" to function \"" + fn + "\": <", false}; }
Allow a_object(const std::string& fn) { return {"unexpected-object", "MockFailure: Function called on an unexpected object: " + fn, true}; }
Allow a_missing_param(const std::string& fn) { return {"missing-parameter", "Mock Failure: Expected parameter for function \"" + fn + "\" did not happen.", true}; }
Allow a_missing_object(const std::string& fn) { return {"missing-object", "Mock Failure: Expected call on object for function \"" + fn + "\" but it did not happen.", true}; }
Allow a_unfulfilled() { return {"unfulfilled", "Mock Failure: Expected call WAS NOT fulfilled.", true}; }
Allow a_out_of_order() { return {"out-of-order", "Mock Failure: Out of order calls", true}; }

const Allow* match_allowed(const AllowSet& set, const std::string& line) {
    for (auto& a : set) {
        if (a.exact ? (line == a.text) : (line.compare(0, a.text.size(), a.text) == 0)) return &a;
    }
    return nullptr;
}
std::string render_allowed(const AllowSet& set) {
    std::string s;
    for (auto& a : set) { if (!s.empty()) s += " | "; s += a.text; if (!a.exact) s += "..."; }
    return s;
}

// ---------------------------------------------------------------------------------------------- reference model
// Written from the property statement and DESIGN.md A.1; uses only the decoded specifications, never the code under test.
struct Model {
    const FuncSpec* fs; std::vector<ExpSpec>* ex; int iocMode; int strictMask;
    bool pendingSet[3] = {false, false, false}; AllowSet pending[3];   // unmatched call of a scope, not finalised yet
    std::vector<std::string> seq[3];                                      // classes of the numbered calls of a scope
    // state of the call in progress
    std::vector<int> cons; bool ignored = false; int matched = -1;
    // bookkeeping for the known finding C08:stale-parameter-match-state only (never used for a verdict): expectations that
    // agreed with an earlier call for some listed parameter (or its object) and were ruled out later in that same call
    std::vector<char> stale, flagged;
    bool stale_candidate() const { for (int i : cons) if (stale[(size_t)i]) return true; return false; }

    bool ioc(int s) const { return iocMode == 1 || (iocMode == 2 && s == 1) || (iocMode == 3 && s == 2); }
    std::string class_key(const ExpSpec& e) const {
        const FuncSpec& f = fs[e.func];
        std::string k = kFunc[e.func];
        if (f.objects) k += sfmt("@%d", e.obj);
        for (int i = 0; i < f.nin; i++) k += sfmt(",%d", canon(f.in[i], e.val[i]));
        return k;
    }
    int in_index(const FuncSpec& f, const std::string& n) const { for (int i = 0; i < f.nin; i++) if (n == kIn[i]) return i; return -1; }
    int out_index(const FuncSpec& f, const std::string& n) const { for (int i = 0; i < f.nout; i++) if (n == kOut[i]) return i; return -1; }

    // everything the signature asks for was passed (ignore-other functions: possibly more)
    bool complete(const CallSpec& c) const {
        const FuncSpec& f = fs[c.func];
        for (int i = 0; i < f.nin; i++) { bool seen = false; for (auto& s : c.steps) if (s.kind == S_IN && s.name == kIn[i]) seen = true; if (!seen) return false; }
        for (int i = 0; i < f.nout; i++) { bool seen = false; for (auto& s : c.steps) if (s.kind == S_OUT && s.name == kOut[i]) seen = true; if (!seen) return false; }
        if (f.objects) { bool seen = false; for (auto& s : c.steps) if (s.kind == S_OBJ) seen = true; if (!seen) return false; }
        return true;
    }
    bool missing_params(const CallSpec& c) const {
        const FuncSpec& f = fs[c.func];
        for (int i = 0; i < f.nin; i++) { bool seen = false; for (auto& s : c.steps) if (s.kind == S_IN && s.name == kIn[i]) seen = true; if (!seen) return true; }
        for (int i = 0; i < f.nout; i++) { bool seen = false; for (auto& s : c.steps) if (s.kind == S_OUT && s.name == kOut[i]) seen = true; if (!seen) return true; }
        return false;
    }
    bool agrees(const ExpSpec& e, const Step& s) const {
        const FuncSpec& f = fs[e.func];
        if (s.kind == S_IN) { int i = in_index(f, s.name); if (i < 0) return f.ignoreOther; return s.type == f.in[i] && canon(f.in[i], s.val) == canon(f.in[i], e.val[i]); }
        if (s.kind == S_OUT) { int i = out_index(f, s.name); if (i < 0) return f.ignoreOther; return true; }
        return !f.objects || s.obj == e.obj;
    }
    // the call is exactly a call of a class whose expectations were all used up already (a surplus call)
    bool surplus(const CallSpec& c) const {
        if (c.unknown || !complete(c)) return false;
        for (auto& e : *ex) {
            if (e.scope != c.scope || e.func != c.func || e.count == 0 || e.consumed < e.count) continue;
            bool all = true;
            for (auto& s : c.steps) if (!agrees(e, s)) all = false;
            if (all) return true;
        }
        return false;
    }
    unsigned fulfilled_for(int scope, int func) const { unsigned n = 0; for (auto& e : *ex) if (e.scope == scope && e.func == func) n += (unsigned)e.consumed; return n; }

    // -- begin of an actual call.  Returns true when a report is due at this position (set filled in).
    bool begin(const CallSpec& c, AllowSet& due, bool& tolerateMore) {
        ignored = false; matched = -1; cons.clear(); tolerateMore = false;
        stale.resize(ex->size(), 0); flagged.assign(ex->size(), 0);
        if (pendingSet[c.scope]) { due = pending[c.scope]; tolerateMore = true; return true; }   // finalisation of the previous call of this scope
        std::string fn = scoped(c.scope, fname(c));
        bool named = false;
        if (!c.unknown) for (auto& e : *ex) if (e.scope == c.scope && e.func == c.func) named = true;
        if (!named) {
            if (ioc(c.scope)) { ignored = true; return false; }
            due.push_back(a_unexpected(fn)); return true;
        }
        for (size_t i = 0; i < ex->size(); i++) { auto& e = (*ex)[i]; if (e.scope == c.scope && e.func == c.func && e.consumed < e.count) cons.push_back((int)i); }
        if (cons.empty()) {
            unsigned done = fulfilled_for(c.scope, c.func);
            due.push_back(done > 0 ? a_additional(fn, done + 1) : a_unexpected(fn));
            return true;
        }
        return false;
    }
    // -- one parameter / object of the call in progress
    bool step(const CallSpec& c, const Step& s, AllowSet& due) {
        if (ignored) return false;
        std::vector<int> keep;
        for (int i : cons) if (agrees((*ex)[i], s)) keep.push_back(i);
        cons = keep;
        const FuncSpec& f = fs[c.func];
        if (!cons.empty()) {
            bool listed = (s.kind == S_IN && in_index(f, s.name) >= 0) || (s.kind == S_OUT && out_index(f, s.name) >= 0) || (s.kind == S_OBJ && f.objects);
            if (listed) for (int i : cons) flagged[(size_t)i] = 1;
            return false;
        }
        std::string fn = scoped(c.scope, fname(c));
        if (s.kind == S_IN) due.push_back(in_index(f, s.name) < 0 ? a_name_in(fn, s.name) : a_value(fn, s.name));
        else if (s.kind == S_OUT) due.push_back(a_name_out(fn, s.name));
        else due.push_back(a_object(fn));
        // A.1 rule 2 / A.5: a surplus call while another class of the function is open may also be called "additional call"
        if (surplus(c)) due.push_back(a_additional(fn, fulfilled_for(c.scope, c.func) + 1));
        return true;
    }
    // -- all parameters passed: matched (consumes the first declared open expectation of the class) or left unmatched
    void finish(const CallSpec& c, AllowSet& deferred) {
        if (ignored) return;
        std::string fn = scoped(c.scope, fname(c));
        if (complete(c)) {
            matched = cons[0]; (*ex)[matched].consumed++; seq[c.scope].push_back(class_key((*ex)[matched]));
            for (size_t i = 0; i < flagged.size(); i++) if (flagged[i]) stale[i] = 1;
            for (int i : cons) stale[(size_t)i] = 0;
            return;
        }
        const FuncSpec& f = fs[c.func];
        if (missing_params(c)) deferred.push_back(a_missing_param(fn));
        bool objseen = false; for (auto& s : c.steps) if (s.kind == S_OBJ) objseen = true;
        if (f.objects && !objseen) deferred.push_back(a_missing_object(fn));
    }
    bool any_pending(AllowSet& due) const {
        bool any = false;
        for (int s = 0; s < 3; s++) if (pendingSet[s]) { any = true; due.insert(due.end(), pending[s].begin(), pending[s].end()); }
        return any;
    }
    bool calls_left() const { for (auto& e : *ex) if (e.consumed != e.count) return true; return false; }
    bool order_differs() const {
        for (int s = 0; s < 3; s++) {
            if (!(strictMask & (1 << s))) continue;
            std::vector<std::string> want;
            for (auto& e : *ex) if (e.scope == s) for (int k = 0; k < e.count; k++) want.push_back(class_key(e));
            if (want != seq[s]) return true;
        }
        return false;
    }
    bool end(AllowSet& due) const {
        if (any_pending(due)) return true;
        if (calls_left()) { due.push_back(a_unfulfilled()); if (order_differs()) due.push_back(a_out_of_order()); return true; }
        if (order_differs()) { due.push_back(a_out_of_order()); return true; }
        return false;
    }
};

// ---------------------------------------------------------------------------------------------- decoder
struct Case {
    FuncSpec fs[4]; int strictMask, iocMode;
    std::vector<ExpSpec> ex; std::vector<CallSpec> calls;
    int nmut = 0; int permMode = 0; bool interleaved = false;
    std::vector<std::string> mutkinds;
};

CallSpec call_from(const Case& cs, int ei) {
    const ExpSpec& e = cs.ex[ei]; const FuncSpec& f = cs.fs[e.func];
    CallSpec c; c.scope = e.scope; c.func = e.func; c.unknown = false; c.fetch = 0; c.probe = false; c.origin = ei;
    for (int i = 0; i < f.nin; i++) c.steps.push_back({S_IN, kIn[i], f.in[i], e.val[i], 0});
    for (int i = 0; i < f.nout; i++) c.steps.push_back({S_OUT, kOut[i], T_INT, 0, 0});
    if (f.objects) c.steps.push_back({S_OBJ, "", T_INT, 0, e.obj});
    return c;
}

void decode(Reader& r, Case& cs) {
    uint8_t flags = r.u8();
    cs.strictMask = flags & 7; cs.iocMode = (flags >> 3) & 3;
    uint8_t rot = r.u8();
    for (int f = 0; f < 4; f++) {
        uint8_t b = r.u8(), b2 = r.u8();
        FuncSpec& s = cs.fs[f];
        s.nin = b & 3;
        static const int nouts[4] = {0, 1, 2, 1};
        s.nout = nouts[(b >> 2) & 3];
        s.ignoreOther = ((b >> 4) & 3) == 1;
        s.objects = ((b >> 6) & 3) == 1;
        s.ret = b2 % NRET;
        s.osz[0] = 1 + (b2 / 6) % 8; s.osz[1] = 1 + (b2 / 48) % 5;
        for (int i = 0; i < 3; i++) s.in[i] = (PType)((rot + f + 2 * i + (rot >> 4) * i) % NTYPES);
    }
    static const int nexps[8] = {1, 2, 3, 4, 5, 6, 3, 4};
    int nexp = nexps[r.below(8)];
    for (int i = 0; i < nexp; i++) {
        uint8_t b = r.u8(), b2 = r.u8(), b3 = r.u8();
        ExpSpec e;
        static const int scopes[4] = {0, 1, 2, 0};
        e.scope = scopes[b & 3]; e.func = (b >> 2) & 3;
        if (i > 0 && (b3 & 0x80)) { e.scope = cs.ex[i - 1].scope; e.func = cs.ex[i - 1].func; }   // another expectation on the same function
        static const int hows[16] = {0, 1, 1, 1, 1, 2, 1, 1, 1, 0, 1, 1, 1, 1, 1, 1};      // 0 expectOneCall, 1 expectNCalls, 2 expectNoCall
        static const int counts[16] = {1, 2, 3, 1, 0, 0, 2, 3, 2, 1, 3, 2, 1, 3, 2, 0};
        e.how = hows[b >> 4]; e.count = counts[b >> 4];
        for (int k = 0; k < 3; k++) e.val[k] = ((b2 >> (2 * k)) & 3) % 3;
        e.obj = (b2 >> 6) & 1;
        e.hasRet = (b3 & 1) != 0 && cs.fs[e.func].ret != R_NONE;
        e.unmod[0] = ((b3 >> 1) & 7) == 7; e.unmod[1] = ((b3 >> 4) & 7) == 7;
        for (int k = 0; k < 2; k++) for (size_t j = 0; j < cs.fs[e.func].osz[k]; j++) e.out[k].push_back((uint8_t)(0x10 * (i + 1) + 8 * k + j));
        e.consumed = 0;
        cs.ex.push_back(e);
    }
    // actual calls: expansion in declaration order
    for (int i = 0; i < nexp; i++) for (int k = 0; k < cs.ex[i].count; k++) cs.calls.push_back(call_from(cs, i));
    // mutations are decoded before the permutation so that short inputs still carry them; applied after it
    { static const int nm[4] = {0, 1, 2, 1}; cs.nmut = nm[r.below(4)]; }
    struct Mut { uint32_t kind; uint8_t target, aux; } muts[2];
    for (int m = 0; m < cs.nmut; m++) { muts[m].kind = r.below(10); muts[m].target = r.u8(); muts[m].aux = r.u8(); }
    // permutation
    { static const int pm[5] = {0, 1, 2, 1, 2}; cs.permMode = pm[r.below(5)]; }   // 0 declaration order, 1 shuffle, 2 shuffle that keeps declaration order inside strict scopes
    std::vector<CallSpec> decl = cs.calls;
    size_t n = cs.calls.size();
    if (cs.permMode != 0 && n > 1) {
        for (size_t i = 0; i + 1 < n; i++) { size_t j = i + r.below((uint32_t)(n - i)); std::swap(cs.calls[i], cs.calls[j]); }
        if (cs.permMode == 2) {   // keep the shuffled scope pattern, restore declaration order inside every strict scope
            std::vector<CallSpec> byscope[3]; size_t next[3] = {0, 0, 0};
            for (auto& c : decl) byscope[c.scope].push_back(c);
            for (auto& c : cs.calls) { int s = c.scope; if (cs.strictMask & (1 << s)) c = byscope[s][next[s]++]; }
        }
    }
    for (size_t i = 0; i < n; i++) if (cs.calls[i].origin != decl[i].origin) cs.interleaved = true;
    // mutations
    for (int m = 0; m < cs.nmut; m++) {
        static const char* const kn[10] = {"drop", "duplicate", "change-value", "rename-parameter", "omit-parameter", "wrong-object", "unknown-function", "swap", "extra-parameter", "wrong-scope"};
        uint32_t kind = muts[m].kind; uint8_t aux = muts[m].aux;
        std::string label = kn[kind];
        if (cs.calls.empty()) {   // nothing to mutate: the only possible deviation is a call nobody expects
            CallSpec c; c.scope = 0; c.func = aux & 3; c.unknown = false; c.fetch = 0; c.probe = false; c.origin = -1; c.mut = "added";
            cs.calls.push_back(c); cs.mutkinds.push_back("added-call"); continue;
        }
        size_t t = muts[m].target % cs.calls.size();
        CallSpec& c = cs.calls[t];
        switch (kind) {
        case 0: cs.calls.erase(cs.calls.begin() + (long)t); break;
        case 1: { CallSpec d = c; d.mut += "dup;"; size_t at = aux % (cs.calls.size() + 1); cs.calls.insert(cs.calls.begin() + (long)at, d); break; }
        case 2: {
            std::vector<size_t> ins; for (size_t i = 0; i < c.steps.size(); i++) if (c.steps[i].kind == S_IN) ins.push_back(i);
            if (ins.empty()) { label = "noop(change-value:no-parameter)"; break; }
            Step& s = c.steps[ins[aux % ins.size()]];
            int spec_i = -1; for (int i = 0; i < cs.fs[c.func].nin; i++) if (s.name == kIn[i]) spec_i = i;
            if ((aux >> 6) == 3 && spec_i >= 0) {   // a type that never compares equal to the declared one (int/long/unsigned cross-type equality is C09's domain)
                s.type = (cs.fs[c.func].in[spec_i] == T_STR) ? T_INT : T_STR; label = "change-type"; c.mut += "type;"; }
            else { s.val = (s.val + 1 + ((aux >> 4) & 1)) % 3; c.mut += "value;"; }
            break; }
        case 3: {
            std::vector<size_t> ps; for (size_t i = 0; i < c.steps.size(); i++) if (c.steps[i].kind != S_OBJ) ps.push_back(i);
            if (ps.empty()) { label = "noop(rename-parameter:no-parameter)"; break; }
            Step& s = c.steps[ps[aux % ps.size()]]; s.name = "zz"; c.mut += "rename;";
            if (s.kind == S_OUT) label = "rename-output-parameter";
            break; }
        case 4: {
            std::vector<size_t> ps; for (size_t i = 0; i < c.steps.size(); i++) if (c.steps[i].kind != S_OBJ) ps.push_back(i);
            if (ps.empty()) { label = "noop(omit-parameter:no-parameter)"; break; }
            size_t at = ps[aux % ps.size()];
            if (c.steps[at].kind == S_OUT) label = "omit-output-parameter";
            c.steps.erase(c.steps.begin() + (long)at); c.mut += "omit;";
            break; }
        case 5: {
            bool had = false;
            for (auto& s : c.steps) if (s.kind == S_OBJ) { had = true;
                if ((aux & 3) == 0) { s.obj = 2; }                               // an object nobody expects
                else if ((aux & 3) == 1) { s.obj = -1; label = "omit-object"; }  // no object at all
                else s.obj ^= 1; }                                               // the other pool object
            if (had) { c.steps.erase(std::remove_if(c.steps.begin(), c.steps.end(), [](const Step& s) { return s.kind == S_OBJ && s.obj < 0; }), c.steps.end()); c.mut += "object;"; }
            else { c.steps.push_back({S_OBJ, "", T_INT, 0, 2}); label = "object-on-objectless-function"; c.mut += "object;"; }
            break; }
        case 6: c.unknown = true; c.mut += "unknown;"; break;
        case 7: { size_t u = aux % cs.calls.size(); if (u == t) label = "noop(swap:same)"; std::swap(cs.calls[t], cs.calls[u]); break; }
        case 8: { size_t at = aux % (c.steps.size() + 1); c.steps.insert(c.steps.begin() + (long)at, Step{S_IN, "xx", T_INT, 0, 0}); c.mut += "extra;"; break; }
        case 9: c.scope = (c.scope + 1 + (aux & 1)) % 3; c.mut += "scope;"; break;
        }
        cs.mutkinds.push_back(label);
    }
    // per call: order of the parameters, ignored extras, how the return value is fetched, expectedCallsLeft probe
    for (auto& c : cs.calls) {
        uint8_t ord = r.u8(), d = r.u8();
        static const int fetches[4] = {0, 1, 2, 0};
        c.fetch = fetches[d & 3];
        c.probe = ((d >> 6) & 3) == 1;
        const FuncSpec& f = cs.fs[c.func];
        if (!c.unknown && f.ignoreOther) {
            static const int extras[4] = {0, 1, 2, 1};
            int ne = extras[(d >> 2) & 3];
            if (ne >= 1) c.steps.push_back({S_IN, "x0", T_INT, 1, 0});
            if (ne >= 2) c.steps.push_back({S_OUT, "x1", T_INT, 0, 0});
        }
        if (!c.unknown && !f.objects && ((d >> 4) & 3) == 1) {
            bool has = false; for (auto& s : c.steps) if (s.kind == S_OBJ) has = true;
            if (!has) c.steps.push_back({S_OBJ, "", T_INT, 0, 0});   // object passed to a function whose expectations name none: ignored
        }
        size_t k = c.steps.size();
        if (k > 1) {
            std::rotate(c.steps.begin(), c.steps.begin() + (long)(ord % k), c.steps.end());
            if ((ord / k) & 1) std::reverse(c.steps.begin(), c.steps.end());
            if ((ord / (2 * k)) & 1) std::swap(c.steps[0], c.steps[1]);
        }
    }
}

std::string render(const Case& cs) {
    std::string s = sfmt("strict=%d%d%d ioc=%d;", cs.strictMask & 1, (cs.strictMask >> 1) & 1, (cs.strictMask >> 2) & 1, cs.iocMode);
    for (auto& e : cs.ex) {
        const FuncSpec& f = cs.fs[e.func];
        s += sfmt(" E:%s x%d%s", scoped(e.scope, kFunc[e.func]).c_str(), e.count, e.how == 2 ? "(noCall)" : "");
        if (e.how != 2) {
            s += "(";
            for (int i = 0; i < f.nin; i++) s += sfmt("%s%s=%s", i ? "," : "", kIn[i], value_text(f.in[i], e.val[i]).c_str());
            for (int i = 0; i < f.nout; i++) s += sfmt(",%s:out%zu%s", kOut[i], f.osz[i], e.unmod[i] ? "u" : "");
            s += ")";
            if (f.objects) s += sfmt("@obj%d", e.obj);
            if (f.ignoreOther) s += "+ignoreOther";
            if (e.hasRet) s += sfmt("->%s", f.ret == R_INT ? "int" : f.ret == R_STR ? "str" : f.ret == R_ULONG ? "ulong" : f.ret == R_PTR ? "ptr" : "double");
        }
        s += ";";
    }
    s += " CALLS:";
    for (auto& c : cs.calls) {
        s += sfmt(" %s(", scoped(c.scope, fname(c)).c_str());
        bool first = true;
        for (auto& st : c.steps) {
            if (!first) s += ","; first = false;
            if (st.kind == S_IN) s += sfmt("%s=%s", st.name.c_str(), value_text(st.type, st.val).c_str());
            else if (st.kind == S_OUT) s += sfmt("%s:out", st.name.c_str());
            else s += sfmt("@obj%d", st.obj);
        }
        s += sfmt(")%s%s", c.fetch == 0 ? ".ret" : c.fetch == 1 ? ".scoperet" : "", c.probe ? "?left" : "");
        if (!c.mut.empty()) s += "[" + c.mut + "]";
    }
    return s;
}

// ---------------------------------------------------------------------------------------------- execution
struct Position { int call; const char* phase; int step; };
std::string pos_text(const Position& p) {
    if (p.call < 0) return "end of test (checkExpectations)";
    if (p.step >= 0) return sfmt("actual call #%d, %s %d", p.call, p.phase, p.step);
    return sfmt("actual call #%d, %s", p.call, p.phase);
}

// compares what the model says is due at this position with what the reporter received; 0 go on, 1 violation, 2 reported as due
int judge(const Position& pos, bool due, const AllowSet& set, bool tolerateMore, const RecReporter& rep, int before, const std::string& scenario, std::string& outcome, const char* knownKeyForMore = nullptr) {
    int got = rep.n - before;
    if (!due) {
        if (got > 0) return verif::fail("C08:failure-nobody-caused", "at %s the reporter received \"%s\" although every call so far matches an open expectation [%s]",
                                        pos_text(pos).c_str(), first_line(rep.msgs[(size_t)before]).c_str(), scenario.c_str());
        return 0;
    }
    if (got == 0) return verif::fail("C08:deviation-not-reported", "at %s the model expects the failure (%s) but the reporter received nothing [%s]",
                                     pos_text(pos).c_str(), render_allowed(set).c_str(), scenario.c_str());
    std::string line = first_line(rep.msgs[(size_t)before]);
    const Allow* a = match_allowed(set, line);
    if (!a) return verif::fail("C08:wrong-diagnosis", "at %s the reporter received \"%s\"; allowed for this deviation: %s [%s]",
                               pos_text(pos).c_str(), line.c_str(), render_allowed(set).c_str(), scenario.c_str());
    if (got > 1 && !tolerateMore && !(knownKeyForMore && verif::known(knownKeyForMore)))
        return verif::fail("C08:reported-more-than-once", "at %s one deviation produced %d reports: \"%s\" then \"%s\" [%s]",
                           pos_text(pos).c_str(), got, line.c_str(), first_line(rep.msgs[(size_t)before + 1]).c_str(), scenario.c_str());
    if (got > 1 && tolerateMore) verif::cls("artefact:second-report-in-compound-step");
    outcome = a->cls;
    return 2;
}

int check_return(MockNamedValue v, bool has, const ExpSpec* e, const FuncSpec* f, int ei, const std::string& where, const std::string& scenario) {
    bool want = e && e->hasRet;
    if (has != want) return verif::fail("C08:return-value", "%s: hasReturnValue() is %d, the consumed expectation %s a return value [%s]", where.c_str(), has, want ? "has" : "does not have", scenario.c_str());
    if (!want) return 0;
    std::string type = v.getType().asCharString();
    bool ok = false; std::string gottext = type;
    switch (f->ret) {
    case R_INT: if (type == "int") { int g = v.getIntValue(); ok = g == 100 + ei; gottext += sfmt(" %d", g); } break;
    case R_STR: if (type == "const char*") { const char* g = v.getStringValue(); ok = g && std::string(g) == kRetStr[ei]; gottext += sfmt(" %s", g ? g : "(null)"); } break;
    case R_ULONG: if (type == "unsigned long int") { unsigned long g = v.getUnsignedLongIntValue(); ok = g == 1000UL + (unsigned long)ei; gottext += sfmt(" %lu", g); } break;
    case R_PTR: if (type == "void*") { void* g = v.getPointerValue(); ok = g == (void*)&g_slots[4 + ei]; gottext += sfmt(" slot%+ld", (long)((char*)g - g_slots)); } break;
    case R_DOUBLE: if (type == "double") { double g = v.getDoubleValue(); ok = g == ei + 0.25; gottext += sfmt(" %g", g); } break;
    }
    if (!ok) return verif::fail("C08:return-value", "%s: returned <%s>, but the call consumed expectation #%d (declaration order) whose return value is of kind %d index %d [%s]",
                                where.c_str(), gottext.c_str(), ei, f->ret, ei, scenario.c_str());
    return 0;
}

void declare_expectations(MockSupport* const sc[3], Case& cs) {
    for (size_t i = 0; i < cs.ex.size(); i++) {
        ExpSpec& e = cs.ex[i]; const FuncSpec& f = cs.fs[e.func];
        if (e.how == 2) { sc[e.scope]->expectNoCall(kFunc[e.func]); continue; }
        MockExpectedCall& x = e.how == 0 ? sc[e.scope]->expectOneCall(kFunc[e.func]) : sc[e.scope]->expectNCalls((unsigned)e.count, kFunc[e.func]);
        for (int k = 0; k < f.nin; k++) {
            switch (f.in[k]) {
            case T_INT: x.withIntParameter(kIn[k], kInt[e.val[k]]); break;
            case T_STR: x.withStringParameter(kIn[k], kStr[e.val[k]]); break;
            case T_ULONG: x.withUnsignedLongIntParameter(kIn[k], kUlong[e.val[k]]); break;
            case T_DOUBLE: x.withDoubleParameter(kIn[k], kDouble[e.val[k]]); break;
            case T_PTR: x.withPointerParameter(kIn[k], ptr_value(e.val[k])); break;
            default: x.withBoolParameter(kIn[k], (e.val[k] & 1) != 0); break;
            }
        }
        for (int k = 0; k < f.nout; k++) { if (e.unmod[k]) x.withUnmodifiedOutputParameter(kOut[k]); else x.withOutputParameterReturning(kOut[k], e.out[k].data(), e.out[k].size()); }
        if (f.objects) x.onObject(&g_objs[e.obj]);
        if (f.ignoreOther) x.ignoreOtherParameters();
        if (e.hasRet) {
            switch (f.ret) {
            case R_INT: x.andReturnValue((int)(100 + i)); break;
            case R_STR: x.andReturnValue(kRetStr[i]); break;
            case R_ULONG: x.andReturnValue((unsigned long)(1000 + i)); break;
            case R_PTR: x.andReturnValue((void*)&g_slots[4 + i]); break;
            case R_DOUBLE: x.andReturnValue((double)i + 0.25); break;
            }
        }
    }
}

void apply_step(MockActualCall& ac, const Step& s, uint8_t* obuf) {
    if (s.kind == S_IN) {
        switch (s.type) {
        case T_INT: ac.withIntParameter(s.name.c_str(), s.name == "xx" ? 7 : kInt[s.val]); break;
        case T_STR: ac.withStringParameter(s.name.c_str(), kStr[s.val]); break;
        case T_ULONG: ac.withUnsignedLongIntParameter(s.name.c_str(), kUlong[s.val]); break;
        case T_DOUBLE: ac.withDoubleParameter(s.name.c_str(), kDouble[s.val]); break;
        case T_PTR: ac.withPointerParameter(s.name.c_str(), ptr_value(s.val)); break;
        default: ac.withBoolParameter(s.name.c_str(), (s.val & 1) != 0); break;
        }
    } else if (s.kind == S_OUT) ac.withOutputParameter(s.name.c_str(), obuf);
    else ac.onObject(&g_objs[s.obj]);
}

// generator histogram; returns the NT verdict of DESIGN.md for one scenario
bool note_features(const Case& cs) {
        std::vector<std::string> classes;
        for (auto& c : cs.calls) { std::string k = scoped(c.scope, fname(c)); for (auto& s : c.steps) if (s.kind != S_OUT) k += sfmt("|%s%d.%d.%d", s.name.c_str(), s.kind, s.val, s.obj); classes.push_back(k); }
        std::sort(classes.begin(), classes.end()); classes.erase(std::unique(classes.begin(), classes.end()), classes.end());
        bool mutated = false; for (auto& m : cs.mutkinds) if (m.compare(0, 4, "noop") != 0) mutated = true;
        bool nontrivial = cs.calls.size() >= 3 && classes.size() >= 2 && (cs.interleaved || mutated);
        if (cs.calls.size() >= 3) verif::cls("shape:calls>=3");
        if (classes.size() >= 2) verif::cls("shape:classes>=2");
        if (cs.interleaved || mutated) verif::cls("shape:interleaved-or-mutated");
        if (cs.strictMask) verif::cls("feature:strict-order");
        if (cs.iocMode) verif::cls("feature:ignore-other-calls");
        bool sc[3] = {false, false, false}, fio = false, fobj = false, fout = false, fret = false, nocall = false, multi = false, sameclass = false;
        for (size_t i = 0; i < cs.ex.size(); i++) { auto& e = cs.ex[i]; sc[e.scope] = true; const FuncSpec& f = cs.fs[e.func];
            if (f.ignoreOther) fio = true; if (f.objects) fobj = true; if (f.nout) fout = true; if (e.hasRet) fret = true; if (e.count == 0) nocall = true; if (e.count > 1) multi = true;
            for (size_t j = 0; j < i; j++) if (cs.ex[j].scope == e.scope && cs.ex[j].func == e.func) sameclass = true; }
        if (sc[1] || sc[2]) verif::cls("feature:scopes");
        if (fio) verif::cls("feature:ignore-other-parameters");
        if (fobj) verif::cls("feature:objects");
        if (fout) verif::cls("feature:output-parameters");
        if (fret) verif::cls("feature:return-values");
        if (nocall) verif::cls("feature:expect-no-call");
        if (multi) verif::cls("feature:expectNCalls>1");
        if (sameclass) verif::cls("feature:several-expectations-on-one-function");
        if (cs.interleaved) verif::cls("feature:interleaved");
        if (cs.mutkinds.empty()) verif::cls("mutation:none");
        for (auto& m : cs.mutkinds) verif::cls(("mutation:" + m).c_str());
        return nontrivial;
}

int run_case(Reader& r, bool& nontrivial, std::string& desc) {
    Case cs; decode(r, cs);
    desc = render(cs);
    if (verif::g_explain) fprintf(stderr, "CASE %s\n", desc.c_str());

    nontrivial = note_features(cs);
    verif::cls("mode:direct");

    // -------- set up the real scenario
    RecReporter rep;
    MockSupport root;
    struct Clear { MockSupport& m; ~Clear() { m.clear(); } } clear_at_exit{root};
    root.setMockFailureStandardReporter(&rep);
    root.setActiveReporter(&rep);
    root.setDefaultComparatorsAndCopiersRepository();
    root.crashOnFailure(false);
    MockSupport* sc[3] = {&root, root.getMockSupportScope("a"), root.getMockSupportScope("b")};
    sc[1]->setActiveReporter(&rep); sc[2]->setActiveReporter(&rep);
    for (int s = 0; s < 3; s++) if (cs.strictMask & (1 << s)) sc[s]->strictOrder();
    if (cs.iocMode == 1) root.ignoreOtherCalls(); else if (cs.iocMode == 2) sc[1]->ignoreOtherCalls(); else if (cs.iocMode == 3) sc[2]->ignoreOtherCalls();

    declare_expectations(sc, cs);
    if (rep.n != 0) return verif::fail("C08:failure-nobody-caused", "declaring the expectations already produced a report \"%s\" [%s]", first_line(rep.msgs[0]).c_str(), desc.c_str());

    // -------- run real code and model in lock step
    Model m; m.fs = cs.fs; m.ex = &cs.ex; m.iocMode = cs.iocMode; m.strictMask = cs.strictMask;
    std::string outcome = "pass";
    bool stopped = false;
    for (size_t k = 0; k < cs.calls.size() && !stopped; k++) {
        CallSpec& c = cs.calls[k];
        MockSupport* scope = sc[c.scope];
        uint8_t obuf[16][24]; memset(obuf, 0xEE, sizeof obuf);
        if (c.steps.size() > 16) c.steps.resize(16);
        std::string fn = fname(c);
        // begin
        int before = rep.n; AllowSet due; bool tol = false;
        MockActualCall& ac = scope->actualCall(fn.c_str());
        bool isdue = m.begin(c, due, tol);
        if (verif::g_explain) fprintf(stderr, "  #%zu %s begin: reports=%d%s\n", k, scoped(c.scope, fn).c_str(), rep.n - before, isdue ? " (model: failure due)" : "");
        int j = judge({(int)k, "begin", -1}, isdue, due, tol, rep, before, desc, outcome);
        if (j == 1) return 1;
        if (j == 2) { stopped = true; break; }
        if (m.ignored) verif::cls("call:ignored-by-ignoreOtherCalls");
        if (!m.ignored && m.stale_candidate() && verif::known("C08:stale-parameter-match-state")) {
            // known finding: this call can see match flags left over from an earlier call; the scenario is not judged from here on
            outcome = "excluded(stale-parameter-match-state)"; stopped = true; break;
        }
        // parameters and object, in the decoded order
        for (size_t si = 0; si < c.steps.size(); si++) {
            const Step& s = c.steps[si];
            before = rep.n; due.clear();
            apply_step(ac, s, obuf[si]);
            isdue = m.step(c, s, due);
            if (verif::g_explain) fprintf(stderr, "     step %zu kind=%d %s: reports=%d%s\n", si, s.kind, s.name.c_str(), rep.n - before, isdue ? " (model: failure due)" : "");
            j = judge({(int)k, "parameter/object step", (int)si}, isdue, due, false, rep, before, desc, outcome);
            if (j == 1) return 1;
            if (j == 2) { stopped = true; break; }
        }
        if (stopped) break;
        AllowSet deferred;
        m.finish(c, deferred);
        bool unmatched = !m.ignored && m.matched < 0;
        // return value (finalises the call)
        if (c.fetch != 2) {
            before = rep.n;
            bool has = c.fetch == 0 ? ac.hasReturnValue() : scope->hasReturnValue();
            MockNamedValue v = c.fetch == 0 ? ac.returnValue() : scope->returnValue();
            j = judge({(int)k, "return value fetch", -1}, unmatched, deferred, false, rep, before, desc, outcome);
            if (verif::g_explain) fprintf(stderr, "     fetch(%d): reports=%d has=%d\n", c.fetch, rep.n - before, has);
            if (j == 1) return 1;
            if (j == 2) { stopped = true; break; }
            const ExpSpec* e = m.matched >= 0 ? &cs.ex[(size_t)m.matched] : nullptr;
            if (check_return(v, has, e, e ? &cs.fs[e->func] : nullptr, m.matched, sfmt("actual call #%zu %s", k, scoped(c.scope, fn).c_str()), desc)) return 1;
            if (!(e && e->hasRet)) {
                int dflt = c.fetch == 0 ? ac.returnIntValueOrDefault(77) : scope->returnIntValueOrDefault(77);
                V_CHECK(dflt == 77, "C08:return-value", "actual call #%zu: returnIntValueOrDefault(77) gave %d although no return value was specified [%s]", k, dflt, desc.c_str());
            } else verif::cls("checked:return-value");
        } else if (unmatched) { m.pendingSet[c.scope] = true; m.pending[c.scope] = deferred; verif::cls("call:unmatched-finalised-later"); }
        // output parameters of a successful (or ignored) call
        if (!unmatched) {
            const ExpSpec* e = m.matched >= 0 ? &cs.ex[(size_t)m.matched] : nullptr;
            for (size_t si = 0; si < c.steps.size(); si++) {
                const Step& s = c.steps[si]; if (s.kind != S_OUT) continue;
                std::vector<uint8_t> want(24, 0xEE);
                if (e) { int oi = m.out_index(cs.fs[e->func], s.name); if (oi >= 0 && !e->unmod[oi]) { std::copy(e->out[oi].begin(), e->out[oi].end(), want.begin()); verif::cls("checked:output-bytes"); } }
                if (memcmp(obuf[si], want.data(), 24) != 0) {
                    std::string g, w; for (int q = 0; q < 12; q++) { g += sfmt("%02X ", obuf[si][q]); w += sfmt("%02X ", want[(size_t)q]); }
                    return verif::fail("C08:output-bytes", "actual call #%zu %s output parameter %s: buffer is %s.. but the consumed expectation #%d provides %s.. (0xEE = untouched) [%s]",
                                       k, scoped(c.scope, fn).c_str(), s.name.c_str(), g.c_str(), m.matched, w.c_str(), desc.c_str());
                }
            }
        }
        // probe: expectedCallsLeft() finalises the last call of every scope
        if (c.probe) {
            before = rep.n; due.clear();
            bool left = root.expectedCallsLeft();
            isdue = m.any_pending(due);
            j = judge({(int)k, "expectedCallsLeft probe", -1}, isdue, due, true, rep, before, desc, outcome);
            if (j == 1) return 1;
            if (j == 2) { stopped = true; break; }
            verif::cls("checked:expectedCallsLeft");
            V_CHECK(left == m.calls_left(), "C08:expectedCallsLeft", "after actual call #%zu expectedCallsLeft() is %d, the model says %d [%s]", k, left, m.calls_left(), desc.c_str());
        }
    }
    if (!stopped) {
        int before = rep.n; AllowSet due;
        root.checkExpectations();      // may delete the scopes (failTest clears first): sc[1], sc[2] are dead from here on
        bool isdue = m.end(due);
        if (verif::g_explain) fprintf(stderr, "  end: reports=%d%s\n", rep.n - before, isdue ? " (model: failure due)" : "");
        int j = judge({-1, "end", -1}, isdue, due, false, rep, before, desc, outcome, "C08:end-of-test-reports-twice");
        if (j == 1) return 1;
    }
    verif::cls(("outcome:" + outcome).c_str());
    if (outcome == "pass" && cs.strictMask) verif::cls("outcome:pass-under-strict-order");
    if (outcome == "pass" && cs.interleaved) verif::cls("outcome:pass-interleaved");
    return 0;
}

// ---------------------------------------------------------------------------------------------- plugin mode
// 2..4 scenarios run as consecutive tests of ONE private TestRegistry / TestResult with the repository's MockSupportPlugin
// installed, on the global mock() with the default (terminating) reporter during the test body and the plugin's own reporter
// at end of test.  Judged per test: number of failures (one deviation -> exactly one failure; a passing scenario -> none; a
// test that already failed by its own check -> no additional mock failure), first line of the mock failure against the
// model's set, and that nothing of test k is left in mock() when test k+1 starts.
struct Prediction { bool fails; bool atEnd; AllowSet set; int call; };

// the model alone over one scenario: the first position at which a report is due
Prediction simulate(Case& cs) {
    Model m; m.fs = cs.fs; m.ex = &cs.ex; m.iocMode = cs.iocMode; m.strictMask = cs.strictMask;
    for (auto& e : cs.ex) e.consumed = 0;
    for (size_t k = 0; k < cs.calls.size(); k++) {
        CallSpec& c = cs.calls[k];
        if (c.steps.size() > 16) c.steps.resize(16);
        AllowSet due; bool tol = false;
        if (m.begin(c, due, tol)) return {true, false, due, (int)k};
        for (auto& st : c.steps) { due.clear(); if (m.step(c, st, due)) return {true, false, due, (int)k}; }
        AllowSet deferred;
        m.finish(c, deferred);
        bool unmatched = !m.ignored && m.matched < 0;
        if (c.fetch != 2) { if (unmatched) return {true, false, deferred, (int)k}; }
        else if (unmatched) { m.pendingSet[c.scope] = true; m.pending[c.scope] = deferred; }
        if (c.probe) { due.clear(); if (m.any_pending(due)) return {true, false, due, (int)k}; }
    }
    AllowSet due;
    if (m.end(due)) return {true, true, due, -1};
    return {false, false, {}, -1};
}

const char* const kOwnCheckText = "own check of the test";
struct PluginTest { Case cs; int own; std::string desc; bool leftoverAtStart; };   // own: 0 none, 1 fails after declaring, 2 fails after the calls, 3 passing check

void plugin_body(void* arg) {
    PluginTest& t = *(PluginTest*)arg;
    Case& cs = t.cs;
    if (mock().expectedCallsLeft()) t.leftoverAtStart = true;
    MockSupport* sc[3] = {&mock(), &mock("a"), &mock("b")};
    for (int s = 0; s < 3; s++) if (cs.strictMask & (1 << s)) sc[s]->strictOrder();
    if (cs.iocMode == 1) sc[0]->ignoreOtherCalls(); else if (cs.iocMode == 2) sc[1]->ignoreOtherCalls(); else if (cs.iocMode == 3) sc[2]->ignoreOtherCalls();
    declare_expectations(sc, cs);
    if (t.own == 1) FAIL(kOwnCheckText);
    if (t.own == 3) CHECK(true);
    for (size_t k = 0; k < cs.calls.size(); k++) {
        CallSpec& c = cs.calls[k];
        uint8_t obuf[16][24]; memset(obuf, 0xEE, sizeof obuf);
        std::string fn = fname(c);
        MockActualCall& ac = sc[c.scope]->actualCall(fn.c_str());       // any mock failure in here ends the test (default reporter)
        for (size_t si = 0; si < c.steps.size() && si < 16; si++) apply_step(ac, c.steps[si], obuf[si]);
        if (c.fetch == 0) { (void)ac.hasReturnValue(); (void)ac.returnValue(); }
        else if (c.fetch == 1) { (void)sc[c.scope]->hasReturnValue(); (void)sc[c.scope]->returnValue(); }
        if (c.probe) (void)mock().expectedCallsLeft();
    }
    if (t.own == 2) FAIL(kOwnCheckText);
}

struct RecOutput : TestOutput {
    std::vector<std::pair<std::string, std::string> > fails;
    void printBuffer(const char*) CPPUTEST_OVERRIDE {}
    void flush() CPPUTEST_OVERRIDE {}
    void printFailure(const TestFailure& f) CPPUTEST_OVERRIDE { fails.push_back(std::make_pair(std::string(f.getTestNameOnly().asCharString()), std::string(f.getMessage().asCharString()))); }
};
struct ScenarioShell : ExecFunctionTestShell {
    verif::ExecLambda fn;
    ScenarioShell(const char* name, void* arg) : fn(plugin_body, arg) { setGroupName("C08"); setTestName(name); testFunction_ = &fn; }
};

int run_plugin_case(Reader& r, bool& nontrivial, std::string& desc) {
    static const char* const names[4] = {"t0", "t1", "t2", "t3"};
    (void)r.u8();                                  // the byte that selected this mode
    int ntests = 2 + (int)r.below(3);
    std::vector<PluginTest> tests((size_t)ntests);
    for (int i = 0; i < ntests; i++) {
        static const int owns[8] = {0, 0, 1, 2, 3, 0, 2, 0};
        tests[(size_t)i].own = owns[r.below(8)];
        tests[(size_t)i].leftoverAtStart = false;
        decode(r, tests[(size_t)i].cs);
        static const char* const ownname[4] = {"", " OWN-CHECK-FAILS-BEFORE-CALLS", " OWN-CHECK-FAILS-AFTER-CALLS", " passing-own-check"};
        tests[(size_t)i].desc = render(tests[(size_t)i].cs);
        desc += sfmt("%sTEST %s%s: %s", i ? " || " : "PLUGIN RUN: ", names[i], ownname[tests[(size_t)i].own], tests[(size_t)i].desc.c_str());
        if (note_features(tests[(size_t)i].cs)) nontrivial = true;
    }
    verif::cls("mode:plugin");
    if (verif::g_explain) fprintf(stderr, "%s\n", desc.c_str());

    // model: what each test must end with
    struct Expect { int kind; AllowSet set; bool atEnd; };      // kind: 0 no failure, 1 own check, 2 mock failure
    std::vector<Expect> want((size_t)ntests);
    bool earlierFailed = false;
    for (int i = 0; i < ntests; i++) {
        PluginTest& t = tests[(size_t)i];
        Expect& w = want[(size_t)i]; w.kind = 0; w.atEnd = false;
        if (t.own == 1) { w.kind = 1; verif::cls("plugin-test:own-check-fails-before-calls"); }
        else {
            Prediction p = simulate(t.cs);
            for (auto& e : t.cs.ex) e.consumed = 0;
            if (p.fails && !p.atEnd) { w.kind = 2; w.set = p.set; }
            else if (t.own == 2) { w.kind = 1; verif::cls(p.fails ? "plugin-test:own-check-fails-then-no-end-of-test-report" : "plugin-test:own-check-fails-after-calls"); }
            else if (p.fails) { w.kind = 2; w.set = p.set; w.atEnd = true; }
        }
        if (w.kind == 2 && w.atEnd) { verif::cls("plugin-test:end-of-test-failure"); if (earlierFailed) verif::cls("plugin-test:end-of-test-failure-after-an-earlier-failed-test"); }
        if (w.kind == 2 && !w.atEnd) verif::cls("plugin-test:failure-during-the-calls");
        if (w.kind == 0) verif::cls(earlierFailed ? "plugin-test:passes-after-an-earlier-failed-test" : "plugin-test:passes");
        if (w.kind != 0) earlierFailed = true;
    }

    // real run
    RecOutput out; size_t total; bool leftoverAfterRun;
    {
        mock().clear();
        MockSupportPlugin plugin;
        TestRegistry registry;
        TestResult result(out);
        std::vector<ScenarioShell*> shells;
        for (int i = 0; i < ntests; i++) shells.push_back(new ScenarioShell(names[i], &tests[(size_t)i]));
        registry.installPlugin(&plugin);
        for (int i = ntests - 1; i >= 0; i--) registry.addTest(shells[(size_t)i]);   // addTest prepends
        registry.setCurrentRegistry(&registry);
        registry.runAllTests(result);
        registry.setCurrentRegistry(NULLPTR);
        total = result.getFailureCount();
        leftoverAfterRun = mock().expectedCallsLeft();
        mock().clear();
        mock().setMockFailureStandardReporter(NULLPTR);
        for (auto* sh : shells) delete sh;
    }

    size_t wanted_total = 0;
    for (int i = 0; i < ntests; i++) {
        const Expect& w = want[(size_t)i];
        std::vector<std::string> got;
        for (auto& f : out.fails) if (f.first == names[i]) got.push_back(f.second);
        if (verif::g_explain) { fprintf(stderr, "  %s: %zu failure(s)%s", names[i], got.size(), w.kind == 0 ? " (model: passes)" : w.kind == 1 ? " (model: own check)" : " (model: mock failure)"); for (auto& g : got) fprintf(stderr, " [%s]", first_line(g).c_str()); fprintf(stderr, "\n"); }
        if (tests[(size_t)i].leftoverAtStart)
            return verif::fail("C08:plugin-mock-not-clear-between-tests", "test %s of one run started with expectedCallsLeft() true: something of the previous test is still in mock() [%s]", names[i], desc.c_str());
        if (w.kind != 0) wanted_total++;
        if (w.kind == 0 && !got.empty())
            return verif::fail("C08:plugin-failure-nobody-caused", "test %s (test %d of %d in one run) failed with \"%s\" although its actual calls match its expectations [%s]", names[i], i + 1, ntests, first_line(got[0]).c_str(), desc.c_str());
        if (w.kind != 0 && got.empty())
            return verif::fail("C08:plugin-deviation-not-reported", "test %s (test %d of %d in one run) passed, the model expects %s (%s) [%s]", names[i], i + 1, ntests,
                               w.kind == 1 ? "its own check to fail" : (w.atEnd ? "a mock failure at end of test" : "a mock failure during the calls"), w.kind == 2 ? render_allowed(w.set).c_str() : kOwnCheckText, desc.c_str());
        if (w.kind == 0) continue;
        std::string line = first_line(got[0]);
        if (w.kind == 1 && line != kOwnCheckText)
            return verif::fail("C08:plugin-wrong-diagnosis", "test %s: first failure is \"%s\", expected its own check [%s]", names[i], line.c_str(), desc.c_str());
        if (w.kind == 2 && !match_allowed(w.set, line))
            return verif::fail("C08:plugin-wrong-diagnosis", "test %s: first failure is \"%s\"; allowed for this deviation: %s [%s]", names[i], line.c_str(), render_allowed(w.set).c_str(), desc.c_str());
        if (got.size() > 1)
            return verif::fail("C08:plugin-test-failed-more-than-once", "test %s got %zu failures for one deviation: \"%s\" then \"%s\" [%s]", names[i], got.size(), line.c_str(), first_line(got[1]).c_str(), desc.c_str());
        if (w.kind == 2) verif::cls((std::string("plugin-outcome:") + match_allowed(w.set, line)->cls).c_str());
    }
    V_CHECK(total == wanted_total && out.fails.size() == wanted_total, "C08:plugin-failure-count", "the run reports %zu failures (%zu printed), the model expects %zu [%s]", total, out.fails.size(), wanted_total, desc.c_str());
    V_CHECK(!leftoverAfterRun, "C08:plugin-mock-not-clear-between-tests", "expectedCallsLeft() is true after the last test of the run [%s]", desc.c_str());
    return 0;
}

}  // namespace

extern "C" const char* verif_property(void) { return "C08"; }
extern "C" void verif_init(void) { verif::install_fake_time(); }
extern "C" int verif_case(const uint8_t* data, size_t size) {
    Reader r(data, size);
    bool nontrivial = false; std::string desc;
    bool plugin_mode = size > 0 && ((data[0] >> 5) & 3) == 3;     // direct mode uses bits 0..4 of the first byte only
    int rc = plugin_mode ? run_plugin_case(r, nontrivial, desc) : run_case(r, nontrivial, desc);
    verif::note_case(nontrivial, r.h, [&] { return desc; });
    return rc;
}
// ---------------------------------------------------------------------------------------------- known findings
namespace {
// two expectations on one function that agree on p0; the first call passes p0 first (both still candidates, both get the
// "p0 was passed" mark), then p1 rules the second expectation out -- its mark is never cleared.  The second call passes
// only p1=2: with the left-over mark the second expectation counts as completely matched, the missing parameter is not seen.
int repro_stale_state() {
    RecReporter rep; MockSupport m;
    m.setMockFailureStandardReporter(&rep); m.setActiveReporter(&rep); m.setDefaultComparatorsAndCopiersRepository();
    m.expectOneCall("f").withIntParameter("p0", 1).withIntParameter("p1", 1);
    m.expectOneCall("f").withIntParameter("p0", 1).withIntParameter("p1", 2);
    m.actualCall("f").withIntParameter("p0", 1).withIntParameter("p1", 1);
    m.actualCall("f").withIntParameter("p1", 2);           // p0 is missing
    m.checkExpectations();
    int reports = rep.n;
    m.clear();
    return reports == 0 ? 1 : 0;
}
// through the repository's own MockSupportPlugin (its reporter does not terminate the test): out-of-order calls plus a
// last call with a missing parameter give two failures for one test
void twice_body(void*) {
    mock().strictOrder();
    mock().expectOneCall("a"); mock().expectOneCall("b"); mock().expectOneCall("c").withIntParameter("p", 1);
    mock().actualCall("b"); mock().actualCall("a"); mock().actualCall("c");
}
int repro_reports_twice() {
    size_t failures;
    {
        MockSupportPlugin plugin;
        TestTestingFixture fixture;
        fixture.installPlugin(&plugin);
        verif::ExecLambda ex(twice_body, nullptr);
        fixture.setTestFunction(&ex);
        fixture.runAllTests();
        failures = fixture.getFailureCount();
    }
    mock().clear();
    return failures > 1 ? 1 : 0;
}
}  // namespace
extern "C" int verif_known_repro(const char* key) {
    std::string k(key);
    if (k == "C08:stale-parameter-match-state") return repro_stale_state();
    if (k == "C08:end-of-test-reports-twice") return repro_reports_twice();
    return -1;
}
