// C14 part (b) — the leak detector's report and misuse messages, assembled in a fixed 4096-byte buffer, never exceed
// it and stay terminated; a report begun on a cleared buffer states the true total and says so when entries were dropped.
// Decoder: rounds of { 0..80 misuse reports with long file names | optional startChecking() | 0..400 (rarely ..3000) leaks
//          of 0..64 (rarely ..5000) bytes with file names of 0..5000 bytes | report(period) [| second report] }.
// Oracle:  canary after the buffer intact (hook), strlen <= 4095, positions_filled <= 4095; for a report begun on a
//          cleared buffer: parsed total == model, listed entries subset of the model, "Too many" notice when fewer are
//          listed than exist, malloc note iff a malloc leak exists.
#include "common.h"
#include <map>
#include <set>
#include <memory>

using verif::Reader;
using verif::sfmt;

namespace {

struct Reporter : MemoryLeakFailure {
    int calls = 0; size_t maxlen = 0;
    void fail(char* s) CPPUTEST_OVERRIDE { calls++; if (s) maxlen = std::max(maxlen, strlen(s)); }
};
TestMemoryAllocator* g_alloc[3];
const char* KIND[3] = {"new", "new []", "malloc"};

struct Entry { unsigned number; size_t size; std::string file; int line; std::string type;
    bool operator<(const Entry& o) const { return std::tie(number, size, file, line, type) < std::tie(o.number, o.size, o.file, o.line, o.type); } };

std::vector<Entry> parse_entries(const std::string& t) {
    std::vector<Entry> out; size_t pos = 0;
    while ((pos = t.find("Alloc num (", pos)) != std::string::npos) {
        size_t p = pos; pos += 5;
        Entry e; char* end;
        e.number = (unsigned)strtoul(t.c_str() + p + 11, &end, 10); p = (size_t)(end - t.c_str());
        if (t.compare(p, 13, ") Leak size: ") != 0) continue; p += 13;
        e.size = strtoul(t.c_str() + p, &end, 10); p = (size_t)(end - t.c_str());
        if (t.compare(p, 15, " Allocated at: ") != 0) continue; p += 15;
        size_t q = t.find(" and line: ", p); if (q == std::string::npos) continue;
        e.file = t.substr(p, q - p); p = q + 11;
        e.line = (int)strtol(t.c_str() + p, &end, 10); p = (size_t)(end - t.c_str());
        if (t.compare(p, 9, ". Type: \"") != 0) continue; p += 9;
        q = t.find("\"\n\tMemory: <", p); if (q == std::string::npos) continue;
        e.type = t.substr(p, q - p);
        q = t.find("> Content:\n", q); if (q == std::string::npos) continue;
        if (e.file.find('\n') != std::string::npos) continue;
        out.push_back(e);
    }
    return out;
}

// what the harness writes into leaked block number `number` (its allocation number), byte j: half of the blocks carry one
// printable letter, the others every byte value
uint8_t content_byte(unsigned number, int line, size_t j) { return (line & 1) ? (uint8_t)(0x41 + (number % 20)) : (uint8_t)(number * 131u + j * 29u + (j >> 3) * 7u); }

// every dump line that is completely present must show the block's own bytes: the hex column byte for byte, the text
// column the same bytes with '.' for everything outside ' '..'~'.  Returns "" or a description of the first difference.
// maybe_cut: the report ran into its write limit somewhere; the last dump line of the body may then end anywhere (even on a
// '|' that is one of the block's own bytes), so it is not judged.
std::string check_dumps(const std::string& body, bool maybe_cut) {
    size_t pos = 0; size_t last_line = std::string::npos;
    if (maybe_cut) { size_t q = 0; while ((q = body.find("\n    ", q)) != std::string::npos) { last_line = q + 1; q += 5; } }
    while ((pos = body.find("Alloc num (", pos)) != std::string::npos) {
        unsigned number = (unsigned)strtoul(body.c_str() + pos + 11, nullptr, 10);
        size_t lp = body.find(" and line: ", pos), c = body.find("> Content:\n", pos); pos += 5;
        if (c == std::string::npos || lp == std::string::npos || lp > c) continue;
        int line = (int)strtol(body.c_str() + lp + 11, nullptr, 10);
        size_t q = c + 11, off = 0;
        while (body.compare(q, 4, "    ") == 0) {
            size_t nl = body.find('\n', q); if (nl == std::string::npos) break;               // cut inside the line
            if (q == last_line) break;
            std::string ln = body.substr(q, nl - q); q = nl + 1;
            size_t colon = ln.find(": "), bar = ln.find('|');
            if (colon == std::string::npos || bar == std::string::npos || ln.back() != '|' || bar + 1 > ln.size() - 1) break;   // not a complete dump line
            if (strtoul(ln.c_str() + 4, nullptr, 16) != off) return sfmt("dump of alloc num %u: line offset %s, expected %04zx", number, ln.substr(4, colon - 4).c_str(), off);
            std::vector<uint8_t> hex; { const char* h = ln.c_str() + colon + 2; const char* e = ln.c_str() + bar; while (h < e) { while (h < e && *h == ' ') h++; if (h >= e) break; char* stop; unsigned long v = strtoul(h, &stop, 16); if (stop == h) break; hex.push_back((uint8_t)v); h = stop; } }
            std::string text = ln.substr(bar + 1, ln.size() - bar - 2);
            if (hex.size() != text.size() || hex.empty() || hex.size() > 16) return sfmt("dump of alloc num %u at %04zx: %zu hex bytes, %zu text characters", number, off, hex.size(), text.size());
            for (size_t j = 0; j < hex.size(); j++) {
                uint8_t w = content_byte(number, line, off + j);
                if (hex[j] != w) return sfmt("dump of alloc num %u shows byte %02x at offset %zu, the block holds %02x", number, hex[j], off + j, w);
                char wt = (w < ' ' || w > '~') ? '.' : (char)w;
                if (text[j] != wt) return sfmt("dump of alloc num %u shows character 0x%02x for byte %02x at offset %zu", number, (unsigned char)text[j], w, off + j);
            }
            off += hex.size();
        }
    }
    return "";
}

std::string gen_file(Reader& r) {
    // lengths up to and beyond the 4096-byte report buffer itself
    uint32_t len = r.pick((const uint32_t[]){0, 1, 8, 20, 60, 120, 250, 400, 1000, 3600, 4090, 4096, 5000});
    if (r.flag()) len = r.below(401);
    std::string s; for (uint32_t i = 0; i < len; i++) s.push_back("abcdefghij/._"[(i * 7 + len) % 13]);
    return s;
}

int buffer_ok(MemoryLeakDetector* det, const char* txt, const char* where) {
    V_CHECK(det->verifOutputCanaryIntact(), "C14:buffer-overrun", "%s: bytes after the 4096-byte text buffer were overwritten", where);
    V_CHECK(det->verifOutputPositionsFilled() <= 4095, "C14:buffer-fill-count", "%s: fill count %zu exceeds the buffer", where, det->verifOutputPositionsFilled());
    if (txt) V_CHECK(strnlen(txt, 4096) <= 4095, "C14:buffer-unterminated", "%s: text is not terminated inside the buffer", where);
    return 0;
}

int run_case(Reader& r, bool& nontrivial, std::string& desc) {
    Reporter rep;
    std::unique_ptr<MemoryLeakDetector> det(new MemoryLeakDetector(&rep));
    det->enable();
    std::vector<std::unique_ptr<std::string>> names;   // file names must outlive the detector's records
    struct Live { char* p; Entry e; int kind; };
    std::vector<Live> live; unsigned seq = 1;
    bool cleared = true;   // text buffer empty (nothing added since construction / startChecking)
    int rounds = 1 + (int)r.below(3);
    auto cleanup = [&] { for (auto& l : live) det->deallocMemory(g_alloc[l.kind], l.p, "end", 1, l.kind == 2); live.clear(); };
    for (int round = 0; round < rounds && (round == 0 || !r.empty()); round++) {
        // ---- misuse reports (each appends its message to the same buffer and hands it to the reporter)
        uint32_t nmis = r.below(3) == 0 ? r.below(81) : r.below(4);
        for (uint32_t i = 0; i < nmis; i++) {
            names.emplace_back(new std::string(gen_file(r)));
            int before = rep.calls; char dummy;
            switch (r.below(3)) {
            case 0: det->deallocMemory(g_alloc[r.below(3)], &dummy, names.back()->c_str(), r.below(100000), r.flag()); break;   // not allocated
            case 1: { names.emplace_back(new std::string(gen_file(r)));                                                         // family mismatch
                      char* p = det->allocMemory(g_alloc[0], 4, names[names.size() - 2]->c_str(), 5, false); seq++;
                      det->deallocMemory(g_alloc[1], p, names.back()->c_str(), 6, false); break; }
            default: { char* p = det->allocMemory(g_alloc[2], 4, names.back()->c_str(), 5, true); seq++; p[4] = 'X';            // overrun into the guard bytes
                      det->deallocMemory(g_alloc[2], p, names.back()->c_str(), 6, true); break; }
            }
            V_CHECK(rep.calls == before + 1, "C14:misuse-callback", "misuse not reported exactly once");
            cleared = false;
            if (int rc = buffer_ok(det.get(), nullptr, "after a misuse message")) { cleanup(); return rc; }
        }
        desc += sfmt("misuse x%u;", nmis);
        if (r.below(3) != 0) { det->startChecking(); det->enable(); cleared = true; desc += "clear;"; }
        // ---- leaks
        uint32_t nleaks = r.below(4) == 0 ? (r.below(8) == 0 ? r.below(3001) : r.below(401)) : r.below(12);
        bool longnames = r.flag();
        for (uint32_t i = 0; i < nleaks; i++) {
            int kind = (int)r.below(3); size_t size = r.below(8) == 0 ? r.pick((const size_t[]){65, 300, 700, 1000, 2000, 5000}) : r.below(65); int line = (int)r.below(100000);
            names.emplace_back(new std::string(longnames ? gen_file(r) : std::string("f.c")));
            char* p = det->allocMemory(g_alloc[kind], size, names.back()->c_str(), (size_t)line, kind == 2);
            if (!p) { cleanup(); return verif::fail("C14:alloc-null", "allocMemory returned NULL"); }
            for (size_t j = 0; j < size; j++) p[j] = (char)content_byte(seq, line, j);
            if (!(line & 1) && size) verif::cls("leak-with-arbitrary-bytes");
            live.push_back(Live{p, Entry{seq++, size, *names.back(), line, KIND[kind]}, kind});
        }
        desc += sfmt("leaks +%u (%zu live, %s names);", nleaks, live.size(), longnames ? "long" : "short");
        // ---- report, optionally twice in a row
        int nrep = 1 + (int)r.below(2);
        for (int k = 0; k < nrep; k++) {
            size_t filled_before = det->verifOutputPositionsFilled();
            const char* txt = det->report(mem_leak_period_all);
            if (int rc = buffer_ok(det.get(), txt, "after report()")) { cleanup(); return rc; }
            std::string t(txt);
            if (filled_before > 3000 || t.size() > 3000) nontrivial = true;
            if (cleared) {
                std::set<Entry> want; bool any_malloc = false;
                for (auto& l : live) { want.insert(l.e); if (l.kind == 2) any_malloc = true; }
                if (want.empty()) { if (t != "No memory leaks were detected.") { cleanup(); return verif::fail("C14:report-noleaks", "nothing outstanding but report says: %.200s", t.c_str()); } }
                else {
                    size_t tp = t.find("Total number of leaks:");
                    if (tp == std::string::npos) { cleanup(); return verif::fail("C14:report-total-missing", "report begun on a cleared buffer has no total (%zu leaks, text length %zu)", want.size(), t.size()); }
                    long total = strtol(t.c_str() + tp + 22, nullptr, 10);
                    if ((size_t)total != want.size()) { cleanup(); return verif::fail("C14:report-total", "report states %ld leaks, %zu are outstanding", total, want.size()); }
                    std::vector<Entry> got = parse_entries(t.substr(0, tp));
                    for (auto& e : got) if (!want.count(e)) { cleanup(); return verif::fail("C14:report-entry", "report lists alloc num %u size %zu line %d which is not outstanding", e.number, e.size, e.line); }
                    bool too_many = t.find("Too many memory leaks to report") != std::string::npos;
                    if (got.size() < want.size() && !too_many) { cleanup(); return verif::fail("C14:report-dropped-silently", "%zu of %zu leaks listed and no notice that entries were dropped", got.size(), want.size()); }
                    // an entry is its header line plus the dump of its bytes (one line per 16 bytes): a dump that was cut is dropped content too
                    size_t need_lines = 0; for (auto& e : got) need_lines += (e.size + 15) / 16;
                    size_t have_lines = 0; { std::string body = t.substr(0, tp); size_t q = 0; while ((q = body.find("\n    ", q)) != std::string::npos) { size_t c = body.find(": ", q + 5); if (c != std::string::npos && c - (q + 5) == 4 && body.find_first_not_of("0123456789abcdef", q + 5) == c) have_lines++; q += 5; } }
                    if (have_lines < need_lines && !too_many) { cleanup(); return verif::fail("C14:report-dump-cut-silently", "the listed entries need %zu dump lines, %zu are present, and nothing says that the report was cut (text length %zu)", need_lines, have_lines, t.size()); }
                    if (have_lines < need_lines) verif::cls("report-cut-inside-a-dump");
                    { std::string bad = check_dumps(t.substr(0, tp), too_many || have_lines < need_lines); if (!bad.empty()) { cleanup(); return verif::fail("C14:report-dump-content", "%s", bad.c_str()); } }
                    // the whole note, to its last line: the report reserves room for total, dropped-entries notice and note
                    bool note = t.find("Memory leak reports about malloc and free") != std::string::npos;
                    if (note && t.find("(#define malloc cpputest_malloc etc).\n") == std::string::npos) { cleanup(); return verif::fail("C14:report-note-truncated", "the closing note of the report is cut off (text length %zu)", t.size()); }
                    if (note != any_malloc) { cleanup(); return verif::fail("C14:report-malloc-note", "malloc note %s, malloc leak %s", note ? "present" : "absent", any_malloc ? "exists" : "does not exist"); }
                }
                verif::cls("report-on-cleared-buffer");
            } else verif::cls("report-on-used-buffer");
            cleared = false;
            desc += sfmt("report(len %zu);", t.size());
        }
        // ---- release some
        if (r.flag()) { size_t n = live.size() / 2; for (size_t i = 0; i < n; i++) { Live l = live.back(); live.pop_back(); det->deallocMemory(g_alloc[l.kind], l.p, "rel", 1, l.kind == 2); } desc += "release half;"; }
    }
    cleanup();
    return buffer_ok(det.get(), nullptr, "end of case");
}

}  // namespace

extern "C" const char* verif_property(void) { return "C14"; }
extern "C" void verif_init(void) {
    g_alloc[0] = new TestMemoryAllocator("Standard New Allocator", "new", "delete");
    g_alloc[1] = new TestMemoryAllocator("Standard New [] Allocator", "new []", "delete []");
    g_alloc[2] = new TestMemoryAllocator("Standard Malloc Allocator", "malloc", "free");
}
extern "C" int verif_case(const uint8_t* data, size_t size) {
    Reader r(data, size);
    bool nontrivial = false; std::string desc;
    int rc = run_case(r, nontrivial, desc);
    verif::note_case(nontrivial, r.h, [&] { return desc; });
    return rc;
}
extern "C" int verif_known_repro(const char*) { return -1; }
