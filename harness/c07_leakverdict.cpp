// C07 — per-test leak verdict: leaking tests fail, clean ones pass, blame is correct.
//
// Case = a program of 1..16 tests.  Every test has a setup, a body and a teardown script over 16 shared slots:
// new / new[] / malloc into a slot, release of a slot (also one filled by an earlier test), EXPECT_N_LEAKS(k),
// IGNORE_ALL_LEAKS_IN_TEST(), a passing check, an own failing check (FAIL).  The program is decoded completely into
// static arrays and the reference model is evaluated at decode time; then the overloads are switched on, the registry
// runs the tests with ONE long-lived MemoryLeakWarningPlugin on the global detector, a non-allocating interpreter is
// the test body (the framework's own allocations inside the window - the Utest object of every test - are the real
// situation), the final report is taken, every still outstanding block is released, the overloads are switched off,
// and only then the recorded failures are compared with the model.
//
// Extension (seeded change C07-s2): (1) the run's TestOutput is decoded per case: the non-allocating StringBufferTestOutput,
// a collecting output that keeps `new TestFailure(f)` + a `new char[n]` per printed failure (until the end of the run or
// beyond the final report), or the real JUnitTestOutput with the file seams stubbed (keeps a node per test and a copy of
// the first failure of each test until the group ends).  Those blocks are tracked but allocated outside the test's checking
// period (or, for an own failure, inside it - then the test has failed anyway): never a test's leak; they appear in the
// final report iff still held then.  (2) a script step "leak k blocks" (k = 1..150, never released by a test), so that the
// output's retained blocks share hash buckets (address % 73) with a test's leaked blocks as a rule, not by luck.
// Extension (seeded change C07-s3): script step realloc(slot, n) through cpputest_realloc_location on a malloc-family slot -
// growing, same size, shrinking, to 0 bytes (the code defines it: a tracked 0-byte block comes back) - on blocks of the
// current test and on blocks left by earlier tests, and realloc(NULL, n) as an allocation form.  Model: the old block is
// released, the result is a NEW block allocated by the current test.
// Extension (coverage): every form of operator new / new[] (plain, debug with size_t or int line, nothrow) and of operator
// delete / delete[] (plain, sized, nothrow, placement with size_t or int line) is used by the scripts - all of them are
// tracked allocations / releases of the new resp. new[] family.
// Extension (coverage): a second MemoryLeakWarningPlugin on a LOCAL detector (installed before or after the first one, or
// absent; never together with the scripted plugin) and script steps that allocate / release through that local detector.
// EXPECT_N_LEAKS / IGNORE_ALL_LEAKS_IN_TEST only reach the first plugin.  Each leak plugin judges its own detector; the one
// whose post action runs second finds the test already failed when the first one reported, so a test gets at most one leak failure.
// Extension (seeded change C07-s7): a realloc step on an existing block can FAIL - "the platform realloc fails" (seam: the
// PlatformSpecificRealloc function pointer) or "the new separate record cannot be allocated" (the current malloc allocator is
// a harness allocator with the standard names that refuses one "MemoryLeakNode" request).  Model: a failed realloc changes
// nothing - NULL comes back, the block stays outstanding and stays with the test that allocated it.  Half of the realloc
// steps are steered to a malloc block left by an EARLIER test when there is one.
// Extension (seeded change C07-s6): script steps disable() / enable() on the detector a leak plugin uses (the global one, or
// the local one of the second leak plugin), anywhere in setup / body / teardown, balanced or not, also followed by a failing
// check.  After such a step the rest of THAT test allocates nothing with that detector (blocks stamped "disabled" or
// "enabled" instead of "checking" inside the test are where the statement is silent), so the test's own verdict is the
// ordinary one; the point is the NEXT test: its verdict must be exact whatever state its predecessor left behind.
// Extension (seeded change C07-s4): a second, scripted plugin, installed before or after the leak plugin (decoded) or absent,
// adds 0..2 failures for decoded tests through result.addFailure in its pre and / or post action (as MockSupportPlugin does
// in its post action).  Model: a failure recorded for the test before the leak plugin's post action suppresses the leak
// failure (own check; the other plugin's pre action; its post action when that runs first, i.e. when it was installed
// BEFORE the leak plugin), one recorded after it does not.
// Not generated (domain restriction, the statement is ambiguous there): pre-action failures of a plugin installed AFTER the
// leak plugin - they are recorded before the leak plugin's own pre action (see "Observation (not judged)" in notes/C07.md).
#include "common.h"
#include "CppUTest/TestHarness_c.h"
#include "CppUTest/JUnitTestOutput.h"
#include <set>
#include <algorithm>
#include <tuple>
#include <new>
#undef new
#undef malloc
#undef free

using verif::Reader;
using verif::sfmt;

namespace {

enum { MAXT = 16, NSLOT = 16, MAXOPS = 8, BULKMAX = 150, BULKTOTAL = 1200, MAXKEPT = 2 * MAXT * 8, MAXBLK = MAXT * 3 * MAXOPS + BULKTOTAL + MAXKEPT, MAXFAIL = 8, MSGLEN = SimpleStringBuffer::SIMPLE_STRING_BUFFER_LEN + 64 };
enum Kind { K_NEW = 0, K_NEWARR = 1, K_MALLOC = 2, K_RELEASE, K_EXPECT, K_IGNORE, K_CHECK, K_FAIL, K_BULK, K_REALLOC, K_LALLOC, K_LRELEASE, K_STATE };
enum { NLSLOT = 4 };
enum OutMode { OUT_PLAIN = 0, OUT_COLLECTING = 1, OUT_JUNIT = 2 };
const char* fam_name[3] = {"new", "new[]", "malloc"};
const char* phase_name[3] = {"setup", "body", "teardown"};

struct Op { int kind, slot, fam, blk, old, form, fault; size_t size; unsigned k; };
const char* form_name[] = {"", "@(file,size_t)", "@(file,int)", "@nothrow", "@sized"};
struct Phase { int n; Op ops[MAXOPS]; };
struct Script { Phase ph[3]; };
struct Blk { char* p; unsigned num; size_t size; int fam, owner, phase; bool live, local; };

// decoded program + observations (static: nothing is allocated while the overloads are on)
Script g_script[MAXT]; int g_ntests;
Blk g_blk[MAXBLK]; int g_nblk;
char* g_slot_ptr[NSLOT];
int g_nfail[MAXT]; char g_fail[MAXT][MAXFAIL][MSGLEN];
int g_unattributed;
char g_final[MSGLEN];

MemoryLeakWarningPlugin* g_plugin;
MemoryLeakDetector* g_det;
// fault seams of the realloc step
bool g_realloc_fail, g_record_alloc_fail; int g_realloc_result_wrong;
void* (*g_platform_realloc)(void*, size_t);
void* faulty_realloc(void* p, size_t n) { if (g_realloc_fail) return NULLPTR; return g_platform_realloc(p, n); }
struct FaultyMallocAllocator : TestMemoryAllocator {        // stands in for defaultMallocAllocator(): same names, same behaviour, one refusable request
    FaultyMallocAllocator() : TestMemoryAllocator("Standard Malloc Allocator", "malloc", "free") {}
    char* alloc_memory(size_t size, const char* file, size_t line) CPPUTEST_OVERRIDE {
        if (g_record_alloc_fail && file && strcmp(file, "MemoryLeakNode") == 0) { g_record_alloc_fail = false; return NULLPTR; }
        return TestMemoryAllocator::alloc_memory(size, file, line);
    }
};
// second leak plugin with its own detector
struct CountingReporter : MemoryLeakFailure { int n = 0; void fail(char*) CPPUTEST_OVERRIDE { n++; } };
CountingReporter g_local_reporter;
MemoryLeakDetector* g_local; MemoryLeakWarningPlugin* g_lplugin;
char* g_lslot_ptr[NLSLOT]; char g_lfinal[MSGLEN];

void run_phase(int t, int ph) {             // NON-ALLOCATING interpreter = the test's setup / body / teardown
    Phase& P = g_script[t].ph[ph];
    for (int i = 0; i < P.n; i++) {
        Op& o = P.ops[i];
        switch (o.kind) {
        case K_NEW: case K_NEWARR: case K_MALLOC: {
            Blk& b = g_blk[o.blk];
            b.num = g_det->getCurrentAllocationNumber();      // the number this allocation is going to get
            char* p;
            if (o.kind == K_NEW) p = (char*)(o.form == 1 ? ::operator new(o.size, "script.cpp", (size_t)(400 + t)) : o.form == 2 ? ::operator new(o.size, "script.cpp", 400 + t)
                                             : o.form == 3 ? ::operator new(o.size, std::nothrow) : ::operator new(o.size));
            else if (o.kind == K_NEWARR) p = (char*)(o.form == 1 ? ::operator new[](o.size, "script.cpp", (size_t)(500 + t)) : o.form == 2 ? ::operator new[](o.size, "script.cpp", 500 + t)
                                                     : o.form == 3 ? ::operator new[](o.size, std::nothrow) : ::operator new[](o.size));
            else p = (char*)cpputest_malloc_location(o.size, "script.c", (size_t)(100 + t));
            memset(p, 0x41 + (o.blk % 26), o.size);
            b.p = p; g_slot_ptr[o.slot] = p;
            break; }
        case K_BULK:                                     // leak k blocks of one family and size
            for (unsigned j = 0; j < o.k; j++) {
                Blk& b = g_blk[o.blk + (int)j];
                b.num = g_det->getCurrentAllocationNumber();
                char* p = o.fam == K_NEW ? (char*)::operator new(o.size) : o.fam == K_NEWARR ? (char*)::operator new[](o.size)
                                         : (char*)cpputest_malloc_location(o.size, "script.c", (size_t)(100 + t));
                memset(p, 0x61 + (int)(j % 26), o.size);
                b.p = p;
            }
            break;
        case K_LALLOC: {                                 // straight through the local detector (the second leak plugin's)
            Blk& b = g_blk[o.blk];
            b.num = g_local->getCurrentAllocationNumber();
            char* p = g_local->allocMemory(defaultNewAllocator(), o.size, "local.cpp", (size_t)(800 + t));
            memset(p, 0x4c, o.size);
            b.p = p; g_lslot_ptr[o.slot] = p;
            break; }
        case K_STATE: { MemoryLeakDetector* d = o.old ? g_local : g_det; if (o.k) d->enable(); else d->disable(); break; }
        case K_LRELEASE: g_local->deallocMemory(defaultNewAllocator(), g_lslot_ptr[o.slot], "local.cpp", (size_t)(900 + t)); g_lslot_ptr[o.slot] = NULLPTR; break;
        case K_REALLOC: {                                // old < 0: realloc(NULL, n)
            if (o.fault) {                               // a failing realloc: NULL, nothing changes
                g_realloc_fail = o.fault == 1; g_record_alloc_fail = o.fault == 2;
                char* q = (char*)cpputest_realloc_location(g_slot_ptr[o.slot], o.size, "script.c", (size_t)(300 + t));
                g_realloc_fail = false; g_record_alloc_fail = false;
                if (q != NULLPTR) { g_realloc_result_wrong++; g_slot_ptr[o.slot] = q; }
                break;
            }
            Blk& b = g_blk[o.blk];
            b.num = g_det->getCurrentAllocationNumber();
            char* p = (char*)cpputest_realloc_location(o.old >= 0 ? g_slot_ptr[o.slot] : NULLPTR, o.size, "script.c", (size_t)(300 + t));
            if (p == NULLPTR) { g_realloc_result_wrong++; break; }
            memset(p, 0x30 + (o.blk % 10), o.size);
            b.p = p; g_slot_ptr[o.slot] = p;
            break; }
        case K_RELEASE: {
            char* p = g_slot_ptr[o.slot]; g_slot_ptr[o.slot] = NULLPTR;
            if (o.fam == K_NEW) {
                if (o.form == 1) ::operator delete(p, "script.cpp", (size_t)(600 + t)); else if (o.form == 2) ::operator delete(p, "script.cpp", 600 + t);
                else if (o.form == 3) ::operator delete(p, std::nothrow); else if (o.form == 4) ::operator delete(p, o.size); else ::operator delete(p);
            } else if (o.fam == K_NEWARR) {
                if (o.form == 1) ::operator delete[](p, "script.cpp", (size_t)(700 + t)); else if (o.form == 2) ::operator delete[](p, "script.cpp", 700 + t);
                else if (o.form == 3) ::operator delete[](p, std::nothrow); else if (o.form == 4) ::operator delete[](p, o.size); else ::operator delete[](p);
            } else cpputest_free_location(p, "script.c", (size_t)(200 + t));
            break; }
        case K_EXPECT: EXPECT_N_LEAKS(o.k); break;
        case K_IGNORE: IGNORE_ALL_LEAKS_IN_TEST(); break;
        case K_CHECK: CHECK(true); break;
        case K_FAIL: FAIL("own failing check"); break;    // leaves the phase (exception)
        }
    }
}

struct ScriptTest : Utest {
    int t;
    explicit ScriptTest(int t_) : t(t_) {}
    void setup() CPPUTEST_OVERRIDE { run_phase(t, 0); }
    void testBody() CPPUTEST_OVERRIDE { run_phase(t, 1); }
    void teardown() CPPUTEST_OVERRIDE { run_phase(t, 2); }
};
char g_names[MAXT][8];
struct ScriptShell : UtestShell {
    int t;
    explicit ScriptShell(int t_) : UtestShell("Leaks", g_names[t_], "script.cpp", (size_t)(10 + t_)), t(t_) {}
    Utest* createTest() CPPUTEST_OVERRIDE { return new ScriptTest(t); }    // tracked while the overloads are on, like any TEST's object
};
ScriptShell* g_shell[MAXT];

// what an allocating output keeps: fixed table, filled inside the window
struct Kept { void* p; unsigned num; size_t size; bool is_failure; };
Kept g_kept[MAXKEPT]; int g_nkept; int g_kept_dropped;
struct CollectingOutput : StringBufferTestOutput {       // "any collecting output": keeps a copy of every failure it prints
    void printFailure(const TestFailure& f) CPPUTEST_OVERRIDE {
        if (g_nkept + 2 <= MAXKEPT) {
            unsigned num = g_det->getCurrentAllocationNumber();
            TestFailure* copy = new TestFailure(f);                     // tracked (overloads are on); its strings are plain malloc
            g_kept[g_nkept].p = copy; g_kept[g_nkept].num = num; g_kept[g_nkept].size = sizeof(TestFailure); g_kept[g_nkept].is_failure = true; g_nkept++;
            size_t n = 1 + (size_t)(g_nkept * 7 % 23);
            num = g_det->getCurrentAllocationNumber();
            char* note = new char[n]; memset(note, '#', n);
            g_kept[g_nkept].p = note; g_kept[g_nkept].num = num; g_kept[g_nkept].size = n; g_kept[g_nkept].is_failure = false; g_nkept++;
        } else g_kept_dropped++;
        StringBufferTestOutput::printFailure(f);
    }
    bool release_at_end_of_run = true;
    void printTestsEnded(const TestResult& result) CPPUTEST_OVERRIDE { StringBufferTestOutput::printTestsEnded(result); if (release_at_end_of_run) releaseAll(); }
    static void releaseAll() {
        for (int i = 0; i < g_nkept; i++) { if (g_kept[i].is_failure) delete (TestFailure*)g_kept[i].p; else delete[] (char*)g_kept[i].p; }
        g_nkept = 0;
    }
};
PlatformSpecificFile stub_fopen(const char*, const char*) { static int handle; return &handle; }
void stub_fputs(const char*, PlatformSpecificFile) {}
void stub_fclose(PlatformSpecificFile) {}

// the second plugin: scripted failures straight into the TestResult (the shell's hasFailed() stays false)
enum XMode { X_NONE = 0, X_BEFORE_LEAK_PLUGIN = 1, X_AFTER_LEAK_PLUGIN = 2 };
int g_xpre[MAXT], g_xpost[MAXT];
struct ScriptPlugin : TestPlugin {
    ScriptPlugin() : TestPlugin("VerifScriptPlugin") {}
    void preTestAction(UtestShell& test, TestResult& result) CPPUTEST_OVERRIDE {
        int t = static_cast<ScriptShell&>(test).t;
        for (int i = 0; i < g_xpre[t]; i++) result.addFailure(TestFailure(&test, "scripted plugin failure (pre action)"));
    }
    void postTestAction(UtestShell& test, TestResult& result) CPPUTEST_OVERRIDE {
        int t = static_cast<ScriptShell&>(test).t;
        for (int i = 0; i < g_xpost[t]; i++) result.addFailure(TestFailure(&test, "scripted plugin failure (post action)"));
    }
};
ScriptPlugin* g_xplugin;

struct RecResult : TestResult {
    explicit RecResult(TestOutput& o) : TestResult(o) {}
    void addFailure(const TestFailure& f) CPPUTEST_OVERRIDE {
        SimpleString name = f.getTestNameOnly(), msg = f.getMessage();     // SimpleString buffers come from plain malloc
        const char* n = name.asCharString();
        int t = (n[0] == 't' && n[1] >= '0' && n[1] <= '9' && n[2] >= '0' && n[2] <= '9' && n[3] == 0) ? (n[1] - '0') * 10 + (n[2] - '0') : -1;
        if (t < 0 || t >= MAXT) g_unattributed++;
        else {
            if (g_nfail[t] < MAXFAIL) {
                size_t len = msg.size(); if (len > MSGLEN - 1) len = MSGLEN - 1;
                memcpy(g_fail[t][g_nfail[t]], msg.asCharString(), len); g_fail[t][g_nfail[t]][len] = 0;
            }
            g_nfail[t]++;
        }
        TestResult::addFailure(f);
    }
};

// ---- reference model, evaluated while decoding ------------------------------------------------------------------
struct TestModel {
    int own_failures = 0; bool ignored = false; unsigned expected = 0;
    int xpre = 0, xpost = 0;       // failures the scripted plugin adds for this test
    bool failed_before = false;
    std::vector<int> leaks;          // blocks allocated during this test and still outstanding at its end
    std::vector<int> lleaks;         // the same for the local detector of the second leak plugin
    bool leak_by_local = false;      // which plugin reports
    bool leak_failure = false;
    bool cross_release = false, edge_leak = false, expect_nonzero = false;
    int bulk = 0, reallocs = 0, failed_reallocs = 0; bool realloc_earlier_not_larger = false, failed_realloc_of_earlier = false;
    int state_steps = 0; bool leaves_global_disabled = false, leaves_local_disabled = false;
};

struct Entry { unsigned num; unsigned long size; std::string addr; bool operator<(const Entry& o) const { return std::tie(num, size, addr) < std::tie(o.num, o.size, o.addr); } bool operator==(const Entry& o) const { return num == o.num && size == o.size && addr == o.addr; } };
struct Parsed { std::vector<Entry> entries; long total = -1; bool truncated = false, none = false, header = false; };
Parsed parse_report(const std::string& s) {
    Parsed p;
    p.header = s.compare(0, 22, "Memory leak(s) found.\n") == 0;
    p.none = s.find("No memory leaks were detected.") != std::string::npos;
    p.truncated = s.find("Too many memory leaks to report") != std::string::npos;
    size_t pos = 0;
    while ((pos = s.find("Alloc num (", pos)) != std::string::npos) {
        Entry e; unsigned num = 0; unsigned long size = 0; int used = 0;
        if (sscanf(s.c_str() + pos, "Alloc num (%u) Leak size: %lu Allocated at: %n", &num, &size, &used) >= 2 && used > 0) {
            size_t m = s.find("Memory: <", pos);
            size_t next = s.find("Alloc num (", pos + 1);
            if (m != std::string::npos && (next == std::string::npos || m < next)) {
                size_t e2 = s.find('>', m);
                if (e2 != std::string::npos) { e.num = num; e.size = size; e.addr = s.substr(m + 9, e2 - m - 9); p.entries.push_back(e); }
            }
        }
        pos++;
    }
    size_t t = s.rfind("Total number of leaks:");
    if (t != std::string::npos) p.total = strtol(s.c_str() + t + 22, nullptr, 10);
    return p;
}
std::string show(const std::vector<Entry>& v) { std::string o; for (auto& e : v) o += sfmt("[#%u %lu bytes %s]", e.num, e.size, e.addr.c_str()); return o.empty() ? "(none)" : o; }

int compare_report(const char* what, const std::string& text, const std::vector<int>& blocks, const char* sig_prefix) {
    Parsed p = parse_report(text);
    std::vector<Entry> want;
    for (int b : blocks) { Entry e; e.num = g_blk[b].num; e.size = g_blk[b].size; e.addr = sfmt("%p", (void*)g_blk[b].p); want.push_back(e); }
    std::sort(want.begin(), want.end());
    std::vector<Entry> got = p.entries; std::sort(got.begin(), got.end());
    std::string sig = std::string(sig_prefix);
    if (blocks.empty()) {
        if (!(p.none && got.empty())) return verif::fail((sig + "-lists-blocks-although-none-leaked").c_str(), "%s: no block is outstanding but the text is: %s", what, verif::printable(text.substr(0, 600)).c_str());
        return 0;
    }
    if (!p.header) return verif::fail((sig + "-text").c_str(), "%s: expected a leak report, got: %s", what, verif::printable(text.substr(0, 300)).c_str());
    if (p.total != (long)blocks.size()) return verif::fail((sig + "-total").c_str(), "%s: report states %ld leaks, model has %zu: %s", what, p.total, blocks.size(), show(want).c_str());
    if (p.truncated) { verif::cls("report:truncated(total-only)"); return 0; }
    if (!(got == want)) return verif::fail((sig + "-blocks").c_str(), "%s: report lists %s, model says exactly %s", what, show(got).c_str(), show(want).c_str());
    return 0;
}

int run_case(Reader& r, bool& nontrivial, std::string& desc) {
    // ---- decode + model ----
    memset(g_script, 0, sizeof g_script); memset(g_blk, 0, sizeof g_blk); g_nblk = 0;
    g_ntests = 1 + (int)r.below(MAXT);
    int outmode = (int)r.below(3);
    bool keep_beyond_final = outmode == OUT_COLLECTING && r.flag();
    int bulk_total = 0; bool any_form = false, both_conditions = false, any_state_step = false, any_failed_realloc_of_earlier = false;
    int xmode = (int)r.below(3);
    int lmode = xmode ? 0 : (int)r.below(3);        // 0 none, 1 local leak plugin installed before the first leak plugin (its post action runs first), 2 after
    if (lmode) desc += lmode == 1 ? "[local leak plugin installed before] " : "[local leak plugin installed after] ";
    int lslot_blk[NLSLOT]; for (int i = 0; i < NLSLOT; i++) lslot_blk[i] = -1;
    if (xmode) desc += xmode == X_BEFORE_LEAK_PLUGIN ? "[2nd plugin installed before the leak plugin] " : "[2nd plugin installed after the leak plugin] ";
    memset(g_xpre, 0, sizeof g_xpre); memset(g_xpost, 0, sizeof g_xpost);
    desc += outmode == OUT_PLAIN ? "" : outmode == OUT_JUNIT ? "[junit output] " : keep_beyond_final ? "[collecting output, kept beyond the final report] " : "[collecting output] ";
    int slot_blk[NSLOT]; for (int i = 0; i < NSLOT; i++) slot_blk[i] = -1;
    std::vector<TestModel> model((size_t)g_ntests);
    static const int phase_max[3] = {3, 6, 3};
    for (int t = 0; t < g_ntests; t++) {
        TestModel& M = model[(size_t)t];
        desc += sfmt("t%02d{", t);
        if (xmode && r.chance(1, 3)) {
            M.xpre = (int)r.below(3); M.xpost = (int)r.below(3);
            if (xmode == X_AFTER_LEAK_PLUGIN) M.xpre = 0;      // would be recorded before the leak plugin's own pre action: outside the domain
            g_xpre[t] = M.xpre; g_xpost[t] = M.xpost;
            if (M.xpre) desc += sfmt("plugin-pre-fail x%d ", M.xpre);
            if (M.xpost) desc += sfmt("plugin-post-fail x%d ", M.xpost);
        }
        bool skip_body = false;
        bool frozen_global = false, frozen_local = false;      // after a disable() / enable() step this test allocates nothing more with that detector
        for (int ph = 0; ph < 3; ph++) {
            Phase& P = g_script[t].ph[ph];
            int n = (int)r.below((uint32_t)phase_max[ph] + 1);
            if (ph == 1 && skip_body) n = 0;               // a failing setup skips the body (Utest::run); keep the script honest about what runs
            bool stopped = false;
            if (n) desc += sfmt("%s:", phase_name[ph]);
            for (int i = 0; i < n && !stopped; i++) {
                Op& o = P.ops[P.n]; memset(&o, 0, sizeof o);
                uint32_t kind = r.below(14);       // 0-3 alloc, 4-6 release, 7 expect/ignore, 8 check, 9 own failure, 10 leak k blocks, 11 realloc, 12 local detector, 13 disable / enable
                int slot = r.chance(1, 2) ? (int)r.below(4) : (int)r.below(NSLOT);
                o.slot = slot;
                if (kind == 12 && !lmode) kind = 8;
                if (kind == 13) {
                    bool on_local = lmode && r.flag(); bool en = r.flag();
                    o.kind = K_STATE; o.old = on_local; o.k = en;
                    (on_local ? frozen_local : frozen_global) = true;
                    (on_local ? M.leaves_local_disabled : M.leaves_global_disabled) = !en;
                    M.state_steps++; any_state_step = true;
                    desc += sfmt("%s%s() ", on_local ? "local." : "", en ? "enable" : "disable");
                    P.n++; continue;
                }
                if (frozen_global) {
                    if (kind <= 6) kind = slot_blk[slot] >= 0 ? 4 : 8;
                    else if (kind == 10) kind = 8;
                    else if (kind == 11) kind = slot_blk[slot] >= 0 ? 4 : 8;
                }
                if (frozen_local && kind == 12 && lslot_blk[slot % NLSLOT] < 0) kind = 8;
                if (kind == 12) {
                    int ls = slot % NLSLOT; o.slot = ls;
                    if (lslot_blk[ls] < 0) {
                        o.kind = K_LALLOC; o.size = r.below(25); o.blk = g_nblk;
                        Blk& b = g_blk[g_nblk++]; b.size = o.size; b.fam = K_NEW; b.owner = t; b.phase = ph; b.live = true; b.local = true;
                        lslot_blk[ls] = o.blk; desc += sfmt("L%d=local(%zu) ", ls, o.size);
                    } else {
                        Blk& b = g_blk[lslot_blk[ls]]; o.kind = K_LRELEASE; o.blk = lslot_blk[ls]; b.live = false; lslot_blk[ls] = -1;
                        desc += b.owner != t ? sfmt("release(L%d of t%02d) ", ls, b.owner) : sfmt("release(L%d) ", ls);
                    }
                    P.n++; continue;
                }
                if (kind == 11 && !frozen_global && r.chance(1, 2)) {      // steer half of the realloc steps to a malloc block left by an earlier test
                    for (int q = 0; q < NSLOT; q++) if (slot_blk[q] >= 0 && g_blk[slot_blk[q]].fam == K_MALLOC && g_blk[slot_blk[q]].owner != t) { slot = q; o.slot = q; break; }
                }
                if (kind == 11 && slot_blk[slot] >= 0 && g_blk[slot_blk[slot]].fam != K_MALLOC) kind = 4;   // realloc is for the malloc family: release instead
                if (kind == 11) {
                    o.kind = K_REALLOC; o.fam = K_MALLOC; o.old = slot_blk[slot]; o.blk = g_nblk;
                    if (o.old < 0) { o.size = r.below(25); desc += sfmt("s%d=realloc(NULL,%zu) ", slot, o.size); }
                    else {
                        Blk& ob = g_blk[o.old];
                        switch (r.below(4)) {
                        default:
                        case 0: o.size = ob.size; break;                                    // same size
                        case 1: o.size = ob.size + 1 + r.below(16); break;                  // growing
                        case 2: o.size = ob.size ? r.below((uint32_t)ob.size) : 0; break;   // shrinking
                        case 3: o.size = 0; break;                                          // to 0 bytes: a tracked 0-byte block
                        }
                        o.fault = r.below(4) == 1 ? 1 + (int)r.below(2) : 0;               // 1: the platform realloc fails, 2: the new separate record cannot be allocated
                        if (o.fault) {                                                      // nothing changes: the block stays where it is and whose it is
                            M.failed_reallocs++; if (ob.owner != t) { M.failed_realloc_of_earlier = true; any_failed_realloc_of_earlier = true; }
                            desc += sfmt("realloc(s%d%s,%zu<-%zu) FAILS(%s) ", slot, ob.owner != t ? sfmt(" of t%02d", ob.owner).c_str() : "", o.size, ob.size, o.fault == 1 ? "platform realloc" : "record allocation");
                            P.n++; continue;
                        }
                        ob.live = false;                                                    // the old block is released ...
                        if (ob.owner != t) { M.cross_release = true; if (o.size <= ob.size) M.realloc_earlier_not_larger = true; }
                        desc += sfmt("s%d=realloc(s%d%s,%zu<-%zu) ", slot, slot, ob.owner != t ? sfmt(" of t%02d", ob.owner).c_str() : "", o.size, ob.size);
                    }
                    Blk& b = g_blk[g_nblk++]; b.p = NULLPTR; b.num = 0; b.size = o.size; b.fam = K_MALLOC; b.owner = t; b.phase = ph; b.live = true;   // ... and the result is a new block of this test
                    slot_blk[slot] = o.blk; M.reallocs++;
                } else if (kind == 10) {
                    unsigned k = 1 + r.below(BULKMAX);
                    if (bulk_total + (int)k > BULKTOTAL) k = (unsigned)(BULKTOTAL - bulk_total);
                    if (k == 0) { o.kind = K_CHECK; desc += "CHECK(ok) "; }
                    else {
                        o.kind = K_BULK; o.fam = (int)r.below(3); o.size = r.below(25); o.k = k; o.blk = g_nblk; bulk_total += (int)k;
                        for (unsigned j = 0; j < k; j++) { Blk& b = g_blk[g_nblk++]; b.p = NULLPTR; b.num = 0; b.size = o.size; b.fam = o.fam; b.owner = t; b.phase = ph; b.live = true; }
                        M.bulk += (int)k;
                        desc += sfmt("leak %u x %s(%zu) ", k, fam_name[o.fam], o.size);
                    }
                } else if (kind <= 6) {
                    bool want_alloc = kind <= 3;
                    if (want_alloc && slot_blk[slot] >= 0) want_alloc = false;       // occupied: release instead
                    else if (!want_alloc && slot_blk[slot] < 0) want_alloc = true;   // empty: allocate instead
                    if (want_alloc) {
                        o.kind = (int)r.below(3); o.fam = o.kind; o.size = r.below(25); o.blk = g_nblk;
                        o.form = o.fam == K_MALLOC ? 0 : (int)r.below(4);
                        Blk& b = g_blk[g_nblk++]; b.p = NULLPTR; b.num = 0; b.size = o.size; b.fam = o.fam; b.owner = t; b.phase = ph; b.live = true;
                        slot_blk[slot] = o.blk;
                        desc += sfmt("s%d=%s%s(%zu) ", slot, fam_name[o.fam], form_name[o.form], o.size);
                        if (o.form) any_form = true;
                    } else {
                        Blk& b = g_blk[slot_blk[slot]];
                        o.kind = K_RELEASE; o.fam = b.fam; o.blk = slot_blk[slot]; b.live = false; slot_blk[slot] = -1;
                        o.form = b.fam == K_MALLOC ? 0 : (int)r.below(5); o.size = b.size; if (o.form) any_form = true;
                        if (b.owner != t) { M.cross_release = true; desc += sfmt("release%s(s%d of t%02d) ", form_name[o.form], slot, b.owner); }
                        else desc += sfmt("release%s(s%d) ", form_name[o.form], slot);
                    }
                } else if (kind == 7) {
                    if (r.chance(2, 3)) {
                        unsigned own_live = 0; for (int b = 0; b < g_nblk; b++) if (g_blk[b].owner == t && g_blk[b].live && !g_blk[b].local) own_live++;
                        o.kind = K_EXPECT; o.k = r.chance(1, 2) ? r.below(4) : own_live; M.expected = o.k; if (o.k) M.expect_nonzero = true; desc += sfmt("EXPECT_N_LEAKS(%u) ", o.k);
                    }
                    else { o.kind = K_IGNORE; M.ignored = true; desc += "IGNORE_ALL_LEAKS "; }
                } else if (kind == 8) { o.kind = K_CHECK; desc += "CHECK(ok) "; }
                else if (r.chance(1, 2)) { o.kind = K_CHECK; desc += "CHECK(ok) "; }
                else {
                    o.kind = K_FAIL; M.own_failures++; stopped = true; if (ph == 0) skip_body = true;
                    desc += "FAIL ";
                }
                P.n++;
            }
        }
        for (int b = 0; b < g_nblk; b++) if (g_blk[b].owner == t && g_blk[b].live) { if (g_blk[b].local) { M.lleaks.push_back(b); continue; } M.leaks.push_back(b); if (g_blk[b].phase != 1) M.edge_leak = true; }
        // failed before the leak plugin judges it?  own checks; the other plugin's pre action; its post action iff that runs first
        M.failed_before = M.own_failures > 0 || M.xpre > 0 || (xmode == X_BEFORE_LEAK_PLUGIN && M.xpost > 0);
        {
            bool gcond = !M.ignored && M.leaks.size() != M.expected;       // the first plugin (global detector, the one the macros talk to)
            bool lcond = lmode && !M.lleaks.empty();                       // the local one: expects 0, cannot be told to ignore
            bool local_first = lmode == 1;
            M.leak_failure = !M.failed_before && (gcond || lcond);
            M.leak_by_local = M.leak_failure && (local_first ? lcond : !gcond);   // whoever judges first reports; the other one finds the test already failed
            if (!M.failed_before && gcond && lcond) both_conditions = true;
        }
        desc += sfmt("}=>%s ", M.leak_failure ? sfmt("LEAKFAIL(%zu)", M.leaks.size()).c_str() : (M.own_failures ? "ownfail" : (M.xpre || M.xpost) ? "pluginfail" : "pass"));
    }
    std::vector<int> final_blocks;
    std::vector<int> lfinal_blocks;
    for (int b = 0; b < g_nblk; b++) if (g_blk[b].live) (g_blk[b].local ? lfinal_blocks : final_blocks).push_back(b);
    if (both_conditions || any_failed_realloc_of_earlier) nontrivial = true;
    if (any_state_step && keep_beyond_final) { keep_beyond_final = false; desc += "[output releases at the end of the run after all] "; }   // which period an output block gets is not modelled
    bool disabled_then_verdict = false;      // a test leaves a detector disabled and a later test has something to judge there
    for (int t = 0; t + 1 < g_ntests; t++) for (int u = t + 1; u < g_ntests; u++) {
        if (model[(size_t)t].leaves_global_disabled && !model[(size_t)u].leaks.empty()) disabled_then_verdict = true;
        if (model[(size_t)t].leaves_local_disabled && !model[(size_t)u].lleaks.empty()) disabled_then_verdict = true;
    }
    if (disabled_then_verdict) nontrivial = true;
    bool any_cross = false, any_edge = false, any_expect = false; int leakfails = 0, ownfails = 0, xfails = 0;
    for (auto& M : model) { any_cross |= M.cross_release; any_edge |= M.edge_leak; any_expect |= M.expect_nonzero; leakfails += M.leak_failure; ownfails += M.own_failures; xfails += M.xpre + M.xpost; }
    for (auto& M : model) if ((M.xpre || M.xpost) && !M.own_failures && !M.ignored && M.leaks.size() != M.expected) nontrivial = true;   // plugin failure meets an unexpected leak
    nontrivial = (g_ntests >= 2 && (any_cross || any_edge)) || any_expect;
    if (outmode != OUT_PLAIN && g_ntests >= 2) for (int t = 0; t + 1 < g_ntests; t++) if (model[(size_t)t].leak_failure) nontrivial = true;   // allocating output prints a leak failure, a test follows
    if (verif::g_explain) fprintf(stderr, "  program: %s\n", desc.c_str());

    // ---- reset the process-wide state the case touches ----
    g_plugin->~MemoryLeakWarningPlugin();                                   // same address: getFirstPlugin() keeps pointing at it
    new (g_plugin) MemoryLeakWarningPlugin("VerifLeakPlugin");               // flags cleared whatever the previous case left behind
    g_lplugin->~MemoryLeakWarningPlugin();
    new (g_lplugin) MemoryLeakWarningPlugin("VerifLocalLeakPlugin", g_local);
    for (int i = 0; i < NLSLOT; i++) g_lslot_ptr[i] = NULLPTR;
    g_lfinal[0] = 0; g_local_reporter.n = 0;
    size_t lresidue_before = g_local->totalMemoryLeaks(mem_leak_period_all);
    memset(g_nfail, 0, sizeof g_nfail); g_unattributed = 0; g_final[0] = 0;
    for (int i = 0; i < NSLOT; i++) g_slot_ptr[i] = NULLPTR;
    size_t residue_before = g_det->totalMemoryLeaks(mem_leak_period_all);
    g_nkept = 0; g_kept_dropped = 0; g_realloc_fail = false; g_record_alloc_fail = false; g_realloc_result_wrong = 0;
    StringBufferTestOutput plain_output;
    CollectingOutput collecting_output; collecting_output.release_at_end_of_run = !keep_beyond_final;
    JUnitTestOutput junit_output;
    TestOutput& output = outmode == OUT_PLAIN ? (TestOutput&)plain_output : outmode == OUT_COLLECTING ? (TestOutput&)collecting_output : (TestOutput&)junit_output;
    RecResult result(output);
    TestRegistry registry;
    for (int t = g_ntests - 1; t >= 0; t--) registry.addTest(g_shell[t]);
    if (lmode == 1) registry.installPlugin(g_lplugin);
    if (xmode == X_BEFORE_LEAK_PLUGIN) registry.installPlugin(g_xplugin);     // installed first = its post action runs first
    registry.installPlugin(g_plugin);
    if (xmode == X_AFTER_LEAK_PLUGIN) registry.installPlugin(g_xplugin);
    if (lmode == 2) registry.installPlugin(g_lplugin);
    size_t total_failures;

    // ---- ON window ----
    MemoryLeakWarningPlugin::turnOnDefaultNotThreadSafeNewDeleteOverloads();
    registry.runAllTests(result);
    total_failures = result.getFailureCount();
    if (total_failures != 0) { g_det->startChecking(); g_det->stopChecking(); }   // report() appends: start the final report from an empty text buffer
    {
        const char* fr = g_plugin->FinalReport(0);
        size_t len = strlen(fr); if (len > MSGLEN - 1) len = MSGLEN - 1;
        memcpy(g_final, fr, len); g_final[len] = 0;
    }
    if (lmode) {
        if (total_failures != 0) { g_local->startChecking(); g_local->stopChecking(); }
        const char* fr = g_lplugin->FinalReport(0);
        size_t len = strlen(fr); if (len > MSGLEN - 1) len = MSGLEN - 1;
        memcpy(g_lfinal, fr, len); g_lfinal[len] = 0;
    }
    int kept_at_final = g_nkept;                      // what the collecting output still holds is outstanding, hence in the final report
    static Kept kept_copy[MAXKEPT]; memcpy(kept_copy, g_kept, sizeof(Kept) * (size_t)(kept_at_final > 0 ? kept_at_final : 0));
    CollectingOutput::releaseAll();
    for (int b = 0; b < g_nblk; b++) {                // give everything back so the next case starts from nothing
        if (!g_blk[b].live) continue;
        if (g_blk[b].local) { g_local->deallocMemory(defaultNewAllocator(), g_blk[b].p, "cleanup.cpp", 2); continue; }
        char* p = g_blk[b].p; int fam = g_blk[b].fam;
        if (fam == K_NEW) ::operator delete(p); else if (fam == K_NEWARR) ::operator delete[](p); else cpputest_free_location(p, "cleanup.c", 1);
    }
    MemoryLeakWarningPlugin::turnOffNewDeleteOverloads();
    // ---- window closed ----
    registry.resetPlugins();
    size_t residue_after = g_det->totalMemoryLeaks(mem_leak_period_all);
    size_t lresidue_after = g_local->totalMemoryLeaks(mem_leak_period_all);
    verif::cls(lmode == 0 ? "leak-plugins:one" : lmode == 1 ? "leak-plugins:local-one-installed-before" : "leak-plugins:local-one-installed-after");
    if (both_conditions) verif::cls("program:test-leaks-in-both-detectors(one-leak-failure-only)");
    if (any_state_step) verif::cls("program:has-disable/enable-steps");
    if (disabled_then_verdict) verif::cls("program:a-test-leaves-a-detector-disabled-and-a-later-test-leaks");
    for (auto& M : model) if (M.state_steps) verif::cls(M.leaves_global_disabled || M.leaves_local_disabled ? "test:leaves-a-detector-disabled" : "test:disable/enable-steps-ending-enabled");
    for (int i = 0; i < kept_at_final; i++) {         // model: outstanding at the final report, owned by no test
        Blk& b = g_blk[g_nblk]; b.p = (char*)kept_copy[i].p; b.num = kept_copy[i].num; b.size = kept_copy[i].size; b.fam = K_NEW; b.owner = -1; b.phase = 1; b.live = false;
        final_blocks.push_back(g_nblk++);
    }
    int bulk_tests = 0, printed_leak_failures_before_last = 0;
    for (int t = 0; t < g_ntests; t++) { if (model[(size_t)t].bulk) bulk_tests++; if (model[(size_t)t].leak_failure && t + 1 < g_ntests) printed_leak_failures_before_last++; }
    verif::cls(xmode == X_NONE ? "plugins:leak-plugin-only" : xmode == X_BEFORE_LEAK_PLUGIN ? "plugins:second-plugin-installed-before" : "plugins:second-plugin-installed-after");
    verif::cls(outmode == OUT_PLAIN ? "output:plain(non-allocating)" : outmode == OUT_JUNIT ? "output:junit" : keep_beyond_final ? "output:collecting-kept-beyond-final-report" : "output:collecting");
    if (bulk_tests) verif::cls("program:has-bulk-leak-step");
    if (any_form) verif::cls("program:uses-debug/nothrow/sized/placement-forms-of-new-or-delete");
    if (outmode != OUT_PLAIN && printed_leak_failures_before_last) {
        verif::cls("program:allocating-output-printed-a-leak-failure-before-a-later-test");
        for (int t = 0; t + 1 < g_ntests; t++) if (model[(size_t)t].leak_failure && model[(size_t)t].leaks.size() >= 73) { verif::cls("program:>=73-leaks-reported-through-allocating-output-then-later-test"); break; }
    }
    if (kept_at_final) verif::cls("program:output-blocks-in-final-report");
    V_CHECK(g_kept_dropped == 0, "C07:harness-kept-table-overflow", "collecting output table overflow (harness bound)");

    verif::cls(sfmt("tests:%s", g_ntests == 1 ? "1" : g_ntests <= 4 ? "2-4" : g_ntests <= 8 ? "5-8" : "9-16").c_str());
    if (any_cross) verif::cls("program:releases-earlier-tests-block");
    if (any_edge) verif::cls("program:leak-from-setup-or-teardown");
    if (any_expect) verif::cls("program:EXPECT_N_LEAKS(k>0)");
    if (!final_blocks.empty()) verif::cls("program:final-report-non-empty");
    for (auto& M : model) {
        verif::cls("test");
        if (!M.leak_failure && !M.own_failures && M.leaks.empty()) verif::cls("test:clean-pass");
        if (M.leak_failure) verif::cls(M.leaks.empty() ? "test:leak-failure-because-expected-leaks-missing" : "test:leak-failure");
        if (M.own_failures) verif::cls(M.leaks.empty() ? "test:own-failure" : "test:own-failure-and-leaks(no-extra-failure)");
        if (M.ignored && !M.leaks.empty()) verif::cls("test:ignored-leaks");
        if (!M.own_failures && !M.ignored && M.expected && M.leaks.size() == M.expected) verif::cls("test:expected-leaks-met");
        if (!M.own_failures && !M.leak_failure && M.cross_release) verif::cls("test:passes-while-freeing-earlier-block");
        if (M.leak_failure && M.cross_release) verif::cls("test:leaks-although-it-freed-an-earlier-block");
        if (M.reallocs) verif::cls("test:has-realloc-step");
        if (M.failed_reallocs) verif::cls(M.failed_realloc_of_earlier ? "test:failed-realloc-of-an-earlier-tests-block" : "test:failed-realloc-of-an-own-block");
        if ((M.xpre || M.xpost) && !M.own_failures && !M.ignored && M.leaks.size() != M.expected)
            verif::cls(M.leak_failure ? "test:plugin-failure-after-the-leak-verdict(leak-failure-stays)" : (M.xpre ? "test:plugin-pre-failure-suppresses-leak-failure" : "test:plugin-post-failure-first-suppresses-leak-failure"));
        if (M.realloc_earlier_not_larger) verif::cls(M.leak_failure ? "test:realloc-of-earlier-tests-block-to-same-or-smaller-size(leak-failure)" : "test:realloc-of-earlier-tests-block-to-same-or-smaller-size");
    }

    if (verif::g_explain) {
        for (int t = 0; t < g_ntests; t++) for (int i = 0; i < g_nfail[t] && i < MAXFAIL; i++)
            fprintf(stderr, "  observed failure of t%02d: %s\n", t, verif::printable(std::string(g_fail[t][i]).substr(0, 700)).c_str());
        fprintf(stderr, "  observed failure count %zu; final report: %s\n", total_failures, verif::printable(std::string(g_final).substr(0, 700)).c_str());
    }

    // ---- compare ----
    V_CHECK(g_realloc_result_wrong == 0, "C07:realloc-result", "%d realloc step(s) returned a block although a fault was injected, or NULL without one", g_realloc_result_wrong);
    V_CHECK(g_unattributed == 0, "C07:failure-for-unknown-test", "%d failure record(s) carry a test name that is not in the program", g_unattributed);
    for (int t = 0; t < g_ntests; t++) {
        TestModel& M = model[(size_t)t];
        int own_seen = 0, leak_seen = 0, other = 0, x_seen = 0; std::string leak_text;
        for (int i = 0; i < g_nfail[t] && i < MAXFAIL; i++) {
            std::string m = g_fail[t][i];
            if (m.find("own failing check") != std::string::npos) own_seen++;
            else if (m.find("scripted plugin failure") != std::string::npos) x_seen++;
            else if (m.compare(0, 21, "Memory leak(s) found.") == 0 || m.find("No memory leaks were detected.") != std::string::npos) { leak_seen++; leak_text = m; }
            else { other++; leak_text = m; }
        }
        if (g_nfail[t] > MAXFAIL) other += g_nfail[t] - MAXFAIL;
        std::string ctx = sfmt("test t%02d (own failures %d, plugin failures pre %d post %d [%s], ignore %d, expected %u, leaked blocks %zu)", t, M.own_failures, M.xpre, M.xpost,
                               xmode == X_BEFORE_LEAK_PLUGIN ? "post action runs before the leak plugin's" : xmode == X_AFTER_LEAK_PLUGIN ? "post action runs after the leak plugin's" : "no 2nd plugin", (int)M.ignored, M.expected, M.leaks.size());
        V_CHECK(other == 0, "C07:unexpected-failure-text", "%s: unexpected failure record: %s", ctx.c_str(), verif::printable(leak_text.substr(0, 500)).c_str());
        V_CHECK(own_seen == M.own_failures, "C07:own-failure-count", "%s: %d own failure record(s)", ctx.c_str(), own_seen);
        V_CHECK(x_seen == M.xpre + M.xpost, "C07:plugin-failure-count", "%s: %d scripted plugin failure record(s)", ctx.c_str(), x_seen);
        if (M.leak_failure) V_CHECK(leak_seen >= 1, "C07:leak-not-reported", "%s: the test must fail with a leak report, it has %d failure record(s)", ctx.c_str(), g_nfail[t]);
        else V_CHECK(leak_seen == 0, M.failed_before ? "C07:leak-failure-added-to-failed-test" : (M.ignored ? "C07:leak-failure-despite-ignore" : "C07:leak-failure-for-clean-test"),
                     "%s: got a leak failure: %s", ctx.c_str(), verif::printable(leak_text.substr(0, 500)).c_str());
        V_CHECK(leak_seen <= 1, "C07:more-than-one-leak-failure", "%s: %d leak failures", ctx.c_str(), leak_seen);
        if (M.leak_failure) { if (int rc = compare_report(ctx.c_str(), leak_text, M.leak_by_local ? M.lleaks : M.leaks, M.leak_by_local ? "C07:local-leak-report" : "C07:leak-report")) return rc; }
        if (M.leak_failure) verif::cls(M.leak_by_local ? "test:leak-failure-from-the-local-leak-plugin" : "test:leak-failure-from-the-first-leak-plugin");
    }
    V_CHECK(total_failures == (size_t)(leakfails + ownfails + xfails), "C07:failure-count", "the run counts %zu failures, the model %d own + %d plugin + %d leak failures", total_failures, ownfails, xfails, leakfails);
    if (int rc = compare_report("final report", final_blocks.empty() && g_final[0] == 0 ? std::string("No memory leaks were detected.") : std::string(g_final), final_blocks, "C07:final-report")) return rc;
    if (lmode) { if (int rc = compare_report("final report of the local leak plugin", lfinal_blocks.empty() && g_lfinal[0] == 0 ? std::string("No memory leaks were detected.") : std::string(g_lfinal), lfinal_blocks, "C07:local-final-report")) return rc; }
    V_CHECK(g_local_reporter.n == 0 && lresidue_after == lresidue_before, "C07:residue-in-local-detector", "local detector: %d misuse callbacks, %zu blocks tracked after the cleanup (%zu before the case)", g_local_reporter.n, lresidue_after, lresidue_before);
    V_CHECK(residue_after == residue_before, "C07:residue-in-global-detector",
            "the global detector tracks %zu blocks after everything the program allocated was released (%zu before the case)", residue_after, residue_before);
    return 0;
}

}  // namespace

extern "C" const char* verif_property(void) { return "C07"; }
extern "C" void verif_init(void) {
    verif::install_fake_time();
    PlatformSpecificFOpen = stub_fopen; PlatformSpecificFPuts = stub_fputs; PlatformSpecificFClose = stub_fclose;     // JUnitTestOutput writes nowhere
    for (int t = 0; t < MAXT; t++) { snprintf(g_names[t], sizeof g_names[t], "t%02d", t); g_shell[t] = new ScriptShell(t); }
    g_plugin = (MemoryLeakWarningPlugin*)::operator new(sizeof(MemoryLeakWarningPlugin));
    new (g_plugin) MemoryLeakWarningPlugin("VerifLeakPlugin");     // the first plugin ever constructed: what EXPECT_N_LEAKS / IGNORE_ALL_LEAKS_IN_TEST talk to
    g_det = MemoryLeakWarningPlugin::getGlobalDetector();
    g_local = new MemoryLeakDetector(&g_local_reporter);
    g_lplugin = (MemoryLeakWarningPlugin*)::operator new(sizeof(MemoryLeakWarningPlugin));
    new (g_lplugin) MemoryLeakWarningPlugin("VerifLocalLeakPlugin", g_local);       // constructed after the first one: getFirstPlugin() is not this one
    g_xplugin = new ScriptPlugin();
    g_platform_realloc = PlatformSpecificRealloc; PlatformSpecificRealloc = faulty_realloc;
    setCurrentMallocAllocator(new FaultyMallocAllocator());
}
extern "C" int verif_case(const uint8_t* data, size_t size) {
    Reader r(data, size);
    bool nontrivial = false; std::string desc;
    int rc = run_case(r, nontrivial, desc);
    MemoryLeakWarningPlugin::turnOffNewDeleteOverloads();
    verif::note_case(nontrivial, r.h, [&] { return desc.substr(0, 900); });
    return rc;
}
extern "C" int verif_known_repro(const char*) { return -1; }
