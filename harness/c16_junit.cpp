// C16 — the JUnit report is well-formed XML and faithful to the run.
// LDFLAGS: -lexpat
// Decoder: a run of 1..4 groups (distinct names, tests of a group consecutive) x 1..4 scripted tests; each test has a
//          body and a teardown script of prints and FAIL(text) at a decoded (file, line); tests may be IGNORE_TESTs;
//          optional package name; run-ignored on/off.  Names, paths, messages and printed text come from token tables
//          weighted towards & < > " ' (messages / prints also CR, LF).  One string in ten is LONG: its length comes from a
//          lattice around the powers of two (63..5000) or is random, and it is a run of one ordinary character, a cycling
//          alphabet, a run of one markup character, an ordinary run with one markup character, or alternating blocks.
//          A test may also fail by a real STRCMP_EQUAL of two long strings (message built by the framework).
//          Every shell owns exact-size heap copies of its group name, test name and file name (equal text never means equal
//          address).  A run may have 0..2 group filters and 0..2 name filters in effect (substring / strict / inverted /
//          inverted strict; values mostly the program's own names or parts of them), set on the registry or through the
//          runner's -g/-sg/-xg/-xsg/-n/-sn/-xn/-xsn: filtered-out tests give no testcase, the suite counts the selected tests.
//          Decoded last (absent bytes = none of it): -v / -vv (through the runner: the composite of JUnit + console), tests run
//          in a separate process (-p, 1 case in 32), a text printed through the output before a pass, and up to three actions of
//          a scripted TestPlugin (pre or post action of a test: print through the result, or record a failure for the test).
//          Non-ASCII text (decoded very last): up to three insertions of a VALID UTF-8 sequence of 2, 3 or 4 bytes (also next to
//          markup characters) into the package, a group name, test name, file name, failure file, failure text, plugin text or
//          printed text.  Bytes that are not valid UTF-8 are outside the domain: the report declares encoding="UTF-8" and the
//          statement speaks of printable characters.
//          File system model: one capture per fopen, and the last content written under a name is what stays on disk: the empty report
//          that a group without a selected test may write must not carry the name of the report of a group that ran.
//          The registry is run 1..3 times against the SAME output object with a fresh TestResult per pass (what
//          CommandLineTestRunner does for -rN), the order optionally reversed before a pass (groups stay consecutive; no
//          shuffle: the statement's precondition); one case in three goes through the REAL, unmodified CommandLineTestRunner
//          (parseArguments -> createJUnitOutput -> setPackageName) with argv "-ojunit [-k package] [-rN] [-ri] [-b] [-v|-vv] [-p]
//          [filters]".  Every pass has to write its own complete set of files.
// Execution: a REAL run: TestRegistry::runAllTests over UtestShell / IgnoredUtestShell subclasses whose createTest()
//          returns the scripted Utest; the output is a plain JUnitTestOutput; files are captured through the
//          PlatformSpecificFOpen / FPuts / FClose seams (one capture per fopen).
// Oracle:  libexpat parses every captured file; the parsed tree is compared with a model computed from the script alone.
#include "common.h"
#include "CppUTest/JUnitTestOutput.h"
#include "CppUTest/CommandLineTestRunner.h"
#include "CppUTest/TestFilter.h"
#include "CppUTest/TestPlugin.h"
#include "CppUTest/TestFailure.h"
#include <expat.h>
#include <memory>
#include <deque>
#include <algorithm>

using verif::Reader;
using verif::sfmt;

namespace {

const char* const KEY_ATTR = "C16:attribute-value-unescaped";

// ---------------------------------------------------------------- model of a case
struct Step { int kind; std::string text, file; uint32_t line; std::string op2; };   // 0 print through the result, 1 UT_PRINT_LOCATION, 2 FAIL at (file,line), 3 STRCMP_EQUAL(text, op2) at (file,line)
struct TestM {
    std::string name, file; uint32_t line = 1; bool ignored = false; std::vector<Step> body, teardown;
    int pluginKind[2] = {-1, -1};      // scripted plugin, [0] pre action, [1] post action of this test: -1 nothing, 0 print through the result, 1 record a failure
    std::string pluginText[2];
};
struct GroupM { std::string name; std::vector<TestM> tests; };
struct CaseM {
    std::string package; bool runIgnored = false; std::vector<GroupM> groups;
    uint32_t passes = 1;        // runs of the registry against the same output object
    bool viaRunner = false;     // through CommandLineTestRunner (-rN ...) instead of the harness's own loop
    bool reverse[3] = {false, false, false};   // reverse the registry before pass p (runner: reverse[0] only, -b)
    struct Filter { bool strict = false, invert = false; std::string value; };
    std::vector<Filter> groupFilters, nameFilters;   // a test is selected when (no group filter or one of them matches its group) and the same for its name
    uint32_t verbose = 0;              // 0, 1 (-v), 2 (-vv)
    bool separateProcess = false;      // -p: every executed test runs in a forked child
    bool hasBanner[3] = {false, false, false};
    std::string banner[3];             // text printed through the output object before pass p (harness loop only; the runner prints its own)
};
bool filter_matches(const CaseM::Filter& f, const std::string& name) {
    bool m = f.strict ? name == f.value : name.find(f.value) != std::string::npos;
    return f.invert ? !m : m;
}
bool selected(const CaseM& c, const std::string& group, const TestM& t) {
    bool g = c.groupFilters.empty(), n = c.nameFilters.empty();
    for (auto& f : c.groupFilters) if (filter_matches(f, group)) g = true;
    for (auto& f : c.nameFilters) if (filter_matches(f, t.name)) n = true;
    return g && n;
}

struct FailM { std::string file; uint32_t line; std::string msg; bool natural = false; std::string op2; size_t index = 0; };   // index: position among all failures of the run
struct TestSim { bool executed = false; std::vector<std::string> prints; std::vector<FailM> fails; };

// ---------------------------------------------------------------- generator tables
const char* const T_PLAIN[] = {"a", "b", "c", "X", "Y", "Z", "0", "1", "9", "_"};
const char* const T_SAFE[] = {"a", "b", "Z", "1", "'", ">", "/", "\\", "?", "%", "*", ":", "|", ".", " ", "-", ";", "#", "''", ">>"};
const char* const T_MARKUP[] = {"a", "&", "<", ">", "\"", "'", "&", "<", "\"", "&amp;", "&lt;", "&gt;", "&quot;", "&apos;", "&#10;", "&#x3c;",
                                "]]>", "<!--", "-->", "<![CDATA[", "</", "/>", "<?", "b", " ", ";", "=", "&&", "\"\"", "<a>", "&x", "%s"};
const char* const T_BREAK[] = {"\n", "\r", "\r\n", "\n\n"};

template <size_t N> void add_tokens(Reader& r, std::string& s, uint32_t n, const char* const (&tab)[N]) {
    for (uint32_t i = 0; i < n; i++) s += tab[r.below((uint32_t)N)];
}
// alphabet classes: 0 plain, 1 safe specials (legal in attribute values as they are), 2 markup, 3 any printable ASCII
void add_class(Reader& r, std::string& s, uint32_t cls, uint32_t n) {
    switch (cls) {
    default:
    case 0: add_tokens(r, s, n, T_PLAIN); break;
    case 1: add_tokens(r, s, n, T_SAFE); break;
    case 2: add_tokens(r, s, n, T_MARKUP); break;
    case 3: for (uint32_t i = 0; i < n; i++) s.push_back((char)(0x20 + r.below(95))); break;
    }
}
// ---- long strings: the code imposes no length limit, so neither does the generator
const uint32_t LENS[] = {0, 1, 2, 63, 64, 65, 127, 128, 129, 255, 256, 257, 511, 512, 1000, 4095, 4096, 5000};
const char ORDINARY[] = "abcdefghijklmnopqrstuvwxyz0123456789ABCDEFGHIJKLMNOPQRSTUVWXYZ_ .,:;/\\-+*=()#%!?$@^~{}`|[]";   // no XML meaning
std::string gen_long(Reader& r, const char* specials, uint32_t minlen, bool plainOnly) {
    uint32_t li = r.below(24);
    uint32_t len = li < 18 ? LENS[li] : r.below(5001);
    if (len < minlen) len = minlen;
    size_t nsp = strlen(specials), nord = plainOnly ? 63 : sizeof ORDINARY - 1;
    uint32_t shape = r.below(6);
    if (nsp == 0 && shape >= 2) shape &= 1;
    std::string s;
    s.reserve(len);
    switch (shape) {
    default:
    case 0: { char ch = ORDINARY[r.below((uint32_t)nord)]; s.assign(len, ch); break; }
    case 1: { uint32_t off = r.below((uint32_t)nord); for (uint32_t i = 0; i < len; i++) s.push_back(ORDINARY[(off + i) % nord]); break; }
    case 2: { char ch = specials[r.below((uint32_t)nsp)]; s.assign(len, ch); break; }
    case 3: {
        char ch = ORDINARY[r.below(36)]; s.assign(len, ch);
        if (len) { uint32_t pv = r.below(4); uint32_t pos = pv == 0 ? len - 1 : (pv == 1 ? len / 2 : (pv == 2 ? 0 : r.below(len > 65536 ? 65536 : len))); s[pos] = specials[r.below((uint32_t)nsp)]; }
        break; }
    case 4: {
        static const uint32_t BL[] = {1, 2, 63, 64, 126, 127, 128, 129, 255, 256};
        uint32_t bl = r.pick(BL); char sp = specials[r.below((uint32_t)nsp)]; char ch = ORDINARY[r.below(36)];
        for (uint32_t i = 0; i < len; i++) s.push_back((i % (bl + 1)) == bl ? sp : ch);
        break; }
    case 5: { for (uint32_t i = 0; i < len; i++) s.push_back(i % 2 ? specials[(i / 2) % nsp] : ORDINARY[(i / 2) % nord]); break; }
    }
    return s;
}

// a non-empty name or path; `style` is the case-wide ceiling: 0 plain only, 1 plain/safe, 2 everything
std::string gen_name(Reader& r, uint32_t style, uint32_t maxtok) {
    if (r.below(10) == 9) return gen_long(r, style == 0 ? "" : (style == 1 ? "'>" : "&<>\"'"), 1, style == 0);
    uint32_t cls = 0;
    if (style == 1) cls = r.below(2);
    else if (style == 2) cls = r.below(4);
    std::string s;
    add_class(r, s, cls, 1 + r.below(maxtok));
    return s;
}
// failure messages and printed text: any length including empty, line breaks mixed in
std::string gen_text(Reader& r, uint32_t maxtok) {
    if (r.below(10) == 9) return gen_long(r, "&<>\"'\r\n", 0, false);
    uint32_t cls = r.below(4);          // 0 plain, 1 markup, 2 markup + breaks, 3 printable + breaks
    uint32_t n = r.below(maxtok + 1);
    std::string s;
    for (uint32_t i = 0; i < n; i++) {
        if (cls >= 2 && r.below(4) == 3) add_tokens(r, s, 1, T_BREAK);
        else add_class(r, s, cls == 0 ? 0 : (cls == 3 ? 3 : 2), 1);
    }
    return s;
}
const uint32_t LINES[] = {1, 2, 10, 42, 999, 4096, 65535, 100000};

Step gen_step(Reader& r, const TestM& t, const std::string& groupFile, uint32_t style) {
    Step s;
    uint32_t k = r.below(9);   // 0,1 print; 2,3 UT_PRINT; 4..7 FAIL; 8 STRCMP_EQUAL of two (mostly long) strings
    s.kind = k <= 1 ? 0 : (k <= 3 ? 1 : (k <= 7 ? 2 : 3));
    if (s.kind == 3) {
        static const uint32_t OL[] = {200, 127, 128, 255, 256, 1000, 3000, 20};
        uint32_t len = r.pick(OL);
        uint32_t shape = r.below(3);
        if (shape == 0) s.text.assign(len, ORDINARY[r.below(36)]);
        else if (shape == 1) for (uint32_t i = 0; i < len; i++) s.text.push_back(ORDINARY[i % (sizeof ORDINARY - 1)]);
        else for (uint32_t i = 0; i < len; i++) s.text.push_back((i % 50) == 49 ? "&<>\"'\r\n"[(i / 50) % 7] : ORDINARY[i % 36]);
        s.op2 = s.text;
        switch (r.below(3)) {
        default:
        case 0: s.op2 += "X"; break;
        case 1: { uint32_t pos = r.below(len); s.op2[pos] = s.op2[pos] == '#' ? '%' : '#'; break; }
        case 2: s.op2 = s.op2.substr(0, len / 2); break;
        }
    } else
    s.text = gen_text(r, s.kind == 2 ? 8 : 10);
    s.file = t.file; s.line = t.line;
    if (s.kind == 1) { s.line = t.line + 1 + r.below(9); }
    if (s.kind >= 2) {
        switch (r.below(3)) { default: case 0: break; case 1: s.file = gen_name(r, style, 6); break; case 2: s.file = groupFile; break; }
        switch (r.below(4)) {
        default:
        case 0: s.line = t.line + 1 + r.below(20); break;
        case 1: s.line = t.line; break;
        case 2: s.line = t.line > 1 ? 1 + r.below(t.line - 1 > 60000 ? 60000 : t.line - 1) : t.line; break;   // above the test: "helper function"
        case 3: s.line = r.pick(LINES); break;
        }
    }
    return s;
}

CaseM decode(Reader& r) {
    CaseM c;
    uint32_t sv = r.below(8);
    uint32_t style = sv == 0 ? 0 : (sv <= 3 ? 1 : 2);
    c.runIgnored = r.below(4) == 1;
    { uint32_t v = r.below(6); c.passes = v <= 2 ? 1 : (v <= 4 ? 2 : 3); }
    c.viaRunner = r.below(3) == 2;
    for (uint32_t p = 0; p < c.passes; p++) c.reverse[p] = r.below(3) == 2;
    if (r.below(4) >= 2) c.package = gen_name(r, style, 5);
    uint32_t ng = 1 + r.below(4);
    for (uint32_t g = 0; g < ng; g++) {
        GroupM gm;
        if (g > 0 && style >= 1 && r.below(6) == 5) {
            // a sibling of an earlier group whose sanitised file name may coincide with it
            std::string base = c.groups[r.below(g)].name;
            const char* alt = style == 2 ? "_/\\?%*:|\"<>" : "_/\\?%*:|>";
            size_t p = base.find_first_of("_/\\?%*:|\"<>");
            if (p == std::string::npos) base += '/'; else base[p] = alt[r.below((uint32_t)strlen(alt))];
            gm.name = base;
        } else
            gm.name = gen_name(r, style, 6);
        for (;;) {   // distinct group names (precondition: the tests of a group run consecutively)
            bool dup = false;
            for (auto& o : c.groups) if (o.name == gm.name) dup = true;
            if (!dup) break;
            gm.name += sfmt("%u", g);
        }
        std::string groupFile = gen_name(r, style, 6);
        uint32_t nt = 1 + r.below(4);
        for (uint32_t t = 0; t < nt; t++) {
            TestM tm;
            tm.name = r.below(12) == 11 ? std::string() : gen_name(r, style, 6);   // TEST(group, ) / setTestName(""): an empty test name is expressible
            tm.file = r.below(4) == 3 ? gen_name(r, style, 6) : groupFile;
            tm.line = r.pick(LINES);
            tm.ignored = r.below(6) == 5;
            uint32_t nb = r.below(4);
            for (uint32_t i = 0; i < nb; i++) tm.body.push_back(gen_step(r, tm, groupFile, style));
            uint32_t ntd = r.below(4) == 3 ? 1 + r.below(2) : 0;
            for (uint32_t i = 0; i < ntd; i++) tm.teardown.push_back(gen_step(r, tm, groupFile, style));
            gm.tests.push_back(tm);
        }
        c.groups.push_back(gm);
    }
    // filters, decoded last: values come mostly from the program's own names so that proper subsets are selected
    for (int which = 0; which < 2; which++) {
        uint32_t v = r.below(8);
        uint32_t n = v <= 4 ? 0 : (v <= 6 ? 1 : 2);
        for (uint32_t i = 0; i < n; i++) {
            CaseM::Filter f;
            uint32_t k = r.below(6);   // 0,1 substring; 2,3 strict; 4 inverted; 5 inverted strict
            f.strict = k == 2 || k == 3 || k == 5; f.invert = k >= 4;
            const GroupM& sg = c.groups[r.below((uint32_t)c.groups.size())];
            const std::string& own = which == 0 ? sg.name : sg.tests[r.below((uint32_t)sg.tests.size())].name;
            switch (r.below(4)) {
            default:
            case 0: case 1: f.value = own; break;
            case 2: f.value = own.empty() ? own : own.substr(r.below((uint32_t)own.size() > 200 ? 200 : (uint32_t)own.size()), 1 + r.below(3)); break;
            case 3: f.value = gen_name(r, style, 3); break;
            }
            (which == 0 ? c.groupFilters : c.nameFilters).push_back(f);
        }
    }
    // extras, decoded after everything else so that older inputs keep their meaning
    { uint32_t v = r.below(8); c.verbose = v <= 5 ? 0 : v - 5; }
    c.separateProcess = r.below(32) == 31;
    for (uint32_t p = 0; p < c.passes; p++) if (r.below(4) == 3) { c.hasBanner[p] = true; c.banner[p] = gen_text(r, 8); }
    uint32_t nplug = r.below(4);
    for (uint32_t i = 0; i < nplug; i++) {
        GroupM& g = c.groups[r.below((uint32_t)c.groups.size())];
        TestM& t = g.tests[r.below((uint32_t)g.tests.size())];
        uint32_t when = r.below(2);
        t.pluginKind[when] = (int)r.below(2);
        t.pluginText[when] = gen_text(r, 8);
    }
    // non-ASCII characters as valid UTF-8, decoded very last
    static const char* const UTF8[] = {"\xC3\xA9", "\xE2\x82\xAC", "\xF0\x9F\x98\x80", "\xC3\xBF", "\xDF\xBF", "\xE0\xA0\x80", "\xE6\xBC\xA2", "\xC3\xA9&", "<\xE2\x82\xAC", "\"\xC3\xA9\"",
                                       "\xC3\xA9\xC3\xA9\xC3\xA9", "\xF0\x9F\x98\x80>", "\xC2\xA0", "\xEF\xBB\xBF", "\xC3\x97'"};
    uint32_t nhigh = r.below(4);
    for (uint32_t i = 0; i < nhigh; i++) {
        GroupM& g = c.groups[r.below((uint32_t)c.groups.size())];
        TestM& t = g.tests[r.below((uint32_t)g.tests.size())];
        std::vector<std::string*> fields = {&t.name, &t.file, &g.name};
        if (!c.package.empty()) fields.push_back(&c.package);
        for (auto& st : t.body) { fields.push_back(&st.text); if (st.kind >= 2) fields.push_back(&st.file); }
        for (auto& st : t.teardown) { fields.push_back(&st.text); if (st.kind >= 2) fields.push_back(&st.file); }
        for (int w = 0; w < 2; w++) if (t.pluginKind[w] >= 0) fields.push_back(&t.pluginText[w]);
        for (uint32_t p = 0; p < c.passes; p++) if (c.hasBanner[p]) fields.push_back(&c.banner[p]);
        std::string& f = *fields[r.below((uint32_t)fields.size())];
        bool isTestFile = &f == &t.file;
        std::string old = f;
        // insert at a character boundary: positions are taken in the ASCII prefix view (never inside an earlier inserted sequence)
        size_t pos = r.below((uint32_t)(f.size() > 300 ? 300 : f.size()) + 1);
        while (pos < f.size() && ((unsigned char)f[pos] & 0xC0) == 0x80) pos++;
        const char* tok = UTF8[r.below(sizeof UTF8 / sizeof UTF8[0])];
        if (getenv("VERIF_C16_PROBE_INVALID_UTF8")) tok = "\xFF";   // manual probe only (notes/C16.md round 7): what a byte that is not UTF-8 does
        f.insert(pos, tok);
        if (isTestFile) for (auto* ph : {&t.body, &t.teardown}) for (auto& st : *ph) if (st.file == old) st.file = f;
        if (&f == &g.name) for (bool again = true; again;) { again = false; for (auto& o : c.groups) if (&o != &g && o.name == f) { f += "~"; again = true; } }   // group names stay distinct
    }
    return c;
}

// what the script does, by its own meaning: a FAIL ends its phase, the teardown always runs
TestSim simulate(const CaseM& c, const TestM& t) {
    TestSim s;
    s.executed = !t.ignored || c.runIgnored;
    if (!s.executed) return s;
    auto plugin = [&](int when) {   // a plugin reports for the test itself: the failure carries the test's file and line
        if (t.pluginKind[when] == 0) s.prints.push_back(t.pluginText[when]);
        if (t.pluginKind[when] == 1) { FailM f; f.file = t.file; f.line = t.line; f.msg = t.pluginText[when]; s.fails.push_back(f); }
    };
    plugin(0);
    for (int phase = 0; phase < 2; phase++)
        for (auto& st : phase == 0 ? t.body : t.teardown) {
            if (st.kind >= 2) { FailM f; f.file = st.file; f.line = st.line; f.msg = st.text; f.natural = st.kind == 3; f.op2 = st.op2; s.fails.push_back(f); break; }
            s.prints.push_back(st.text);
        }
    plugin(1);
    if (c.separateProcess) {
        // the test (and the plugin actions around it) ran in a forked child: its prints and failure texts stay there; the parent
        // records one failure for the test when anything failed (DESIGN A.4)
        bool failed = !s.fails.empty();
        s.prints.clear(); s.fails.clear();
        if (failed) { FailM f; f.file = t.file; f.line = t.line; f.msg = "Failed in separate process"; s.fails.push_back(f); }
    }
    return s;
}

// ---------------------------------------------------------------- execution against the real framework
TestResult* current_result();

void run_steps(const std::vector<Step>& steps) {
    for (auto& st : steps) {
        if (st.kind == 0) current_result()->print(st.text.c_str());
        else if (st.kind == 1) UtestShell::getCurrent()->print(st.text.c_str(), st.file.c_str(), st.line);      // UT_PRINT_LOCATION
        else if (st.kind == 2) UtestShell::getCurrent()->fail(st.text.c_str(), st.file.c_str(), st.line);        // FAIL_TEXT at a location; leaves the phase
        else UtestShell::getCurrent()->assertCstrEqual(st.text.c_str(), st.op2.c_str(), NULLPTR, st.file.c_str(), st.line);   // STRCMP_EQUAL_LOCATION; leaves the phase
    }
}
struct ScriptedTest : Utest {
    const TestM* t;
    explicit ScriptedTest(const TestM* tm) : t(tm) {}
    void testBody() CPPUTEST_OVERRIDE { run_steps(t->body); }
    void teardown() CPPUTEST_OVERRIDE { run_steps(t->teardown); }
};
// every shell owns exact-size heap copies of its three strings: equal text never implies equal address
struct OwnNames {
    char *g, *n, *f;
    static char* dup(const char* s) { size_t k = strlen(s); char* p = (char*)malloc(k + 1); memcpy(p, s, k + 1); return p; }
    OwnNames(const char* group, const TestM* tm) : g(dup(group)), n(dup(tm->name.c_str())), f(dup(tm->file.c_str())) {}
    ~OwnNames() { free(g); free(n); free(f); }
};
struct Shell : OwnNames, UtestShell {
    const TestM* t;
    Shell(const char* group, const TestM* tm) : OwnNames(group, tm), UtestShell(g, n, f, tm->line), t(tm) {}
    Utest* createTest() CPPUTEST_OVERRIDE { return new ScriptedTest(t); }
    TestResult* result() { return getTestResult(); }
};
struct IgnoredShell : OwnNames, IgnoredUtestShell {
    const TestM* t;
    IgnoredShell(const char* group, const TestM* tm) : OwnNames(group, tm), IgnoredUtestShell(g, n, f, tm->line), t(tm) {}
    Utest* createTest() CPPUTEST_OVERRIDE { return new ScriptedTest(t); }
    TestResult* result() { return getTestResult(); }
};
TestResult* current_result() {
    UtestShell* cur = UtestShell::getCurrent();
    if (Shell* a = dynamic_cast<Shell*>(cur)) return a->result();
    return static_cast<IgnoredShell*>(cur)->result();
}

// captured file system: one capture per fopen
struct Cap { std::string name, mode, data; bool open = true; int closes = 0; };
std::vector<std::unique_ptr<Cap>> g_files;
int g_stray_puts = 0, g_stray_close = 0;

Cap* find_cap(PlatformSpecificFile f) { for (auto& c : g_files) if (c.get() == f) return c.get(); return nullptr; }
PlatformSpecificFile cap_fopen(const char* name, const char* mode) {
    g_files.emplace_back(new Cap());
    g_files.back()->name = name ? name : "(null)"; g_files.back()->mode = mode ? mode : "(null)";
    return g_files.back().get();
}
size_t g_console_bytes = 0;
void cap_fputs(const char* s, PlatformSpecificFile f) {
    if (f == PlatformSpecificStdOut) { g_console_bytes += strlen(s); return; }   // the console half of -v / -vv
    Cap* c = find_cap(f);
    if (c && c->open) c->data += s; else g_stray_puts++;
}
void cap_fclose(PlatformSpecificFile f) {
    Cap* c = find_cap(f);
    if (c && c->open) { c->open = false; c->closes++; } else g_stray_close++;
}
void cap_flush() {}

// the scripted plugin: acts before / after the test it is told to
const TestM* model_of(const UtestShell& test) {
    if (const Shell* a = dynamic_cast<const Shell*>(&test)) return a->t;
    if (const IgnoredShell* b = dynamic_cast<const IgnoredShell*>(&test)) return b->t;
    return nullptr;
}
struct ScriptPlugin : TestPlugin {
    ScriptPlugin() : TestPlugin("verif-script") {}
    void act(UtestShell& test, TestResult& result, int when) {
        const TestM* t = model_of(test);
        if (!t) return;
        if (t->pluginKind[when] == 0) result.print(t->pluginText[when].c_str());
        if (t->pluginKind[when] == 1) { TestFailure f(&test, t->pluginText[when].c_str()); result.addFailure(f); }   // as MemoryLeakWarningPlugin reports
    }
    void preTestAction(UtestShell& test, TestResult& result) CPPUTEST_OVERRIDE { act(test, result, 0); }
    void postTestAction(UtestShell& test, TestResult& result) CPPUTEST_OVERRIDE { act(test, result, 1); }
};

void execute(const CaseM& c) {
    g_files.clear(); g_stray_puts = 0; g_stray_close = 0; g_console_bytes = 0;
    verif::fake_millis_value = 0;
    std::vector<std::unique_ptr<UtestShell>> shells;
    for (auto& g : c.groups)
        for (auto& t : g.tests) {
            if (t.ignored) shells.emplace_back(new IgnoredShell(g.name.c_str(), &t));
            else shells.emplace_back(new Shell(g.name.c_str(), &t));
        }
    TestRegistry reg;
    for (size_t i = shells.size(); i-- > 0;) reg.addTest(shells[i].get());   // addTest prepends
    ScriptPlugin plugin;
    reg.installPlugin(&plugin);
    if (c.viaRunner) {
        std::vector<std::string> args = {"harness", "-ojunit"};
        if (!c.package.empty()) { args.push_back("-k"); args.push_back(c.package); }
        for (int which = 0; which < 2; which++)
            for (auto& f : which == 0 ? c.groupFilters : c.nameFilters) {
                args.push_back(std::string(f.invert ? "-x" : "-") + (f.strict ? "s" : "") + (which == 0 ? "g" : "n"));
                args.push_back(f.value);
            }
        if (c.passes > 1) args.push_back("-r" + std::to_string(c.passes));
        if (c.runIgnored) args.push_back("-ri");
        if (c.reverse[0]) args.push_back("-b");
        if (c.verbose) args.push_back(c.verbose == 1 ? "-v" : "-vv");
        if (c.separateProcess) args.push_back("-p");
        std::vector<const char*> av;
        for (auto& a : args) av.push_back(a.c_str());
        {
            CommandLineTestRunner runner((int)av.size(), av.data(), &reg);   // the real runner creates the real JUnitTestOutput (and the composite for -v)
            runner.runAllTestsMain();
        }
        UtestShell::setRethrowExceptions(false);
        return;
    }
    JUnitTestOutput out;
    if (c.verbose) out.verbose(c.verbose == 1 ? TestOutput::level_verbose : TestOutput::level_veryVerbose);
    if (c.separateProcess) reg.setRunTestsInSeperateProcess();
    if (!c.package.empty()) out.setPackageName(c.package.c_str());
    if (c.runIgnored) reg.setRunIgnored();
    std::vector<std::unique_ptr<TestFilter>> filters;
    for (int which = 0; which < 2; which++) {
        TestFilter* head = NULLPTR;
        for (auto& f : which == 0 ? c.groupFilters : c.nameFilters) {
            filters.emplace_back(new TestFilter(f.value.c_str()));
            if (f.strict) filters.back()->strictMatching();
            if (f.invert) filters.back()->invertMatching();
            head = filters.back()->add(head);
        }
        if (which == 0) reg.setGroupFilters(head); else reg.setNameFilters(head);
    }
    for (uint32_t p = 0; p < c.passes; p++) {
        if (c.reverse[p]) reg.reverseTests();
        if (c.hasBanner[p]) out.print(c.banner[p].c_str());
        out.printTestRun(p + 1, c.passes);
        TestResult result(out);          // a fresh result per pass, the same output object
        reg.runAllTests(result);
    }
}

// ---------------------------------------------------------------- the judge: expat
struct Node {
    std::string name, text;
    std::vector<std::pair<std::string, std::string>> attrs;
    std::vector<Node*> kids;
    Node* parent = nullptr;
    const std::string* attr(const char* n) const { for (auto& a : attrs) if (a.first == n) return &a.second; return nullptr; }
    std::vector<const Node*> children(const char* n) const { std::vector<const Node*> v; for (auto k : kids) if (k->name == n) v.push_back(k); return v; }
};
struct Doc { std::deque<Node> arena; Node* root = nullptr; Node* cur = nullptr; int roots = 0; };

void XMLCALL on_start(void* ud, const XML_Char* name, const XML_Char** atts) {
    Doc* d = (Doc*)ud;
    d->arena.emplace_back();
    Node* n = &d->arena.back();
    n->name = name;
    for (int i = 0; atts[i]; i += 2) n->attrs.emplace_back(atts[i], atts[i + 1]);
    n->parent = d->cur;
    if (d->cur) d->cur->kids.push_back(n); else { d->root = n; d->roots++; }
    d->cur = n;
}
void XMLCALL on_end(void* ud, const XML_Char*) { Doc* d = (Doc*)ud; if (d->cur) d->cur = d->cur->parent; }
void XMLCALL on_text(void* ud, const XML_Char* s, int len) { Doc* d = (Doc*)ud; if (d->cur) d->cur->text.append(s, (size_t)len); }

bool parse_xml(const std::string& data, Doc& doc, std::string& err) {
    XML_Parser p = XML_ParserCreate(NULL);
    XML_SetHashSalt(p, 0x5eed);
    XML_SetUserData(p, &doc);
    XML_SetElementHandler(p, on_start, on_end);
    XML_SetCharacterDataHandler(p, on_text);
    bool ok = XML_Parse(p, data.data(), (int)data.size(), 1) != XML_STATUS_ERROR;
    if (!ok) err = sfmt("%s at line %lu column %lu", XML_ErrorString(XML_GetErrorCode(p)), (unsigned long)XML_GetCurrentLineNumber(p), (unsigned long)XML_GetCurrentColumnNumber(p));
    XML_ParserFree(p);
    return ok;
}

bool has_any(const std::string& s, const char* set) { return s.find_first_of(set) != std::string::npos; }
std::string P(const std::string& s) {
    if (s.size() <= 160) return verif::printable(s);
    return verif::printable(s.substr(0, 70)) + verif::sfmt("...(%zu chars)...", s.size()) + verif::printable(s.substr(s.size() - 40));
}
// where two texts part: lengths, position, and the surroundings of the first difference
std::string D(const std::string& got, const std::string& want) {
    size_t i = 0;
    while (i < got.size() && i < want.size() && got[i] == want[i]) i++;
    size_t from = i > 24 ? i - 24 : 0;
    return verif::sfmt("lengths %zu / %zu, first difference at offset %zu: got \"..%s\" expected \"..%s\"", got.size(), want.size(), i,
                       verif::printable(got.substr(from, 60)).c_str(), verif::printable(want.substr(from, 60)).c_str());
}

std::string expected_file_name(const CaseM& c, const GroupM& g) {
    std::string n = "cpputest_";
    if (!c.package.empty()) n += c.package + "_";
    n += g.name;
    for (auto& ch : n) if (strchr("/\\?%*:|\"<>", ch)) ch = '_';
    return n + ".xml";
}

std::string render(const CaseM& c) {
    std::string o = sfmt("%s%s", c.verbose ? (c.verbose == 1 ? "-v " : "-vv ") : "", c.separateProcess ? "-p " : "");
    for (uint32_t p = 0; p < c.passes; p++) if (c.hasBanner[p]) o += sfmt("before-pass-%u:print(\"%s\") ", p + 1, P(c.banner[p]).c_str());
    o += sfmt("package=\"%s\" runIgnored=%d passes=%u%s reverse=%d,%d,%d;", P(c.package).c_str(), c.runIgnored, c.passes, c.viaRunner ? " via CommandLineTestRunner" : "", c.reverse[0], c.reverse[1], c.reverse[2]);
    for (int which = 0; which < 2; which++)
        for (auto& f : which == 0 ? c.groupFilters : c.nameFilters)
            o += sfmt(" %s%s%s \"%s\"", f.invert ? "-x" : "-", f.strict ? "s" : "", which == 0 ? "g" : "n", P(f.value).c_str());
    for (auto& g : c.groups) {
        o += sfmt(" GROUP \"%s\" {", P(g.name).c_str());
        for (auto& t : g.tests) {
            o += sfmt(" %s(\"%s\" @\"%s\":%u", t.ignored ? "IGNORE_TEST" : "TEST", P(t.name).c_str(), P(t.file).c_str(), t.line);
            for (int w = 0; w < 2; w++) if (t.pluginKind[w] >= 0) o += sfmt(" plugin-%s:%s(\"%s\")", w ? "post" : "pre", t.pluginKind[w] ? "failure" : "print", P(t.pluginText[w]).c_str());
            for (int ph = 0; ph < 2; ph++)
                for (auto& s : ph == 0 ? t.body : t.teardown)
                    o += sfmt(" %s%s(\"%s\"%s)", ph ? "teardown:" : "", s.kind == 0 ? "print" : (s.kind == 1 ? "UT_PRINT" : (s.kind == 2 ? "FAIL" : "STRCMP_EQUAL")),
                              (s.kind == 3 ? P(s.text) + "\", \"" + P(s.op2) : P(s.text)).c_str(),
                              s.kind >= 2 ? sfmt(" @\"%s\":%u", P(s.file).c_str(), s.line).c_str() : "");
            o += ")";
        }
        o += " }";
    }
    return o;
}

// the comparison of one group's file with the model; returns 0 or a failure (sig chosen by the caller for markup names)
int judge_file(const CaseM& c, const GroupM& g, const std::vector<TestSim>& sims, const Cap& cap, const char* sigOverride) {
#define JF(cond, sig, ...) do { if (!(cond)) return verif::fail(sigOverride ? sigOverride : (sig), __VA_ARGS__); } while (0)
#define JN(cond, sig, ...) do { if (!(cond)) return verif::fail((sig), __VA_ARGS__); } while (0)   // not a consequence of unescaped attribute values
    Doc doc; std::string err;
    bool ok = parse_xml(cap.data, doc, err);
    if (!ok) {
        // show the offending line
        std::string line; { size_t ln = 1, i = 0; unsigned long want = 0; sscanf(err.c_str() + err.find("line ") + 5, "%lu", &want);
            for (; i < cap.data.size() && ln < want; i++) if (cap.data[i] == '\n') ln++;
            size_t e = cap.data.find('\n', i); line = cap.data.substr(i, e == std::string::npos ? std::string::npos : e - i);
            unsigned long col = 0; size_t cp = err.find("column "); if (cp != std::string::npos) sscanf(err.c_str() + cp + 7, "%lu", &col);
            if (line.size() > 200) line = ".." + line.substr(col > 80 ? col - 80 : 0, 160) + ".."; }
        JF(false, "C16:not-well-formed", "expat rejects %s (group \"%s\"): %s: %s", P(cap.name).c_str(), P(g.name).c_str(), err.c_str(), verif::printable(line).c_str());
    }
    const Node* suite = doc.root;
    JF(suite && suite->name == "testsuite", "C16:suite-element", "root element of %s is <%s>, expected <testsuite>", P(cap.name).c_str(), suite ? suite->name.c_str() : "");
    size_t nfailed = 0;
    for (auto& s : sims) if (!s.fails.empty()) nfailed++;
    const std::string* a;
    a = suite->attr("name");
    JF(a && *a == g.name, "C16:suite-name", "testsuite@name is \"%s\", group is \"%s\" (%s)", a ? P(*a).c_str() : "(absent)", P(g.name).c_str(), a ? D(*a, g.name).c_str() : "");
    a = suite->attr("tests");
    JN(a && *a == std::to_string(g.tests.size()), "C16:suite-tests", "testsuite@tests is \"%s\" for group \"%s\" with %zu tests", a ? P(*a).c_str() : "(absent)", P(g.name).c_str(), g.tests.size());
    a = suite->attr("failures");
    JN(a && *a == std::to_string(nfailed), "C16:suite-failures", "testsuite@failures is \"%s\" for group \"%s\" with %zu failed tests", a ? P(*a).c_str() : "(absent)", P(g.name).c_str(), nfailed);
    auto cases = suite->children("testcase");
    JN(cases.size() == g.tests.size(), "C16:testcase-count", "%zu <testcase> elements for group \"%s\" with %zu tests", cases.size(), P(g.name).c_str(), g.tests.size());
    std::string classname = c.package.empty() ? g.name : c.package + "." + g.name;
    for (size_t i = 0; i < cases.size(); i++) {
        const Node* tc = cases[i]; const TestM& t = g.tests[i]; const TestSim& s = sims[i];
        a = tc->attr("name");
        JF(a && *a == t.name, "C16:testcase-name", "testcase #%zu of group \"%s\": name \"%s\", expected \"%s\" (%s)", i, P(g.name).c_str(), a ? P(*a).c_str() : "(absent)", P(t.name).c_str(), a ? D(*a, t.name).c_str() : "");
        a = tc->attr("classname");
        JF(a && *a == classname, "C16:testcase-classname", "testcase \"%s\": classname \"%s\", expected \"%s\" (%s)", P(t.name).c_str(), a ? P(*a).c_str() : "(absent)", P(classname).c_str(), a ? D(*a, classname).c_str() : "");
        a = tc->attr("file");
        JF(a && *a == t.file, "C16:testcase-file", "testcase \"%s\": file \"%s\", expected \"%s\" (%s)", P(t.name).c_str(), a ? P(*a).c_str() : "(absent)", P(t.file).c_str(), a ? D(*a, t.file).c_str() : "");
        a = tc->attr("line");
        JN(a && *a == std::to_string(t.line), "C16:testcase-line", "testcase \"%s\": line \"%s\", expected %u", P(t.name).c_str(), a ? P(*a).c_str() : "(absent)", t.line);
        size_t nskip = tc->children("skipped").size();
        auto fl = tc->children("failure");
        bool wantSkip = !s.executed;
        JN(nskip == (wantSkip ? 1u : 0u), "C16:skipped-marker", "testcase \"%s\" (%s%s): %zu <skipped> elements, expected %d", P(t.name).c_str(),
           t.ignored ? "IGNORE_TEST" : "TEST", c.runIgnored ? ", run-ignored" : "", nskip, wantSkip ? 1 : 0);
        JN(fl.size() == (s.fails.empty() ? 0u : 1u), "C16:failure-element", "testcase \"%s\" with %zu failures: %zu <failure> elements", P(t.name).c_str(), s.fails.size(), fl.size());
        if (!fl.empty()) {
            const FailM& f = s.fails[0];
            // a failure produced by a real check: the text the framework handed to the output is the original.  It contains tabs
            // ("\n\tbut was"), which are outside the statement's alphabet: a parser turns a literal tab in an attribute into a space.
            std::string text = f.msg;
            if (f.natural) {
                UtestShell any("g", "n", "f", 1);
                text = StringEqualFailure(&any, f.file.c_str(), f.line, f.msg.c_str(), f.op2.c_str(), "").getMessage().asCharString();
            }
            std::string want = f.file + ":" + std::to_string(f.line) + ": " + text;
            a = fl[0]->attr("message");
            std::string got = a ? *a : "";
            if (f.natural) { for (auto& ch : want) if (ch == '\t') ch = ' '; for (auto& ch : got) if (ch == '\t') ch = ' '; }
            JF(a && got == want, "C16:failure-message", "testcase \"%s\": failure message decodes to \"%s\", expected \"%s\" (%s)", P(t.name).c_str(), a ? P(got).c_str() : "(absent)", P(want).c_str(),
               D(got, want).c_str());
        }
    }
    auto so = suite->children("system-out");
    bool anyPrint = false;
    for (auto& s : sims) for (auto& p : s.prints) if (!p.empty()) anyPrint = true;
    JN(so.size() == 1 || (so.empty() && !anyPrint), "C16:system-out", "%zu <system-out> elements in %s", so.size(), P(cap.name).c_str());
    if (!so.empty()) {
        const std::string& text = so[0]->text;
        size_t pos = 0;
        for (size_t i = 0; i < sims.size(); i++)
            for (auto& p : sims[i].prints) {
                if (p.empty()) continue;
                size_t at = text.find(p, pos);
                JN(at != std::string::npos, "C16:system-out", "text \"%s\" printed by test \"%s\" of group \"%s\" does not occur (in order) in the decoded <system-out> \"%s\"",
                   P(p).c_str(), P(g.tests[i].name).c_str(), P(g.name).c_str(), P(text).c_str());
                pos = at + p.size();
            }
    }
    return 0;
#undef JF
#undef JN
}

struct Verdict { bool nontrivial = false; };

int run_and_judge(const CaseM& c, bool useKnown, Verdict& v) {
    std::vector<std::vector<TestSim>> sims;
    size_t groupsWithFailure = 0; bool markupSeen = false;
    const char* MARK = "&<>\"'";
    if (has_any(c.package, MARK)) markupSeen = true;
    for (auto& g : c.groups) {
        sims.emplace_back();
        bool gf = false;
        if (has_any(g.name, MARK)) markupSeen = true;
        for (auto& t : g.tests) {
            sims.back().push_back(simulate(c, t));
            auto& s = sims.back().back();
            if (has_any(t.name, MARK) || has_any(t.file, MARK)) markupSeen = true;
            for (auto& f : s.fails) if (has_any(f.file, MARK) || has_any(f.msg, "&<>\"'\r\n")) markupSeen = true;
            if (!s.fails.empty()) gf = true;
            verif::cls(!s.executed ? "test:ignored" : (s.fails.empty() ? "test:pass" : (s.fails.size() > 1 ? "test:fail-twice" : "test:fail")));
            if (t.ignored && c.runIgnored) verif::cls("test:ignored-but-run");
            if (t.name.empty()) { verif::cls("empty-test-name"); if (t.ignored) verif::cls("empty-test-name:IGNORE_TEST"); if (!s.fails.empty()) verif::cls("empty-test-name:failing"); }
        }
        if (gf) groupsWithFailure++;
    }
    v.nontrivial = markupSeen || groupsWithFailure >= 2;
    {
        bool high = false;
        auto hb = [&](const std::string& x) { for (unsigned char ch : x) if (ch >= 0x80) high = true; };
        hb(c.package);
        for (size_t gi = 0; gi < c.groups.size(); gi++) { hb(c.groups[gi].name); for (size_t ti = 0; ti < c.groups[gi].tests.size(); ti++) { hb(c.groups[gi].tests[ti].name); hb(c.groups[gi].tests[ti].file); for (auto& f : sims[gi][ti].fails) { hb(f.file); hb(f.msg); } for (auto& pr : sims[gi][ti].prints) hb(pr); } }
        if (high) verif::cls("non-ASCII-UTF-8-in-a-value");
    }
    {
        size_t idx = 0, longest = c.package.size();
        for (size_t gi = 0; gi < c.groups.size(); gi++) {
            longest = std::max(longest, c.groups[gi].name.size());
            for (size_t ti = 0; ti < c.groups[gi].tests.size(); ti++) {
                const TestM& t = c.groups[gi].tests[ti];
                longest = std::max(longest, std::max(t.name.size(), t.file.size()));
                for (auto& f : sims[gi][ti].fails) {
                    f.index = idx++;
                    longest = std::max(longest, std::max(f.file.size(), std::max(f.msg.size(), f.op2.size())));
                    if (f.natural) verif::cls("failure:natural-STRCMP");
                }
                for (auto& p : sims[gi][ti].prints) longest = std::max(longest, p.size());
            }
        }
        verif::cls(longest >= 4096 ? "longest-string:4096+" : (longest >= 512 ? "longest-string:512..4095" : (longest >= 128 ? "longest-string:128..511" : (longest >= 64 ? "longest-string:64..127" : "longest-string:<64"))));
    }
    verif::cls(sfmt("groups:%zu", c.groups.size()).c_str());
    if (!c.package.empty()) verif::cls("package");
    if (groupsWithFailure >= 2) verif::cls("failures-in-2+-groups");

    verif::cls(sfmt("passes:%u%s", c.passes, c.viaRunner ? "-via-CommandLineTestRunner" : "").c_str());
    if (c.verbose) verif::cls(c.verbose == 1 ? "verbose:-v" : "verbose:-vv");
    if (c.separateProcess) verif::cls("separate-process");
    for (auto& g : c.groups) for (auto& t : g.tests) for (int w = 0; w < 2; w++)
        if (t.pluginKind[w] >= 0) verif::cls(sfmt("plugin:%s-action-%s", w ? "post" : "pre", t.pluginKind[w] ? "records-failure" : "prints").c_str());

    execute(c);

    V_CHECK(g_stray_puts == 0 && g_stray_close == 0, "C16:file-io-protocol", "%d writes and %d closes on a file that is not open", g_stray_puts, g_stray_close);
    bool sameName = false;
    bool reversed = false;
    size_t failIndex = 0;
    size_t fileIndex = 0;      // next captured file
    bool filtering = !c.groupFilters.empty() || !c.nameFilters.empty();
    if (filtering) verif::cls(sfmt("filters:%zu-group-%zu-name", c.groupFilters.size(), c.nameFilters.size()).c_str());
    // the file system keeps the last content written under a name: the names of the reports of groups that ran (>= 1 selected test)
    std::vector<std::pair<std::string, const GroupM*>> ranNames;
    for (auto& g : c.groups) { bool ran = false; for (auto& t : g.tests) if (selected(c, g.name, t)) ran = true; if (ran) ranNames.emplace_back(expected_file_name(c, g), &g); }
    for (uint32_t pass = 0; pass < c.passes; pass++) {
        // the order of this pass: a reversal turns the whole list round (groups stay consecutive)
        if (c.reverse[pass] && (!c.viaRunner || pass == 0)) { reversed = !reversed; verif::cls("order:reversed-before-a-pass"); }
        std::vector<GroupM> order(c.groups);
        if (reversed) { std::reverse(order.begin(), order.end()); for (auto& g : order) std::reverse(g.tests.begin(), g.tests.end()); }
        // filtered-out tests are not part of the run; a group none of whose tests is selected is handled below
        std::vector<bool> deselected(order.size(), false);
        if (filtering)
            for (size_t k = 0; k < order.size(); k++) {
                std::vector<TestM> keep;
                for (auto& t : order[k].tests) if (selected(c, order[k].name, t)) keep.push_back(t);
                if (pass == 0) verif::cls(keep.empty() ? "filters:whole-group-deselected" : (keep.size() == order[k].tests.size() ? "filters:whole-group-selected" : "filters:group-partly-selected"));
                deselected[k] = keep.empty();
                order[k].tests.swap(keep);
            }
        std::vector<std::vector<TestSim>> psims;
        for (auto& g : order) {
            psims.emplace_back();
            for (auto& t : g.tests) { psims.back().push_back(simulate(c, t)); for (auto& f : psims.back().back().fails) f.index = failIndex++; }
        }
        // a text printed through the output before the pass belongs to the captured output of the pass's first report
        if (!c.viaRunner && c.hasBanner[pass] && !c.banner[pass].empty())
            for (size_t k = 0; k < order.size(); k++) if (!deselected[k]) { psims[k][0].prints.insert(psims[k][0].prints.begin(), c.banner[pass]); verif::cls("print:before-a-pass"); break; }
        for (size_t k = 0; k < order.size(); k++) {
            const GroupM& g = order[k];
            if (deselected[k]) {
                // C16 does not say what a group without a selected test has to produce: nothing, or one well-formed report without
                // any testcase (the unchanged tree writes cpputest_[package_].xml with name="" tests="0"); its name and counts are not judged
                if (fileIndex < g_files.size()) {
                    const Cap& ec = *g_files[fileIndex];
                    Doc ed; std::string eerr;
                    bool wf = !ec.open && ec.closes == 1 && parse_xml(ec.data, ed, eerr);
                    if (wf && ed.root && ed.root->children("testcase").empty()) {
                        // ... but never under the name of a group that ran: that would replace its report on disk by an empty one
                        for (auto& rn : ranNames)
                            V_CHECK(rn.first != ec.name, "C16:report-overwritten", "pass %u: the group \"%s\", none of whose tests is selected, wrote an empty report (tests=\"%s\") to \"%s\", "
                                    "the report of group \"%s\" that ran: what is left on disk under that name states no test", pass + 1, P(g.name).c_str(),
                                    ed.root->attr("tests") ? ed.root->attr("tests")->c_str() : "?", P(ec.name).c_str(), P(rn.second->name).c_str());
                        fileIndex++; verif::cls("deselected-group:report-without-testcase");
                    }
                }
                continue;
            }
            V_CHECK(fileIndex < g_files.size(), "C16:file-count", "pass %u: no file for group \"%s\" (%zu files opened in all)", pass + 1, P(g.name).c_str(), g_files.size());
            const Cap& cap = *g_files[fileIndex++];
            std::string want = expected_file_name(c, g);
            V_CHECK(cap.name == want, "C16:file-name", "pass %u file #%zu is named \"%s\"; group \"%s\" package \"%s\" should give \"%s\" (%s)", pass + 1, k, P(cap.name).c_str(), P(g.name).c_str(), P(c.package).c_str(), P(want).c_str(), D(cap.name, want).c_str());
            V_CHECK(!cap.open && cap.closes == 1, "C16:file-not-closed", "file \"%s\" closed %d times", P(cap.name).c_str(), cap.closes);
            if (pass == 0) for (size_t j = 0; j + 1 < fileIndex; j++) if (g_files[j]->name == cap.name) sameName = true;
            // strings that the writer places inside attribute values
            bool markupNames = has_any(c.package, "&<\"") || has_any(g.name, "&<\"");
            for (size_t i = 0; i < g.tests.size(); i++) {
                if (has_any(g.tests[i].name, "&<\"") || has_any(g.tests[i].file, "&<\"")) markupNames = true;
                if (!psims[k][i].fails.empty() && has_any(psims[k][i].fails[0].file, "&<\"")) markupNames = true;
            }
            if (markupNames) {
                verif::cls("group:markup-in-attribute-strings");
                if (useKnown && verif::known(KEY_ATTR)) continue;   // known finding: such a file is not judged
            } else verif::cls("group:judged-clean-names");
            if (judge_file(c, g, psims[k], cap, markupNames ? KEY_ATTR : nullptr)) {
                if (c.passes > 1) verif::g_fail_msg = sfmt("[pass %u of %u] ", pass + 1, c.passes) + verif::g_fail_msg;
                return 1;
            }
        }
    }
    V_CHECK(fileIndex == g_files.size(), "C16:file-count", "%zu files opened, %zu belong to the groups of the %u passes (next unexpected: \"%s\")", g_files.size(), fileIndex, c.passes,
            fileIndex < g_files.size() ? P(g_files[fileIndex]->name).c_str() : "");
    if (sameName) verif::cls("two-groups-same-file-name");
    return 0;
}

}  // namespace

extern "C" const char* verif_property(void) { return "C16"; }
extern "C" void verif_init(void) {
    verif::install_fake_time();
    PlatformSpecificFOpen = cap_fopen;
    PlatformSpecificFPuts = cap_fputs;
    PlatformSpecificFClose = cap_fclose;
    PlatformSpecificFlush = cap_flush;
}
extern "C" int verif_case(const uint8_t* data, size_t size) {
    Reader r(data, size);
    CaseM c = decode(r);
    if (verif::g_explain) fprintf(stderr, "case: %s\n", render(c).c_str());
    Verdict v;
    int rc = run_and_judge(c, true, v);
    if (verif::g_explain) for (auto& f : g_files) fprintf(stderr, "---- %s ----\n%s", f->name.c_str(), f->data.c_str());
    g_files.clear();
    verif::note_case(v.nontrivial, r.h, [&] { return render(c); });
    return rc;
}
extern "C" int verif_known_repro(const char* key) {
    if (std::string(key) != KEY_ATTR) return -1;
    // one group whose name carries an ampersand, one passing test
    CaseM c; GroupM g; TestM t;
    g.name = "grp&<"; t.name = "t"; t.file = "f.cpp"; t.line = 3;
    g.tests.push_back(t); c.groups.push_back(g);
    bool was = verif::g_counting; verif::g_counting = false;
    Verdict v;
    int rc = run_and_judge(c, false, v);
    verif::g_counting = was;
    g_files.clear();
    if (rc) fprintf(stderr, "reproduced: %s\n", verif::g_fail_msg.c_str());
    return rc ? 1 : 0;
}
