// C19 — the C mocking interface mock_c() behaves exactly like the C++ one mock().
// Decoder: bytes -> a scenario in an abstract IR (vector<Stmt>): expectations (every parameter type, counts, return
//          values of every type, output parameters, custom types), actual calls (parameter order, every getter incl.
//          OrDefault and generic returnValue), support-level getters, data store, scopes, strict order,
//          ignore/enable/disable, comparators/copiers (three function sets, re-installed on the global mock and on scopes), checkExpectations, expectedCallsLeft, clear, crashOnFailure;
//          values from boundary lattices; a passing scenario or one with exactly one injected deviation.
// Oracle:  differential.  Interpreter A drives mock(), interpreter B drives mock_c(); each is the body of one fixture test
//          (private TestResult / StringBufferTestOutput).  Compared: the per-statement trace (every returned value with its
//          type tag, data-store reads, expectedCallsLeft, output bytes), failure count, check count, the complete output
//          text of the fixture (NOTHING is normalised: the failing location is the fixture test / MockNamedValue.cpp on both
//          sides), the final bytes of every output buffer and the number of crash-hook invocations.
//          The only value normalisation: a C "bool" coming back from returnBoolValueOrDefault is compared by truthiness
//          (C hands the caller's int default back unchanged; C++ takes a bool).
#include "common.h"
#include "CppUTestExt/MockSupport.h"
#include "CppUTestExt/MockSupport_c.h"
#include <limits.h>
#include <float.h>
#include <math.h>
#include <algorithm>

#if defined(__has_feature)
#if __has_feature(address_sanitizer)
#include <sanitizer/asan_interface.h>
#define C19_POISONED(p) (__asan_address_is_poisoned(p) != 0)
#endif
#endif
#ifndef C19_POISONED
#define C19_POISONED(p) false
#endif

using verif::Reader;
using verif::sfmt;

namespace {

const char* const K_STATIC = "C19:support-getter-reads-static-actual-call";
const char* const K_REMOVE = "C19:remove-comparators-frees-nodes-still-referenced";
const char* const K_HANDLE = "C19:call-handle-hasReturnValue-reads-current-support";

// ---------------------------------------------------------------------------------------------------------------------
// value domain
enum VT { T_BOOL, T_INT, T_UINT, T_LONG, T_ULONG, T_LLONG, T_ULLONG, T_DOUBLE, T_STRING, T_PTR, T_CPTR, T_FPTR, T_MEMBUF, T_OBJ, T_N };
const char* const VT_NAME[T_N] = {"bool", "int", "uint", "long", "ulong", "llong", "ullong", "double", "string", "ptr", "cptr", "fptr", "membuf", "obj"};
const int N_RET_TYPES = 12;   // return values / getters: everything up to T_FPTR

const char* const SCOPES[3] = {"", "s1", "s2"};
const char* const FNAMES[3] = {"f", "g", "h"};
const char* const PNAMES[4] = {"p0", "p1", "p2", "q"};
const char* const DNAMES[2] = {"d0", "d1"};
const char* const OTYPES[3] = {"T", "U", "V"};   // T, U: comparator and copier available to install; V: never
// type names for data-store objects: custom ones plus every built-in type string (exercises the tag mapping of getData_c)
const char* const DTYPES[] = {"T", "MyType", "int", "unsigned int", "long int", "unsigned long int", "long long int", "unsigned long long int",
                              "double", "const char*", "void*", "const void*", "void (*)()", "const unsigned char*", "bool", "MockSupport"};

// further custom type names, used wherever a custom type name occurs (data-store objects, parameters of type, output parameters of
// type, comparator / copier installation): names that have a built-in type name as a proper prefix, names that are a proper prefix
// of one, names that differ from one only in case or spacing, and the empty name.  All of them are OBJECT types for both interfaces.
const char* const XTYPES[] = {"int32_t", "intptr", "const char**", "void**", "double_vec3", "bool_flags", "unsigned int*", "long int long", "const void*const",
                              "cons", "unsigned", "long", "const unsigned char", "Int", "const  char*", "", "void (*)()x", "long long int64", "unsigned long int ",
                              "const unsigned char*[]", "unsigned long long int*", "boolean", "in"};
const size_t N_XTYPES = sizeof XTYPES / sizeof XTYPES[0];

const long long BOOLS[] = {0, 1, 2, -1, 256, INT_MIN};
const long long INTS[] = {0, 1, -1, 2, 127, 255, 256, 65535, INT_MAX, INT_MIN, INT_MAX - 1, -2};
const unsigned long long UINTS[] = {0, 1, 2, 255, 65536, (unsigned)INT_MAX, (unsigned)INT_MAX + 1u, UINT_MAX, UINT_MAX - 1};
const long long LONGS[] = {0, 1, -1, INT_MAX, (long long)INT_MAX + 1, INT_MIN, (long long)INT_MIN - 1, UINT_MAX, (long long)UINT_MAX + 1, LLONG_MAX, LLONG_MIN, -2};
const unsigned long long ULONGS[] = {0, 1, INT_MAX, (unsigned long long)INT_MAX + 1, UINT_MAX, (unsigned long long)UINT_MAX + 1, LLONG_MAX, (unsigned long long)LLONG_MAX + 1, ULLONG_MAX};
const double DBLS[] = {0.0, -0.0, 1.0, -1.0, 1.004, 1.005, 1.0051, 0.30000000000000004, 0.3, 1e-310, DBL_MIN, DBL_MAX, -DBL_MAX, (double)INFINITY, -(double)INFINITY, (double)NAN, 4294967296.0, 1e15 + 0.3};
const double TOLS[] = {0.005, 0.0, 0.01, 1.0, (double)INFINITY, (double)NAN, -1.0, 1e-300};

char S_a[] = "a", S_hello1[] = "hello", S_hello2[] = "hello", S_Hello[] = "Hello", S_hello_sp[] = "hello ", S_tab[] = "tab\there", S_bin[] = "\x01\xff<>", S_empty[] = "",
     S_long[] = "0123456789012345678901234567890123456789012345678901234567890123456789012345678901234567890123456789012345678901234567890123456789";
const char* const STRS[] = {S_empty, S_a, S_hello1, S_hello2, S_Hello, S_hello_sp, S_tab, S_bin, S_long, NULLPTR};
const size_t N_STRS = sizeof STRS / sizeof STRS[0];
bool in_string_pool(const char* p) { for (size_t i = 0; i < N_STRS; i++) if (STRS[i] && p == STRS[i]) return true; return false; }

char g_blob[64];
void* const PTRS[] = {NULLPTR, (void*)1, (void*)g_blob, (void*)(g_blob + 1), (void*)0xdeadbeefUL, (void*)~0UL};

extern "C" {
static void fn_a(void) {}
static void fn_b(void) {}
}
typedef void (*fptr_t)();
fptr_t const FPTRS[] = {NULLPTR, (fptr_t)fn_a, (fptr_t)fn_b};

unsigned char MB0[8] = {1, 2, 3, 4, 5, 6, 7, 8}, MB1[8] = {1, 2, 3, 4, 5, 6, 7, 8}, MB2[8] = {1, 2, 3, 4, 5, 6, 7, 9}, MB3[8] = {0, 0, 0, 0, 0, 0, 0, 0}, MB4[8] = {0xff, 0x80, 0x7f, 0, 1, 0xfe, 0x10, 0xaa};
struct MemBuf { const unsigned char* p; size_t n; };
const MemBuf MEMBUFS[] = {{NULLPTR, 0}, {MB0, 0}, {MB0, 1}, {MB0, 4}, {MB0, 8}, {MB1, 8}, {MB2, 8}, {MB2, 4}, {MB3, 8}, {MB4, 8}, {MB4, 3}};

struct Obj { int key; int payload; };
Obj OBJS[4] = {{1, 10}, {1, 11}, {2, 20}, {-1, 0}};
const void* const OBJP[] = {&OBJS[0], &OBJS[1], &OBJS[2], &OBJS[3], NULLPTR};

unsigned char OUT[4][16];
void reset_out() { memset(OUT, 0xAA, sizeof OUT); }
std::string hex(const unsigned char* p, size_t n) { std::string o; for (size_t i = 0; i < n; i++) o += sfmt("%02x", p[i]); return o; }

// custom types: the type names T and U can be served by any of three distinguishable function sets, and can be (re-)installed
// several times, on the global mock and on scopes:
//   set 0 ("A"): equal when the keys are equal;                 copier copies the whole object
//   set 1 ("B"): equal when the payloads are equal;             copier copies the key only
//   set 2 ("C"): equal when key and payload are equal;          copier stores the two fields swapped
// all are NULL-safe; the valueToString texts differ per set.
const int N_FSETS = 3;
bool obj_equal(int set, const void* a, const void* b) {
    if (a == NULLPTR || b == NULLPTR) return a == b;
    const Obj* x = (const Obj*)a; const Obj* y = (const Obj*)b;
    if (set == 0) return x->key == y->key;
    if (set == 1) return x->payload == y->payload;
    return x->key == y->key && x->payload == y->payload;
}
void obj_print(int set, const void* a, char* buf, size_t n) {
    static const char* const f[3] = {"A{key=%d,payload=%d}", "B<%d|%d>", "C(k%d p%d)"};
    if (a == NULLPTR) snprintf(buf, n, "%c-null", 'A' + set);
    else snprintf(buf, n, f[set], ((const Obj*)a)->key, ((const Obj*)a)->payload);
}
void obj_copy(int set, void* dst, const void* src) {
    if (!dst || !src) return;
    const Obj* x = (const Obj*)src; Obj o;
    if (set == 0) memcpy(dst, src, sizeof(Obj));
    else if (set == 1) memcpy(dst, &x->key, sizeof x->key);
    else { o.key = x->payload; o.payload = x->key; memcpy(dst, &o, sizeof o); }
}

extern "C" {
static int c_eq0(const void* a, const void* b) { return obj_equal(0, a, b) ? 1 : 0; }
static int c_eq1(const void* a, const void* b) { return obj_equal(1, a, b) ? 7 : 0; }   // any non-zero means equal
static int c_eq2(const void* a, const void* b) { return obj_equal(2, a, b) ? -1 : 0; }
static const char* c_str0(const void* a) { static char buf[64]; obj_print(0, a, buf, sizeof buf); return buf; }
static const char* c_str1(const void* a) { static char buf[64]; obj_print(1, a, buf, sizeof buf); return buf; }
static const char* c_str2(const void* a) { static char buf[64]; obj_print(2, a, buf, sizeof buf); return buf; }
static void c_copy0(void* d, const void* s) { obj_copy(0, d, s); }
static void c_copy1(void* d, const void* s) { obj_copy(1, d, s); }
static void c_copy2(void* d, const void* s) { obj_copy(2, d, s); }
}
MockTypeEqualFunction_c const C_EQ[N_FSETS] = {c_eq0, c_eq1, c_eq2};
MockTypeValueToStringFunction_c const C_STR[N_FSETS] = {c_str0, c_str1, c_str2};
MockTypeCopyFunction_c const C_COPY[N_FSETS] = {c_copy0, c_copy1, c_copy2};
bool cpp_eq0(const void* a, const void* b) { return obj_equal(0, a, b); }
bool cpp_eq1(const void* a, const void* b) { return obj_equal(1, a, b); }
bool cpp_eq2(const void* a, const void* b) { return obj_equal(2, a, b); }
SimpleString cpp_str0(const void* a) { char buf[64]; obj_print(0, a, buf, sizeof buf); return SimpleString(buf); }
SimpleString cpp_str1(const void* a) { char buf[64]; obj_print(1, a, buf, sizeof buf); return SimpleString(buf); }
SimpleString cpp_str2(const void* a) { char buf[64]; obj_print(2, a, buf, sizeof buf); return SimpleString(buf); }
void cpp_copy0(void* d, const void* s) { obj_copy(0, d, s); }
void cpp_copy1(void* d, const void* s) { obj_copy(1, d, s); }
void cpp_copy2(void* d, const void* s) { obj_copy(2, d, s); }
MockFunctionComparator* g_cmp[N_FSETS]; MockFunctionCopier* g_cop[N_FSETS];

struct Val {
    VT t = T_INT;
    long long i = 0; unsigned long long u = 0;
    double d = 0, tol = 0; bool useTol = false;
    const char* s = S_empty; void* p = NULLPTR; fptr_t fp = NULLPTR;
    const unsigned char* mb = NULLPTR; size_t mbn = 0;
    const char* otype = "T"; const void* obj = NULLPTR;
};

unsigned long long dbits(double d) { unsigned long long b; memcpy(&b, &d, 8); return b; }

std::string val_str(const Val& v) {
    switch (v.t) {
    case T_BOOL: return sfmt("bool(%lld)", v.i);
    case T_INT: return sfmt("int(%d)", (int)v.i);
    case T_UINT: return sfmt("uint(%u)", (unsigned)v.u);
    case T_LONG: return sfmt("long(%ld)", (long)v.i);
    case T_ULONG: return sfmt("ulong(%lu)", (unsigned long)v.u);
    case T_LLONG: return sfmt("llong(%lld)", v.i);
    case T_ULLONG: return sfmt("ullong(%llu)", v.u);
    case T_DOUBLE: return v.useTol ? sfmt("double(%.17g~%g)", v.d, v.tol) : sfmt("double(%.17g)", v.d);
    case T_STRING: return v.s ? sfmt("str@%p(\"%s\")", (const void*)v.s, verif::printable(std::string(v.s).substr(0, 12)).c_str()) : std::string("str(NULL)");
    case T_PTR: return sfmt("ptr(%p)", v.p);
    case T_CPTR: return sfmt("cptr(%p)", v.p);
    case T_FPTR: return sfmt("fptr(%p)", (void*)v.fp);
    case T_MEMBUF: return sfmt("membuf(%p,%zu)", (const void*)v.mb, v.mbn);
    case T_OBJ: return sfmt("obj<%s>(%p)", v.otype, v.obj);
    default: return "?";
    }
}

// one byte: values below 128 select from the pool the earlier decoder versions used (same index as before), the others from XTYPES
const char* pick_type(Reader& r, const char* const* old, size_t nold) {
    uint32_t b = r.below(256);
    return b < 128 ? old[b % nold] : XTYPES[(b - 128) % N_XTYPES];
}

Val gen_val(Reader& r, VT t) {
    Val v; v.t = t;
    bool rnd = r.below(8) == 7;
    switch (t) {
    case T_BOOL: v.i = r.pick(BOOLS); break;
    case T_INT: v.i = rnd ? (long long)(int)r.u32() : r.pick(INTS); break;
    case T_UINT: v.u = rnd ? (unsigned long long)r.u32() : r.pick(UINTS); break;
    case T_LONG: case T_LLONG: v.i = rnd ? (long long)r.u64() : r.pick(LONGS); break;
    case T_ULONG: case T_ULLONG: v.u = rnd ? r.u64() : r.pick(ULONGS); break;
    case T_DOUBLE: v.d = r.pick(DBLS); if (r.below(3) == 1) { v.useTol = true; v.tol = r.pick(TOLS); } break;
    case T_STRING: v.s = STRS[r.below((uint32_t)N_STRS)]; break;
    case T_PTR: case T_CPTR: v.p = r.pick(PTRS); break;
    case T_FPTR: v.fp = r.pick(FPTRS); break;
    case T_MEMBUF: { const MemBuf& m = r.pick(MEMBUFS); v.mb = m.p; v.mbn = m.n; break; }
    case T_OBJ: v.otype = r.below(8) == 7 ? OTYPES[2] : pick_type(r, OTYPES, 2); v.obj = r.pick(OBJP); break;
    default: break;
    }
    return v;
}

bool is_int_type(VT t) { return t >= T_INT && t <= T_ULLONG; }
bool is_signed(VT t) { return t == T_INT || t == T_LONG || t == T_LLONG; }
// numeric value of an integer Val as (negative?, magnitude-preserving) pair
bool fits(VT t, bool neg, long long sv, unsigned long long uv) {
    switch (t) {
    case T_INT: return neg ? sv >= INT_MIN : uv <= (unsigned long long)INT_MAX;
    case T_UINT: return !neg && uv <= UINT_MAX;
    case T_LONG: case T_LLONG: return neg ? true : uv <= (unsigned long long)LLONG_MAX;
    case T_ULONG: case T_ULLONG: return !neg;
    default: return false;
    }
}
// the same value expressed differently (another integer type, another pointer to equal text, a double inside the tolerance)
Val eq_variant(Reader& r, const Val& v) {
    Val o = v;
    if (is_int_type(v.t)) {
        bool neg = is_signed(v.t) && v.i < 0;
        long long sv = is_signed(v.t) ? v.i : (long long)v.u;
        unsigned long long uv = is_signed(v.t) ? (unsigned long long)v.i : v.u;
        VT nt = (VT)(T_INT + r.below(6));
        if (fits(nt, neg, sv, uv)) { o.t = nt; o.i = sv; o.u = uv; }
    } else if (v.t == T_STRING) {
        if (v.s == S_hello1) o.s = S_hello2; else if (v.s == S_hello2) o.s = S_hello1;
    } else if (v.t == T_DOUBLE) {
        if (!v.useTol && std::isfinite(v.d) && fabs(v.d) < 1e6) o.d = v.d + 0.004;
    } else if (v.t == T_MEMBUF) {
        if (v.mb == MB0 && v.mbn == 8) o.mb = MB1;
    } else if (v.t == T_OBJ) {
        if (v.obj == &OBJS[0] && v.otype[0] == 'T') o.obj = &OBJS[1];   // same key: equal under function set A only
    }
    return o;
}
// a value of the same type that must not match
Val diff_variant(const Val& v) {
    Val o = v;
    switch (v.t) {
    case T_BOOL: o.i = v.i ? 0 : 1; break;
    case T_INT: o.i = v.i == INT_MAX ? 0 : v.i + 1; break;
    case T_LONG: case T_LLONG: o.i = v.i == LLONG_MAX ? 0 : v.i + 1; break;
    case T_UINT: o.u = v.u >= UINT_MAX ? 0 : v.u + 1; break;
    case T_ULONG: case T_ULLONG: o.u = v.u == ULLONG_MAX ? 0 : v.u + 1; break;
    case T_DOUBLE: o.d = std::isfinite(v.d) && fabs(v.d) < 1e100 ? v.d + 3.0 : 0.0; o.useTol = false; break;
    case T_STRING: o.s = (v.s && strcmp(v.s, "a") == 0) ? S_hello1 : S_a; break;
    case T_PTR: case T_CPTR: o.p = v.p == (void*)g_blob ? (void*)1 : (void*)g_blob; break;
    case T_FPTR: o.fp = v.fp == (fptr_t)fn_a ? (fptr_t)fn_b : (fptr_t)fn_a; break;
    case T_MEMBUF: if (v.mb == MB4) { o.mb = MB0; o.mbn = 8; } else { o.mb = MB4; o.mbn = 8; } break;
    case T_OBJ: o.obj = v.obj == &OBJS[2] ? (const void*)&OBJS[3] : (const void*)&OBJS[2]; break;
    default: break;
    }
    return o;
}

// ---------------------------------------------------------------------------------------------------------------------
// IR
enum Op { OP_EXPECT, OP_ACTUAL, OP_SGET, OP_SETDATA, OP_GETDATA, OP_STRICT, OP_DISABLE, OP_ENABLE, OP_IGNORE_OTHER, OP_CHECK, OP_LEFT,
          OP_CLEAR, OP_INST_CMP, OP_INST_COPY, OP_REMOVE_ALL, OP_CRASH,
          OP_LATE };   // use of the handle of the most recent actual call WITHOUT selecting a mock first: late parameters and / or a getter
enum { EA_IN, EA_OUT_RET, EA_OUT_TYPE_RET, EA_UNMOD, EA_IGNORE_OTHERS, EA_RETURN };   // expectation modifiers
enum { AA_IN, AA_OUT, AA_OUT_TYPE };                                                    // actual-call modifiers
enum { G_NONE, G_HAS, G_GENERIC, G_TYPED, G_DEFAULT };
struct Arg { uint8_t kind = 0; const char* name = "p0"; Val v; int out = 0; };
struct Getter { uint8_t kind = G_NONE; VT t = T_INT; Val def; };
struct Stmt {
    Op op = OP_CHECK; int scope = 0; bool viaScopeFn = false;
    const char* name = "f";            // function / data / type name
    uint8_t ekind = 0; unsigned n = 1; // expectation: 0 expectOneCall, 1 expectNCalls(n), 2 expectNoCall
    std::vector<Arg> args; Getter g;
    uint8_t dkind = 0; Val v;          // data store: 0..7 typed setters, 8 object, 9 const object
    uint8_t fset = 0;                  // installComparator / installCopier: which of the three function sets
    bool flag = false;
};

const char* getter_name(const Getter& g) { static const char* k[] = {"", "hasReturnValue", "returnValue", "typed", "orDefault"}; return k[g.kind]; }
std::string stmt_str(const Stmt& s) {
    std::string o = s.scope == 0 ? (s.viaScopeFn ? "mock(\"\")" : "mock()") : sfmt("mock(\"%s\")", SCOPES[s.scope]);
    auto gs = [&](const Getter& g) {
        if (g.kind == G_NONE) return std::string();
        if (g.kind == G_TYPED) return sfmt(".get<%s>()", VT_NAME[g.t]);
        if (g.kind == G_DEFAULT) return sfmt(".get<%s>OrDefault(%s)", VT_NAME[g.t], val_str(g.def).c_str());
        return sfmt(".%s()", getter_name(g));
    };
    switch (s.op) {
    case OP_EXPECT:
        o += s.ekind == 0 ? sfmt(".expectOneCall(%s)", s.name) : s.ekind == 1 ? sfmt(".expectNCalls(%u,%s)", s.n, s.name) : sfmt(".expectNoCall(%s)", s.name);
        for (auto& a : s.args) switch (a.kind) {
            case EA_IN: o += sfmt(".with(%s,%s)", a.name, val_str(a.v).c_str()); break;
            case EA_OUT_RET: o += sfmt(".withOutputReturning(%s,%p,%zu)", a.name, (const void*)a.v.mb, a.v.mbn); break;
            case EA_OUT_TYPE_RET: o += sfmt(".withOutputOfTypeReturning(%s,%s,%p)", a.v.otype, a.name, a.v.obj); break;
            case EA_UNMOD: o += sfmt(".withUnmodifiedOutput(%s)", a.name); break;
            case EA_IGNORE_OTHERS: o += ".ignoreOtherParameters()"; break;
            case EA_RETURN: o += sfmt(".andReturn(%s)", val_str(a.v).c_str()); break;
        }
        break;
    case OP_ACTUAL:
        o += sfmt(".actualCall(%s)", s.name);
        for (auto& a : s.args) switch (a.kind) {
            case AA_IN: o += sfmt(".with(%s,%s)", a.name, val_str(a.v).c_str()); break;
            case AA_OUT: o += sfmt(".withOutput(%s,OUT%d)", a.name, a.out); break;
            case AA_OUT_TYPE: o += sfmt(".withOutputOfType(%s,%s,OUT%d)", a.v.otype, a.name, a.out); break;
        }
        o += gs(s.g);
        break;
    case OP_SGET: o += gs(s.g); break;
    case OP_LATE:
        o = "handle-of-last-actual-call";
        for (auto& a : s.args) switch (a.kind) {
            case AA_IN: o += sfmt(".with(%s,%s)", a.name, val_str(a.v).c_str()); break;
            case AA_OUT: o += sfmt(".withOutput(%s,OUT%d)", a.name, a.out); break;
            case AA_OUT_TYPE: o += sfmt(".withOutputOfType(%s,%s,OUT%d)", a.v.otype, a.name, a.out); break;
        }
        o += gs(s.g);
        break;
    case OP_SETDATA: o += s.dkind < 8 ? sfmt(".setData(%s,%s)", s.name, val_str(s.v).c_str()) : sfmt(".setData%sObject(%s,\"%s\",%p)", s.dkind == 9 ? "Const" : "", s.name, s.v.otype, s.v.obj); break;
    case OP_GETDATA: o += sfmt(".getData(%s)", s.name); break;
    case OP_STRICT: o += ".strictOrder()"; break;
    case OP_DISABLE: o += ".disable()"; break;
    case OP_ENABLE: o += ".enable()"; break;
    case OP_IGNORE_OTHER: o += ".ignoreOtherCalls()"; break;
    case OP_CHECK: o += ".checkExpectations()"; break;
    case OP_LEFT: o += ".expectedCallsLeft()"; break;
    case OP_CLEAR: o += ".clear()"; break;
    case OP_INST_CMP: o += sfmt(".installComparator(%s,set%c)", s.name, 'A' + s.fset); break;
    case OP_INST_COPY: o += sfmt(".installCopier(%s,set%c)", s.name, 'A' + s.fset); break;
    case OP_REMOVE_ALL: o += ".removeAllComparatorsAndCopiers()"; break;
    case OP_CRASH: o += sfmt(".crashOnFailure(%d)", s.flag ? 1 : 0); break;
    }
    return o;
}

// ---------------------------------------------------------------------------------------------------------------------
// decoder
struct Param { uint8_t kind = EA_IN; const char* name = "p0"; Val v; };
struct Spec { int scope = 0; bool viaScopeFn = false; const char* fname = "f"; uint8_t ekind = 0; unsigned n = 1; std::vector<Param> params; bool ignoreOthers = false; bool hasRet = false; Val ret; };
struct Program { std::vector<Stmt> st; size_t tdStart = 0; unsigned deviation = 0; const char* devName = "none"; };   // st[tdStart..) run in the test's teardown

const char* const DEV_NAME[] = {"none", "wrong-value", "wrong-type", "missing-parameter", "extra-parameter", "extra-call", "missing-call", "wrong-function",
                                "wrong-getter", "wrong-scope", "out-of-order", "output-type-mismatch", "no-comparator"};

int gen_scope(Reader& r) { static const int w[8] = {0, 0, 0, 0, 1, 2, 1, 0}; return w[r.below(8)]; }

void gen_spec(Reader& r, Spec& sp) {
    sp.scope = gen_scope(r);
    sp.viaScopeFn = sp.scope != 0 || r.below(4) == 1;
    sp.fname = FNAMES[r.below(3)];
    unsigned ck = r.below(16);
    if (ck <= 7) { sp.ekind = 0; sp.n = 1; }
    else if (ck <= 9) { sp.ekind = 1; sp.n = 1; }
    else if (ck <= 12) { sp.ekind = 1; sp.n = 2; }
    else if (ck <= 14) { sp.ekind = 1; sp.n = 3; }
    else if (r.flag()) { sp.ekind = 1; sp.n = 0; }
    else { sp.ekind = 2; sp.n = 0; }
    if (sp.ekind == 2) return;   // expectNoCall returns nothing to chain on
    unsigned np = r.below(4);
    for (unsigned i = 0; i < np; i++) {
        Param p; p.name = PNAMES[r.below(8) == 7 ? 3 : i];
        unsigned k = r.below(8);
        if (k <= 4) { p.kind = EA_IN; p.v = gen_val(r, (VT)r.below(T_N)); }
        else if (k == 5) { p.kind = EA_OUT_RET; p.v = gen_val(r, T_MEMBUF); }
        else if (k == 6) { p.kind = EA_OUT_TYPE_RET; p.v = gen_val(r, T_OBJ); }
        else p.kind = EA_UNMOD;
        sp.params.push_back(p);
    }
    sp.ignoreOthers = r.below(8) == 1;
    unsigned rk = r.below(16);
    if (rk >= 1) { sp.hasRet = true; sp.ret = gen_val(r, (VT)((rk - 1) % N_RET_TYPES)); sp.ret.useTol = false; }
}

Stmt expect_stmt(const Spec& sp) {
    Stmt s; s.op = OP_EXPECT; s.scope = sp.scope; s.viaScopeFn = sp.viaScopeFn; s.name = sp.fname; s.ekind = sp.ekind; s.n = sp.n;
    for (auto& p : sp.params) { Arg a; a.kind = p.kind; a.name = p.name; a.v = p.v; s.args.push_back(a); }
    if (sp.ignoreOthers) { Arg a; a.kind = EA_IGNORE_OTHERS; s.args.push_back(a); }
    if (sp.hasRet) { Arg a; a.kind = EA_RETURN; a.v = sp.ret; s.args.push_back(a); }
    return s;
}

VT wider_type(Reader& r, VT t) {
    switch (t) {
    // the unsigned getters accept a signed value only when it is not negative: both outcomes are generated
    case T_INT: { static const VT w[5] = {T_LONG, T_LLONG, T_UINT, T_ULONG, T_ULLONG}; return w[r.below(5)]; }
    case T_UINT: { static const VT w[4] = {T_ULONG, T_ULLONG, T_LONG, T_LLONG}; return w[r.below(4)]; }
    case T_LONG: { static const VT w[3] = {T_LLONG, T_ULONG, T_ULLONG}; return w[r.below(3)]; }
    case T_ULONG: return r.flag() ? T_ULLONG : T_LLONG;
    case T_LLONG: return T_ULLONG;
    default: return t;
    }
}
VT incompatible_type(VT t) { return t == T_STRING ? T_DOUBLE : T_STRING; }

Getter gen_getter(Reader& r, const Spec& sp) {
    Getter g;
    unsigned gk = r.below(16);
    VT rt = sp.hasRet ? sp.ret.t : (VT)r.below(N_RET_TYPES);
    switch (gk) {
    case 1: g.kind = G_NONE; break;
    case 2: g.kind = G_HAS; break;
    case 0: case 3: case 4: case 5: case 6: g.kind = sp.hasRet ? G_TYPED : G_DEFAULT; g.t = rt; break;   // 0: the getter of exactly the returned type
    case 7: case 8: case 9: case 10: g.kind = G_DEFAULT; g.t = rt; break;
    case 11: case 12: case 13: g.kind = G_GENERIC; break;
    default: g.kind = sp.hasRet ? G_TYPED : G_DEFAULT; g.t = sp.hasRet ? wider_type(r, rt) : rt; break;
    }
    if (g.kind == G_DEFAULT) g.def = gen_val(r, g.t);
    return g;
}
Getter gen_free_getter(Reader& r) {
    Getter g;
    unsigned gk = r.below(8);   // a typed getter of an arbitrary type mostly ends the test with a type-check failure: keep it rare
    g.kind = gk <= 2 ? G_GENERIC : gk <= 5 ? G_DEFAULT : gk == 6 ? G_HAS : G_TYPED;
    g.t = (VT)r.below(N_RET_TYPES);
    if (g.kind == G_DEFAULT) g.def = gen_val(r, g.t);
    return g;
}

Stmt simple(Op op, int scope, const char* name = "f") { Stmt s; s.op = op; s.scope = scope; s.viaScopeFn = scope != 0; s.name = name; return s; }

void gen_free(Reader& r, std::vector<Stmt>& out, int nearScope) {
    unsigned k = r.below(14);
    int sc = r.below(4) == 3 ? gen_scope(r) : nearScope;
    switch (k) {
    case 0: case 1: {   // data store write (+ read)
        Stmt s = simple(OP_SETDATA, sc, DNAMES[r.below(2)]);
        s.dkind = (uint8_t)r.below(10);
        static const VT dt[8] = {T_BOOL, T_INT, T_UINT, T_STRING, T_DOUBLE, T_PTR, T_CPTR, T_FPTR};
        if (s.dkind < 8) s.v = gen_val(r, dt[s.dkind]);
        else {
            s.v.t = T_OBJ; s.v.otype = pick_type(r, DTYPES, sizeof DTYPES / sizeof DTYPES[0]);
            // a "bool" object is read back through a bool lvalue: only 0 / 1 are valid object representations
            s.v.obj = strcmp(s.v.otype, "bool") == 0 ? (const void*)(uintptr_t)r.below(2) : (r.flag() ? (const void*)r.pick(PTRS) : r.pick(OBJP));
        }
        out.push_back(s);
        if (k == 1) out.push_back(simple(OP_GETDATA, sc, s.name));
        break; }
    case 2: out.push_back(simple(OP_GETDATA, sc, DNAMES[r.below(2)])); break;
    case 3: out.push_back(simple(OP_LEFT, sc)); break;
    case 4: {   // a call made while mocking is disabled, with a getter on the ignored call
        out.push_back(simple(OP_DISABLE, sc));
        Stmt a = simple(OP_ACTUAL, sc, FNAMES[r.below(3)]);
        if (r.flag()) { Arg x; x.kind = AA_IN; x.name = "p0"; x.v = gen_val(r, (VT)r.below(T_N)); a.args.push_back(x); }
        a.g = gen_free_getter(r);
        out.push_back(a);
        if (r.below(4) == 1) { Stmt e = simple(OP_EXPECT, sc, "h"); e.ekind = (uint8_t)r.below(3); Arg x; x.kind = EA_RETURN; x.v = gen_val(r, T_INT); if (e.ekind != 2) e.args.push_back(x); out.push_back(e); }
        out.push_back(simple(OP_ENABLE, sc));
        break; }
    case 5: {   // ignoreOtherCalls + a call nobody expects
        out.push_back(simple(OP_IGNORE_OTHER, sc));
        Stmt a = simple(OP_ACTUAL, sc, "unexpected");
        a.g = gen_free_getter(r);
        out.push_back(a);
        break; }
    case 6: { Stmt s = simple(OP_CRASH, sc); s.flag = r.below(4) == 1; out.push_back(s); break; }
    case 7: { Stmt s = simple(OP_INST_CMP, sc, pick_type(r, OTYPES, 2)); s.fset = (uint8_t)r.below(N_FSETS); out.push_back(s); break; }
    case 8: { Stmt s = simple(OP_INST_COPY, sc, pick_type(r, OTYPES, 2)); s.fset = (uint8_t)r.below(N_FSETS); out.push_back(s); break; }
    case 9: out.push_back(simple(OP_REMOVE_ALL, r.below(4) == 1 ? gen_scope(r) : 0)); break;
    case 10: out.push_back(simple(OP_CHECK, sc)); break;
    case 11: out.push_back(simple(OP_CLEAR, r.below(4) == 1 ? 0 : (sc ? sc : 1))); break;
    case 12: out.push_back(simple(OP_STRICT, sc)); break;
    case 13: { Stmt s = simple(OP_SGET, sc); s.g = gen_free_getter(r); out.push_back(s); break; }
    }
}

void build(Reader& r, Program& P) {
    bool strict = r.below(4) == 1;
    bool ignoreCalls = r.below(8) == 1;
    // one byte: which installations the prelude makes (0..5), with which function set (0..2), and whether the same type name is
    // installed AGAIN on a scope with another function set (0 no, 1 comparator on s1, 2 comparator and copier on s2)
    unsigned iv = r.below(54);
    unsigned inst = iv % 6, fset = (iv / 6) % 3, reinst = iv / 18;
    unsigned nspecs = 1 + r.below(4);
    unsigned order = r.below(4);
    unsigned dv = r.below(24);
    unsigned dev = dv < 12 ? 0 : dv - 11;   // 1..12
    unsigned devTarget = r.below(16);
    std::vector<Spec> specs(nspecs);
    for (auto& sp : specs) gen_spec(r, sp);

    // the list of actual calls, by spec index
    std::vector<int> calls;
    for (unsigned i = 0; i < nspecs; i++) for (unsigned k = 0; k < specs[i].n; k++) calls.push_back((int)i);
    if (dev == 10) {   // out of order needs strict order and two calls to different expectations
        bool ok = false;
        for (size_t i = 1; i < calls.size(); i++) if (calls[i] != calls[0]) ok = true;
        if (ok) { strict = true; order = 1; } else dev = 5;
    } else if (strict) order = 0;
    if (order == 1) std::reverse(calls.begin(), calls.end());
    else if (order == 2 && calls.size() > 1) std::rotate(calls.begin(), calls.begin() + 1, calls.end());
    else if (order == 3 && calls.size() > 1) std::swap(calls[0], calls[calls.size() - 1]);
    if (calls.empty() && dev != 0 && dev != 7) dev = 5;
    if (dev == 6 && calls.size() == 1) dev = 5;   // dropping the only call would leave a scenario without any actual call
    if (dev == 0 && (inst == 0 || inst == 3)) {   // a scenario meant to pass gets the comparators and copiers it needs
        bool custom = false;
        for (auto& sp : specs) for (auto& p : sp.params) if ((p.kind == EA_IN && p.v.t == T_OBJ) || p.kind == EA_OUT_TYPE_RET) custom = true;
        if (custom) inst = 5;
    }
    size_t ti = calls.empty() ? 0 : devTarget % calls.size();
    if (dev == 12) {   // a custom-type parameter without any comparator
        inst = 0;
        Spec& sp = specs[calls.empty() ? 0 : calls[ti]];
        if (sp.ekind == 2) dev = 5;
        else { Param p; p.kind = EA_IN; p.name = "q"; p.v = gen_val(r, T_OBJ); p.v.otype = "T"; sp.params.push_back(p); }
    }

    // prelude
    if (inst != 0) {   // 0 none, 1 T on the global scope, 2 T and U (comparator only), 3 comparator of T only, 4 T on the first scope, 5 everything
        int sc = inst == 4 ? specs[0].scope : 0;
        auto install = [&](Op op, int scope, const char* type, unsigned set) { Stmt s = simple(op, scope, type); s.fset = (uint8_t)(set % N_FSETS); P.st.push_back(s); };
        install(OP_INST_CMP, sc, "T", fset);
        if (inst != 3) install(OP_INST_COPY, sc, "T", fset);
        if (inst == 2 || inst == 5) install(OP_INST_CMP, sc, "U", fset + 1);
        if (inst == 5) install(OP_INST_COPY, sc, "U", fset + 1);
        if (reinst == 1) install(OP_INST_CMP, 1, "T", fset + 1);
        if (reinst == 2) { install(OP_INST_CMP, 2, "T", fset + 2); install(OP_INST_COPY, 2, "T", fset + 1); }
    }
    if (strict) P.st.push_back(simple(OP_STRICT, 0));
    if (ignoreCalls) P.st.push_back(simple(OP_IGNORE_OTHER, 0));
    for (auto& sp : specs) P.st.push_back(expect_stmt(sp));

    // actual calls
    size_t emitted = 0;
    auto emit_actual = [&](const Spec& sp, unsigned devHere) {
        Stmt a; a.op = OP_ACTUAL; a.scope = sp.scope; a.viaScopeFn = sp.scope != 0 || r.below(4) == 1; a.name = sp.fname;
        int outn = 0;
        for (auto& p : sp.params) {
            Arg x; x.name = p.name;
            if (p.kind == EA_IN) {
                x.kind = AA_IN;
                unsigned mode = r.below(4);
                x.v = mode == 2 ? eq_variant(r, p.v) : p.v;
                x.v.useTol = false;
            } else if (p.kind == EA_OUT_TYPE_RET) { x.kind = AA_OUT_TYPE; x.v = p.v; x.out = outn++ & 3; }
            else { x.kind = AA_OUT; x.out = outn++ & 3; }
            a.args.push_back(x);
        }
        unsigned ord = r.below(3);
        if (ord == 1) std::reverse(a.args.begin(), a.args.end());
        else if (ord == 2 && a.args.size() > 1) std::rotate(a.args.begin(), a.args.begin() + 1, a.args.end());
        a.g = gen_getter(r, sp);
        size_t pi = a.args.empty() ? 0 : r.below((uint32_t)a.args.size());
        switch (devHere) {
        case 1: if (!a.args.empty() && a.args[pi].kind == AA_IN) a.args[pi].v = diff_variant(a.args[pi].v); else a.name = "nobody"; break;
        case 2: if (!a.args.empty() && a.args[pi].kind == AA_IN) { VT nt = (VT)((a.args[pi].v.t + 1 + r.below(T_N - 1)) % T_N); a.args[pi].v = gen_val(r, nt); } else a.name = "nobody"; break;
        case 3: if (!a.args.empty()) a.args.erase(a.args.begin() + (long)pi); else a.name = "nobody"; break;
        case 4: { Arg x; x.kind = r.below(4) == 3 ? AA_OUT : AA_IN; x.name = "extra"; x.v = gen_val(r, (VT)r.below(T_N)); x.out = 3; a.args.push_back(x); break; }
        case 7: a.name = "nobody"; break;
        case 8: a.g.kind = G_TYPED; a.g.t = sp.hasRet ? incompatible_type(sp.ret.t) : T_DOUBLE; break;
        case 9: a.scope = (sp.scope + 1 + (int)r.below(2)) % 3; a.viaScopeFn = true; break;
        case 11: if (!a.args.empty() && a.args[pi].kind != AA_IN) { if (a.args[pi].kind == AA_OUT) { a.args[pi].kind = AA_OUT_TYPE; a.args[pi].v.otype = "T"; } else a.args[pi].kind = AA_OUT; }
                 else { Arg x; x.kind = AA_OUT_TYPE; x.name = a.args.empty() ? "p0" : a.args[pi].name; x.v.otype = "U"; x.out = 3; if (!a.args.empty()) a.args[pi] = x; else a.args.push_back(x); }
                 break;
        default: break;
        }
        P.st.push_back(a);
        emitted++;
        unsigned follow = r.below(8);
        if (follow == 2 || follow == 3) {
            // keep the handle of this call and use it later: 0..3 statements that neither make another actual call nor destroy this
            // one (no clear of its scope or of the global mock), mostly on OTHER scopes, then late parameters and / or a getter
            Stmt late; late.op = OP_LATE; late.scope = a.scope;
            if (!P.st.back().args.empty() && r.flag()) {   // the last parameter is supplied late; the call itself then asks nothing
                late.args.push_back(P.st.back().args.back()); P.st.back().args.pop_back(); P.st.back().g.kind = G_NONE;
            }
            unsigned nint = follow == 3 ? 1 + r.below(3) : r.below(4);
            for (unsigned q = 0; q < nint; q++) {
                int osc = (follow == 2 && r.below(4) == 0) ? a.scope : (a.scope + 1 + (int)r.below(2)) % 3;
                unsigned ik = r.below(6);
                switch (ik) {
                case 0: { Stmt d = simple(OP_SETDATA, osc, DNAMES[r.below(2)]); d.dkind = 1; d.v = gen_val(r, T_INT); P.st.push_back(d); break; }
                case 1: case 5: P.st.push_back(simple(OP_GETDATA, osc, DNAMES[r.below(2)])); break;
                case 2: P.st.push_back(simple(OP_LEFT, osc)); break;
                case 3: P.st.push_back(simple(OP_CHECK, osc == a.scope ? (a.scope + 1) % 3 : osc)); break;
                case 4: { Stmt e = simple(OP_EXPECT, osc == a.scope ? (a.scope + 1) % 3 : osc, "h"); Arg x; x.kind = EA_RETURN; x.v = gen_val(r, T_INT); e.args.push_back(x); P.st.push_back(e); break; }
                }
            }
            late.g = gen_getter(r, sp);
            if (devHere == 8) { late.g.kind = G_TYPED; late.g.t = sp.hasRet ? incompatible_type(sp.ret.t) : T_DOUBLE; }
            P.st.push_back(late);
        }
        if (follow == 4 || follow == 5 || follow == 7) {
            Stmt g = simple(OP_SGET, follow == 5 ? (a.scope + 1 + (int)r.below(2)) % 3 : a.scope);
            g.viaScopeFn = g.scope != 0 || r.flag();
            if (r.flag()) { g.g = a.g; if (g.g.kind == G_NONE) g.g.kind = G_GENERIC; } else g.g = gen_free_getter(r);
            P.st.push_back(g);
        }
        if (follow == 6 || follow == 7) gen_free(r, P.st, a.scope);
    };
    for (size_t ci = 0; ci < calls.size(); ci++) {
        if (dev == 6 && ci == ti) continue;   // the missing call
        bool here = ci == ti && dev != 0 && dev != 5 && dev != 6 && dev != 10 && dev != 12;
        emit_actual(specs[calls[ci]], here ? dev : 0);
        if (dev == 5 && ci == ti) emit_actual(specs[calls[ci]], 0);   // the extra call
    }
    if (calls.empty()) {
        if (dev == 5) emit_actual(specs[0], 0);
        else if (dev == 7) emit_actual(specs[0], 7);
    }
    P.deviation = dev; P.devName = DEV_NAME[dev];

    // epilogue
    unsigned e = r.below(8);
    if (e != 7) P.st.push_back(simple(OP_CHECK, e == 6 ? gen_scope(r) : 0));
    P.st.push_back(simple(OP_LEFT, 0));
    unsigned e2 = r.below(4);
    if (e2 == 1) gen_free(r, P.st, 0);
    else if (e2 == 2) { P.st.push_back(simple(OP_CLEAR, 0)); P.st.push_back(simple(OP_LEFT, 0)); }
    else if (e2 == 3) { Stmt g = simple(OP_SGET, 0); g.g = gen_free_getter(r); P.st.push_back(g); }
    if (P.st.size() > 60) P.st.resize(60);

    // ---- tail section: read AFTER everything the earlier versions of the decoder read, so an input that ends here keeps its meaning
    // (1) up to 3 extra statements / blocks inserted anywhere in the body except between an actual call and the late use of its handle
    unsigned nx = r.below(4);
    for (unsigned q = 0; q < nx; q++) {
        std::vector<size_t> allowed;
        bool prot = false;   // position p (= before st[p]) is protected when it lies after an ACTUAL whose handle is still to be used
        for (size_t p = 0; p <= P.st.size(); p++) {
            if (!prot) allowed.push_back(p);
            if (p < P.st.size()) {
                if (P.st[p].op == OP_ACTUAL) { prot = false; for (size_t j = p + 1; j < P.st.size() && P.st[j].op != OP_ACTUAL; j++) if (P.st[j].op == OP_LATE) prot = true; }
                else if (P.st[p].op == OP_LATE) prot = false;
            }
        }
        size_t pos = allowed[r.below((uint32_t)allowed.size())];
        std::vector<Stmt> ins;
        int near = pos > 0 ? P.st[pos - 1].scope : 0;
        if (r.below(4) == 3) {
            // a scope first used (or used again) while the global mock is disabled, then enabled through the global mock
            int ns = 1 + (int)r.below(2);
            ins.push_back(simple(OP_DISABLE, 0));
            Stmt a = simple(OP_ACTUAL, ns, FNAMES[r.below(3)]); a.g = gen_free_getter(r); ins.push_back(a);
            Stmt e = simple(OP_EXPECT, ns, "g"); Arg x; x.kind = EA_RETURN; x.v = gen_val(r, T_INT); e.args.push_back(x); ins.push_back(e);
            ins.push_back(simple(OP_ENABLE, r.flag() ? 0 : ns));
            Stmt b = simple(OP_ACTUAL, ns, "g"); b.g.kind = G_TYPED; b.g.t = T_INT; ins.push_back(b);
        } else gen_free(r, ins, near);
        P.st.insert(P.st.begin() + (long)pos, ins.begin(), ins.end());
    }
    // (2) up to 3 statements executed in the test's TEARDOWN, i.e. also after the body has failed (a mock failure then neither
    //     terminates nor is reported again: the "test has already failed" paths of both reporters)
    P.tdStart = P.st.size();
    unsigned ntd = r.below(4);
    for (unsigned q = 0; q < ntd; q++) {
        int sc = gen_scope(r);
        switch (r.below(8)) {
        case 0: P.st.push_back(simple(OP_CHECK, 0)); break;
        case 1: P.st.push_back(simple(OP_LEFT, sc)); break;
        case 2: P.st.push_back(simple(OP_CHECK, sc)); break;
        case 3: { Stmt a = simple(OP_ACTUAL, sc, FNAMES[r.below(3)]);
                  if (r.flag()) { Arg x; x.kind = AA_IN; x.name = PNAMES[r.below(2)]; x.v = gen_val(r, (VT)r.below(T_N)); a.args.push_back(x); }
                  if (r.flag()) { Arg x; x.kind = AA_OUT; x.name = "p1"; x.out = 3; a.args.push_back(x); }
                  a.g = gen_free_getter(r); P.st.push_back(a); break; }
        case 4: P.st.push_back(simple(OP_CLEAR, r.flag() ? 0 : sc)); break;
        case 5: { Stmt g = simple(OP_SGET, sc); g.g = gen_free_getter(r); P.st.push_back(g); break; }
        case 6: P.st.push_back(simple(OP_GETDATA, sc, DNAMES[r.below(2)])); break;
        case 7: { Stmt e = simple(OP_EXPECT, sc, FNAMES[r.below(3)]); e.ekind = (uint8_t)r.below(3); e.n = r.below(3); P.st.push_back(e); break; }
        }
    }
}

// ---------------------------------------------------------------------------------------------------------------------
// canonical rendering of observed values: "<C tag>:<value>"
std::string r_bool(int v) { return sfmt("BOOL:%d", v); }
std::string r_int(int v) { return sfmt("INTEGER:%d", v); }
std::string r_uint(unsigned v) { return sfmt("UNSIGNED_INTEGER:%u", v); }
std::string r_long(long v) { return sfmt("LONG_INTEGER:%ld", v); }
std::string r_ulong(unsigned long v) { return sfmt("UNSIGNED_LONG_INTEGER:%lu", v); }
std::string r_llong(long long v) { return sfmt("LONG_LONG_INTEGER:%lld", v); }
std::string r_ullong(unsigned long long v) { return sfmt("UNSIGNED_LONG_LONG_INTEGER:%llu", v); }
std::string r_double(double v) { return sfmt("DOUBLE:%016llx(%g)", dbits(v), v); }
std::string r_str(const char* v) { return in_string_pool(v) ? sfmt("STRING:%p:\"%s\"", (const void*)v, verif::printable(v).c_str()) : sfmt("STRING:%p", (const void*)v); }
std::string r_ptr(const void* v) { return sfmt("POINTER:%p", v); }
std::string r_cptr(const void* v) { return sfmt("CONST_POINTER:%p", v); }
std::string r_fptr(fptr_t v) { return sfmt("FUNCTIONPOINTER:%p", (void*)v); }
std::string r_membuf(const unsigned char* v) { return sfmt("MEMORYBUFFER:%p", (const void*)v); }
std::string r_obj(const void* v) { return sfmt("OBJECT:%p", v); }

// the C++ side of the type-tag mapping (written independently of MockSupport_c.cpp): type string -> C enum name, value through
// the typed accessor of exactly that type
std::string render_named(const MockNamedValue& v) {
    std::string t = v.getType().asCharString();
    if (t == "bool") return r_bool(v.getBoolValue() ? 1 : 0);
    if (t == "int") return r_int(v.getIntValue());
    if (t == "unsigned int") return r_uint(v.getUnsignedIntValue());
    if (t == "long int") return r_long(v.getLongIntValue());
    if (t == "unsigned long int") return r_ulong(v.getUnsignedLongIntValue());
    if (t == "long long int") return r_llong(v.getLongLongIntValue());
    if (t == "unsigned long long int") return r_ullong(v.getUnsignedLongLongIntValue());
    if (t == "double") return r_double(v.getDoubleValue());
    if (t == "const char*") return r_str(v.getStringValue());
    if (t == "void*") return r_ptr(v.getPointerValue());
    if (t == "const void*") return r_cptr(v.getConstPointerValue());
    if (t == "void (*)()") return r_fptr(v.getFunctionPointerValue());
    if (t == "const unsigned char*") return r_membuf(v.getMemoryBuffer());
    return r_obj(v.getObjectPointer());
}
std::string render_c(const MockValue_c& v) {
    switch (v.type) {
    case MOCKVALUETYPE_BOOL: return r_bool(v.value.boolValue);
    case MOCKVALUETYPE_INTEGER: return r_int(v.value.intValue);
    case MOCKVALUETYPE_UNSIGNED_INTEGER: return r_uint(v.value.unsignedIntValue);
    case MOCKVALUETYPE_LONG_INTEGER: return r_long(v.value.longIntValue);
    case MOCKVALUETYPE_UNSIGNED_LONG_INTEGER: return r_ulong(v.value.unsignedLongIntValue);
    case MOCKVALUETYPE_LONG_LONG_INTEGER: return r_llong(v.value.longLongIntValue);
    case MOCKVALUETYPE_UNSIGNED_LONG_LONG_INTEGER: return r_ullong(v.value.unsignedLongLongIntValue);
    case MOCKVALUETYPE_DOUBLE: return r_double(v.value.doubleValue);
    case MOCKVALUETYPE_STRING: return r_str(v.value.stringValue);
    case MOCKVALUETYPE_POINTER: return r_ptr(v.value.pointerValue);
    case MOCKVALUETYPE_CONST_POINTER: return r_cptr(v.value.constPointerValue);
    case MOCKVALUETYPE_FUNCTIONPOINTER: return r_fptr((fptr_t)v.value.functionPointerValue);
    case MOCKVALUETYPE_MEMORYBUFFER: return r_membuf(v.value.memoryBufferValue);
    case MOCKVALUETYPE_OBJECT: return r_obj(v.value.objectValue);
    }
    return sfmt("?tag%d", (int)v.type);
}

// ---------------------------------------------------------------------------------------------------------------------
// execution context shared by both interpreters
struct Entry { size_t k; std::string s; };
struct Ctx {
    const std::vector<Stmt>* prog = nullptr;
    std::vector<char>* skip = nullptr;      // decided by A (known-finding exclusions), obeyed by B
    std::vector<char>* dcond = nullptr;     // A: support-level getter that reads another object in C than in C++
    std::vector<char>* rcond = nullptr;     // A: removeAll on a scope while other scopes still hold C comparator nodes
    std::vector<char>* hcond = nullptr;     // A: hasReturnValue / OrDefault through a call handle while another mock is the current one
    MockActualCall* handle = nullptr; MockSupport* lastSupport = nullptr;        // A
    MockActualCall_c* handleC = nullptr; MockSupport_c* lastSupportC = nullptr;  // B
    int curScope = 0;                       // A: scope selected by the most recent statement that addressed a mock
    std::vector<Entry> trace;
    bool completed = false;      // the body ran to its end
    bool tdCompleted = false;    // the teardown ran to its end
    size_t tdStart = 0;
    unsigned actualCalls = 0, valueGetters = 0;
    // model of which object the C statics point to (maintained by A only)
    bool hasLive[3] = {false, false, false};
    bool staticValid = false, staticIgnored = false; int staticScope = -1;
    bool exists[3] = {true, false, false}, inst[3] = {false, false, false};
    bool nodes = false;      // adaptor nodes of the C interface exist (an install since the last executed removeAll)
    bool captured = false;   // an expectation / data object of a custom type was recorded while a comparator or copier was installed
    // probe result (B only)
    bool probeFailed = false; std::string probeMsg;
};
void rec(Ctx* c, size_t k, const std::string& s) { c->trace.push_back(Entry{k, s}); }

int g_crash_count = 0;
void count_crash() { g_crash_count++; }

void touch_scope(Ctx* c, int sc) { if (!c->exists[sc]) { c->exists[sc] = true; c->inst[sc] = c->inst[0]; } }

// After removeAllComparatorsAndCopiers: look (through the C++ accessors, in both interpreters alike, so that the check
// counts stay equal) at the comparator every existing scope would hand out for T / U.  Only B can find a freed node.
void probe_repositories(Ctx* c, size_t k) {
    for (int sc = 0; sc < 3; sc++) {
        if (!c->exists[sc]) continue;
        if (sc == 0) mock(); else mock(SCOPES[sc]);
        for (int ty = 0; ty < 2; ty++) {
            MockNamedValue v("probe");
            v.setConstObjectPointer(OTYPES[ty], NULLPTR);
            const void* cmp = v.getComparator(); const void* cop = v.getCopier();
            if ((cmp && C19_POISONED(cmp)) || (cop && C19_POISONED(cop))) {
                c->probeFailed = true;
                c->probeMsg = sfmt("statement #%zu: after removeAllComparatorsAndCopiers the scope \"%s\" still hands out a %s for type %s that has been freed (%p)",
                                   k, SCOPES[sc], cmp && C19_POISONED(cmp) ? "comparator" : "copier", OTYPES[ty], cmp && C19_POISONED(cmp) ? cmp : cop);
                return;
            }
        }
    }
}

std::string out_bytes(const Stmt& s) {
    std::string o;
    for (auto& a : s.args) if (a.kind != AA_IN) o += sfmt(" OUT%d=%s", a.out, hex(OUT[a.out], 16).c_str());
    return o;
}

// ---------------------------------------------------------------------------------------------------------------------
// interpreter A: the C++ interface
// model update for a clear() of the mock of scope `scope` (interpreter A)
void model_clear(Ctx* c, int scope) {
    if (scope == 0) {
        for (int sc = 0; sc < 3; sc++) c->hasLive[sc] = false;
        if (c->staticValid && !c->staticIgnored) c->staticValid = false;
        for (int sc = 1; sc < 3; sc++) { c->exists[sc] = false; c->inst[sc] = false; }
        c->captured = false;
    } else {
        c->hasLive[scope] = false;
        if (c->staticValid && !c->staticIgnored && c->staticScope == scope) c->staticValid = false;
    }
}

void run_cpp_range(Ctx* c, size_t from, size_t to) {
    const std::vector<Stmt>& prog = *c->prog;
    for (size_t k = from; k < to; k++) {
        const Stmt& s = prog[k];
        // exclusions by construction (decided before the statement touches anything)
        if (s.op == OP_SGET && s.g.kind != G_HAS) {
            bool agree = c->hasLive[s.scope] && c->staticValid && !c->staticIgnored && c->staticScope == s.scope;
            if (!agree) { (*c->dcond)[k] = 1; if (verif::known(K_STATIC)) { (*c->skip)[k] = 1; continue; } }
        }
        if (s.op == OP_REMOVE_ALL && c->nodes) {
            // the C adaptor nodes are still referenced: by the repository of another scope, or by a recorded expectation /
            // data-store object (conservatively: any recorded since the last global clear while something was installed)
            bool others = false;
            for (int sc = 0; sc < 3; sc++) if (s.scope != 0 && sc != s.scope && c->exists[sc] && c->inst[sc]) others = true;
            if (others || c->captured) { (*c->rcond)[k] = 1; if (verif::known(K_REMOVE)) { (*c->skip)[k] = 1; continue; } }
        }
        bool noGetter = false;
        if (s.op == OP_LATE && (s.g.kind == G_HAS || s.g.kind == G_DEFAULT) && c->curScope != c->staticScope) {
            // the C call table answers "has a return value" from the CURRENT mock, which is not the one the handle belongs to
            (*c->hcond)[k] = 1;
            if (verif::known(K_HANDLE)) { (*c->skip)[k] = 2; noGetter = true; }   // only the getter is left out
        }
        if (s.op != OP_LATE) { touch_scope(c, s.scope); c->curScope = s.scope; }
        MockSupport& m = s.op == OP_LATE ? *c->lastSupport : ((s.scope == 0 && !s.viaScopeFn) ? mock() : mock(SCOPES[s.scope]));
        c->lastSupport = &m;
        switch (s.op) {
        case OP_EXPECT: {
            if (s.ekind == 2) { m.expectNoCall(s.name); break; }
            MockExpectedCall* e = s.ekind == 0 ? &m.expectOneCall(s.name) : &m.expectNCalls(s.n, s.name);
            for (auto& a : s.args) {
                const Val& v = a.v;
                if (((a.kind == EA_IN && v.t == T_OBJ) || a.kind == EA_OUT_TYPE_RET) && c->inst[s.scope]) c->captured = true;
                switch (a.kind) {
                case EA_IN:
                    switch (v.t) {
                    case T_BOOL: e = &e->withParameter(a.name, v.i != 0); break;
                    case T_INT: e = &e->withParameter(a.name, (int)v.i); break;
                    case T_UINT: e = &e->withParameter(a.name, (unsigned int)v.u); break;
                    case T_LONG: e = &e->withParameter(a.name, (long int)v.i); break;
                    case T_ULONG: e = &e->withParameter(a.name, (unsigned long int)v.u); break;
                    case T_LLONG: e = &e->withParameter(a.name, (cpputest_longlong)v.i); break;
                    case T_ULLONG: e = &e->withParameter(a.name, (cpputest_ulonglong)v.u); break;
                    case T_DOUBLE: e = v.useTol ? &e->withParameter(a.name, v.d, v.tol) : &e->withParameter(a.name, v.d); break;
                    case T_STRING: e = &e->withParameter(a.name, v.s); break;
                    case T_PTR: e = &e->withParameter(a.name, v.p); break;
                    case T_CPTR: e = &e->withParameter(a.name, (const void*)v.p); break;
                    case T_FPTR: e = &e->withParameter(a.name, v.fp); break;
                    case T_MEMBUF: e = &e->withParameter(a.name, v.mb, v.mbn); break;
                    case T_OBJ: e = &e->withParameterOfType(v.otype, a.name, v.obj); break;
                    default: break;
                    }
                    break;
                case EA_OUT_RET: e = &e->withOutputParameterReturning(a.name, v.mb, v.mbn); break;
                case EA_OUT_TYPE_RET: e = &e->withOutputParameterOfTypeReturning(v.otype, a.name, v.obj); break;
                case EA_UNMOD: e = &e->withUnmodifiedOutputParameter(a.name); break;
                case EA_IGNORE_OTHERS: e = &e->ignoreOtherParameters(); break;
                case EA_RETURN:
                    switch (v.t) {
                    case T_BOOL: e = &e->andReturnValue(v.i != 0); break;
                    case T_INT: e = &e->andReturnValue((int)v.i); break;
                    case T_UINT: e = &e->andReturnValue((unsigned int)v.u); break;
                    case T_LONG: e = &e->andReturnValue((long int)v.i); break;
                    case T_ULONG: e = &e->andReturnValue((unsigned long int)v.u); break;
                    case T_LLONG: e = &e->andReturnValue((cpputest_longlong)v.i); break;
                    case T_ULLONG: e = &e->andReturnValue((cpputest_ulonglong)v.u); break;
                    case T_DOUBLE: e = &e->andReturnValue(v.d); break;
                    case T_STRING: e = &e->andReturnValue(v.s); break;
                    case T_PTR: e = &e->andReturnValue(v.p); break;
                    case T_CPTR: e = &e->andReturnValue((const void*)v.p); break;
                    case T_FPTR: e = &e->andReturnValue(v.fp); break;
                    default: break;
                    }
                    break;
                }
            }
            break; }
        case OP_ACTUAL: case OP_LATE: {
            MockActualCall* a = c->handle;
            if (s.op == OP_ACTUAL) {
                a = &m.actualCall(s.name);
                bool ignored = a == &MockIgnoredActualCall::instance();
                c->hasLive[s.scope] = !ignored; c->staticValid = true; c->staticIgnored = ignored; c->staticScope = s.scope;
                c->actualCalls++;
            }
            for (auto& x : s.args) {
                const Val& v = x.v;
                switch (x.kind) {
                case AA_IN:
                    switch (v.t) {
                    case T_BOOL: a = &a->withParameter(x.name, v.i != 0); break;
                    case T_INT: a = &a->withParameter(x.name, (int)v.i); break;
                    case T_UINT: a = &a->withParameter(x.name, (unsigned int)v.u); break;
                    case T_LONG: a = &a->withParameter(x.name, (long int)v.i); break;
                    case T_ULONG: a = &a->withParameter(x.name, (unsigned long int)v.u); break;
                    case T_LLONG: a = &a->withParameter(x.name, (cpputest_longlong)v.i); break;
                    case T_ULLONG: a = &a->withParameter(x.name, (cpputest_ulonglong)v.u); break;
                    case T_DOUBLE: a = &a->withParameter(x.name, v.d); break;
                    case T_STRING: a = &a->withParameter(x.name, v.s); break;
                    case T_PTR: a = &a->withParameter(x.name, v.p); break;
                    case T_CPTR: a = &a->withParameter(x.name, (const void*)v.p); break;
                    case T_FPTR: a = &a->withParameter(x.name, v.fp); break;
                    case T_MEMBUF: a = &a->withParameter(x.name, v.mb, v.mbn); break;
                    case T_OBJ: a = &a->withParameterOfType(v.otype, x.name, v.obj); break;
                    default: break;
                    }
                    break;
                case AA_OUT: a = &a->withOutputParameter(x.name, OUT[x.out]); break;
                case AA_OUT_TYPE: a = &a->withOutputParameterOfType(v.otype, x.name, OUT[x.out]); break;
                }
            }
            c->handle = a;
            std::string got;
            const Val& d = s.g.def;
            switch (noGetter ? (int)G_NONE : (int)s.g.kind) {
            case G_NONE: got = "-"; break;
            case G_HAS: got = sfmt("has=%d", a->hasReturnValue() ? 1 : 0); break;
            case G_GENERIC: got = render_named(a->returnValue()); c->valueGetters++; break;
            case G_TYPED:
                switch (s.g.t) {
                case T_BOOL: got = r_bool(a->returnBoolValue() ? 1 : 0); break;
                case T_INT: got = r_int(a->returnIntValue()); break;
                case T_UINT: got = r_uint(a->returnUnsignedIntValue()); break;
                case T_LONG: got = r_long(a->returnLongIntValue()); break;
                case T_ULONG: got = r_ulong(a->returnUnsignedLongIntValue()); break;
                case T_LLONG: got = r_llong(a->returnLongLongIntValue()); break;
                case T_ULLONG: got = r_ullong(a->returnUnsignedLongLongIntValue()); break;
                case T_DOUBLE: got = r_double(a->returnDoubleValue()); break;
                case T_STRING: got = r_str(a->returnStringValue()); break;
                case T_PTR: got = r_ptr(a->returnPointerValue()); break;
                case T_CPTR: got = r_cptr(a->returnConstPointerValue()); break;
                case T_FPTR: got = r_fptr(a->returnFunctionPointerValue()); break;
                default: break;
                }
                c->valueGetters++;
                break;
            case G_DEFAULT:
                switch (s.g.t) {
                case T_BOOL: got = r_bool(a->returnBoolValueOrDefault(d.i != 0) ? 1 : 0); break;
                case T_INT: got = r_int(a->returnIntValueOrDefault((int)d.i)); break;
                case T_UINT: got = r_uint(a->returnUnsignedIntValueOrDefault((unsigned int)d.u)); break;
                case T_LONG: got = r_long(a->returnLongIntValueOrDefault((long int)d.i)); break;
                case T_ULONG: got = r_ulong(a->returnUnsignedLongIntValueOrDefault((unsigned long int)d.u)); break;
                case T_LLONG: got = r_llong(a->returnLongLongIntValueOrDefault((cpputest_longlong)d.i)); break;
                case T_ULLONG: got = r_ullong(a->returnUnsignedLongLongIntValueOrDefault((cpputest_ulonglong)d.u)); break;
                case T_DOUBLE: got = r_double(a->returnDoubleValueOrDefault(d.d)); break;
                case T_STRING: got = r_str(a->returnStringValueOrDefault(d.s)); break;
                case T_PTR: got = r_ptr(a->returnPointerValueOrDefault(d.p)); break;
                case T_CPTR: got = r_cptr(a->returnConstPointerValueOrDefault((const void*)d.p)); break;
                case T_FPTR: got = r_fptr(a->returnFunctionPointerValueOrDefault(d.fp)); break;
                default: break;
                }
                c->valueGetters++;
                break;
            }
            rec(c, k, sfmt("#%zu %s %s", k, s.op == OP_LATE ? "late" : "actual", got.c_str()) + out_bytes(s));
            break; }
        case OP_SGET: {
            std::string got;
            const Val& d = s.g.def;
            switch (s.g.kind) {
            case G_HAS: got = sfmt("has=%d", m.hasReturnValue() ? 1 : 0); break;
            case G_GENERIC: got = render_named(m.returnValue()); c->valueGetters++; break;
            case G_TYPED:
                switch (s.g.t) {
                case T_BOOL: got = r_bool(m.boolReturnValue() ? 1 : 0); break;
                case T_INT: got = r_int(m.intReturnValue()); break;
                case T_UINT: got = r_uint(m.unsignedIntReturnValue()); break;
                case T_LONG: got = r_long(m.longIntReturnValue()); break;
                case T_ULONG: got = r_ulong(m.unsignedLongIntReturnValue()); break;
                case T_LLONG: got = r_llong(m.longLongIntReturnValue()); break;
                case T_ULLONG: got = r_ullong(m.unsignedLongLongIntReturnValue()); break;
                case T_DOUBLE: got = r_double(m.doubleReturnValue()); break;
                case T_STRING: got = r_str(m.stringReturnValue()); break;
                case T_PTR: got = r_ptr(m.pointerReturnValue()); break;
                case T_CPTR: got = r_cptr(m.constPointerReturnValue()); break;
                case T_FPTR: got = r_fptr(m.functionPointerReturnValue()); break;
                default: break;
                }
                c->valueGetters++;
                break;
            case G_DEFAULT:
                switch (s.g.t) {
                case T_BOOL: got = r_bool(m.returnBoolValueOrDefault(d.i != 0) ? 1 : 0); break;
                case T_INT: got = r_int(m.returnIntValueOrDefault((int)d.i)); break;
                case T_UINT: got = r_uint(m.returnUnsignedIntValueOrDefault((unsigned int)d.u)); break;
                case T_LONG: got = r_long(m.returnLongIntValueOrDefault((long int)d.i)); break;
                case T_ULONG: got = r_ulong(m.returnUnsignedLongIntValueOrDefault((unsigned long int)d.u)); break;
                case T_LLONG: got = r_llong(m.returnLongLongIntValueOrDefault((cpputest_longlong)d.i)); break;
                case T_ULLONG: got = r_ullong(m.returnUnsignedLongLongIntValueOrDefault((cpputest_ulonglong)d.u)); break;
                case T_DOUBLE: got = r_double(m.returnDoubleValueOrDefault(d.d)); break;
                case T_STRING: got = r_str(m.returnStringValueOrDefault(d.s)); break;
                case T_PTR: got = r_ptr(m.returnPointerValueOrDefault(d.p)); break;
                case T_CPTR: got = r_cptr(m.returnConstPointerValueOrDefault((const void*)d.p)); break;
                case T_FPTR: got = r_fptr(m.returnFunctionPointerValueOrDefault(d.fp)); break;
                default: break;
                }
                c->valueGetters++;
                break;
            default: break;
            }
            rec(c, k, sfmt("#%zu support %s", k, got.c_str()));
            break; }
        case OP_SETDATA:
            switch (s.dkind) {
            case 0: m.setData(s.name, s.v.i != 0); break;
            case 1: m.setData(s.name, (int)s.v.i); break;
            case 2: m.setData(s.name, (unsigned int)s.v.u); break;
            case 3: m.setData(s.name, s.v.s); break;
            case 4: m.setData(s.name, s.v.d); break;
            case 5: m.setData(s.name, s.v.p); break;
            case 6: m.setData(s.name, (const void*)s.v.p); break;
            case 7: m.setData(s.name, s.v.fp); break;
            case 8: m.setDataObject(s.name, s.v.otype, (void*)s.v.obj); break;
            case 9: m.setDataConstObject(s.name, s.v.otype, s.v.obj); break;
            }
            if (s.dkind >= 8 && c->inst[s.scope]) c->captured = true;
            break;
        case OP_GETDATA: rec(c, k, sfmt("#%zu data %s", k, render_named(m.getData(s.name)).c_str())); break;
        case OP_STRICT: m.strictOrder(); break;
        case OP_DISABLE: m.disable(); break;
        case OP_ENABLE: m.enable(); break;
        case OP_IGNORE_OTHER: m.ignoreOtherCalls(); break;
        case OP_CHECK: {
            // In a test that has ALREADY failed (teardown after a failed body) a failing checkExpectations is not reported and does not
            // terminate, but MockSupport::failTest still clears the mock, deleting its actual calls and scopes.  Whether that happened is
            // observed exactly with a sentinel in the C++ mock's data store (never read by the scenario, wiped only by clear), and the model
            // of what the C static points to (exclusion of finding C19:support-getter-reads-static-actual-call) is then updated as for clear().
            bool failedAlready = UtestShell::getCurrent()->hasFailed();
            if (failedAlready) m.setData("c19-sentinel", true);
            m.checkExpectations();
            if (failedAlready) {
                if (!m.hasData("c19-sentinel")) { verif::cls("teardown.failing-check-cleared-the-mock"); model_clear(c, s.scope); }
                else verif::cls("teardown.check-after-failure-left-the-mock-alone");
            }
            break; }
        case OP_LEFT: rec(c, k, sfmt("#%zu left=%d", k, m.expectedCallsLeft() ? 1 : 0)); break;
        case OP_CLEAR:
            m.clear();
            model_clear(c, s.scope);
            break;
        case OP_INST_CMP:
            m.installComparator(s.name, *g_cmp[s.fset]);
            c->nodes = true;
            c->inst[s.scope] = true; if (s.scope == 0) for (int sc = 1; sc < 3; sc++) if (c->exists[sc]) c->inst[sc] = true;
            break;
        case OP_INST_COPY:
            m.installCopier(s.name, *g_cop[s.fset]);
            c->nodes = true;
            c->inst[s.scope] = true; if (s.scope == 0) for (int sc = 1; sc < 3; sc++) if (c->exists[sc]) c->inst[sc] = true;
            break;
        case OP_REMOVE_ALL:
            m.removeAllComparatorsAndCopiers();
            c->nodes = false;
            c->inst[s.scope] = false; if (s.scope == 0) for (int sc = 1; sc < 3; sc++) c->inst[sc] = false;
            probe_repositories(c, k);
            break;
        case OP_CRASH: m.crashOnFailure(s.flag); break;
        }
    }
}
void run_cpp(void* arg) { Ctx* c = (Ctx*)arg; run_cpp_range(c, 0, c->tdStart); c->completed = true; }
void teardown_cpp(void* arg) {
    Ctx* c = (Ctx*)arg;
    if (!c->completed) {
        // the body was terminated by a failure; MockSupport::failTest may have cleared mocks (deleting actual calls and scopes):
        // until the next actual call nothing is assumed about the object the C static points to
        for (int sc = 0; sc < 3; sc++) c->hasLive[sc] = false;
        c->staticValid = false;
    }
    run_cpp_range(c, c->tdStart, c->prog->size());
    c->tdCompleted = true;
}

// ---------------------------------------------------------------------------------------------------------------------
// interpreter B: the C interface (every table entry used is counted in the class histogram)
#define CS(fn) (verif::cls("MockSupport_c." #fn), m->fn)
#define CE(fn) (verif::cls("MockExpectedCall_c." #fn), e->fn)
#define CA(fn) (verif::cls("MockActualCall_c." #fn), a->fn)

void run_c_range(Ctx* c, size_t from, size_t to) {
    const std::vector<Stmt>& prog = *c->prog;
    for (size_t k = from; k < to; k++) {
        const Stmt& s = prog[k];
        if ((*c->skip)[k] == 1) continue;
        bool noGetter = (*c->skip)[k] == 2;
        MockSupport_c* m = c->lastSupportC;
        if (s.op != OP_LATE) {
            touch_scope(c, s.scope);
            if (s.scope == 0 && !s.viaScopeFn) { verif::cls("mock_c"); m = mock_c(); } else { verif::cls("mock_scope_c"); m = mock_scope_c(SCOPES[s.scope]); }
        } else verif::cls("late-use-of-call-handle");
        c->lastSupportC = m;
        switch (s.op) {
        case OP_EXPECT: {
            if (s.ekind == 2) { CS(expectNoCall)(s.name); break; }
            MockExpectedCall_c* e = s.ekind == 0 ? CS(expectOneCall)(s.name) : CS(expectNCalls)(s.n, s.name);
            for (auto& a : s.args) {
                const Val& v = a.v;
                switch (a.kind) {
                case EA_IN:
                    switch (v.t) {
                    case T_BOOL: e = CE(withBoolParameters)(a.name, (int)v.i); break;
                    case T_INT: e = CE(withIntParameters)(a.name, (int)v.i); break;
                    case T_UINT: e = CE(withUnsignedIntParameters)(a.name, (unsigned int)v.u); break;
                    case T_LONG: e = CE(withLongIntParameters)(a.name, (long int)v.i); break;
                    case T_ULONG: e = CE(withUnsignedLongIntParameters)(a.name, (unsigned long int)v.u); break;
                    case T_LLONG: e = CE(withLongLongIntParameters)(a.name, (cpputest_longlong)v.i); break;
                    case T_ULLONG: e = CE(withUnsignedLongLongIntParameters)(a.name, (cpputest_ulonglong)v.u); break;
                    case T_DOUBLE: e = v.useTol ? CE(withDoubleParametersAndTolerance)(a.name, v.d, v.tol) : CE(withDoubleParameters)(a.name, v.d); break;
                    case T_STRING: e = CE(withStringParameters)(a.name, v.s); break;
                    case T_PTR: e = CE(withPointerParameters)(a.name, v.p); break;
                    case T_CPTR: e = CE(withConstPointerParameters)(a.name, (const void*)v.p); break;
                    case T_FPTR: e = CE(withFunctionPointerParameters)(a.name, v.fp); break;
                    case T_MEMBUF: e = CE(withMemoryBufferParameter)(a.name, v.mb, v.mbn); break;
                    case T_OBJ: e = CE(withParameterOfType)(v.otype, a.name, v.obj); break;
                    default: break;
                    }
                    break;
                case EA_OUT_RET: e = CE(withOutputParameterReturning)(a.name, v.mb, v.mbn); break;
                case EA_OUT_TYPE_RET: e = CE(withOutputParameterOfTypeReturning)(v.otype, a.name, v.obj); break;
                case EA_UNMOD: e = CE(withUnmodifiedOutputParameter)(a.name); break;
                case EA_IGNORE_OTHERS: e = CE(ignoreOtherParameters)(); break;
                case EA_RETURN:
                    switch (v.t) {
                    case T_BOOL: e = CE(andReturnBoolValue)((int)v.i); break;
                    case T_INT: e = CE(andReturnIntValue)((int)v.i); break;
                    case T_UINT: e = CE(andReturnUnsignedIntValue)((unsigned int)v.u); break;
                    case T_LONG: e = CE(andReturnLongIntValue)((long int)v.i); break;
                    case T_ULONG: e = CE(andReturnUnsignedLongIntValue)((unsigned long int)v.u); break;
                    case T_LLONG: e = CE(andReturnLongLongIntValue)((cpputest_longlong)v.i); break;
                    case T_ULLONG: e = CE(andReturnUnsignedLongLongIntValue)((cpputest_ulonglong)v.u); break;
                    case T_DOUBLE: e = CE(andReturnDoubleValue)(v.d); break;
                    case T_STRING: e = CE(andReturnStringValue)(v.s); break;
                    case T_PTR: e = CE(andReturnPointerValue)(v.p); break;
                    case T_CPTR: e = CE(andReturnConstPointerValue)((const void*)v.p); break;
                    case T_FPTR: e = CE(andReturnFunctionPointerValue)(v.fp); break;
                    default: break;
                    }
                    break;
                }
            }
            break; }
        case OP_ACTUAL: case OP_LATE: {
            MockActualCall_c* a = s.op == OP_ACTUAL ? CS(actualCall)(s.name) : c->handleC;
            for (auto& x : s.args) {
                const Val& v = x.v;
                switch (x.kind) {
                case AA_IN:
                    switch (v.t) {
                    case T_BOOL: a = CA(withBoolParameters)(x.name, (int)v.i); break;
                    case T_INT: a = CA(withIntParameters)(x.name, (int)v.i); break;
                    case T_UINT: a = CA(withUnsignedIntParameters)(x.name, (unsigned int)v.u); break;
                    case T_LONG: a = CA(withLongIntParameters)(x.name, (long int)v.i); break;
                    case T_ULONG: a = CA(withUnsignedLongIntParameters)(x.name, (unsigned long int)v.u); break;
                    case T_LLONG: a = CA(withLongLongIntParameters)(x.name, (cpputest_longlong)v.i); break;
                    case T_ULLONG: a = CA(withUnsignedLongLongIntParameters)(x.name, (cpputest_ulonglong)v.u); break;
                    case T_DOUBLE: a = CA(withDoubleParameters)(x.name, v.d); break;
                    case T_STRING: a = CA(withStringParameters)(x.name, v.s); break;
                    case T_PTR: a = CA(withPointerParameters)(x.name, v.p); break;
                    case T_CPTR: a = CA(withConstPointerParameters)(x.name, (const void*)v.p); break;
                    case T_FPTR: a = CA(withFunctionPointerParameters)(x.name, v.fp); break;
                    case T_MEMBUF: a = CA(withMemoryBufferParameter)(x.name, v.mb, v.mbn); break;
                    case T_OBJ: a = CA(withParameterOfType)(v.otype, x.name, v.obj); break;
                    default: break;
                    }
                    break;
                case AA_OUT: a = CA(withOutputParameter)(x.name, OUT[x.out]); break;
                case AA_OUT_TYPE: a = CA(withOutputParameterOfType)(v.otype, x.name, OUT[x.out]); break;
                }
            }
            c->handleC = a;
            std::string got;
            const Val& d = s.g.def;
            switch (noGetter ? (int)G_NONE : (int)s.g.kind) {
            case G_NONE: got = "-"; break;
            case G_HAS: { int h = CA(hasReturnValue)(); got = sfmt("has=%d", h); break; }
            case G_GENERIC: { MockValue_c mv = CA(returnValue)(); got = render_c(mv); break; }
            case G_TYPED:
                switch (s.g.t) {
                case T_BOOL: { int x = CA(boolReturnValue)(); got = r_bool(x); break; }
                case T_INT: { int x = CA(intReturnValue)(); got = r_int(x); break; }
                case T_UINT: { unsigned x = CA(unsignedIntReturnValue)(); got = r_uint(x); break; }
                case T_LONG: { long x = CA(longIntReturnValue)(); got = r_long(x); break; }
                case T_ULONG: { unsigned long x = CA(unsignedLongIntReturnValue)(); got = r_ulong(x); break; }
                case T_LLONG: { long long x = CA(longLongIntReturnValue)(); got = r_llong(x); break; }
                case T_ULLONG: { unsigned long long x = CA(unsignedLongLongIntReturnValue)(); got = r_ullong(x); break; }
                case T_DOUBLE: { double x = CA(doubleReturnValue)(); got = r_double(x); break; }
                case T_STRING: { const char* x = CA(stringReturnValue)(); got = r_str(x); break; }
                case T_PTR: { void* x = CA(pointerReturnValue)(); got = r_ptr(x); break; }
                case T_CPTR: { const void* x = CA(constPointerReturnValue)(); got = r_cptr(x); break; }
                case T_FPTR: { fptr_t x = (fptr_t)CA(functionPointerReturnValue)(); got = r_fptr(x); break; }
                default: break;
                }
                break;
            case G_DEFAULT:
                switch (s.g.t) {
                case T_BOOL: { int x = CA(returnBoolValueOrDefault)((int)d.i); got = r_bool(x != 0); break; }   // truthiness: see header
                case T_INT: { int x = CA(returnIntValueOrDefault)((int)d.i); got = r_int(x); break; }
                case T_UINT: { unsigned x = CA(returnUnsignedIntValueOrDefault)((unsigned int)d.u); got = r_uint(x); break; }
                case T_LONG: { long x = CA(returnLongIntValueOrDefault)((long int)d.i); got = r_long(x); break; }
                case T_ULONG: { unsigned long x = CA(returnUnsignedLongIntValueOrDefault)((unsigned long int)d.u); got = r_ulong(x); break; }
                case T_LLONG: { long long x = CA(returnLongLongIntValueOrDefault)((cpputest_longlong)d.i); got = r_llong(x); break; }
                case T_ULLONG: { unsigned long long x = CA(returnUnsignedLongLongIntValueOrDefault)((cpputest_ulonglong)d.u); got = r_ullong(x); break; }
                case T_DOUBLE: { double x = CA(returnDoubleValueOrDefault)(d.d); got = r_double(x); break; }
                case T_STRING: { const char* x = CA(returnStringValueOrDefault)(d.s); got = r_str(x); break; }
                case T_PTR: { void* x = CA(returnPointerValueOrDefault)(d.p); got = r_ptr(x); break; }
                case T_CPTR: { const void* x = CA(returnConstPointerValueOrDefault)((const void*)d.p); got = r_cptr(x); break; }
                case T_FPTR: { fptr_t x = (fptr_t)CA(returnFunctionPointerValueOrDefault)(d.fp); got = r_fptr(x); break; }
                default: break;
                }
                break;
            }
            rec(c, k, sfmt("#%zu %s %s", k, s.op == OP_LATE ? "late" : "actual", got.c_str()) + out_bytes(s));
            break; }
        case OP_SGET: {
            std::string got;
            const Val& d = s.g.def;
            switch (s.g.kind) {
            case G_HAS: { int h = CS(hasReturnValue)(); got = sfmt("has=%d", h); break; }
            case G_GENERIC: { MockValue_c mv = CS(returnValue)(); got = render_c(mv); break; }
            case G_TYPED:
                switch (s.g.t) {
                case T_BOOL: { int x = CS(boolReturnValue)(); got = r_bool(x); break; }
                case T_INT: { int x = CS(intReturnValue)(); got = r_int(x); break; }
                case T_UINT: { unsigned x = CS(unsignedIntReturnValue)(); got = r_uint(x); break; }
                case T_LONG: { long x = CS(longIntReturnValue)(); got = r_long(x); break; }
                case T_ULONG: { unsigned long x = CS(unsignedLongIntReturnValue)(); got = r_ulong(x); break; }
                case T_LLONG: { long long x = CS(longLongIntReturnValue)(); got = r_llong(x); break; }
                case T_ULLONG: { unsigned long long x = CS(unsignedLongLongIntReturnValue)(); got = r_ullong(x); break; }
                case T_DOUBLE: { double x = CS(doubleReturnValue)(); got = r_double(x); break; }
                case T_STRING: { const char* x = CS(stringReturnValue)(); got = r_str(x); break; }
                case T_PTR: { void* x = CS(pointerReturnValue)(); got = r_ptr(x); break; }
                case T_CPTR: { const void* x = CS(constPointerReturnValue)(); got = r_cptr(x); break; }
                case T_FPTR: { fptr_t x = (fptr_t)CS(functionPointerReturnValue)(); got = r_fptr(x); break; }
                default: break;
                }
                break;
            case G_DEFAULT:
                switch (s.g.t) {
                case T_BOOL: { int x = CS(returnBoolValueOrDefault)((int)d.i); got = r_bool(x != 0); break; }
                case T_INT: { int x = CS(returnIntValueOrDefault)((int)d.i); got = r_int(x); break; }
                case T_UINT: { unsigned x = CS(returnUnsignedIntValueOrDefault)((unsigned int)d.u); got = r_uint(x); break; }
                case T_LONG: { long x = CS(returnLongIntValueOrDefault)((long int)d.i); got = r_long(x); break; }
                case T_ULONG: { unsigned long x = CS(returnUnsignedLongIntValueOrDefault)((unsigned long int)d.u); got = r_ulong(x); break; }
                case T_LLONG: { long long x = CS(returnLongLongIntValueOrDefault)((cpputest_longlong)d.i); got = r_llong(x); break; }
                case T_ULLONG: { unsigned long long x = CS(returnUnsignedLongLongIntValueOrDefault)((cpputest_ulonglong)d.u); got = r_ullong(x); break; }
                case T_DOUBLE: { double x = CS(returnDoubleValueOrDefault)(d.d); got = r_double(x); break; }
                case T_STRING: { const char* x = CS(returnStringValueOrDefault)(d.s); got = r_str(x); break; }
                case T_PTR: { void* x = CS(returnPointerValueOrDefault)(d.p); got = r_ptr(x); break; }
                case T_CPTR: { const void* x = CS(returnConstPointerValueOrDefault)((const void*)d.p); got = r_cptr(x); break; }
                case T_FPTR: { fptr_t x = (fptr_t)CS(returnFunctionPointerValueOrDefault)(d.fp); got = r_fptr(x); break; }
                default: break;
                }
                break;
            default: break;
            }
            rec(c, k, sfmt("#%zu support %s", k, got.c_str()));
            break; }
        case OP_SETDATA:
            switch (s.dkind) {
            case 0: CS(setBoolData)(s.name, (int)s.v.i); break;
            case 1: CS(setIntData)(s.name, (int)s.v.i); break;
            case 2: CS(setUnsignedIntData)(s.name, (unsigned int)s.v.u); break;
            case 3: CS(setStringData)(s.name, s.v.s); break;
            case 4: CS(setDoubleData)(s.name, s.v.d); break;
            case 5: CS(setPointerData)(s.name, s.v.p); break;
            case 6: CS(setConstPointerData)(s.name, (const void*)s.v.p); break;
            case 7: CS(setFunctionPointerData)(s.name, s.v.fp); break;
            case 8: CS(setDataObject)(s.name, s.v.otype, (void*)s.v.obj); break;
            case 9: CS(setDataConstObject)(s.name, s.v.otype, s.v.obj); break;
            }
            break;
        case OP_GETDATA: { MockValue_c mv = CS(getData)(s.name); rec(c, k, sfmt("#%zu data %s", k, render_c(mv).c_str())); break; }
        case OP_STRICT: CS(strictOrder)(); break;
        case OP_DISABLE: CS(disable)(); break;
        case OP_ENABLE: CS(enable)(); break;
        case OP_IGNORE_OTHER: CS(ignoreOtherCalls)(); break;
        case OP_CHECK: CS(checkExpectations)(); break;
        case OP_LEFT: { int l = CS(expectedCallsLeft)(); rec(c, k, sfmt("#%zu left=%d", k, l)); break; }
        case OP_CLEAR:
            CS(clear)();
            if (s.scope == 0) for (int sc = 1; sc < 3; sc++) c->exists[sc] = false;
            break;
        case OP_INST_CMP:
            CS(installComparator)(s.name, C_EQ[s.fset], C_STR[s.fset]);
            break;
        case OP_INST_COPY: CS(installCopier)(s.name, C_COPY[s.fset]); break;
        case OP_REMOVE_ALL:
            CS(removeAllComparatorsAndCopiers)();
            probe_repositories(c, k);
            if (c->probeFailed) return;
            break;
        case OP_CRASH: CS(crashOnFailure)(s.flag ? 1u : 0u); break;
        }
    }
}
void run_c(void* arg) { Ctx* c = (Ctx*)arg; run_c_range(c, 0, c->tdStart); if (!c->probeFailed) c->completed = true; }
void teardown_c(void* arg) {
    Ctx* c = (Ctx*)arg;
    if (c->probeFailed) return;
    run_c_range(c, c->tdStart, c->prog->size());
    c->tdCompleted = true;
}

void cleanup() {
    mock().clear();
    mock().removeAllComparatorsAndCopiers();
    mock_c()->removeAllComparatorsAndCopiers();
    mock_c()->crashOnFailure(0);
    mock().crashOnFailure(false);
}

struct RunResult { verif::FixtureRun fr; std::string outs; int crashes; };
Ctx* g_td_ctx; void (*g_td_fn)(void*);
void td_trampoline() { g_td_fn(g_td_ctx); }
RunResult run_side(void (*body)(void*), void (*teardown)(void*), Ctx& c) {
    RunResult rr;
    reset_out();
    g_crash_count = 0;
    {   // like verif::run_in_fixture, plus a teardown
        TestTestingFixture fixture;
        verif::ExecLambda ex(body, &c);
        fixture.setTestFunction(&ex);
        g_td_ctx = &c; g_td_fn = teardown;
        fixture.setTeardown(td_trampoline);
        fixture.runAllTests();
        rr.fr.failures = fixture.getFailureCount();
        rr.fr.checks = fixture.getCheckCount();
        rr.fr.output = fixture.getOutput().asCharString();
    }
    rr.crashes = g_crash_count;
    rr.outs = hex(&OUT[0][0], sizeof OUT);
    cleanup();
    return rr;
}

std::string program_text(const Program& P) {
    std::string o = sfmt("[deviation=%s] ", P.devName);
    for (size_t k = 0; k < P.st.size(); k++) o += sfmt("#%zu %s%s; ", k, k >= P.tdStart ? "[teardown] " : "", stmt_str(P.st[k]).c_str());
    return o;
}

}  // namespace

// ~1000 allocations per case from ever-changing (rapidcheck / longjmp) stacks: with the default 30-frame allocation contexts
// ASan's stack depot grows by ~130 KB per case (2 GB per worker in a quick run).  Short contexts keep it bounded; the stack of
// a reported error itself is not affected.  ASAN_OPTIONS from the driver still override every key they name.
extern "C" const char* __asan_default_options(void) { return "malloc_context_size=3:quarantine_size_mb=64"; }

extern "C" const char* verif_property(void) { return "C19"; }
extern "C" void verif_init(void) {
    verif::install_fake_time();
    UtestShell::setCrashMethod(count_crash);
    g_cmp[0] = new MockFunctionComparator(cpp_eq0, cpp_str0); g_cmp[1] = new MockFunctionComparator(cpp_eq1, cpp_str1); g_cmp[2] = new MockFunctionComparator(cpp_eq2, cpp_str2);
    g_cop[0] = new MockFunctionCopier(cpp_copy0); g_cop[1] = new MockFunctionCopier(cpp_copy1); g_cop[2] = new MockFunctionCopier(cpp_copy2);
}

extern "C" int verif_case(const uint8_t* data, size_t size) {
    Reader r(data, size);
    Program P;
    build(r, P);
    const size_t n = P.st.size();
    if (verif::g_explain) {
        fprintf(stderr, "deviation: %s\n", P.devName);
        for (size_t k = 0; k < n; k++) fprintf(stderr, "  #%zu %s%s\n", k, k >= P.tdStart ? "[teardown] " : "", stmt_str(P.st[k]).c_str());
        fprintf(stderr, "consumed %zu of %zu input bytes\n", r.i < r.n ? r.i : r.n, r.n);
    }
    std::vector<char> skip(n, 0), dcond(n, 0), rcond(n, 0), hcond(n, 0);
    Ctx A, B;
    A.prog = B.prog = &P.st; A.skip = B.skip = &skip; A.dcond = B.dcond = &dcond; A.rcond = B.rcond = &rcond; A.hcond = B.hcond = &hcond;
    cleanup();
    verif::fake_millis_value = 0;
    A.tdStart = B.tdStart = P.tdStart;
    RunResult ra = run_side(run_cpp, teardown_cpp, A);
    verif::fake_millis_value = 0;
    RunResult rb = run_side(run_c, teardown_c, B);

    if (verif::g_explain) {
        fprintf(stderr, "C++: failures=%zu checks=%zu completed=%d crashes=%d\n", ra.fr.failures, ra.fr.checks, A.completed, ra.crashes);
        for (auto& e : A.trace) fprintf(stderr, "    %s\n", e.s.c_str());
        fprintf(stderr, "%s\n", ra.fr.output.c_str());
        fprintf(stderr, "C  : failures=%zu checks=%zu completed=%d crashes=%d\n", rb.fr.failures, rb.fr.checks, B.completed, rb.crashes);
        for (auto& e : B.trace) fprintf(stderr, "    %s\n", e.s.c_str());
        fprintf(stderr, "%s\n", rb.fr.output.c_str());
    }

    bool nontrivial = A.actualCalls >= 1 && (A.valueGetters >= 1 || P.deviation != 0);
    int rc = 0;
    std::string ptxt = program_text(P);
    if (ptxt.size() > 1500) ptxt = ptxt.substr(0, 1500) + "...";
    auto first_line = [](const std::string& s) { size_t p = s.find("error:"); std::string t = p == std::string::npos ? s : s.substr(p); return verif::printable(t.substr(0, 300)); };

    if (B.probeFailed) rc = verif::fail(K_REMOVE, "%s | %s", B.probeMsg.c_str(), ptxt.c_str());
    if (rc == 0) {
        // first difference of the statement traces
        size_t i = 0;
        while (i < A.trace.size() && i < B.trace.size() && A.trace[i].s == B.trace[i].s) i++;
        if (i < A.trace.size() || i < B.trace.size()) {
            size_t k = i < A.trace.size() && i < B.trace.size() ? std::min(A.trace[i].k, B.trace[i].k) : (i < A.trace.size() ? A.trace[i].k : B.trace[i].k);
            const char* sig = "C19:observed-value-differs";
            if (k < n && P.st[k].op == OP_SGET && dcond[k]) sig = K_STATIC;
            if (k < n && P.st[k].op == OP_LATE && hcond[k]) sig = K_HANDLE;
            rc = verif::fail(sig, "statement #%zu (%s): C++ observed [%s], C observed [%s]; C++ failures=%zu (%s) C failures=%zu (%s) | %s",
                             k, k < n ? stmt_str(P.st[k]).c_str() : "?",
                             i < A.trace.size() ? A.trace[i].s.c_str() : "(statement not reached / test terminated)",
                             i < B.trace.size() ? B.trace[i].s.c_str() : "(statement not reached / test terminated)",
                             ra.fr.failures, first_line(ra.fr.output).c_str(), rb.fr.failures, first_line(rb.fr.output).c_str(), ptxt.c_str());
        }
    }
    // a difference that shows only in the verdict / text / check count is attributed to a listed condition when a statement under
    // that condition was executed (only possible while the finding is NOT listed, so nothing is masked)
    const char* attributed = nullptr;
    for (size_t k = 0; k < n; k++) { if (hcond[k] && !skip[k]) attributed = K_HANDLE; if (dcond[k] && !skip[k] && !attributed) attributed = K_STATIC; }
    if (rc == 0 && (ra.fr.failures != rb.fr.failures || A.completed != B.completed || A.tdCompleted != B.tdCompleted))
        rc = verif::fail(attributed ? attributed : "C19:verdict-differs", "C++: %zu failure(s), body %s; C: %zu failure(s), body %s; C++ text [%s] C text [%s] | %s",
                         ra.fr.failures, A.completed ? "completed" : "terminated", rb.fr.failures, B.completed ? "completed" : "terminated",
                         first_line(ra.fr.output).c_str(), first_line(rb.fr.output).c_str(), ptxt.c_str());
    if (rc == 0 && ra.fr.output != rb.fr.output)
        rc = verif::fail(attributed ? attributed : "C19:failure-text-differs", "C++ text [%s] C text [%s] | %s", verif::printable(ra.fr.output.substr(0, 900)).c_str(), verif::printable(rb.fr.output.substr(0, 900)).c_str(), ptxt.c_str());
    if (rc == 0 && ra.fr.checks != rb.fr.checks)
        rc = verif::fail(attributed ? attributed : "C19:check-count-differs", "C++ counted %zu checks, C counted %zu | %s", ra.fr.checks, rb.fr.checks, ptxt.c_str());
    if (rc == 0 && ra.outs != rb.outs)
        rc = verif::fail("C19:output-bytes-differ", "output buffers after the C++ run %s, after the C run %s | %s", ra.outs.c_str(), rb.outs.c_str(), ptxt.c_str());
    if (rc == 0 && ra.crashes != rb.crashes)
        rc = verif::fail("C19:crash-hook-differs", "crash hook ran %d time(s) under C++, %d time(s) under C | %s", ra.crashes, rb.crashes, ptxt.c_str());

    // class histogram of the generator
    verif::cls(P.deviation ? "scenario.deviation" : "scenario.no-deviation");
    verif::cls(sfmt("deviation.%s", P.devName).c_str());
    verif::cls(ra.fr.failures ? "verdict.failing" : "verdict.passing");
    if (!ra.fr.failures && A.valueGetters) verif::cls("verdict.passing-with-value-getter");
    for (size_t k = 0; k < n; k++) { if (dcond[k]) verif::cls("support-getter.cross-object"); if (rcond[k]) verif::cls("removeAll.on-scope-with-other-holders"); if (hcond[k]) verif::cls("late-getter.has-or-default-under-another-current-mock"); }

    if (!nontrivial) verif::cls(A.actualCalls == 0 ? "trivial.no-actual-call" : ra.fr.failures ? "trivial.failed-before-any-value-getter" : "trivial.no-value-getter-generated");
    verif::note_case(nontrivial, r.h, [&] { return ptxt; });
    return rc;
}

// deterministic reproducers of the listed findings
namespace {
struct Repro { int cpp = 0, c = 0; bool poisoned = false; };
void repro_static_cpp(void* p) {
    mock("s1").expectOneCall("f").andReturnValue(1);
    mock("s2").expectOneCall("g").andReturnValue(2);
    mock("s1").actualCall("f");
    mock("s2").actualCall("g");
    ((Repro*)p)->cpp = mock("s1").intReturnValue();
}
void repro_static_c(void* p) {
    mock_scope_c("s1")->expectOneCall("f")->andReturnIntValue(1);
    mock_scope_c("s2")->expectOneCall("g")->andReturnIntValue(2);
    mock_scope_c("s1")->actualCall("f");
    mock_scope_c("s2")->actualCall("g");
    ((Repro*)p)->c = mock_scope_c("s1")->intReturnValue();
}
void repro_handle_cpp(void* p) {
    mock("s1").expectOneCall("f").andReturnValue(5);
    MockActualCall& call = mock("s1").actualCall("f");
    mock().setData("d0", 1);
    ((Repro*)p)->cpp = call.returnIntValueOrDefault(9);
}
void repro_handle_c(void* p) {
    mock_scope_c("s1")->expectOneCall("f")->andReturnIntValue(5);
    MockActualCall_c* call = mock_scope_c("s1")->actualCall("f");
    mock_c()->setIntData("d0", 1);
    ((Repro*)p)->c = call->returnIntValueOrDefault(9);
}
void repro_remove_c(void* p) {
    mock_c()->installComparator("T", c_eq0, c_str0);
    mock_scope_c("s1")->removeAllComparatorsAndCopiers();
    mock();
    MockNamedValue v("probe");
    v.setConstObjectPointer("T", NULLPTR);
    const void* cmp = v.getComparator();
    ((Repro*)p)->poisoned = cmp != NULLPTR && C19_POISONED(cmp);
}
}  // namespace

extern "C" int verif_known_repro(const char* key) {
    std::string k(key);
    if (k == K_STATIC) {
        Repro rp; cleanup();
        verif::run_in_fixture(repro_static_cpp, &rp); cleanup();
        verif::run_in_fixture(repro_static_c, &rp); cleanup();
        fprintf(stderr, "repro %s: mock(\"s1\").intReturnValue() = %d, mock_scope_c(\"s1\")->intReturnValue() = %d\n", key, rp.cpp, rp.c);
        return rp.cpp != rp.c ? 1 : 0;
    }
    if (k == K_HANDLE) {
        Repro rp; cleanup();
        verif::run_in_fixture(repro_handle_cpp, &rp); cleanup();
        verif::run_in_fixture(repro_handle_c, &rp); cleanup();
        fprintf(stderr, "repro %s: call.returnIntValueOrDefault(9) after mock().setData = %d, call->returnIntValueOrDefault(9) after mock_c()->setIntData = %d\n", key, rp.cpp, rp.c);
        return rp.cpp != rp.c ? 1 : 0;
    }
    if (k == K_REMOVE) {
        Repro rp; cleanup();
        verif::run_in_fixture(repro_remove_c, &rp); cleanup();
        fprintf(stderr, "repro %s: comparator of the global scope freed by removeAll on scope s1: %d\n", key, rp.poisoned);
        return rp.poisoned ? 1 : 0;
    }
    return -1;
}
