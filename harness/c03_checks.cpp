// C03 — each check macro fails exactly when the predicate it names is false, and is counted as exactly one check
//       (a passing CHECK_COMPARE is the one kind that is not counted).
// Decoder: one case = one check kind (46 kinds: every C++ check macro incl. its _TEXT form, every CHECK_EQUAL_C_* /
//          CHECK_C / FAIL_C variant, CHECK_THROWS) + operands decoded from the bytes (integer boundary lattice cut to the
//          operand type, double classes x tolerances, strings with NULL / empty / case-only / prefix differences,
//          memory blocks with NULL x length, masks x byte counts, six relational operators).
// Oracle:  the mathematical predicate computed independently (__int128 after the conversion the macro names, libc
//          strcmp / strncmp / memcmp / strstr, own ASCII folding, doubles by bit classification + long double distance).
// Observed: failure count (1 iff predicate false) and check count (1; 0 for a passing CHECK_COMPARE) of the private
//          TestResult of a one-test fixture whose body is exactly that one check.
// Works with and without exceptions (variant noexc: every failing check leaves the body by longjmp; CHECK_THROWS absent).
#include "common.h"
#include "CppUTest/TestHarness_c.h"
#include <float.h>
#include <math.h>
#include <limits.h>
#include <unistd.h>
#include <fcntl.h>
#include <sys/wait.h>
#include <string>
#if CPPUTEST_HAVE_EXCEPTIONS
#include <stdexcept>
#endif

using verif::Reader;
using verif::sfmt;

namespace {

typedef __int128 i128;
typedef unsigned __int128 u128;

const char* const KEY_INF = "C03:doubles-opposite-infinities";
const char* const KEY_RENDER = "C03:equal-renderings-overread";
const char* const KEY_CBOOL = "C03:c-condition-truncated-to-int";
#define TXT "verif text"

// ------------------------------------------------------------------ kinds
enum Kind {
    K_CHECK, K_CHECK_TRUE, K_CHECK_FALSE, K_CHECK_C,
    K_FAIL, K_FAIL_TEST, K_FAIL_C, K_FAIL_TEXT_C,
    K_CHECK_EQUAL_INT, K_CHECK_EQUAL_DOUBLE, K_CHECK_EQUAL_STRING, K_CHECK_EQUAL_ZERO, K_ENUMS_EQUAL,
    K_LONGS_EQUAL, K_UNSIGNED_LONGS_EQUAL, K_LONGLONGS_EQUAL, K_UNSIGNED_LONGLONGS_EQUAL, K_BYTES_EQUAL, K_SIGNED_BYTES_EQUAL,
    K_POINTERS_EQUAL, K_FUNCTIONPOINTERS_EQUAL,
    K_DOUBLES_EQUAL,
    K_STRCMP_EQUAL, K_STRNCMP_EQUAL, K_STRCMP_NOCASE_EQUAL, K_STRCMP_CONTAINS, K_STRCMP_NOCASE_CONTAINS,
    K_MEMCMP_EQUAL, K_BITS_EQUAL, K_CHECK_COMPARE, K_CHECK_THROWS,
    K_C_BOOL, K_C_INT, K_C_UINT, K_C_LONG, K_C_ULONG, K_C_LONGLONG, K_C_ULONGLONG, K_C_REAL, K_C_CHAR, K_C_UBYTE, K_C_SBYTE,
    K_C_STRING, K_C_POINTER, K_C_MEMCMP, K_C_BITS,
    K_CHECK_EQUAL_STDSTRING, K_CHECK_EQUAL_POINTER,      // appended later: never renumber, corpus files keep their meaning
    K_COUNT
};
const char* const KIND_NAME[K_COUNT] = {
    "CHECK", "CHECK_TRUE", "CHECK_FALSE", "CHECK_C",
    "FAIL", "FAIL_TEST", "FAIL_C", "FAIL_TEXT_C",
    "CHECK_EQUAL(int)", "CHECK_EQUAL(double)", "CHECK_EQUAL(SimpleString)", "CHECK_EQUAL_ZERO", "ENUMS_EQUAL",
    "LONGS_EQUAL", "UNSIGNED_LONGS_EQUAL", "LONGLONGS_EQUAL", "UNSIGNED_LONGLONGS_EQUAL", "BYTES_EQUAL", "SIGNED_BYTES_EQUAL",
    "POINTERS_EQUAL", "FUNCTIONPOINTERS_EQUAL",
    "DOUBLES_EQUAL",
    "STRCMP_EQUAL", "STRNCMP_EQUAL", "STRCMP_NOCASE_EQUAL", "STRCMP_CONTAINS", "STRCMP_NOCASE_CONTAINS",
    "MEMCMP_EQUAL", "BITS_EQUAL", "CHECK_COMPARE", "CHECK_THROWS",
    "CHECK_EQUAL_C_BOOL", "CHECK_EQUAL_C_INT", "CHECK_EQUAL_C_UINT", "CHECK_EQUAL_C_LONG", "CHECK_EQUAL_C_ULONG",
    "CHECK_EQUAL_C_LONGLONG", "CHECK_EQUAL_C_ULONGLONG", "CHECK_EQUAL_C_REAL", "CHECK_EQUAL_C_CHAR", "CHECK_EQUAL_C_UBYTE",
    "CHECK_EQUAL_C_SBYTE", "CHECK_EQUAL_C_STRING", "CHECK_EQUAL_C_POINTER", "CHECK_EQUAL_C_MEMCMP", "CHECK_EQUAL_C_BITS",
    "CHECK_EQUAL(std::string)", "CHECK_EQUAL(pointer)",
};

// ------------------------------------------------------------------ integer types
enum IntType { T_INT, T_BOOL, T_CHAR, T_SCHAR, T_UCHAR, T_SHORT, T_USHORT, T_UINT, T_LONG, T_ULONG, T_LLONG, T_ULLONG, T_COUNT };
struct TypeInfo { const char* name; int bits; bool sg; };
const TypeInfo TI[T_COUNT] = {
    {"int", 32, true}, {"bool", 1, false}, {"char", 8, CHAR_MIN < 0}, {"signed char", 8, true}, {"unsigned char", 8, false},
    {"short", 16, true}, {"unsigned short", 16, false}, {"unsigned int", 32, false}, {"long", 64, true},
    {"unsigned long", 64, false}, {"long long", 64, true}, {"unsigned long long", 64, false},
};
static_assert(sizeof(long) == 8 && sizeof(int) == 4 && sizeof(short) == 2 && sizeof(long long) == 8, "LP64 assumed");

// value of `v` after conversion to an integer type of `bits` bits (two's complement, modular)
i128 wrapb(i128 v, int bits, bool sg) {
    u128 m = (((u128)1) << bits) - 1;
    u128 u = ((u128)v) & m;
    if (sg && ((u >> (bits - 1)) & 1)) return (i128)u - (((i128)1) << bits);
    return (i128)u;
}
i128 wrap(i128 v, int t) { return t == T_BOOL ? (i128)(v != 0) : wrapb(v, TI[t].bits, TI[t].sg); }
i128 tmin(int t) { return TI[t].sg ? -(((i128)1) << (TI[t].bits - 1)) : 0; }
i128 tmax(int t) { return TI[t].sg ? (((i128)1) << (TI[t].bits - 1)) - 1 : (((i128)1) << TI[t].bits) - 1; }

std::string dec(i128 v) {
    if (v == 0) return "0";
    bool neg = v < 0; u128 u = neg ? (u128)(-(v + 1)) + 1 : (u128)v;
    std::string s;
    while (u) { s.insert(s.begin(), (char)('0' + (int)(u % 10))); u /= 10; }
    return neg ? "-" + s : s;
}

template <class T> inline T from128(i128 v) { return (T)(unsigned long long)(u128)v; }   // v is in range of T: exact
template <> inline bool from128<bool>(i128 v) { return v != 0; }

template <class F> inline void with_type(int t, i128 v, F&& f) {
    switch (t) {
    default:
    case T_INT: f(from128<int>(v)); break;
    case T_BOOL: f(from128<bool>(v)); break;
    case T_CHAR: f(from128<char>(v)); break;
    case T_SCHAR: f(from128<signed char>(v)); break;
    case T_UCHAR: f(from128<unsigned char>(v)); break;
    case T_SHORT: f(from128<short>(v)); break;
    case T_USHORT: f(from128<unsigned short>(v)); break;
    case T_UINT: f(from128<unsigned int>(v)); break;
    case T_LONG: f(from128<long>(v)); break;
    case T_ULONG: f(from128<unsigned long>(v)); break;
    case T_LLONG: f(from128<long long>(v)); break;
    case T_ULLONG: f(from128<unsigned long long>(v)); break;
    }
}
// the six operand types used where the two operands of one check may have different types
const int MIX[6] = {T_INT, T_SCHAR, T_USHORT, T_UINT, T_LONG, T_ULLONG};
template <class F> inline void with_mix(int t, i128 v, F&& f) {
    switch (t) {
    default:
    case T_INT: f(from128<int>(v)); break;
    case T_SCHAR: f(from128<signed char>(v)); break;
    case T_USHORT: f(from128<unsigned short>(v)); break;
    case T_UINT: f(from128<unsigned int>(v)); break;
    case T_LONG: f(from128<long>(v)); break;
    case T_ULLONG: f(from128<unsigned long long>(v)); break;
    }
}

// operand types of the value under test of the bits checks, and the types the other two operands may have instead of it
const int BITS_ACTUAL[9] = {T_UINT, T_UCHAR, T_USHORT, T_ULONG, T_SCHAR, T_SHORT, T_INT, T_LONG, T_ULLONG};
const int WIDE[5] = {-1 /* the type of the value under test */, T_ULONG, T_LONG, T_INT, T_UINT};
template <class F> inline void with_bits_actual(int t, i128 v, F&& f) {
    switch (t) {
    default:
    case T_UINT: f(from128<unsigned int>(v)); break;
    case T_UCHAR: f(from128<unsigned char>(v)); break;
    case T_USHORT: f(from128<unsigned short>(v)); break;
    case T_ULONG: f(from128<unsigned long>(v)); break;
    case T_SCHAR: f(from128<signed char>(v)); break;
    case T_SHORT: f(from128<short>(v)); break;
    case T_INT: f(from128<int>(v)); break;
    case T_LONG: f(from128<long>(v)); break;
    case T_ULLONG: f(from128<unsigned long long>(v)); break;
    }
}
template <class T, class F> inline void with_wide(int mode, i128 v, F&& f) {
    switch (mode) {
    default:
    case 0: f(from128<T>(v)); break;
    case 1: f(from128<unsigned long>(v)); break;
    case 2: f(from128<long>(v)); break;
    case 3: f(from128<int>(v)); break;
    case 4: f(from128<unsigned int>(v)); break;
    }
}

enum E32 : int { E32_ZERO = 0 };
enum class ELL : long long { ZERO = 0 };
enum E8 : unsigned char { E8_ZERO = 0 };

// ------------------------------------------------------------------ doubles by bits (no use of the FPU's comparisons)
uint64_t dbits(double d) { uint64_t b; memcpy(&b, &d, 8); return b; }
double from_bits(uint64_t b) { double d; memcpy(&d, &b, 8); return d; }
bool d_isnan(double d) { uint64_t b = dbits(d); return ((b >> 52) & 0x7ff) == 0x7ff && (b & 0xfffffffffffffULL) != 0; }
bool d_isinf(double d) { uint64_t b = dbits(d); return ((b >> 52) & 0x7ff) == 0x7ff && (b & 0xfffffffffffffULL) == 0; }
bool d_neg(double d) { return (dbits(d) >> 63) != 0; }
// order-preserving integer key of a non-NaN double (-0 and +0 share key 0)
i128 d_key(double d) { uint64_t b = dbits(d); i128 mag = (i128)(b & 0x7fffffffffffffffULL); return (b >> 63) ? -mag : mag; }
const char* d_class(double d) {
    if (d_isnan(d)) return "nan";
    if (d_isinf(d)) return d_neg(d) ? "-inf" : "+inf";
    uint64_t b = dbits(d);
    if ((b & 0x7fffffffffffffffULL) == 0) return d_neg(d) ? "-0" : "+0";
    if (((b >> 52) & 0x7ff) == 0) return "subnormal";
    return "finite";
}
// 1 equal, 0 unequal, -1 the exact real-number answer and the IEEE double answer differ (rounding of d1-d2): either accepted
int doubles_equal_model(double e, double a, double t) {
    if (d_isnan(e) || d_isnan(a) || d_isnan(t)) return 0;
    if (d_key(e) == d_key(a)) return 1;                          // the same value, including the same infinity
    if (d_isinf(e) || d_isinf(a)) return d_isinf(t) ? 1 : 0;      // distance is infinite
    if (d_isinf(t)) return 1;
    long double diff = fabsl((long double)e - (long double)a);   // exact unless the exponents are > 64 bits apart (then still monotone)
    bool exact_le = diff <= (long double)t;
    volatile double dd = e - a;
    bool ieee_le = fabs(dd) <= t;
    if (exact_le != ieee_le) return -1;
    return exact_le ? 1 : 0;
}
std::string render_double_model(double d) {      // what StringFrom(double) is documented to print
    if (d_isnan(d)) return "Nan - Not a number";
    if (d_isinf(d)) return "Inf - Infinity";
    char b[64]; snprintf(b, sizeof b, "%.6g", d); return b;
}
std::string show_double(double d) { return sfmt("%.17g[%016llx]", d, (unsigned long long)dbits(d)); }

// ------------------------------------------------------------------ strings
char fold(char c) { return (c >= 'A' && c <= 'Z') ? (char)(c - 'A' + 'a') : c; }
std::string fold(const std::string& s) { std::string o = s; for (auto& c : o) c = fold(c); return o; }
char flipcase(char c) { if (c >= 'A' && c <= 'Z') return (char)(c - 'A' + 'a'); if (c >= 'a' && c <= 'z') return (char)(c - 'a' + 'A'); return c; }
std::string printable_model(const std::string& s) {   // SimpleString::printable as documented
    static const char* shortc = "abtnvfr";
    std::string o;
    for (char ch : s) {
        unsigned char c = (unsigned char)ch;
        if (c >= 7 && c <= 13) { o.push_back('\\'); o.push_back(shortc[c - 7]); }
        else if (c < 0x20 || c >= 0x7f) o += sfmt("\\x%02X", c);
        else o.push_back(ch);
    }
    return o;
}
char* dup_exact(const std::string& s) { char* p = (char*)malloc(s.size() + 1); memcpy(p, s.c_str(), s.size() + 1); return p; }

// ------------------------------------------------------------------ the decoded case
struct Case {
    int kind = 0; bool text = false;
    int ta = 0, tb = 0; i128 va = 0, vb = 0, vm = 0;        // integer operands (value already in range of its type)
    double da = 0, db = 0, dt = 0;
    bool a_null = false, b_null = false, alias = false; std::string sa, sb; size_t n = 0;
    int sub = 0, op = 0, ia = 0, ib = 0, tm = 0;
    bool crash_mode = false;  // run under UtestShell::setCrashOnFail() with a counting crash method
    bool direct = false;      // assertCompare called directly (the macro never hands it a true comparison)
    std::string *sta = nullptr, *stb = nullptr;
    bool wide_src = false;    // C interface: operands of a type other than the parameter type (converted by the call)
    bool c_trunc = false;     // the int parameter of CHECK_C / CHECK_EQUAL_C_BOOL loses the truth value (KEY_CBOOL)
    // materialised operands (built outside the test body: a failing check leaves the body by throw or longjmp)
    char *pa = nullptr, *pb = nullptr;
    SimpleString *ssa = nullptr, *ssb = nullptr;
    // oracle
    int expect = 1;           // 1 predicate true, 0 false, -1 either (double rounding)
    size_t pass_checks = 1;   // check count when the check passes (0 only for CHECK_COMPARE)
    bool nontrivial = false;
    bool hazard = false;      // failure message is built from two identical renderings (KEY_RENDER)
    bool opp_inf = false;     // opposite infinities under a finite tolerance (KEY_INF)
    bool not_applicable = false;
};

const i128 P31 = ((i128)1) << 31, P32 = ((i128)1) << 32, P63 = ((i128)1) << 63, P64 = ((i128)1) << 64;
const i128 LAT[] = {0, 1, -1, 127, 128, 129, -127, -128, -129, 255, 256, 257, P31 - 1, P31, P31 + 1, -P31 - 1, -P31, -P31 + 1,
                    P32 - 1, P32, P32 + 1, P63 - 1, P63, P64 - 1, -P63, -P63 + 1, 2, -2, 65535, 65536, 32767, 32768, -32768, -32769};

i128 gen_int(Reader& r, int t) {
    i128 v;
    switch (r.below(4)) {
    default:
    case 0: v = LAT[r.below((uint32_t)(sizeof LAT / sizeof LAT[0]))]; break;
    case 1: { uint32_t k = r.below(4); v = k == 0 ? tmin(t) : k == 1 ? tmax(t) : k == 2 ? tmin(t) + 1 : tmax(t) - 1; } break;
    case 2: v = (i128)r.u64(); break;
    case 3: v = (i128)r.below(17) - 8; break;
    }
    return wrap(v, t);
}
i128 derive_int(Reader& r, int t, i128 a) {
    i128 v;
    switch (r.below(8)) {
    default:
    case 0: case 1: case 2: v = a; break;
    case 3: v = a + 1; break;
    case 4: v = a - 1; break;
    case 5: v = a ^ (((i128)1) << r.below((uint32_t)TI[t].bits)); break;
    case 6: v = gen_int(r, t); break;
    case 7: { static const int sh[] = {8, 16, 32, 7, 15, 31}; v = a + (((i128)1) << r.pick(sh)); } break;
    }
    return wrap(v, t);
}

double dlat(uint32_t i) {
    static const uint64_t NANB = 0x7ff8000000000000ULL, INFB = 0x7ff0000000000000ULL;
    switch (i) {
    default:
    case 0: return 0.0;
    case 1: return 1.0;
    case 2: return -0.0;
    case 3: return -1.0;
    case 4: return from_bits(1);                          // denorm_min
    case 5: return from_bits(1 | (1ULL << 63));
    case 6: return DBL_MIN;
    case 7: return -DBL_MIN;
    case 8: return 1.0 + DBL_EPSILON;
    case 9: return 1.0 - DBL_EPSILON / 2;
    case 10: return DBL_MAX;
    case 11: return -DBL_MAX;
    case 12: return from_bits(INFB);
    case 13: return from_bits(INFB | (1ULL << 63));
    case 14: return from_bits(NANB);
    case 15: return from_bits(NANB | (1ULL << 63) | 5);
    case 16: return 0.1;
    case 17: return 123456.7;
    case 18: return 1e-9;
    case 19: return 1e300;
    }
}
const uint32_t NDLAT = 20;
double gen_double(Reader& r) {
    switch (r.below(4)) {
    default:
    case 0: case 3: return dlat(r.below(NDLAT));
    case 1: return from_bits(r.u64());
    case 2: return ((int)r.below(33) - 16) / 8.0;
    }
}
double gen_tol(Reader& r) {     // never negative (negative tolerances are outside the statement)
    static const uint64_t NANB = 0x7ff8000000000000ULL, INFB = 0x7ff0000000000000ULL;
    switch (r.below(14)) {
    default:
    case 0: return 0.0;
    case 1: return 1.0;
    case 2: return 0.01;
    case 3: return from_bits(1);
    case 4: return DBL_EPSILON;
    case 5: return 0.5;
    case 6: return DBL_MAX;
    case 7: return from_bits(INFB);
    case 8: return from_bits(NANB);
    case 9: return -0.0;
    case 10: return 1e-9;
    case 11: return from_bits(r.u64() & 0x7fffffffffffffffULL);
    case 12: return r.below(64) / 16.0;
    case 13: return DBL_MIN;
    }
}
double derive_double(Reader& r, double a, double tol) {
    switch (r.below(12)) {
    default:
    case 0: case 1: case 2: return a;
    case 3: return nextafter(a, INFINITY);
    case 4: return nextafter(a, -INFINITY);
    case 5: return -a;
    case 6: return a + tol;
    case 7: return nextafter(a + tol, INFINITY);
    case 8: return a - tol;
    case 9: return nextafter(a - tol, -INFINITY);
    case 10: return gen_double(r);
    case 11: return from_bits(dbits(a) ^ (1ULL << r.below(64)));
    }
}

std::string gen_string(Reader& r) {
    switch (r.below(6)) {
    default:
    case 5: {   // long: a short unit repeated up to a boundary length (format buffers, 8-bit / 10-bit counters)
        static const uint32_t lens[] = {100, 127, 128, 129, 255, 256, 257, 1000, 1023, 1024, 1025, 1500, 5000};
        std::string u = r.str(3, "abZ"); if (u.empty()) u = "x";
        uint32_t n = r.pick(lens); std::string o;
        while (o.size() < n) o += u;
        o.resize(n); return o;
    }
    case 0: return r.str(6, "ab");
    case 1: return r.str(12, "abAB zZ");
    case 2: return r.bytes(40);
    case 3: { static const char a[] = "\n\\nx0A\x7f\x80\xff@[`{aZ\t\x01"; return r.str(10, a, sizeof a - 1); }
    case 4: return r.str(40, "aAbB");
    }
}
// *null is set when the derived operand is NULL
std::string derive_string(Reader& r, const std::string& a, bool a_is_null, bool* null) {
    *null = false;
    uint32_t m = r.below(14);
    if (a_is_null) { if (m < 4) { *null = true; return ""; } if (m < 6) return ""; return gen_string(r); }
    switch (m) {
    case 12: { std::string o = a; if (!o.empty()) { char& ch = o[o.size() - 1]; ch = (char)(ch == 'q' ? 'r' : 'q'); } return o; }   // last byte differs
    case 13: { std::string o = a; if (!o.empty()) { char& ch = o[o.size() - 1 - r.below((uint32_t)(o.size() < 4 ? o.size() : 4))]; ch = flipcase(ch) != ch ? flipcase(ch) : (char)(ch == 'q' ? 'r' : 'q'); } return o; }   // case or byte differs near the end
    default:
    case 0: case 1: case 2: return a;
    case 3: { std::string o = a; for (auto& c : o) c = flipcase(c); return o; }
    case 4: { std::string o = a; if (!o.empty()) { size_t p = r.below((uint32_t)o.size()); o[p] = flipcase(o[p]); } return o; }
    case 5: return a.substr(0, r.below((uint32_t)a.size() + 1));
    case 6: { std::string o = a; o.push_back((char)(1 + r.below(255))); return o; }
    case 7: { std::string o = a; if (!o.empty()) { size_t p = r.below((uint32_t)o.size()); unsigned char c = (unsigned char)o[p]; c = (unsigned char)(c == 255 ? 1 : c + 1); o[p] = (char)c; } return o; }
    case 8: return gen_string(r);
    case 9: *null = true; return "";
    case 10: { std::string o = a; if (!o.empty()) { size_t p = r.below((uint32_t)o.size()); unsigned char c = (unsigned char)(o[p] ^ 0x20); if (c) o[p] = (char)c; } return o; }   // '@' vs '`', '[' vs '{': a folding that is too wide confuses them
    case 11: return "";
    }
}
// needle for the contains checks, derived from the haystack
std::string derive_needle(Reader& r, const std::string& hay, bool hay_null, bool* null) {
    *null = false;
    uint32_t m = r.below(12);
    if (hay_null) { if (m < 4) { *null = true; return ""; } if (m < 6) return ""; return gen_string(r); }
    size_t p = hay.empty() ? 0 : r.below((uint32_t)hay.size());
    size_t l = r.below((uint32_t)(hay.size() - p) + 1);
    std::string sub = hay.substr(p, l);
    switch (m) {
    case 10: { size_t k = hay.size() < 5 ? hay.size() : 1 + r.below(5); return hay.substr(hay.size() - k); }          // suffix
    case 11: { size_t k = hay.size() < 5 ? hay.size() : 1 + r.below(5); std::string o = hay.substr(hay.size() - k); if (!o.empty()) o[o.size() - 1] = (char)(o[o.size() - 1] == 'q' ? 'r' : 'q'); return o; }   // suffix with its last byte changed
    default:
    case 0: case 1: return sub;
    case 2: { for (auto& c : sub) c = flipcase(c); return sub; }
    case 3: { if (!sub.empty()) { size_t q = r.below((uint32_t)sub.size()); unsigned char c = (unsigned char)sub[q]; sub[q] = (char)(c == 255 ? 1 : c + 1); } return sub; }
    case 4: return "";
    case 5: return gen_string(r);
    case 6: *null = true; return "";
    case 7: { std::string o = hay; o.push_back((char)(1 + r.below(255))); return o; }
    case 8: return hay;
    case 9: { if (!sub.empty()) { size_t q = r.below((uint32_t)sub.size()); unsigned char c = (unsigned char)(sub[q] ^ 0x20); if (c) sub[q] = (char)c; } return sub; }
    }
}

// pointer operands: five distinct object pointers, four distinct function pointers
char g_arena[4];
const void* obj_ptr(int i) {
    switch (i) { default: case 0: return nullptr; case 1: return &g_arena[0]; case 2: return &g_arena[1]; case 3: return &g_arena[3]; case 4: return (const void*)(uintptr_t)-1; }
}
void fn_a() { g_arena[0] = 1; }
void fn_b() { g_arena[0] = 2; }
void fn_c() { g_arena[0] = 3; }
typedef void (*fn_t)();
fn_t fn_ptr(int i) { switch (i) { default: case 0: return nullptr; case 1: return fn_a; case 2: return fn_b; case 3: return fn_c; } }
int derive_index(Reader& r, int a, int n) { return r.below(2) == 0 ? a : (int)r.below((uint32_t)n); }

// ------------------------------------------------------------------ decoding + oracle
void decode_bool_family(Reader& r, Case& c) {
    static const int ct[] = {T_INT, T_BOOL, T_CHAR, T_SCHAR, T_UCHAR, T_SHORT, T_USHORT, T_UINT, T_LONG, T_ULONG, T_LLONG, T_ULLONG};
    if (c.kind == K_CHECK_C) c.ta = r.pick(ct); else c.ta = (int)r.below(T_COUNT);
    c.text = r.flag();
    switch (r.below(4)) {
    default:
    case 0: c.va = 0; break;
    case 1: case 2: c.va = gen_int(r, c.ta); break;
    case 3: c.va = wrap(((i128)(1 + r.below(255))) << (8 * r.below(8)), c.ta); break;   // one non-zero byte at any position
    }
    bool truth = c.va != 0;
    c.c_trunc = c.kind == K_CHECK_C && truth && wrapb(c.va, 32, true) == 0;
    c.expect = (c.kind == K_CHECK_FALSE) ? !truth : truth;
    c.nontrivial = !c.expect || (c.va != 1 && c.va != 0);
}
void decode_equal_same(Reader& r, Case& c, int t) {     // both operands of type t, predicate e == a
    c.ta = c.tb = t;
    c.va = gen_int(r, t); c.vb = derive_int(r, t, c.va);
    c.expect = c.va == c.vb;
    c.nontrivial = !c.expect;
}
void decode_mixed(Reader& r, Case& c, int bits, bool sg, bool low_byte, bool same_type = false) {   // operands of possibly different types, compared after the named conversion
    c.ta = r.pick(MIX); c.tb = (same_type || r.below(2) == 0) ? c.ta : r.pick(MIX);
    c.text = r.flag();
    c.va = gen_int(r, c.ta);
    i128 wide;
    switch (r.below(8)) {
    default:
    case 0: case 1: wide = c.va; break;                                                  // same mathematical value when representable
    case 2: wide = wrapb(c.va, bits, sg); break;                                         // the value the named conversion produces
    case 3: wide = c.va + (((i128)1) << (low_byte ? 8 : bits)); break;                   // differs only above the named width
    case 4: wide = c.va + 1; break;
    case 5: wide = c.va - 1; break;
    case 6: wide = gen_int(r, c.tb); break;
    case 7: wide = c.va ^ (((i128)1) << r.below(64)); break;
    }
    c.vb = wrap(wide, c.tb);
    i128 ce = low_byte ? (i128)((u128)c.va & 0xff) : wrapb(c.va, bits, sg);
    i128 ca = low_byte ? (i128)((u128)c.vb & 0xff) : wrapb(c.vb, bits, sg);
    c.expect = ce == ca;
    c.nontrivial = !c.expect || c.va != c.vb;
}
// CHECK_EQUAL_C_<T>: operands of the parameter type, or (wide_src) of another type that the call converts to it
void decode_c_int(Reader& r, Case& c, int named) {
    if (r.below(3) == 2) { c.wide_src = true; decode_mixed(r, c, TI[named].bits, TI[named].sg, false, true); }
    else { c.text = r.flag(); decode_equal_same(r, c, named); }
}
void materialise_strings(Case& c) {
    c.pa = c.a_null ? nullptr : dup_exact(c.sa);
    c.pb = c.b_null ? nullptr : (c.alias ? c.pa : dup_exact(c.sb));
}
void decode_strings(Reader& r, Case& c) {      // sa = expected, sb = actual
    c.text = r.flag();
    c.a_null = r.below(8) == 7;
    if (!c.a_null) c.sa = gen_string(r);
    c.sb = derive_string(r, c.sa, c.a_null, &c.b_null);
    bool both = !c.a_null && !c.b_null;
    bool pass;
    std::string re = c.sa, ra = c.sb;          // what the failure message compares (raw)
    switch (c.kind) {
    default:
    case K_STRCMP_EQUAL: case K_C_STRING:
        pass = (c.a_null && c.b_null) || (both && strcmp(c.sa.c_str(), c.sb.c_str()) == 0);
        break;
    case K_STRNCMP_EQUAL: {
        size_t cp = 0; while (cp < c.sa.size() && cp < c.sb.size() && c.sa[cp] == c.sb[cp]) cp++;
        switch (r.below(8)) {
        default:
        case 0: c.n = cp; break;
        case 1: c.n = cp + 1; break;
        case 2: c.n = 0; break;
        case 3: c.n = 1; break;
        case 4: c.n = c.sa.size(); break;
        case 5: c.n = c.sa.size() + 1; break;
        case 6: c.n = r.below(46); break;
        case 7: { static const size_t big[] = {(size_t)-1, (size_t)-2, 256, 65536, (size_t)1 << 32, (size_t)1 << 31, ((size_t)1 << 32) + 1}; c.n = r.pick(big); } break;
        }
        pass = (c.a_null && c.b_null) || (both && strncmp(c.sa.c_str(), c.sb.c_str(), c.n) == 0);
        break;
    }
    case K_STRCMP_NOCASE_EQUAL:
        pass = (c.a_null && c.b_null) || (both && strcmp(fold(c.sa).c_str(), fold(c.sb).c_str()) == 0);
        break;
    }
    c.expect = pass;
    c.nontrivial = !pass || (both && c.sa != c.sb);
    if (!pass && both) {
        std::string pe = printable_model(c.sa), pa = printable_model(c.sb);
        c.hazard = c.kind == K_STRCMP_NOCASE_EQUAL ? fold(pe) == fold(pa) : pe == pa;
    }
    materialise_strings(c);
}
void decode_contains(Reader& r, Case& c) {     // sa = expected (needle), sb = actual (haystack)
    c.text = r.flag();
    c.b_null = r.below(8) == 7;
    if (!c.b_null) c.sb = gen_string(r);
    c.sa = derive_needle(r, c.sb, c.b_null, &c.a_null);
    bool both = !c.a_null && !c.b_null;
    bool pass;
    if (c.kind == K_STRCMP_CONTAINS) pass = (c.a_null && c.b_null) || (both && strstr(c.sb.c_str(), c.sa.c_str()) != nullptr);
    else pass = (c.a_null && c.b_null) || (both && strstr(fold(c.sb).c_str(), fold(c.sa).c_str()) != nullptr);
    c.expect = pass;
    c.nontrivial = !pass || (both && c.sa != c.sb);
    materialise_strings(c);
}
void decode_memory(Reader& r, Case& c) {       // sa = expected block, sb = actual block, n = size handed to the check
    c.text = r.flag();
    static const uint32_t lens[] = {0, 1, 2, 3, 8, 16, 40, 127, 128, 129, 255, 256, 257, 1000, 4097};
    uint32_t len = r.below(2) == 0 ? r.pick(lens) : r.below(41);
    c.a_null = r.below(6) == 5;
    std::string base;
    for (uint32_t i = 0; i < len; i++) base.push_back((char)r.u8());
    c.sa = base; c.sb = base;
    switch (r.below(10)) {
    default:
    case 0: case 1: case 2: break;
    case 3: if (len) c.sb[len - 1] = (char)(c.sb[len - 1] ^ (1 << r.below(8))); break;
    case 4: if (len) c.sb[0] = (char)(c.sb[0] + 1); break;
    case 5: if (len) { uint32_t p = r.below(len); c.sb[p] = (char)(c.sb[p] ^ (1 << r.below(8))); } break;
    case 6: c.b_null = true; break;
    case 7: c.alias = !c.a_null; break;
    case 8: for (uint32_t i = 0; i < len; i++) c.sb[i] = (char)r.u8(); break;
    case 9: if (len > 1) c.sb[len / 2] = (char)~c.sb[len / 2]; break;
    }
    switch (r.below(4)) {
    default:
    case 0: c.n = len; break;
    case 1: c.n = 0; break;
    case 2: c.n = len ? 1 : 0; break;
    case 3: c.n = r.below(len + 1); break;
    }
    // the blocks are exactly n bytes long (an access past the size handed to the check is an ASan report)
    c.sa.resize(c.n); c.sb.resize(c.n);
    bool pass;
    if (c.n == 0) pass = true;
    else if (c.a_null && c.b_null) pass = true;
    else if (c.a_null || c.b_null) pass = false;
    else pass = memcmp(c.sa.data(), c.sb.data(), c.n) == 0;
    c.expect = pass;
    c.nontrivial = !pass || (c.n == 0 && (c.a_null != c.b_null)) || (c.a_null && c.b_null && c.n > 0) || (c.n == 0 && len > 0 && !c.alias);
    c.pa = c.a_null ? nullptr : (char*)malloc(c.n);
    if (c.pa && c.n) memcpy(c.pa, c.sa.data(), c.n);
    if (c.b_null) c.pb = nullptr;
    else if (c.alias) c.pb = c.pa;
    else { c.pb = (char*)malloc(c.n); if (c.n) memcpy(c.pb, c.sb.data(), c.n); }
}
// BITS_EQUAL(expected, actual, mask) hands all three operands, each converted on its own to unsigned long, plus
// sizeof(actual) to assertBitsEqual; CHECK_EQUAL_C_BITS does the same with unsigned int.  The predicate named is
// (expected & mask) == (actual & mask) on the converted operands; the byte count only drives the printing.
// expected and mask are therefore drawn over the whole 64-bit lattice, whatever the width of `actual`.
void decode_bits(Reader& r, Case& c) {
    bool cvar = c.kind == K_C_BITS;
    int nbits = cvar ? 32 : 64;                       // width of the parameter type
    c.tb = r.pick(BITS_ACTUAL);
    c.text = r.flag();
    c.ia = (int)r.below(5); c.ib = (int)r.below(5);   // type of expected / of mask: 0 = the type of actual
    c.ta = c.ia ? WIDE[c.ia] : c.tb;
    c.tm = c.ib ? WIDE[c.ib] : c.tb;
    c.sub = (int)r.below(3);                          // 2: direct call with an explicit byte count
    if (c.sub == 2) { static const size_t bc[] = {1, 2, 3, 4, 5, 8, 9, 16}; c.n = r.pick(bc); }
    else c.n = (size_t)TI[c.tb].bits / 8;
    int abits = TI[c.tb].bits;
    c.vb = gen_int(r, c.tb);
    uint64_t A = (uint64_t)(u128)c.vb;               // two's complement: a negative narrow value sign-extends
    uint64_t low = abits == 64 ? ~0ULL : ((1ULL << abits) - 1);
    uint64_t M;
    switch (r.below(14)) {
    default:
    case 0: M = low; break;
    case 1: M = ~0ULL; break;
    case 2: M = 0; break;
    case 3: M = 1ULL << (abits % 64); break;          // the first bit above the value under test
    case 4: M = (low << 8) | 0xff; break;             // one byte more than the value under test has
    case 5: M = ~low ? ~low : ~0ULL; break;           // only bits above the value under test
    case 6: M = 0x0f0f0f0f0f0f0f0fULL; break;
    case 7: M = 0xf0f0f0f0f0f0f0f0ULL; break;
    case 8: M = r.u64(); break;
    case 9: M = 0xff; break;
    case 10: M = 1ULL << 63; break;
    case 11: M = 1ULL << (abits - 1); break;          // sign bit of the value under test
    case 12: M = 0xffffffffULL; break;
    case 13: M = 1; break;
    }
    auto pick_bit = [&](uint64_t set, uint64_t fallback) -> uint64_t {
        if (!set) return fallback;
        int k = (int)r.below(64);
        while (!((set >> k) & 1)) k = (k + 1) % 64;
        return 1ULL << k;
    };
    uint64_t E;
    switch (r.below(14)) {
    default:
    case 0: case 1: E = A; break;
    case 2: E = A & low; break;                       // the raw bits of actual, zero-extended
    case 3: E = A ^ pick_bit(M, 0); break;            // one visible bit differs
    case 4: E = A ^ pick_bit(~M, 0); break;           // one hidden bit differs
    case 5: E = A ^ pick_bit(M & ~low, 1ULL << (abits % 64)); break;   // one visible bit above the width of actual differs
    case 6: E = A ^ (M & ~low); break;                // every visible bit above the width of actual differs
    case 7: E = A ^ ~M; break;                        // every hidden bit differs
    case 8: E = (uint64_t)(u128)gen_int(r, T_ULONG); break;
    case 9: E = A ^ M; break;
    case 10: E = A + (1ULL << (abits % 64)); break;
    case 11: E = A ^ (1ULL << r.below(64)); break;
    case 12: E = A ^ pick_bit(M & low, 0); break;     // one visible bit inside the width of actual differs
    case 13: E = ~A; break;
    }
    c.va = wrap((i128)E, c.ta);
    c.vm = wrap((i128)M, c.tm);
    uint64_t pm = nbits == 64 ? ~0ULL : 0xffffffffULL;
    uint64_t e = (uint64_t)(u128)c.va & pm, a = (uint64_t)(u128)c.vb & pm, m = (uint64_t)(u128)c.vm & pm;   // after the conversion to the parameter type
    c.expect = (e & m) == (a & m);
    c.nontrivial = !c.expect || e != a;
    c.op = (abits < nbits && ((m & pm) >> abits) != 0) ? 1 : 0;   // class: the mask reaches above the width of actual
}
bool relop_int(int op, i128 x, i128 y) {
    switch (op) { default: case 0: return x == y; case 1: return x != y; case 2: return x < y; case 3: return x <= y; case 4: return x > y; case 5: return x >= y; }
}
const char* const OPNAME[6] = {"==", "!=", "<", "<=", ">", ">="};
void decode_compare(Reader& r, Case& c) {
    static const int ct[] = {T_INT, T_UINT, T_LLONG, T_ULLONG, T_SCHAR, T_UCHAR, T_LONG, T_COUNT /* double */};
    c.ta = c.tb = r.pick(ct);
    c.op = (int)r.below(6);
    c.text = r.flag();
    c.pass_checks = 0;
    if (c.ta == T_COUNT) {
        c.dt = gen_tol(r); c.da = gen_double(r); c.db = derive_double(r, c.da, d_isnan(c.dt) ? 1.0 : c.dt);
        if (d_isnan(c.da) || d_isnan(c.db)) c.expect = c.op == 1;
        else c.expect = relop_int(c.op, d_key(c.da), d_key(c.db));
        c.nontrivial = !c.expect || dbits(c.da) != dbits(c.db);
    } else {
        c.va = gen_int(r, c.ta); c.vb = derive_int(r, c.ta, c.va);
        c.expect = relop_int(c.op, c.va, c.vb);
        c.nontrivial = !c.expect || c.va != c.vb;
    }
    // read last so that older corpus files keep their meaning: assertCompare itself, which the macro only ever calls with false
    if (r.below(4) == 3) { c.direct = true; c.pass_checks = 1; }
}
void decode_doubles(Reader& r, Case& c) {
    c.text = r.flag();
    c.dt = gen_tol(r);
    c.da = gen_double(r);
    c.db = derive_double(r, c.da, d_isnan(c.dt) ? 1.0 : c.dt);
    if (r.below(16) == 15) { double t = c.da; c.da = c.db; c.db = t; }
    c.expect = doubles_equal_model(c.da, c.db, c.dt);
    c.nontrivial = c.expect != 1 || dbits(c.da) != dbits(c.db);
    c.opp_inf = d_isinf(c.da) && d_isinf(c.db) && d_neg(c.da) != d_neg(c.db) && !d_isinf(c.dt) && !d_isnan(c.dt);
}

void decode(Reader& r, Case& c) {
    // the first 46 kinds keep the byte values they always had (byte % 46 for bytes < 230); kinds appended later take 230..255
    { const int K_BASE = 46; uint8_t b = r.u8(); c.kind = b < 5 * K_BASE ? b % K_BASE : K_BASE + (b - 5 * K_BASE) % (K_COUNT - K_BASE); }
    switch (c.kind) {
    case K_CHECK: case K_CHECK_TRUE: case K_CHECK_FALSE: case K_CHECK_C:
        decode_bool_family(r, c); break;
    case K_FAIL: case K_FAIL_TEST: case K_FAIL_C: case K_FAIL_TEXT_C:
        c.sub = (int)r.below(5);        // which text (4 = NULL)
        c.expect = 0; c.nontrivial = true; break;
    case K_CHECK_EQUAL_INT:
        c.text = r.flag(); decode_equal_same(r, c, (int)r.below(T_COUNT)); break;
    case K_CHECK_EQUAL_DOUBLE:
        c.text = r.flag(); c.dt = gen_tol(r); c.da = gen_double(r); c.db = derive_double(r, c.da, d_isnan(c.dt) ? 1.0 : c.dt);
        c.expect = !d_isnan(c.da) && !d_isnan(c.db) && d_key(c.da) == d_key(c.db);
        c.nontrivial = !c.expect || dbits(c.da) != dbits(c.db);
        c.hazard = !c.expect && render_double_model(c.da) == render_double_model(c.db);
        break;
    case K_CHECK_EQUAL_STRING: {
        c.text = r.flag(); c.sa = gen_string(r); bool nul; c.sb = derive_string(r, c.sa, false, &nul);
        c.expect = c.sa == c.sb; c.nontrivial = !c.expect;
        c.hazard = !c.expect && printable_model(c.sa) == printable_model(c.sb);
        c.ssa = new SimpleString(c.sa.c_str()); c.ssb = new SimpleString(c.sb.c_str());
        break;
    }
    case K_CHECK_EQUAL_ZERO:
        c.text = r.flag(); c.ta = c.tb = (int)r.below(T_COUNT);
        c.vb = r.below(3) == 0 ? 0 : gen_int(r, c.ta);
        c.expect = c.vb == 0; c.nontrivial = !c.expect;
        c.hazard = c.ta == T_CHAR && c.vb == '0';      // StringFrom(0) and StringFrom('0') are both "0"
        break;
    case K_ENUMS_EQUAL:
        c.text = r.flag(); c.sub = (int)r.below(5);
        if (c.sub == 0) { decode_equal_same(r, c, T_INT); }
        else if (c.sub == 3) {      // ENUMS_EQUAL_TYPE(unsigned char, ...) on an enum with an int underlying type: names the conversion to unsigned char
            c.ta = c.tb = T_INT; c.va = gen_int(r, T_INT);
            switch (r.below(4)) { default: case 0: c.vb = c.va; break; case 1: c.vb = wrap(c.va + 256, T_INT); break; case 2: c.vb = derive_int(r, T_INT, c.va); break; case 3: c.vb = wrap(c.va ^ (((i128)1) << (8 + r.below(24))), T_INT); break; }
            c.expect = wrapb(c.va, 8, false) == wrapb(c.vb, 8, false); c.nontrivial = !c.expect || c.va != c.vb;
        }
        else if (c.sub == 4) {      // ENUMS_EQUAL_INT on enums of different underlying types (int, long long)
            c.ta = T_INT; c.tb = T_LLONG; c.va = gen_int(r, T_INT);
            switch (r.below(4)) { default: case 0: c.vb = c.va; break; case 1: c.vb = wrap(c.va + P32, T_LLONG); break; case 2: c.vb = gen_int(r, T_LLONG); break; case 3: c.vb = wrap((i128)(uint32_t)(int32_t)(long long)c.va, T_LLONG); break; }
            c.expect = c.va == wrapb(c.vb, 32, true); c.nontrivial = !c.expect || c.va != c.vb;
        }
        else if (c.sub == 1) {      // enum with a long long underlying type: ENUMS_EQUAL_INT names the conversion to int
            c.ta = c.tb = T_LLONG; c.va = gen_int(r, T_LLONG);
            switch (r.below(4)) { default: case 0: c.vb = c.va; break; case 1: c.vb = wrap(c.va + P32, T_LLONG); break; case 2: c.vb = derive_int(r, T_LLONG, c.va); break; case 3: c.vb = wrap(c.va ^ (((i128)1) << (32 + r.below(32))), T_LLONG); break; }
            c.expect = wrapb(c.va, 32, true) == wrapb(c.vb, 32, true); c.nontrivial = !c.expect || c.va != c.vb;
        } else { decode_equal_same(r, c, T_UCHAR); }
        break;
    case K_LONGS_EQUAL: case K_LONGLONGS_EQUAL: decode_mixed(r, c, 64, true, false); break;
    case K_UNSIGNED_LONGS_EQUAL: case K_UNSIGNED_LONGLONGS_EQUAL: decode_mixed(r, c, 64, false, false); break;
    case K_BYTES_EQUAL: decode_mixed(r, c, 8, false, true); break;
    case K_SIGNED_BYTES_EQUAL: decode_mixed(r, c, 8, true, false); break;
    case K_POINTERS_EQUAL: case K_C_POINTER:
        c.text = r.flag(); c.ia = (int)r.below(5); c.ib = derive_index(r, c.ia, 5);
        c.expect = c.ia == c.ib; c.nontrivial = !c.expect; break;
    case K_FUNCTIONPOINTERS_EQUAL:
        c.text = r.flag(); c.ia = (int)r.below(4); c.ib = derive_index(r, c.ia, 4);
        c.expect = c.ia == c.ib; c.nontrivial = !c.expect; break;
    case K_DOUBLES_EQUAL: case K_C_REAL: decode_doubles(r, c); break;
    case K_STRCMP_EQUAL: case K_STRNCMP_EQUAL: case K_STRCMP_NOCASE_EQUAL: case K_C_STRING: decode_strings(r, c); break;
    case K_STRCMP_CONTAINS: case K_STRCMP_NOCASE_CONTAINS: decode_contains(r, c); break;
    case K_MEMCMP_EQUAL: case K_C_MEMCMP: decode_memory(r, c); break;
    case K_BITS_EQUAL: case K_C_BITS: decode_bits(r, c); break;
    case K_CHECK_COMPARE: decode_compare(r, c); break;
    case K_CHECK_THROWS:
        c.sub = (int)r.below(3);      // expected: int, std::exception, std::runtime_error
        c.op = (int)r.below(5);       // thrown: nothing, int, const char*, std::runtime_error, std::logic_error
        c.expect = (c.sub == 0 && c.op == 1) || (c.sub == 1 && c.op >= 3) || (c.sub == 2 && c.op == 3);
        c.nontrivial = !c.expect || (c.sub == 1);
#if !CPPUTEST_HAVE_EXCEPTIONS
        c.not_applicable = true;
#endif
        break;
    case K_C_BOOL:
        c.text = r.flag();
        if (r.below(3) == 2) { static const int wt[] = {T_LONG, T_UINT, T_ULLONG}; c.wide_src = true; c.ta = c.tb = r.pick(wt); }
        else c.ta = c.tb = T_INT;
        c.va = r.below(3) == 0 ? 0 : gen_int(r, c.ta);
        switch (r.below(6)) {
        default:
        case 0: c.vb = c.va; break;
        case 1: c.vb = c.va ? 0 : 1; break;
        case 2: c.vb = gen_int(r, c.ta); break;
        case 3: c.vb = c.va ? wrap(c.va * 2 + 1, c.ta) : 0; break;
        case 4: c.vb = wrap(((i128)(1 + r.below(255))) << (8 * r.below(8)), c.ta); break;
        case 5: c.vb = wrap(c.va * P32, c.ta); break;
        }
        c.expect = (c.va != 0) == (c.vb != 0); c.nontrivial = !c.expect || c.va != c.vb;
        // the truth values as seen through the int parameters
        c.c_trunc = ((wrapb(c.va, 32, true) != 0) == (wrapb(c.vb, 32, true) != 0)) != (c.expect == 1);
        break;
    case K_C_INT: decode_c_int(r, c, T_INT); break;
    case K_C_UINT: decode_c_int(r, c, T_UINT); break;
    case K_C_LONG: decode_c_int(r, c, T_LONG); break;
    case K_C_ULONG: decode_c_int(r, c, T_ULONG); break;
    case K_C_LONGLONG: decode_c_int(r, c, T_LLONG); break;
    case K_C_ULONGLONG: decode_c_int(r, c, T_ULLONG); break;
    case K_C_CHAR: decode_c_int(r, c, T_CHAR); break;
    case K_C_UBYTE: decode_c_int(r, c, T_UCHAR); break;
    case K_C_SBYTE: decode_c_int(r, c, T_SCHAR); break;
    case K_CHECK_EQUAL_STDSTRING: {
        c.text = r.flag(); c.sa = gen_string(r); bool nul; c.sb = derive_string(r, c.sa, false, &nul);
        if (r.below(4) == 3) {      // embedded NUL: the operands differ (or not) behind it, the renderings stop at it
            size_t pa = c.sa.empty() ? 0 : r.below((uint32_t)c.sa.size() + 1), pb = pa <= c.sb.size() ? pa : c.sb.size();
            c.sa.insert(pa, 1, '\0'); c.sb.insert(pb, 1, '\0');
        }
        c.expect = c.sa == c.sb; c.nontrivial = !c.expect;
        c.hazard = !c.expect && printable_model(std::string(c.sa.c_str())) == printable_model(std::string(c.sb.c_str()));
        c.sta = new std::string(c.sa); c.stb = new std::string(c.sb);
        break;
    }
    case K_CHECK_EQUAL_POINTER:
        c.text = r.flag(); c.sub = (int)r.below(3);    // 0: two const void*, 1: (nullptr, pointer), 2: (pointer, nullptr)
        c.ia = (int)r.below(5); c.ib = derive_index(r, c.ia, 5);
        if (c.sub == 1) c.ia = 0;
        if (c.sub == 2) c.ib = 0;
        c.expect = c.ia == c.ib; c.nontrivial = !c.expect || c.sub != 0; break;
    default: break;
    }
    // options of the run, read last so that older corpus files keep their meaning (exhausted input: none)
    { uint32_t opt = r.below(8); c.crash_mode = opt == 5 || opt == 6; }
}

// ------------------------------------------------------------------ the test body: exactly one check
#if CPPUTEST_HAVE_EXCEPTIONS
void thrower(int what) {
    switch (what) {
    default: case 0: return;
    case 1: throw 42;
    case 2: throw "a string";
    case 3: throw std::runtime_error("runtime");
    case 4: throw std::logic_error("logic");
    }
}
#endif

template <class T> void do_compare(int op, T x, T y, bool text) {
    switch (op) {
    default:
    case 0: if (text) CHECK_COMPARE_TEXT(x, ==, y, TXT); else CHECK_COMPARE(x, ==, y); break;
    case 1: if (text) CHECK_COMPARE_TEXT(x, !=, y, TXT); else CHECK_COMPARE(x, !=, y); break;
    case 2: if (text) CHECK_COMPARE_TEXT(x, <, y, TXT); else CHECK_COMPARE(x, <, y); break;
    case 3: if (text) CHECK_COMPARE_TEXT(x, <=, y, TXT); else CHECK_COMPARE(x, <=, y); break;
    case 4: if (text) CHECK_COMPARE_TEXT(x, >, y, TXT); else CHECK_COMPARE(x, >, y); break;
    case 5: if (text) CHECK_COMPARE_TEXT(x, >=, y, TXT); else CHECK_COMPARE(x, >=, y); break;
    }
}

const char* fail_text(int i) { switch (i) { default: case 0: return ""; case 1: return "a failure text"; case 2: return "100% %s %d"; case 3: return "line1\nline2"; case 4: return nullptr; } }

#define MIXED(M) \
    with_mix(c.ta, c.va, [&](auto e) { with_mix(c.tb, c.vb, [&](auto a) { if (c.text) M##_TEXT(e, a, TXT); else M(e, a); }); })

void body(void* p) {
    const Case& c = *(const Case*)p;
    switch (c.kind) {
    case K_CHECK: with_type(c.ta, c.va, [&](auto v) { if (c.text) CHECK_TEXT(v, TXT); else CHECK(v); }); break;
    case K_CHECK_TRUE: with_type(c.ta, c.va, [&](auto v) { if (c.text) CHECK_TRUE_TEXT(v, TXT); else CHECK_TRUE(v); }); break;
    case K_CHECK_FALSE: with_type(c.ta, c.va, [&](auto v) { if (c.text) CHECK_FALSE_TEXT(v, TXT); else CHECK_FALSE(v); }); break;
    case K_CHECK_C: with_type(c.ta, c.va, [&](auto v) { if (c.text) CHECK_C_TEXT(v, TXT); else CHECK_C(v); }); break;
    case K_FAIL: FAIL(fail_text(c.sub)); break;
    case K_FAIL_TEST: FAIL_TEST(fail_text(c.sub)); break;
    case K_FAIL_C: FAIL_C(); break;
    case K_FAIL_TEXT_C: FAIL_TEXT_C(fail_text(c.sub)); break;
    case K_CHECK_EQUAL_INT:
        with_type(c.ta, c.va, [&](auto e) { decltype(e) a = from128<decltype(e)>(c.vb); if (c.text) CHECK_EQUAL_TEXT(e, a, TXT); else CHECK_EQUAL(e, a); });
        break;
    case K_CHECK_EQUAL_DOUBLE: { double e = c.da, a = c.db; if (c.text) CHECK_EQUAL_TEXT(e, a, TXT); else CHECK_EQUAL(e, a); } break;
    case K_CHECK_EQUAL_STRING: { const SimpleString& e = *c.ssa; const SimpleString& a = *c.ssb; if (c.text) CHECK_EQUAL_TEXT(e, a, TXT); else CHECK_EQUAL(e, a); } break;
    case K_CHECK_EQUAL_ZERO: with_type(c.tb, c.vb, [&](auto a) { if (c.text) CHECK_EQUAL_ZERO_TEXT(a, TXT); else CHECK_EQUAL_ZERO(a); }); break;
    case K_ENUMS_EQUAL:
        if (c.sub == 0) { E32 e = (E32)from128<int>(c.va), a = (E32)from128<int>(c.vb); if (c.text) ENUMS_EQUAL_INT_TEXT(e, a, TXT); else ENUMS_EQUAL_INT(e, a); }
        else if (c.sub == 1) { ELL e = (ELL)from128<long long>(c.va), a = (ELL)from128<long long>(c.vb); if (c.text) ENUMS_EQUAL_INT_TEXT(e, a, TXT); else ENUMS_EQUAL_INT(e, a); }
        else if (c.sub == 3) { E32 e = (E32)from128<int>(c.va), a = (E32)from128<int>(c.vb); if (c.text) ENUMS_EQUAL_TYPE_TEXT(unsigned char, e, a, TXT); else ENUMS_EQUAL_TYPE(unsigned char, e, a); }
        else if (c.sub == 4) { E32 e = (E32)from128<int>(c.va); ELL a = (ELL)from128<long long>(c.vb); if (c.text) ENUMS_EQUAL_INT_TEXT(e, a, TXT); else ENUMS_EQUAL_INT(e, a); }
        else { E8 e = (E8)from128<unsigned char>(c.va), a = (E8)from128<unsigned char>(c.vb); if (c.text) ENUMS_EQUAL_TYPE_TEXT(unsigned char, e, a, TXT); else ENUMS_EQUAL_TYPE(unsigned char, e, a); }
        break;
    case K_LONGS_EQUAL: MIXED(LONGS_EQUAL); break;
    case K_UNSIGNED_LONGS_EQUAL: MIXED(UNSIGNED_LONGS_EQUAL); break;
    case K_LONGLONGS_EQUAL: MIXED(LONGLONGS_EQUAL); break;
    case K_UNSIGNED_LONGLONGS_EQUAL: MIXED(UNSIGNED_LONGLONGS_EQUAL); break;
    case K_BYTES_EQUAL: MIXED(BYTES_EQUAL); break;
    case K_SIGNED_BYTES_EQUAL: MIXED(SIGNED_BYTES_EQUAL); break;
    case K_POINTERS_EQUAL: { const void* e = obj_ptr(c.ia); const void* a = obj_ptr(c.ib); if (c.text) POINTERS_EQUAL_TEXT(e, a, TXT); else POINTERS_EQUAL(e, a); } break;
    case K_FUNCTIONPOINTERS_EQUAL: { fn_t e = fn_ptr(c.ia), a = fn_ptr(c.ib); if (c.text) FUNCTIONPOINTERS_EQUAL_TEXT(e, a, TXT); else FUNCTIONPOINTERS_EQUAL(e, a); } break;
    case K_DOUBLES_EQUAL: if (c.text) DOUBLES_EQUAL_TEXT(c.da, c.db, c.dt, TXT); else DOUBLES_EQUAL(c.da, c.db, c.dt); break;
    case K_STRCMP_EQUAL: if (c.text) STRCMP_EQUAL_TEXT(c.pa, c.pb, TXT); else STRCMP_EQUAL(c.pa, c.pb); break;
    case K_STRNCMP_EQUAL: if (c.text) STRNCMP_EQUAL_TEXT(c.pa, c.pb, c.n, TXT); else STRNCMP_EQUAL(c.pa, c.pb, c.n); break;
    case K_STRCMP_NOCASE_EQUAL: if (c.text) STRCMP_NOCASE_EQUAL_TEXT(c.pa, c.pb, TXT); else STRCMP_NOCASE_EQUAL(c.pa, c.pb); break;
    case K_STRCMP_CONTAINS: if (c.text) STRCMP_CONTAINS_TEXT(c.pa, c.pb, TXT); else STRCMP_CONTAINS(c.pa, c.pb); break;
    case K_STRCMP_NOCASE_CONTAINS: if (c.text) STRCMP_NOCASE_CONTAINS_TEXT(c.pa, c.pb, TXT); else STRCMP_NOCASE_CONTAINS(c.pa, c.pb); break;
    case K_MEMCMP_EQUAL: if (c.text) MEMCMP_EQUAL_TEXT(c.pa, c.pb, c.n, TXT); else MEMCMP_EQUAL(c.pa, c.pb, c.n); break;
    case K_BITS_EQUAL:
        with_bits_actual(c.tb, c.vb, [&](auto a) { typedef decltype(a) T;
            with_wide<T>(c.ia, c.va, [&](auto e) { with_wide<T>(c.ib, c.vm, [&](auto m) {
                if (c.sub == 2) UtestShell::getCurrent()->assertBitsEqual(e, a, m, c.n, c.text ? TXT : NULLPTR, __FILE__, __LINE__);
                else if (c.text) BITS_EQUAL_TEXT(e, a, m, TXT);
                else BITS_EQUAL(e, a, m);
            }); }); });
        break;
    case K_CHECK_COMPARE:
        if (c.direct) { UtestShell::getCurrent()->assertCompare(c.expect == 1, "CHECK_COMPARE", "first op second", c.text ? TXT : NULLPTR, __FILE__, __LINE__); break; }
        if (c.ta == T_COUNT) do_compare<double>(c.op, c.da, c.db, c.text);
        else with_type(c.ta, c.va, [&](auto x) { do_compare<decltype(x)>(c.op, x, from128<decltype(x)>(c.vb), c.text); });
        break;
    case K_CHECK_THROWS:
#if CPPUTEST_HAVE_EXCEPTIONS
        if (c.sub == 0) CHECK_THROWS(int, thrower(c.op));
        else if (c.sub == 1) CHECK_THROWS(std::exception, thrower(c.op));
        else CHECK_THROWS(std::runtime_error, thrower(c.op));
#endif
        break;
    case K_C_BOOL:
        if (c.wide_src) with_type(c.ta, c.va, [&](auto e) { decltype(e) a = from128<decltype(e)>(c.vb); if (c.text) CHECK_EQUAL_C_BOOL_TEXT(e, a, TXT); else CHECK_EQUAL_C_BOOL(e, a); });
        else { int e = from128<int>(c.va), a = from128<int>(c.vb); if (c.text) CHECK_EQUAL_C_BOOL_TEXT(e, a, TXT); else CHECK_EQUAL_C_BOOL(e, a); } break;
    case K_C_INT:
        if (c.wide_src) with_type(c.ta, c.va, [&](auto e) { decltype(e) a = from128<decltype(e)>(c.vb); if (c.text) CHECK_EQUAL_C_INT_TEXT(e, a, TXT); else CHECK_EQUAL_C_INT(e, a); });
        else { int e = from128<int>(c.va), a = from128<int>(c.vb); if (c.text) CHECK_EQUAL_C_INT_TEXT(e, a, TXT); else CHECK_EQUAL_C_INT(e, a); } break;
    case K_C_UINT:
        if (c.wide_src) with_type(c.ta, c.va, [&](auto e) { decltype(e) a = from128<decltype(e)>(c.vb); if (c.text) CHECK_EQUAL_C_UINT_TEXT(e, a, TXT); else CHECK_EQUAL_C_UINT(e, a); });
        else { unsigned e = from128<unsigned>(c.va), a = from128<unsigned>(c.vb); if (c.text) CHECK_EQUAL_C_UINT_TEXT(e, a, TXT); else CHECK_EQUAL_C_UINT(e, a); } break;
    case K_C_LONG:
        if (c.wide_src) with_type(c.ta, c.va, [&](auto e) { decltype(e) a = from128<decltype(e)>(c.vb); if (c.text) CHECK_EQUAL_C_LONG_TEXT(e, a, TXT); else CHECK_EQUAL_C_LONG(e, a); });
        else { long e = from128<long>(c.va), a = from128<long>(c.vb); if (c.text) CHECK_EQUAL_C_LONG_TEXT(e, a, TXT); else CHECK_EQUAL_C_LONG(e, a); } break;
    case K_C_ULONG:
        if (c.wide_src) with_type(c.ta, c.va, [&](auto e) { decltype(e) a = from128<decltype(e)>(c.vb); if (c.text) CHECK_EQUAL_C_ULONG_TEXT(e, a, TXT); else CHECK_EQUAL_C_ULONG(e, a); });
        else { unsigned long e = from128<unsigned long>(c.va), a = from128<unsigned long>(c.vb); if (c.text) CHECK_EQUAL_C_ULONG_TEXT(e, a, TXT); else CHECK_EQUAL_C_ULONG(e, a); } break;
    case K_C_LONGLONG:
        if (c.wide_src) with_type(c.ta, c.va, [&](auto e) { decltype(e) a = from128<decltype(e)>(c.vb); if (c.text) CHECK_EQUAL_C_LONGLONG_TEXT(e, a, TXT); else CHECK_EQUAL_C_LONGLONG(e, a); });
        else { long long e = from128<long long>(c.va), a = from128<long long>(c.vb); if (c.text) CHECK_EQUAL_C_LONGLONG_TEXT(e, a, TXT); else CHECK_EQUAL_C_LONGLONG(e, a); } break;
    case K_C_ULONGLONG:
        if (c.wide_src) with_type(c.ta, c.va, [&](auto e) { decltype(e) a = from128<decltype(e)>(c.vb); if (c.text) CHECK_EQUAL_C_ULONGLONG_TEXT(e, a, TXT); else CHECK_EQUAL_C_ULONGLONG(e, a); });
        else { unsigned long long e = from128<unsigned long long>(c.va), a = from128<unsigned long long>(c.vb); if (c.text) CHECK_EQUAL_C_ULONGLONG_TEXT(e, a, TXT); else CHECK_EQUAL_C_ULONGLONG(e, a); } break;
    case K_C_REAL: if (c.text) CHECK_EQUAL_C_REAL_TEXT(c.da, c.db, c.dt, TXT); else CHECK_EQUAL_C_REAL(c.da, c.db, c.dt); break;
    case K_C_CHAR:
        if (c.wide_src) with_type(c.ta, c.va, [&](auto e) { decltype(e) a = from128<decltype(e)>(c.vb); if (c.text) CHECK_EQUAL_C_CHAR_TEXT(e, a, TXT); else CHECK_EQUAL_C_CHAR(e, a); });
        else { char e = from128<char>(c.va), a = from128<char>(c.vb); if (c.text) CHECK_EQUAL_C_CHAR_TEXT(e, a, TXT); else CHECK_EQUAL_C_CHAR(e, a); } break;
    case K_C_UBYTE:
        if (c.wide_src) with_type(c.ta, c.va, [&](auto e) { decltype(e) a = from128<decltype(e)>(c.vb); if (c.text) CHECK_EQUAL_C_UBYTE_TEXT(e, a, TXT); else CHECK_EQUAL_C_UBYTE(e, a); });
        else { unsigned char e = from128<unsigned char>(c.va), a = from128<unsigned char>(c.vb); if (c.text) CHECK_EQUAL_C_UBYTE_TEXT(e, a, TXT); else CHECK_EQUAL_C_UBYTE(e, a); } break;
    case K_C_SBYTE:
        if (c.wide_src) with_type(c.ta, c.va, [&](auto e) { decltype(e) a = from128<decltype(e)>(c.vb); if (c.text) CHECK_EQUAL_C_SBYTE_TEXT(e, a, TXT); else CHECK_EQUAL_C_SBYTE(e, a); });
        else { signed char e = from128<signed char>(c.va), a = from128<signed char>(c.vb); if (c.text) CHECK_EQUAL_C_SBYTE_TEXT(e, a, TXT); else CHECK_EQUAL_C_SBYTE(e, a); } break;
    case K_C_STRING: if (c.text) CHECK_EQUAL_C_STRING_TEXT(c.pa, c.pb, TXT); else CHECK_EQUAL_C_STRING(c.pa, c.pb); break;
    case K_C_POINTER: { const void* e = obj_ptr(c.ia); const void* a = obj_ptr(c.ib); if (c.text) CHECK_EQUAL_C_POINTER_TEXT(e, a, TXT); else CHECK_EQUAL_C_POINTER(e, a); } break;
    case K_C_MEMCMP: if (c.text) CHECK_EQUAL_C_MEMCMP_TEXT(c.pa, c.pb, c.n, TXT); else CHECK_EQUAL_C_MEMCMP(c.pa, c.pb, c.n); break;
    case K_C_BITS:
        with_bits_actual(c.tb, c.vb, [&](auto a) { typedef decltype(a) T;
            with_wide<T>(c.ia, c.va, [&](auto e) { with_wide<T>(c.ib, c.vm, [&](auto m) {
                if (c.sub == 2) CHECK_EQUAL_C_BITS_LOCATION(e, a, m, c.n, c.text ? TXT : NULL, __FILE__, __LINE__);
                else if (c.text) CHECK_EQUAL_C_BITS_TEXT(e, a, m, TXT);
                else CHECK_EQUAL_C_BITS(e, a, m);
            }); }); });
        break;
    case K_CHECK_EQUAL_STDSTRING: { const std::string& e = *c.sta; const std::string& a = *c.stb; if (c.text) CHECK_EQUAL_TEXT(e, a, TXT); else CHECK_EQUAL(e, a); } break;
    case K_CHECK_EQUAL_POINTER: {
        const void* e = obj_ptr(c.ia); const void* a = obj_ptr(c.ib);
        if (c.sub == 1) { if (c.text) CHECK_EQUAL_TEXT(nullptr, a, TXT); else CHECK_EQUAL(nullptr, a); }
        else if (c.sub == 2) { if (c.text) CHECK_EQUAL_TEXT(e, nullptr, TXT); else CHECK_EQUAL(e, nullptr); }
        else { if (c.text) CHECK_EQUAL_TEXT(e, a, TXT); else CHECK_EQUAL(e, a); }
    } break;
    default: break;
    }
}

// ------------------------------------------------------------------ rendering
std::string sp(bool null, const std::string& s) {
    if (null) return "NULL";
    if (s.size() > 80) return "\"" + verif::printable(s.substr(0, 30)) + "\"...(" + std::to_string(s.size()) + " bytes)...\"" + verif::printable(s.substr(s.size() - 30)) + "\"";
    return "\"" + verif::printable(s) + "\"";
}
std::string hexblock(bool null, const std::string& s) {
    if (null) return "NULL";
    std::string o = "{";
    for (size_t i = 0; i < s.size(); i++) { if (i == 24 && s.size() > 48) { o += sfmt("..(%zu bytes)..", s.size()); i = s.size() - 24; } o += sfmt("%02x", (unsigned char)s[i]); }
    return o + "}";
}
std::string iv(int t, i128 v) { return sfmt("(%s)%s", TI[t].name, dec(v).c_str()); }
std::string describe(const Case& c) {
    std::string k = std::string(KIND_NAME[c.kind]) + (c.text ? "[_TEXT]" : "");
    switch (c.kind) {
    case K_CHECK: case K_CHECK_TRUE: case K_CHECK_FALSE: case K_CHECK_C: return k + "(" + iv(c.ta, c.va) + ")";
    case K_FAIL: case K_FAIL_TEST: case K_FAIL_TEXT_C: return k + (fail_text(c.sub) ? "(\"" + verif::printable(fail_text(c.sub)) + "\")" : std::string("(NULL)"));
    case K_FAIL_C: return k + "()";
    case K_CHECK_EQUAL_ZERO: return k + "(" + iv(c.tb, c.vb) + ")";
    case K_ENUMS_EQUAL: return k + sfmt("[%s]", c.sub == 0 ? "INT, enum:int" : c.sub == 1 ? "INT, enum:long long" : c.sub == 3 ? "TYPE unsigned char, enum:int" : c.sub == 4 ? "INT, enum:int vs enum:long long" : "TYPE unsigned char") + "(" + iv(c.ta, c.va) + ", " + iv(c.tb, c.vb) + ")";
    case K_CHECK_EQUAL_DOUBLE: return k + "(" + show_double(c.da) + ", " + show_double(c.db) + ")";
    case K_CHECK_EQUAL_STRING: case K_CHECK_EQUAL_STDSTRING: return k + "(" + sp(false, c.sa) + ", " + sp(false, c.sb) + ")";
    case K_CHECK_EQUAL_POINTER: return k + sfmt("[%s](ptr#%d, ptr#%d)", c.sub == 0 ? "const void*" : c.sub == 1 ? "nullptr first" : "nullptr second", c.ia, c.ib);
    case K_POINTERS_EQUAL: case K_C_POINTER: return k + sfmt("(ptr#%d, ptr#%d)", c.ia, c.ib);
    case K_FUNCTIONPOINTERS_EQUAL: return k + sfmt("(fn#%d, fn#%d)", c.ia, c.ib);
    case K_DOUBLES_EQUAL: case K_C_REAL: return k + "(" + show_double(c.da) + ", " + show_double(c.db) + ", tol " + show_double(c.dt) + ")";
    case K_STRNCMP_EQUAL: return k + "(" + sp(c.a_null, c.sa) + ", " + sp(c.b_null, c.sb) + sfmt(", %zu)", c.n);
    case K_STRCMP_EQUAL: case K_STRCMP_NOCASE_EQUAL: case K_C_STRING: case K_STRCMP_CONTAINS: case K_STRCMP_NOCASE_CONTAINS:
        return k + "(" + sp(c.a_null, c.sa) + ", " + sp(c.b_null, c.sb) + ")";
    case K_MEMCMP_EQUAL: case K_C_MEMCMP: return k + "(" + hexblock(c.a_null, c.sa) + ", " + (c.alias ? std::string("<same pointer>") : hexblock(c.b_null, c.sb)) + sfmt(", %zu)", c.n);
    case K_BITS_EQUAL: case K_C_BITS: return k + (c.sub == 2 ? "[direct call]" : "") + "(" + iv(c.ta, c.va) + ", " + iv(c.tb, c.vb) + ", mask " + iv(c.tm, c.vm) + sfmt(", byteCount %zu)", c.n);
    case K_CHECK_COMPARE:
        if (c.ta == T_COUNT) return k + "(" + show_double(c.da) + " " + OPNAME[c.op] + " " + show_double(c.db) + ")";
        return k + "(" + iv(c.ta, c.va) + " " + OPNAME[c.op] + " " + iv(c.tb, c.vb) + ")";
    case K_CHECK_THROWS: {
        static const char* ex[] = {"int", "std::exception", "std::runtime_error"};
        static const char* th[] = {"nothing", "int", "const char*", "std::runtime_error", "std::logic_error"};
        return k + sfmt("(%s, expression throwing %s)", ex[c.sub], th[c.op]);
    }
    default: return k + "(" + iv(c.ta, c.va) + ", " + iv(c.tb, c.vb) + ")";
    }
}

void release(Case& c) {
    if (c.pb && c.pb != c.pa) free(c.pb);
    if (c.pa) free(c.pa);
    c.pa = c.pb = nullptr;
    delete c.ssa; delete c.ssb; c.ssa = c.ssb = nullptr;
    delete c.sta; delete c.stb; c.sta = c.stb = nullptr;
}

std::string g_sig;

// like verif::run_in_fixture, plus: is the test marked as failed, and the crash-on-fail option with a counting crash method
struct Run { size_t failures, checks; bool marked_failed; int crashes; };
int g_crashes;
void counting_crash() { g_crashes++; }
Run run_case(Case& c) {
    Run r;
    g_crashes = 0;
    if (c.crash_mode) { UtestShell::setCrashMethod(counting_crash); UtestShell::setCrashOnFail(); }
    {
        TestTestingFixture fixture;
        verif::ExecLambda ex(body, &c);
        fixture.setTestFunction(&ex);
        fixture.runAllTests();
        r.failures = fixture.getFailureCount();
        r.checks = fixture.getCheckCount();
        r.marked_failed = fixture.hasTestFailed();
    }
    if (c.crash_mode) { UtestShell::restoreDefaultTestTerminator(); UtestShell::resetCrashMethod(); }
    r.crashes = g_crashes;
    return r;
}

// run the case; 0 = property held
int judge(Case& c, const char** out_sig, std::string* out_msg) {
    Run fr = run_case(c);
    bool judged_verdict = c.expect >= 0;
    if (c.opp_inf && verif::known(KEY_INF)) judged_verdict = false;   // the one known-wrong answer is accepted
    if (c.c_trunc && verif::known(KEY_CBOOL)) judged_verdict = false;
    if (fr.failures > 1) {
        g_sig = sfmt("C03:%s:more-than-one-failure", KIND_NAME[c.kind]);
        *out_sig = g_sig.c_str(); *out_msg = sfmt("%s recorded %zu failures", describe(c).c_str(), fr.failures);
        return 1;
    }
    bool passed = fr.failures == 0;
    if (judged_verdict && passed != (c.expect == 1)) {
        if (c.opp_inf) g_sig = KEY_INF;
        else if (c.c_trunc) g_sig = KEY_CBOOL;
        else g_sig = sfmt("C03:%s:%s", KIND_NAME[c.kind], passed ? "passes-on-false-predicate" : "fails-on-true-predicate");
        *out_sig = g_sig.c_str();
        *out_msg = sfmt("%s: the predicate is %s but the check recorded %zu failure(s)", describe(c).c_str(), c.expect ? "true" : "false", fr.failures);
        return 1;
    }
    if (fr.marked_failed != !passed) {     // recording a failure includes marking the running test as failed
        g_sig = sfmt("C03:%s:test-marked-%s", KIND_NAME[c.kind], passed ? "failed-without-failure" : "passed-despite-failure");
        *out_sig = g_sig.c_str();
        *out_msg = sfmt("%s: %zu failure(s) recorded but hasFailed() is %s", describe(c).c_str(), fr.failures, fr.marked_failed ? "true" : "false");
        return 1;
    }
    if (c.crash_mode && fr.crashes != (passed ? 0 : 1))     // not part of the statement: recorded, not judged
        verif::observe(sfmt("crash-on-fail: %s called the crash method %d time(s) with %zu failure(s)", KIND_NAME[c.kind], fr.crashes, fr.failures));
    size_t want_checks = passed ? c.pass_checks : 1;
    if (fr.checks != want_checks) {
        g_sig = sfmt("C03:%s:check-count", KIND_NAME[c.kind]);
        *out_sig = g_sig.c_str();
        *out_msg = sfmt("%s (%s): counted as %zu checks, expected %zu", describe(c).c_str(), passed ? "passed" : "failed", fr.checks, want_checks);
        return 1;
    }
    return 0;
}

}  // namespace

// Every failing check allocates ~40 small strings; with ASan's default 30-frame allocation stacks under rapidcheck's deep
// call chain that is 3x the cost of everything else (measured 320 us -> 100 us per case).  ASAN_OPTIONS still overrides.
extern "C" const char* __asan_default_options() { return "malloc_context_size=8"; }

extern "C" const char* verif_property(void) { return "C03"; }
extern "C" void verif_init(void) { verif::install_fake_time(); }

extern "C" int verif_case(const uint8_t* data, size_t size) {
    Reader r(data, size);
    Case c;
    decode(r, c);
    if (verif::g_explain) fprintf(stderr, "case: %s\n  predicate %s, expected check count %zu (pass) / 1 (fail)%s%s\n", describe(c).c_str(),
                                  c.expect == 1 ? "TRUE" : c.expect == 0 ? "FALSE" : "AMBIGUOUS (rounding)", c.pass_checks,
                                  c.hazard ? ", failure message built from identical renderings" : "", c.opp_inf ? ", opposite infinities" : "");
    verif::cls(KIND_NAME[c.kind]);
    if (c.text) verif::cls("form:_TEXT");
    if (c.not_applicable) {      // CHECK_THROWS in a build without exceptions
        verif::cls("not-applicable");
        release(c);
        verif::note_case(false, r.h, [&] { return describe(c); });
        return 0;
    }
    if (c.hazard && verif::known(KEY_RENDER)) {   // excluded by construction: the failing check would read past both renderings
        release(c);
        verif::note_case(false, r.h, [&] { return describe(c); });
        return 0;
    }
    if (c.hazard) verif::cls("failure-message:identical-renderings");
    verif::cls(c.expect == 1 ? "predicate:true" : c.expect == 0 ? "predicate:false" : "predicate:rounding-ambiguous");
    if (c.kind == K_DOUBLES_EQUAL || c.kind == K_C_REAL) {
        verif::cls((std::string("dbl:e=") + d_class(c.da)).c_str());
        verif::cls((std::string("dbl:tol=") + d_class(c.dt)).c_str());
        if (c.opp_inf) verif::cls("dbl:opposite-infinities-finite-tol");
    }
    if ((c.kind >= K_STRCMP_EQUAL && c.kind <= K_MEMCMP_EQUAL) || c.kind == K_C_STRING || c.kind == K_C_MEMCMP)
        verif::cls(c.a_null && c.b_null ? "null:both" : (c.a_null || c.b_null) ? "null:one" : "null:none");
    if ((c.kind == K_MEMCMP_EQUAL || c.kind == K_C_MEMCMP) && c.n == 0) verif::cls("mem:length-0");
    if (c.kind == K_CHECK_COMPARE) verif::cls((std::string("compare:") + OPNAME[c.op] + (c.expect ? ":pass" : ":fail")).c_str());
    if (c.kind == K_BITS_EQUAL || c.kind == K_C_BITS) {
        verif::cls(sfmt("bits:actual-%d-byte", TI[c.tb].bits / 8).c_str());
        if (c.op) verif::cls(c.expect ? "bits:mask-above-actual-width:pass" : "bits:mask-above-actual-width:fail");
        if (c.sub == 2) verif::cls("bits:explicit-byte-count");
        if (c.ia || c.ib) verif::cls("bits:operand-types-differ");
    }
    if (c.c_trunc) verif::cls("c-interface:truth-value-lost-in-int-parameter");
    if (c.crash_mode) verif::cls(c.expect == 0 ? "option:crash-on-fail:failing-check" : "option:crash-on-fail:passing-check");
    if (c.direct) verif::cls(c.expect == 1 ? "compare:direct-assertCompare:true" : "compare:direct-assertCompare:false");
    if (c.sa.size() > 90 || c.sb.size() > 90) verif::cls("operand-longer-than-90-bytes");
    if (c.wide_src) verif::cls("c-interface:operand-wider-or-other-than-parameter-type");

    const char* sig = nullptr; std::string msg;
    int rc = judge(c, &sig, &msg);
    release(c);
    verif::note_case(c.nontrivial, r.h, [&] { return describe(c); });
    if (rc) return verif::fail(sig, "%s", msg.c_str());
    return 0;
}

// deterministic reproducers of the listed findings
static int run_child(void (*fn)()) {
    fflush(nullptr);
    pid_t pid = fork();
    if (pid < 0) return -1;
    if (pid == 0) {
        int fd = open("/dev/null", O_WRONLY);
        if (fd >= 0) { dup2(fd, 2); dup2(fd, 1); }
        fn();
        _exit(0);
    }
    int st = 0;
    if (waitpid(pid, &st, 0) != pid) return -1;
    return (WIFEXITED(st) && WEXITSTATUS(st) == 0) ? 0 : 1;
}
static void repro_render() {
    // CHECK_EQUAL(NaN, NaN): both operands print as "Nan - Not a number"; the failure message scans for the first difference
    Case c; c.kind = K_CHECK_EQUAL_DOUBLE; c.da = c.db = from_bits(0x7ff8000000000000ULL); c.expect = 0;
    verif::run_in_fixture(body, &c);
    // STRCMP_EQUAL("\n", "\\n"): different strings with the same printable form
    Case s; s.kind = K_STRCMP_EQUAL; s.sa = "\n"; s.sb = "\\n"; s.expect = 0; materialise_strings(s);
    verif::run_in_fixture(body, &s);
}
extern "C" int verif_known_repro(const char* key) {
    std::string k(key);
    if (k == KEY_INF) {
        Case c; c.kind = K_DOUBLES_EQUAL; c.da = INFINITY; c.db = -INFINITY; c.dt = 0.01;
        verif::FixtureRun fr = verif::run_in_fixture(body, &c);
        return fr.failures == 0 ? 1 : 0;
    }
    if (k == KEY_RENDER) return run_child(repro_render) != 0 ? 1 : 0;
    if (k == KEY_CBOOL) {     // CHECK_C(1L << 32): the condition is true, the int parameter receives 0
        Case c; c.kind = K_CHECK_C; c.ta = T_LONG; c.va = P32;
        verif::FixtureRun fr = verif::run_in_fixture(body, &c);
        return fr.failures != 0 ? 1 : 0;
    }
    return -1;
}
