// Runtime shared by every harness and both engine wrappers (no CppUTest dependency).
//   - Reader: total decoder from byte strings to in-domain choices (byte 0 = simplest alternative)
//   - Stats:  evaluations / non-trivial / distinct hashes / class histogram / samples / exclusions
//   - failure record: signature + message of the oracle failure of the current case
#pragma once
#include <stdint.h>
#include <stddef.h>
#include <stdio.h>
#include <stdlib.h>
#include <string.h>
#include <stdarg.h>
#include <string>
#include <vector>
#include <map>
#include <unordered_set>

extern "C" {
// implemented by each harness
const char* verif_property(void);
void verif_init(void);
int verif_case(const uint8_t* data, size_t size);   // 0 = property held, 1 = violated (verif::fail_* set)
int verif_known_repro(const char* key);             // 1 = the listed finding still reproduces, 0 = not, -1 = unknown key
}

namespace verif {

inline uint64_t fnv(uint64_t h, uint64_t v) {
    for (int i = 0; i < 8; i++) { h ^= (v >> (i * 8)) & 0xff; h *= 1099511628211ULL; }
    return h;
}

struct Reader {
    const uint8_t* p; size_t n; size_t i; uint64_t h;
    Reader(const uint8_t* d, size_t s) : p(d), n(s), i(0), h(1469598103934665603ULL) {}
    bool empty() const { return i >= n; }
    size_t left() const { return i < n ? n - i : 0; }
    uint8_t raw8() { return i < n ? p[i++] : 0; }
    uint8_t u8() { uint8_t v = raw8(); h = fnv(h, v); return v; }
    uint16_t u16() { uint16_t v = raw8(); v = (uint16_t)(v | (raw8() << 8)); h = fnv(h, v); return v; }
    uint32_t u32() { uint32_t v = 0; for (int k = 0; k < 4; k++) v |= (uint32_t)raw8() << (8 * k); h = fnv(h, v); return v; }
    uint64_t u64() { uint64_t v = 0; for (int k = 0; k < 8; k++) v |= (uint64_t)raw8() << (8 * k); h = fnv(h, v); return v; }
    // uniform-ish choice in [0,k)
    uint32_t below(uint32_t k) {
        if (k <= 1) return 0;
        uint32_t v = k <= 256 ? raw8() : (k <= 65536 ? (uint32_t)(raw8() | (raw8() << 8)) : (uint32_t)(raw8() | (raw8() << 8) | (raw8() << 16) | ((uint32_t)raw8() << 24)));
        v %= k; h = fnv(h, v); return v;
    }
    uint32_t range(uint32_t lo, uint32_t hi) { return lo + below(hi - lo + 1); }   // inclusive
    bool flag() { return below(2) != 0; }
    bool chance(uint32_t num, uint32_t den) { return below(den) < num; }         // true with prob num/den; byte 0 => true
    template <class T, size_t N> const T& pick(const T (&a)[N]) { return a[below((uint32_t)N)]; }
    // string of length <= maxlen over alphabet (alphabet given as bytes)
    std::string str(uint32_t maxlen, const char* alphabet, size_t alen) {
        uint32_t len = below(maxlen + 1); std::string s;
        for (uint32_t k = 0; k < len; k++) s.push_back(alphabet[below((uint32_t)alen)]);
        return s;
    }
    std::string str(uint32_t maxlen, const char* alphabet) { return str(maxlen, alphabet, strlen(alphabet)); }
    // arbitrary bytes in [lo,255]
    std::string bytes(uint32_t maxlen, uint32_t lo = 1) {
        uint32_t len = below(maxlen + 1); std::string s;
        for (uint32_t k = 0; k < len; k++) s.push_back((char)(lo + below(256 - lo)));
        return s;
    }
    void mix(uint64_t v) { h = fnv(h, v); }
};

struct Stats {
    uint64_t evaluations = 0, nontrivial = 0;
    std::unordered_set<uint64_t> nt_hashes;
    std::map<std::string, uint64_t> classes;
    std::map<std::string, uint64_t> excluded;
    std::vector<std::string> samples;
    std::vector<std::string> observations;
};

inline Stats g_stats;
inline bool g_counting = true;     // switched off while rapidcheck shrinks
inline bool g_explain = false;     // replay --explain: harness prints the decoded case to stderr
inline std::string g_fail_sig, g_fail_msg;
inline std::vector<std::string> g_known;   // keys listed as finding: in KNOWN_FINDINGS.txt (from env VERIF_KNOWN)

inline void load_known() {
    const char* e = getenv("VERIF_KNOWN");
    if (!e) return;
    std::string s(e), cur;
    for (char c : s) { if (c == ',') { if (!cur.empty()) g_known.push_back(cur); cur.clear(); } else cur.push_back(c); }
    if (!cur.empty()) g_known.push_back(cur);
}
// true when the condition named `key` is a listed finding: the harness excludes exactly that condition and counts it
inline bool known(const char* key) {
    for (auto& k : g_known) if (k == key) { if (g_counting) g_stats.excluded[key]++; return true; }
    return false;
}
inline void cls(const char* name) { if (g_counting) g_stats.classes[name]++; }
inline void observe(const std::string& s) { if (g_stats.observations.size() < 20) g_stats.observations.push_back(s); }

template <class F> inline void note_case(bool nontrivial, uint64_t hash, F render) {
    if (!g_counting) return;
    g_stats.evaluations++;
    if (nontrivial) {
        g_stats.nontrivial++;
        bool fresh = g_stats.nt_hashes.insert(hash).second;
        if (fresh && g_stats.samples.size() < 5) g_stats.samples.push_back(render());
    }
}

inline int fail(const char* sig, const char* fmt, ...) __attribute__((format(printf, 2, 3)));
inline int fail(const char* sig, const char* fmt, ...) {
    char buf[4096];
    va_list ap; va_start(ap, fmt); vsnprintf(buf, sizeof buf, fmt, ap); va_end(ap);
    g_fail_sig = sig; g_fail_msg = buf;
    return 1;
}
#define V_CHECK(cond, sig, ...) do { if (!(cond)) return verif::fail(sig, __VA_ARGS__); } while (0)

inline std::string json_str(const std::string& s) {
    std::string o = "\"";
    for (unsigned char c : s) {
        if (c == '"') o += "\\\""; else if (c == '\\') o += "\\\\"; else if (c == '\n') o += "\\n";
        else if (c < 0x20 || c >= 0x7f) { char b[8]; snprintf(b, sizeof b, "\\u%04x", c); o += b; }
        else o.push_back((char)c);
    }
    return o + "\"";
}
inline std::string printable(const std::string& s) {
    std::string o;
    for (unsigned char c : s) { if (c >= 0x20 && c < 0x7f && c != '\\') o.push_back((char)c); else { char b[8]; snprintf(b, sizeof b, "\\x%02x", c); o += b; } }
    return o;
}
inline std::string sfmt(const char* fmt, ...) __attribute__((format(printf, 1, 2)));
inline std::string sfmt(const char* fmt, ...) {
    char buf[2048];
    va_list ap; va_start(ap, fmt); vsnprintf(buf, sizeof buf, fmt, ap); va_end(ap);
    return buf;
}

inline void flush_stats(const char* path) {
    if (!path || !*path) return;
    std::string tmp = std::string(path) + ".tmp";
    FILE* f = fopen(tmp.c_str(), "w");
    if (!f) return;
    fprintf(f, "{\"evaluations\": %llu, \"nontrivial\": %llu, \"distinct\": %llu,\n",
            (unsigned long long)g_stats.evaluations, (unsigned long long)g_stats.nontrivial, (unsigned long long)g_stats.nt_hashes.size());
    fprintf(f, " \"classes\": {");
    bool first = true;
    for (auto& kv : g_stats.classes) { fprintf(f, "%s%s: %llu", first ? "" : ", ", json_str(kv.first).c_str(), (unsigned long long)kv.second); first = false; }
    fprintf(f, "},\n \"excluded\": {");
    first = true;
    for (auto& kv : g_stats.excluded) { fprintf(f, "%s%s: %llu", first ? "" : ", ", json_str(kv.first).c_str(), (unsigned long long)kv.second); first = false; }
    fprintf(f, "},\n \"samples\": [");
    first = true;
    for (auto& s : g_stats.samples) { fprintf(f, "%s%s", first ? "" : ", ", json_str(s).c_str()); first = false; }
    fprintf(f, "],\n \"observations\": [");
    first = true;
    for (auto& s : g_stats.observations) { fprintf(f, "%s%s", first ? "" : ", ", json_str(s).c_str()); first = false; }
    fprintf(f, "]}\n");
    fclose(f);
    std::string hp = std::string(path) + ".hashes";
    FILE* hf = fopen(hp.c_str(), "wb");
    if (hf) { for (uint64_t h : g_stats.nt_hashes) fwrite(&h, 8, 1, hf); fclose(hf); }
    rename(tmp.c_str(), path);
}

}  // namespace verif
