// C02 — every selected test runs exactly once per repetition; selection follows the filters;
//        reverse / shuffle only permute the registry.
// Decoder: registry of 0..24 normal / ignored tests with group and name strings of length 0..8 over "aAbB" (half of them over "ab" only),
//          0..3 group filters and 0..3 name filters (text of length 0..5 or a copy / substring of a test's string, strict, inverted), run-ignored, order operation
//          none / reverse / shuffle / both (libc rand with a seed lattice, or a scripted PlatformSpecificRand),
//          1..3 repetitions re-shuffled with the same seed as CommandLineTestRunner does.
//          Between repetitions the long-lived registry may change: run-ignored switched on after 1 or 2 completed runs,
//          filter lists replaced / extended / cleared, tests added, the first test removed, reverse; the model is
//          evaluated per repetition for the configuration in force.
// Oracle:  selection predicate written from the property statement on std::string; per repetition the execution
//          counters, the four TestResult counters, the complete callback stream and the registry walk.
#include <functional>   // before the CppUTest headers: their "new" macro breaks placement new in libstdc++
#include "common.h"
#include <map>
#include <memory>
#include <deque>
#include <algorithm>
#include "CppUTest/CommandLineTestRunner.h"

using verif::Reader;
using verif::sfmt;

namespace {

// ---------------------------------------------------------------- scripted tests
std::vector<int> g_exec;          // per-test execution counter (this repetition)
std::vector<int> g_exec_order;    // ids in order of execution (this repetition)

// where a test fails (decoded per test; most tests fail nowhere).  The "C-style" places leave through the OUTERMOST jump buffer
// of runOneTest (a long jump, no exception): what FAIL_TEXT_C / CHECK_C do in a TEST_GROUP constructor or destructor or in a plugin action.
enum FailWhere { F_NOWHERE = 0, F_BODY_CPP, F_BODY_C, F_CONSTRUCTOR_C, F_DESTRUCTOR_C, F_PLUGIN_PRE_C, F_PLUGIN_POST_C, F_KINDS };
std::vector<int> g_fail_where;    // per test id
std::vector<int> g_attempts;      // per test: how often the plugin chain's pre action saw it start (this repetition)
const TestTerminatorWithoutExceptions g_c_style_exit;

class CountingUtest : public Utest {
public:
    int id_;
    explicit CountingUtest(int id) : id_(id) {}
    void testBody() CPPUTEST_OVERRIDE {
        g_exec[(size_t)id_]++; g_exec_order.push_back(id_);
        int w = g_fail_where[(size_t)id_];
        if (w == F_BODY_CPP) UtestShell::getCurrent()->fail("planned failure in the body", "c02.cpp", (size_t)(100 + id_));
        if (w == F_BODY_C) UtestShell::getCurrent()->fail("planned C-style failure in the body", "c02.cpp", (size_t)(100 + id_), g_c_style_exit);
    }
};
template <class Base> class CountingShell : public Base {
public:
    int id_; TestResult* result_of_this_run_ = NULLPTR;
    CountingShell(int id, const char* g, const char* n) : Base(g, n, "c02.cpp", (size_t)(100 + id)), id_(id) {}
    explicit CountingShell(int id) : Base(), id_(id) {}   // named and registered by a TestInstaller, as the TEST macro does
    Utest* createTest() CPPUTEST_OVERRIDE {               // = the TEST_GROUP constructor
        result_of_this_run_ = this->getTestResult();
        if (g_fail_where[(size_t)id_] == F_CONSTRUCTOR_C) this->fail("planned C-style failure in the fixture constructor", "c02.cpp", (size_t)(100 + id_), g_c_style_exit);
        return new CountingUtest(id_);
    }
    void destroyTest(Utest* test) CPPUTEST_OVERRIDE {     // = the TEST_GROUP destructor
        delete test;
        if (g_fail_where[(size_t)id_] == F_DESTRUCTOR_C && result_of_this_run_ != NULLPTR) {
            TestResult* r = result_of_this_run_; result_of_this_run_ = NULLPTR;
            r->addFailure(TestFailure(this, "c02.cpp", (size_t)(100 + id_), "planned C-style failure in the fixture destructor"));
            g_c_style_exit.exitCurrentTest();
        }
    }
};
typedef CountingShell<UtestShell> NormalShell;
typedef CountingShell<IgnoredUtestShell> IgnoredShell;

// ---------------------------------------------------------------- recording output
struct Ev { char kind; int id; };   // S tests started, E tests ended, G group started(first test), g group ended, T test started(test), t test ended
std::map<const UtestShell*, int>* g_ids;
std::vector<Ev> g_runner_events;   // events of outputs created by the runner (it owns and deletes them)
class RecOutput : public TestOutput {
public:
    std::vector<Ev> own; std::vector<Ev>& ev;
    RecOutput() : ev(own) {}
    explicit RecOutput(std::vector<Ev>& shared) : ev(shared) {}
    static int idOf(const UtestShell& s) { auto it = g_ids->find(&s); return it == g_ids->end() ? -1 : it->second; }
    void printTestsStarted() CPPUTEST_OVERRIDE { ev.push_back({'S', -1}); }
    void printTestsEnded(const TestResult&) CPPUTEST_OVERRIDE { ev.push_back({'E', -1}); }
    void printCurrentTestStarted(const UtestShell& t) CPPUTEST_OVERRIDE { ev.push_back({'T', idOf(t)}); }
    void printCurrentTestEnded(const TestResult&) CPPUTEST_OVERRIDE { ev.push_back({'t', -1}); }
    void printCurrentGroupStarted(const UtestShell& t) CPPUTEST_OVERRIDE { ev.push_back({'G', idOf(t)}); }
    void printCurrentGroupEnded(const TestResult&) CPPUTEST_OVERRIDE { ev.push_back({'g', -1}); }
    void printBuffer(const char*) CPPUTEST_OVERRIDE {}
    void flush() CPPUTEST_OVERRIDE {}
};
std::string render(const std::vector<Ev>& ev) {
    std::string o;
    for (auto& e : ev) { o.push_back(e.kind); if (e.id >= 0 || e.kind == 'T' || e.kind == 'G') o += sfmt("%d", e.id); o.push_back(' '); }
    return o;
}

// ---------------------------------------------------------------- a plugin that sees every test start, and fails where planned
class AttemptPlugin : public TestPlugin {
public:
    AttemptPlugin() : TestPlugin("C02AttemptPlugin") {}
    static int idOf(UtestShell& s) { auto it = g_ids->find(&s); return it == g_ids->end() ? -1 : it->second; }
    void preTestAction(UtestShell& test, TestResult& result) CPPUTEST_OVERRIDE {
        int id = idOf(test); if (id < 0) return;
        g_attempts[(size_t)id]++;
        if (g_fail_where[(size_t)id] == F_PLUGIN_PRE_C) { result.addFailure(TestFailure(&test, "c02.cpp", (size_t)(100 + id), "planned C-style failure in a plugin pre action")); g_c_style_exit.exitCurrentTest(); }
    }
    void postTestAction(UtestShell& test, TestResult& result) CPPUTEST_OVERRIDE {
        int id = idOf(test); if (id < 0) return;
        if (g_fail_where[(size_t)id] == F_PLUGIN_POST_C) { result.addFailure(TestFailure(&test, "c02.cpp", (size_t)(100 + id), "planned C-style failure in a plugin post action")); g_c_style_exit.exitCurrentTest(); }
    }
};

// ---------------------------------------------------------------- separate-process seam (runs in this process, counts the calls)
int g_sep_calls;
void sep_process_stub(UtestShell* shell, TestPlugin* plugin, TestResult* result) { g_sep_calls++; shell->runOneTestInCurrentProcess(plugin, *result); }
void (*g_orig_sep)(UtestShell*, TestPlugin*, TestResult*);

// ---------------------------------------------------------------- a registry that lets the harness look before and after every real runAllTests
class SpyRegistry : public TestRegistry {
public:
    std::function<int()> before; std::function<int(TestResult&)> after;
    int rc = 0; size_t calls = 0;
    void runAllTests(TestResult& result) CPPUTEST_OVERRIDE {
        calls++;
        if (rc == 0 && before) rc = before();
        if (rc != 0) return;                      // an inconsistent list must not be run (it may not terminate)
        TestRegistry::runAllTests(result);        // the real thing
        if (after) rc = after(result);
    }
};
class SpyRunner : public CommandLineTestRunner {
public:
    SpyRunner(int ac, const char* const* av, TestRegistry* reg) : CommandLineTestRunner(ac, av, reg) {}
    TestOutput* createConsoleOutput() CPPUTEST_OVERRIDE { return new RecOutput(g_runner_events); }
};

// ---------------------------------------------------------------- scripted rand seam
std::vector<int> g_script; size_t g_script_pos;
int scripted_rand() { return g_script.empty() ? 0 : g_script[g_script_pos++ % g_script.size()]; }
void scripted_srand(unsigned int) { g_script_pos = 0; }
void (*g_orig_srand)(unsigned int);
int (*g_orig_rand)(void);

// ---------------------------------------------------------------- the case
struct TestSpec { bool ignored; std::string group, name; int fail_where = F_NOWHERE; };
struct FilterSpec { std::string text; bool strict, inverted; };

const char ALPHA[] = "aAbB";
// one byte: 3 bits length index, 1 bit "two-letter alphabet" (more repeats, hence self-overlapping needles), 2 letters;
// further letters 4 per byte.  0 -> "", exhausted input -> "aaa..." (repeated prefixes).
std::string gen_string(Reader& r, bool for_filter) {
    static const uint8_t lens_test[8] = {0, 1, 2, 3, 4, 5, 6, 8}, lens_filter[8] = {0, 1, 2, 3, 4, 5, 1, 2};
    uint8_t b = r.u8();
    unsigned len = (for_filter ? lens_filter : lens_test)[b & 7u];
    bool two = (b & 8u) != 0;
    std::string s; unsigned cur = b >> 4, have = 2;
    for (unsigned k = 0; k < len; k++) {
        if (have == 0) { cur = r.u8(); have = 4; }
        unsigned l = cur & 3u; cur >>= 2; have--;
        s.push_back(two ? "ab"[l & 1u] : ALPHA[l]);
    }
    return s;
}
// class counter only: would a substring search that never goes back into consumed text miss this occurrence?
bool needs_backtracking(const std::string& t, const std::string& p) {
    if (p.empty() || t.find(p) == std::string::npos) return false;
    size_t m = 0;
    for (char c : t) { if (c != p[m]) m = 0; if (c == p[m] && ++m == p.size()) return false; }
    return true;
}

// the selection predicate, written from the statement of C02
bool accepts(const FilterSpec& f, const std::string& s) {
    bool base = f.strict ? (s == f.text) : (s.find(f.text) != std::string::npos);
    return f.inverted ? !base : base;
}
bool accepted_by_list(const std::vector<FilterSpec>& fs, const std::string& s) {
    if (fs.empty()) return true;                 // "when any are given"
    for (auto& f : fs) if (accepts(f, s)) return true;   // "at least one"
    return false;
}

std::string show(const FilterSpec& f) { return sfmt("%s%s\"%s\"", f.inverted ? "!" : "", f.strict ? "=" : "~", f.text.c_str()); }

// setCurrentRegistry is a (virtual) member that writes the static pointer: reset it through an object that outlives every case
void reset_current_registry() { static TestRegistry keeper; keeper.setCurrentRegistry(NULLPTR); }

struct SeamGuard {
    ~SeamGuard() { PlatformSpecificSrand = g_orig_srand; PlatformSpecificRand = g_orig_rand; PlatformSpecificRunTestInASeperateProcess = g_orig_sep; reset_current_registry(); }
};

bool walk(TestRegistry& reg, size_t n, std::vector<int>& ids) {
    ids.clear();
    UtestShell* t = reg.getFirstTest(); size_t steps = 0;
    while (t != NULLPTR && steps <= n) { auto it = g_ids->find(t); ids.push_back(it == g_ids->end() ? -1 : it->second); t = t->getNext(); steps++; }
    return t == NULLPTR;
}
std::string show_ids(const std::vector<int>& v) { std::string o; for (int x : v) o += sfmt("%d ", x); return o; }

// `present` = ids of the tests that are registered right now (sorted)
int check_walk(const char* when, TestRegistry& reg, const std::vector<int>& present, std::vector<int>& order) {
    size_t n = present.size();
    bool terminated = walk(reg, n, order);
    V_CHECK(terminated, "C02:list-not-terminated", "%s: registry walk did not end after %zu tests: %s", when, n, show_ids(order).c_str());
    V_CHECK(order.size() == n, "C02:test-lost-or-duplicated", "%s: registry walk has %zu tests, %zu are registered: %s", when, order.size(), n, show_ids(order).c_str());
    std::vector<int> sorted = order; std::sort(sorted.begin(), sorted.end());
    V_CHECK(sorted == present, "C02:test-lost-or-duplicated", "%s: registry walk %s is not a permutation of the registered tests %s", when, show_ids(order).c_str(), show_ids(present).c_str());
    V_CHECK(reg.countTests() == n, "C02:countTests", "%s: countTests()=%zu with %zu registered tests", when, reg.countTests(), n);
    return 0;
}

TestSpec gen_test(Reader& r, const std::deque<TestSpec>& tests) {
    size_t i = tests.size();
    TestSpec t; uint8_t f = r.u8();
    t.ignored = (f & 3u) == 3u;
    bool same_group = (f & 4u) != 0 && i > 0;
    t.group = same_group ? tests[i - 1].group : gen_string(r, false);
    if ((f & 24u) == 24u && i > 0) t.name = tests[(f >> 5) % i].name; else t.name = gen_string(r, false);
    return t;
}
FilterSpec gen_filter(Reader& r, int which, const std::deque<TestSpec>& tests) {
    size_t n = tests.size();
    FilterSpec f; uint8_t m = r.u8();
    f.strict = (m & 1u) != 0; f.inverted = (m & 2u) != 0;
    unsigned kind = (m >> 2) % 4u;
    if (kind == 0 || n == 0) f.text = gen_string(r, true);
    else {
        const TestSpec& t = tests[r.below((uint32_t)n)];
        const std::string& src = which == 0 ? t.group : t.name;
        if (kind == 1) f.text = src;                                   // whole string (strict matches)
        else {
            uint8_t b = r.u8();
            size_t pos = src.empty() ? 0 : (b & 15u) % src.size();
            size_t len = 1 + ((b >> 4) % 5u);
            if (kind == 3) {                                           // an occurrence that follows an overlapping false start: "aab" out of "aaab"
                bool found = false;
                for (size_t q = 0; q < src.size() && !found; q++) for (size_t l = 2; l <= 5 && !found; l++) {
                    size_t c = (pos + q) % src.size();
                    if (c + l <= src.size() && needs_backtracking(src, src.substr(c, l))) { pos = c; len = l; found = true; }
                }
            }
            f.text = src.substr(pos, len);
        }
    }
    return f;
}

// what a long-lived registry sees between two runs
enum ChangeKind { CH_NONE = 0, CH_REPLACE_FILTERS, CH_ADD_FILTER, CH_CLEAR_FILTERS, CH_ADD_TESTS, CH_REMOVE_FIRST, CH_REVERSE, CH_RUN_IGNORED_ON, CH_SEP_PROCESS_ON,
                  CH_READD_REMOVED, CH_MOVE_TO_OTHER_REGISTRY, CH_CHURN, CH_KINDS };
struct Change { ChangeKind kind; int which; std::vector<FilterSpec> fs; std::vector<size_t> new_tests; };

int run_case(Reader& r, bool& nontrivial, std::string& desc) {
    // ---------------- decode
    // header first, so that a short input still carries an order operation and filter counts
    size_t n = r.below(25);
    unsigned op = r.below(4);                 // 0 none, 1 reverse, 2 shuffle, 3 reverse then shuffle
    size_t nf[2]; nf[0] = r.below(4); nf[1] = r.below(4);
    unsigned ri_mode = r.below(4);            // 0 off, 1 on from the start, 2 / 3 switched on after one / two completed runs
    size_t reps = 1 + r.below(3);
    std::deque<TestSpec> tests;               // every test the case ever creates; id = index (references stay valid)
    for (size_t i = 0; i < n; i++) tests.push_back(gen_test(r, tests));
    std::vector<FilterSpec> filters[2];   // 0 group, 1 name
    for (int which = 0; which < 2; which++)
        for (size_t k = 0; k < nf[which]; k++) filters[which].push_back(gen_filter(r, which, tests));
    bool do_reverse = (op & 1u) != 0, do_shuffle = (op & 2u) != 0;
    bool scripted = false; size_t seed = 0;
    g_script.clear(); g_script_pos = 0;
    if (do_shuffle) {
        scripted = r.below(2) != 0;
        static const uint64_t seeds[] = {0, 1, 2, 3, 7, 42, 0x7fffffffULL, 0x80000000ULL, 0xffffffffULL, 0x100000000ULL, 0x100000001ULL, ~0ULL};
        unsigned si = r.below(14);
        seed = si < 12 ? (size_t)seeds[si] : (size_t)r.u32();
        if (scripted) {
            size_t k = 1 + r.below(8);
            for (size_t q = 0; q < k; q++) {
                unsigned c = r.below(10);
                int v;
                switch (c) {
                default:
                case 0: v = 0; break;
                case 1: v = 1; break;
                case 2: v = (int)n; break;
                case 3: v = n ? (int)n - 1 : 0; break;
                case 4: v = (int)n + 1; break;
                case 5: v = RAND_MAX; break;
                case 6: v = RAND_MAX - 1; break;
                case 7: v = 2; break;
                case 8: v = (int)r.u8(); break;
                case 9: v = (int)(r.u32() & 0x7fffffffu); break;
                }
                g_script.push_back(v);
            }
        }
    }
    // changes between repetitions (last in the input: old inputs decode to "no change")
    std::vector<std::vector<Change>> changes(reps);   // changes[k] are applied before repetition k (k >= 1)
    size_t n_changes = 0;
    for (size_t rep = 1; rep < reps; rep++) {
        size_t k = r.below(3);
        for (size_t q = 0; q < k; q++) {
            Change c; c.kind = (ChangeKind)r.below(CH_KINDS); c.which = 0;
            switch (c.kind) {
            case CH_REPLACE_FILTERS: { c.which = (int)r.below(2); size_t m = r.below(4); for (size_t j = 0; j < m; j++) c.fs.push_back(gen_filter(r, c.which, tests)); break; }
            case CH_ADD_FILTER: c.which = (int)r.below(2); c.fs.push_back(gen_filter(r, c.which, tests)); break;
            case CH_CLEAR_FILTERS: c.which = (int)r.below(2); break;
            case CH_CHURN: for (size_t j = 0; j < 2 && tests.size() < 40; j++) { c.new_tests.push_back(tests.size()); tests.push_back(gen_test(r, tests)); } break;
            case CH_ADD_TESTS: { size_t m = 1 + r.below(3); for (size_t j = 0; j < m && tests.size() < 40; j++) { c.new_tests.push_back(tests.size()); tests.push_back(gen_test(r, tests)); } break; }
            default: break;
            }
            if (c.kind != CH_NONE) n_changes++;
            changes[rep].push_back(c);
        }
    }
    // trailing mode byte (old inputs: 0 = none of these)
    uint8_t extras = r.u8();
    bool via_installer = (extras & 1u) != 0;          // tests named and registered by TestInstaller objects into the current registry
    bool sep_process = (extras & 2u) != 0;            // setRunTestsInSeperateProcess() from the start
    bool readd_last = (extras & 16u) != 0;            // before the first run: undo the last registration and register the same shell again
    bool second_registry = (extras & 32u) != 0;       // before the first run: the same shell objects are registered in another TestRegistry, which is the one that runs
    bool through_runner = ((extras >> 2) & 3u) == 1;  // repetitions, -b, -s<seed>, -ri, -p and the filters go through CommandLineTestRunner
    if (through_runner) { for (auto& cs : changes) cs.clear(); n_changes = 0; tests.resize(n); if (ri_mode >= 2) ri_mode = 0; if (do_shuffle) seed = seed % 99999 + 1; }
    size_t total = tests.size();
    // trailing: up to 4 tests fail somewhere (old inputs: nobody fails)
    size_t nfail = 0; if (total) { unsigned k = r.below(8); nfail = k < 4 ? 0 : k - 3; }   // half of the cases: nobody fails
    for (size_t k = 0; k < nfail; k++) { size_t i = r.below((uint32_t)total); tests[i].fail_where = 1 + (int)r.below(F_KINDS - 1); }
    g_fail_where.assign(total, F_NOWHERE);
    for (size_t i = 0; i < total; i++) g_fail_where[i] = tests[i].fail_where;
    auto body_runs = [&](size_t i) { return tests[i].fail_where != F_CONSTRUCTOR_C && tests[i].fail_where != F_PLUGIN_PRE_C; };   // the body is not reached when the test is aborted before it

    // ---------------- model of the selection for the configuration in force (initially; re-evaluated per repetition)
    bool run_ignored = ri_mode == 1;
    std::vector<int> present; for (size_t i = 0; i < n; i++) present.push_back((int)i);
    std::vector<bool> selected(total), runs(total);
    size_t n_sel = 0, n_run = 0, n_ign = 0;
    auto evaluate = [&]() {
        n_sel = n_run = n_ign = 0;
        std::fill(selected.begin(), selected.end(), false); std::fill(runs.begin(), runs.end(), false);
        for (int id : present) {
            size_t i = (size_t)id;
            selected[i] = accepted_by_list(filters[0], tests[i].group) && accepted_by_list(filters[1], tests[i].name);
            runs[i] = selected[i] && (!tests[i].ignored || run_ignored);
            if (selected[i]) n_sel++;
            if (runs[i]) n_run++;
            if (selected[i] && !runs[i]) n_ign++;
        }
    };
    evaluate();
    bool any_filter = nf[0] + nf[1] > 0;
    bool late_ri = ri_mode >= 2 && reps >= ri_mode;
    nontrivial = n >= 3 && ((any_filter && n_sel > 0 && n_sel < n) || op != 0 || n_changes > 0 || late_ri);

    // ---------------- classes / rendering
    verif::cls(n == 0 ? "n=0" : n < 3 ? "n=1-2" : n < 10 ? "n=3-9" : "n=10-24");
    { static const char* on[] = {"order:none", "order:reverse", "order:shuffle", "order:reverse+shuffle"}; verif::cls(on[op]); }
    if (do_shuffle) verif::cls(scripted ? "rand:scripted" : "rand:libc");
    verif::cls(!any_filter ? "filters:none" : nf[1] == 0 ? "filters:group-only" : nf[0] == 0 ? "filters:name-only" : "filters:group+name");
    if (nf[0] > 1 || nf[1] > 1) verif::cls("filters:list-of-2+");
    for (int which = 0; which < 2; which++) for (auto& f : filters[which]) {
        verif::cls(f.strict ? (f.inverted ? "filter:strict+inverted" : "filter:strict") : (f.inverted ? "filter:inverted" : "filter:substring"));
        if (f.text.empty()) verif::cls("filter:empty-text");
    }
    { bool nb = false, longhay = false;
      for (int which = 0; which < 2; which++) for (auto& f : filters[which]) if (!f.strict) for (size_t i = 0; i < n; i++) { const std::string& h = which == 0 ? tests[i].group : tests[i].name; if (needs_backtracking(h, f.text)) nb = true; if (h.size() >= 4 && f.text.size() >= 2 && h.find(f.text) != std::string::npos) longhay = true; }
      if (nb) verif::cls("substring:occurrence-after-overlapping-false-start");
      if (longhay) verif::cls("substring:needle>=2-found-in-haystack>=4"); }
    if (any_filter && n > 0) verif::cls(n_sel == 0 ? "selects:none" : n_sel == n ? "selects:all" : "selects:proper-subset");
    { static const char* rm[] = {"run-ignored:off", "run-ignored:from-start", "run-ignored:after-1-run", "run-ignored:after-2-runs"}; verif::cls(rm[ri_mode]); }
    { bool has_ign = false; for (size_t i = 0; i < n; i++) has_ign |= tests[i].ignored;
      if (has_ign) verif::cls(run_ignored ? "ignored-tests-run" : "ignored-tests-skipped");
      if (has_ign && late_ri) verif::cls("between-runs:run-ignored-switched-on-with-ignored-tests"); }
    { static const char* rn[] = {"", "reps=1", "reps=2", "reps=3"}; verif::cls(rn[reps]); }
    { static const char* fn[] = {"", "fails:body-c++", "fails:body-c-longjmp", "fails:fixture-constructor-c", "fails:fixture-destructor-c", "fails:plugin-pre-action-c", "fails:plugin-post-action-c"};
      bool any = false; for (size_t i = 0; i < total; i++) if (tests[i].fail_where) { verif::cls(fn[tests[i].fail_where]); any = true; }
      if (any) verif::cls("fails:some-test"); }
    if (via_installer) verif::cls("registered:through-TestInstaller");
    if (readd_last && n > 0) verif::cls("registered:last-one-undone-and-registered-again");
    if (second_registry) verif::cls("registered:same-shells-in-a-second-registry");
    if (sep_process) verif::cls("separate-process:from-start");
    if (through_runner) verif::cls(do_shuffle ? (reps > 1 ? "through-runner:shuffle-repeated" : "through-runner:shuffle") : "through-runner:no-shuffle");
    if (n_changes) verif::cls("between-runs:some-change");
    for (auto& cs : changes) for (auto& c : cs) {
        static const char* cn[] = {"", "between-runs:filters-replaced", "between-runs:filter-added", "between-runs:filters-cleared", "between-runs:tests-added", "between-runs:first-test-removed", "between-runs:reverse", "between-runs:run-ignored-on", "between-runs:separate-process-on",
                                   "between-runs:removed-shell-registered-again", "between-runs:shells-moved-to-another-registry", "between-runs:add-undo-add-readd"};
        if (c.kind != CH_NONE) verif::cls(cn[c.kind]);
    }

    auto show_test = [&](size_t i) { static const char* fw[] = {"", "!body", "!bodyC", "!ctorC", "!dtorC", "!preC", "!postC"};
                                     return sfmt("%s%s.%s%s", tests[i].ignored ? "I:" : "", tests[i].group.c_str(), tests[i].name.c_str(), fw[tests[i].fail_where]); };
    desc = sfmt("n=%zu [", n);
    for (size_t i = 0; i < n; i++) desc += show_test(i) + " ";
    desc += "] g{";
    for (auto& f : filters[0]) desc += show(f) + " ";
    desc += "} n{";
    for (auto& f : filters[1]) desc += show(f) + " ";
    desc += sfmt("} ri=%u op=%u", ri_mode, op);
    if (do_shuffle) { desc += scripted ? " rand=script(" : sfmt(" seed=%zu", seed); if (scripted) { for (int v : g_script) desc += sfmt("%d,", v); desc += ")"; } }
    desc += sfmt(" reps=%zu -> %zu selected", reps, n_sel);
    for (size_t rep = 1; rep < reps; rep++) for (auto& c : changes[rep]) {
        if (c.kind == CH_NONE) continue;
        desc += sfmt("; before rep %zu: ", rep + 1);
        switch (c.kind) {
        case CH_REPLACE_FILTERS: desc += sfmt("%s filters := {", c.which ? "name" : "group"); for (auto& f : c.fs) desc += show(f) + " "; desc += "}"; break;
        case CH_ADD_FILTER: desc += sfmt("%s filters += %s", c.which ? "name" : "group", show(c.fs[0]).c_str()); break;
        case CH_CLEAR_FILTERS: desc += sfmt("%s filters := none", c.which ? "name" : "group"); break;
        case CH_ADD_TESTS: desc += "add "; for (size_t i : c.new_tests) desc += show_test(i) + " "; break;
        case CH_REMOVE_FIRST: desc += "remove first test"; break;
        case CH_REVERSE: desc += "reverse"; break;
        case CH_RUN_IGNORED_ON: desc += "run-ignored on"; break;
        case CH_SEP_PROCESS_ON: desc += "separate process on"; break;
        case CH_READD_REMOVED: desc += "register the last removed shell again"; break;
        case CH_MOVE_TO_OTHER_REGISTRY: desc += "register the same shells in another registry and go on with that one"; break;
        case CH_CHURN: desc += "add x, undo, add y, add x again:"; for (size_t i : c.new_tests) desc += " " + show_test(i); break;
        default: break;
        }
    }
    if (readd_last) desc += "; last registration undone and repeated";
    if (second_registry) desc += "; shells registered again in a second registry";
    if (via_installer) desc += "; TestInstaller";
    if (sep_process) desc += "; separate process";
    if (through_runner) desc += "; through the runner";
    if (verif::g_explain) fprintf(stderr, "case: %s\n", desc.c_str());

    // ---------------- build the real thing
    SeamGuard guard;
    SpyRegistry registries[2];                 // the second one only when the shells are moved into another registry
    SpyRegistry* R = &registries[0];
    R->setCurrentRegistry(R);
    V_CHECK(TestRegistry::getCurrentRegistry() == R, "C02:current-registry", "getCurrentRegistry() does not return the registry made current");
    PlatformSpecificRunTestInASeperateProcess = sep_process_stub; g_sep_calls = 0;
    std::vector<std::unique_ptr<UtestShell>> shells;
    std::vector<std::unique_ptr<TestInstaller>> installers;
    std::map<const UtestShell*, int> ids; g_ids = &ids;
    for (size_t i = 0; i < total; i++) {
        UtestShell* s;
        if (via_installer) s = tests[i].ignored ? (UtestShell*)new IgnoredShell((int)i) : (UtestShell*)new NormalShell((int)i);
        else s = tests[i].ignored ? (UtestShell*)new IgnoredShell((int)i, tests[i].group.c_str(), tests[i].name.c_str())
                                  : (UtestShell*)new NormalShell((int)i, tests[i].group.c_str(), tests[i].name.c_str());
        shells.emplace_back(s); ids[s] = (int)i;
    }
    // registration: directly, or the way the TEST macro does it (a TestInstaller names the shell and adds it to the current registry)
    auto register_test = [&](size_t i) {
        if (via_installer) installers.emplace_back(new TestInstaller(*shells[i], tests[i].group.c_str(), tests[i].name.c_str(), "c02.cpp", (size_t)(100 + i)));
        else R->addTest(shells[i].get());
    };
    for (size_t i = 0; i < n; i++) register_test(i);
    if (via_installer) for (size_t i = 0; i < n; i++) {
        std::string g = shells[i]->getGroup().asCharString(), nm = shells[i]->getName().asCharString();
        V_CHECK(g == tests[i].group && nm == tests[i].name && shells[i]->getLineNumber() == 100 + i, "C02:installer-naming", "TestInstaller named test #%zu %s.%s line %zu, expected %s.%s line %zu",
                i, g.c_str(), nm.c_str(), shells[i]->getLineNumber(), tests[i].group.c_str(), tests[i].name.c_str(), 100 + i);
    }
    std::vector<std::unique_ptr<TestFilter>> real_filters;   // owns every filter object of the case
    TestFilter* heads[2] = {NULLPTR, NULLPTR};
    auto make_filter = [&](const FilterSpec& f) {
        TestFilter* tf = new TestFilter(f.text.c_str());
        if (f.strict) tf->strictMatching();
        if (f.inverted) tf->invertMatching();
        real_filters.emplace_back(tf);
        return tf;
    };
    auto install = [&](int which) { if (which == 0) R->setGroupFilters(heads[0]); else R->setNameFilters(heads[1]); };
    for (int which = 0; which < 2; which++) { for (auto& f : filters[which]) heads[which] = make_filter(f)->add(heads[which]); install(which); }
    AttemptPlugin attempt_plugin;               // sees every test start; fails where a plugin failure is planned
    R->installPlugin(&attempt_plugin);
    bool sep_on = false;
    if (!through_runner) {
        if (run_ignored) R->setRunIgnored();
        if (sep_process) { R->setRunTestsInSeperateProcess(); sep_on = true; }
    }
    if (scripted) { PlatformSpecificSrand = scripted_srand; PlatformSpecificRand = scripted_rand; }

    std::vector<int> order, prev;
    if (int rc = check_walk("after registration", *R, present, order)) return rc;
    auto reverse_checked = [&]() -> int {
        prev = order;
        R->reverseTests();
        if (int rc = check_walk("after reverseTests", *R, present, order)) return rc;
        std::reverse(prev.begin(), prev.end());
        V_CHECK(prev == order, "C02:reverse-not-reversed", "reverseTests gave %s, expected %s", show_ids(order).c_str(), show_ids(prev).c_str());
        return 0;
    };
    // ---- registration histories: "registered" = handed to addTest and not undone since, whatever list the shell was in before
    std::vector<int> removed;                    // shells taken out by an undo, most recent last
    size_t runs_on_current_registry = 0;
    auto undo_first = [&](const char* when) -> int {
        int gone = order[0];
        if (via_installer && !installers.empty()) installers.back()->unDo(); else R->unDoLastAddTest();   // TestInstaller::unDo() == undo the last addTest of the current registry
        present.erase(std::find(present.begin(), present.end(), gone));
        removed.push_back(gone);
        std::vector<int> expect(order.begin() + 1, order.end());
        if (int rc = check_walk(when, *R, present, order)) return rc;
        V_CHECK(order == expect, "C02:remove-first", "%s: left %s, expected %s", when, show_ids(order).c_str(), show_ids(expect).c_str());
        return 0;
    };
    auto register_checked = [&](int id, const char* when) -> int {   // the shell may carry a stale next pointer from an earlier list
        std::vector<int> expect; expect.push_back(id); expect.insert(expect.end(), order.begin(), order.end());
        register_test((size_t)id);
        present.push_back(id); std::sort(present.begin(), present.end());
        auto it = std::find(removed.begin(), removed.end(), id); if (it != removed.end()) removed.erase(it);
        if (int rc = check_walk(when, *R, present, order)) return rc;
        V_CHECK(order == expect, "C02:registered-again", "%s: registry is %s, expected %s [%s]", when, show_ids(order).c_str(), show_ids(expect).c_str(), desc.c_str());
        return 0;
    };
    auto move_to_other_registry = [&]() -> int {
        if (R == &registries[1]) return 0;       // one move per case
        std::vector<int> old = order, expect(order.rbegin(), order.rend());
        R = &registries[1];
        R->setCurrentRegistry(R);
        for (int id : old) register_test((size_t)id);          // every shell still carries the next pointer of the first registry's list
        install(0); install(1);                                 // the configuration in force goes with the tests
        R->installPlugin(&attempt_plugin);
        if (run_ignored && !through_runner) R->setRunIgnored();
        if (sep_on) R->setRunTestsInSeperateProcess();
        runs_on_current_registry = 0;
        if (int rc = check_walk("after registering the same shells in a second registry", *R, present, order)) return rc;
        V_CHECK(order == expect, "C02:second-registry", "second registry is %s, expected %s [%s]", show_ids(order).c_str(), show_ids(expect).c_str(), desc.c_str());
        return 0;
    };
    if (readd_last && !order.empty()) {
        if (int rc = undo_first("after undoing the last registration")) return rc;
        if (int rc = register_checked(removed.back(), "after registering the undone shell again")) return rc;
    }
    if (second_registry) if (int rc = move_to_other_registry()) return rc;
    if (do_reverse) if (int rc = reverse_checked()) return rc;
    bool nonadjacent_repeat = false, adjacent_equal = false;
    size_t rep = 0;                              // index of the repetition being run / judged
    size_t ev_start = 0;
    std::vector<int> runner_expected_order;      // through the runner without shuffling: the order every repetition has to use
    g_runner_events.clear();
    // ---- immediately before the real runAllTests: the list must be sound, then the model for the configuration in force
    R->before = [&]() -> int {
        if (through_runner) {
            if (int rc = check_walk("at the start of a repetition driven by the runner", *R, present, order)) return rc;
            if (!do_shuffle) V_CHECK(order == runner_expected_order, "C02:runner-order", "repetition %zu through the runner runs in order %s, expected %s (reverse=%d) [%s]",
                                     rep + 1, show_ids(order).c_str(), show_ids(runner_expected_order).c_str(), (int)do_reverse, desc.c_str());
        }
        evaluate();
        g_exec.assign(total, 0); g_exec_order.clear(); g_sep_calls = 0; g_attempts.assign(total, 0);
        ev_start = g_runner_events.size();
        return 0;
    };
    // ---- immediately after it: everything the statement says about one repetition
    R->after = [&](TestResult& tr) -> int {
        std::vector<Ev> evs(g_runner_events.begin() + (long)ev_start, g_runner_events.end());
        size_t np = present.size();
        auto cfg = [&]() {   // only rendered when a check fails
            std::string c = sfmt("repetition %zu (run-ignored %d, group filters {", rep + 1, (int)run_ignored);
            for (auto& f : filters[0]) c += show(f) + " ";
            c += "} name filters {";
            for (auto& f : filters[1]) c += show(f) + " ";
            return c + "})";
        };
        std::vector<int> after;
        if (int rc = check_walk("after runAllTests", *R, present, after)) return rc;
        V_CHECK(after == order, "C02:run-changed-order", "runAllTests changed the registry order: %s -> %s", show_ids(order).c_str(), show_ids(after).c_str());

        // execution counters
        for (size_t i = 0; i < total; i++)
            V_CHECK(g_exec[i] == (runs[i] && body_runs(i) ? 1 : 0), "C02:execution-count", "%s: test #%zu %s executed %d times, expected %d (selected=%d) [%s]",
                    cfg().c_str(), i, show_test(i).c_str(), g_exec[i], runs[i] && body_runs(i) ? 1 : 0, (int)selected[i], desc.c_str());
        // a test is "run" from the moment the plugin chain sees it start, whether or not it gets as far as its body
        for (size_t i = 0; i < total; i++)
            V_CHECK(g_attempts[i] == (runs[i] ? 1 : 0), "C02:run-attempts", "%s: test #%zu %s was started %d times, expected %d [%s]",
                    cfg().c_str(), i, show_test(i).c_str(), g_attempts[i], runs[i] ? 1 : 0, desc.c_str());
        // accounting identity and each counter
        V_CHECK(tr.getTestCount() == np, "C02:count-tests", "%s: test count %zu, registered %zu [%s]", cfg().c_str(), tr.getTestCount(), np, desc.c_str());
        V_CHECK(tr.getRunCount() + tr.getIgnoredCount() + tr.getFilteredOutCount() == np, "C02:count-identity",
                "%s: run %zu + ignored %zu + filtered out %zu != %zu tests [%s]", cfg().c_str(), tr.getRunCount(), tr.getIgnoredCount(), tr.getFilteredOutCount(), np, desc.c_str());
        V_CHECK(tr.getRunCount() == n_run, "C02:count-run", "%s: run count %zu, expected %zu [%s]", cfg().c_str(), tr.getRunCount(), n_run, desc.c_str());
        V_CHECK(tr.getIgnoredCount() == n_ign, "C02:count-ignored", "%s: ignored count %zu, expected %zu [%s]", cfg().c_str(), tr.getIgnoredCount(), n_ign, desc.c_str());
        V_CHECK(tr.getFilteredOutCount() == np - n_sel, "C02:count-filtered-out", "%s: filtered-out count %zu, expected %zu [%s]", cfg().c_str(), tr.getFilteredOutCount(), np - n_sel, desc.c_str());
        { size_t want_failures = 0; for (size_t i = 0; i < total; i++) if (runs[i] && tests[i].fail_where != F_NOWHERE) want_failures++;
          V_CHECK(tr.getFailureCount() == want_failures, "C02:failure-count", "%s: %zu failures, %zu tests that run are planned to fail (once each) [%s]", cfg().c_str(), tr.getFailureCount(), want_failures, desc.c_str()); }

        // expected callback stream and execution order, from the actual order and the model
        std::vector<Ev> want; std::vector<int> want_exec;
        want.push_back({'S', -1});
        size_t group_runs = 0;
        for (size_t i = 0; i < np; i++) {
            const TestSpec& t = tests[(size_t)order[i]];
            bool first = i == 0 || tests[(size_t)order[i - 1]].group != t.group;
            bool last = i + 1 == np || tests[(size_t)order[i + 1]].group != t.group;
            if (first) { want.push_back({'G', order[i]}); group_runs++; }
            if (!first) adjacent_equal = true;
            if (selected[(size_t)order[i]]) { want.push_back({'T', order[i]}); want.push_back({'t', -1}); }
            if (runs[(size_t)order[i]] && body_runs((size_t)order[i])) want_exec.push_back(order[i]);
            if (last) want.push_back({'g', -1});
            if (first) for (size_t j = 0; j + 1 < i; j++) if (tests[(size_t)order[j]].group == t.group) nonadjacent_repeat = true;
        }
        want.push_back({'E', -1});
        // balance first (the statement), then the exact stream (DESIGN: one start per maximal equal-group run)
        {
            int depth_g = 0, depth_t = 0; size_t starts = 0; bool ok = true;
            for (auto& e : evs) {
                if (e.kind == 'G') { ok &= depth_g == 0 && depth_t == 0; depth_g++; starts++; }
                else if (e.kind == 'g') { ok &= depth_g == 1 && depth_t == 0; depth_g--; }
                else if (e.kind == 'T') { ok &= depth_g == 1 && depth_t == 0; depth_t++; }
                else if (e.kind == 't') { ok &= depth_t == 1; depth_t--; }
            }
            ok &= depth_g == 0 && depth_t == 0;
            V_CHECK(ok, "C02:notifications-unbalanced", "repetition %zu: callback stream not of the form S (G (T t)* g)* E: %s [%s]", rep + 1, render(evs).c_str(), desc.c_str());
            V_CHECK(starts == group_runs, "C02:group-start-count", "repetition %zu: %zu group starts for %zu maximal equal-group runs: %s order %s [%s]",
                    rep + 1, starts, group_runs, render(evs).c_str(), show_ids(order).c_str(), desc.c_str());
        }
        bool same = want.size() == evs.size();
        for (size_t i = 0; same && i < want.size(); i++) same = want[i].kind == evs[i].kind && want[i].id == evs[i].id;
        V_CHECK(same, "C02:callback-stream", "%s: callbacks %s expected %s [%s]", cfg().c_str(), render(evs).c_str(), render(want).c_str(), desc.c_str());
        V_CHECK(want_exec == g_exec_order, "C02:execution-order", "repetition %zu: executed %s expected %s", rep + 1, show_ids(g_exec_order).c_str(), show_ids(want_exec).c_str());
        runs_on_current_registry++;
        V_CHECK(R->getCurrentRepetition() == (int)runs_on_current_registry, "C02:repetition-counter", "getCurrentRepetition()=%d after %zu runs of this registry", R->getCurrentRepetition(), runs_on_current_registry);
        for (int id : present) {   // the shell's own answer to "will this test run" follows the same rule
            bool want_will = !tests[(size_t)id].ignored || run_ignored;
            V_CHECK(shells[(size_t)id]->willRun() == want_will, "C02:willRun", "%s: after the run test #%d %s says willRun()=%d, expected %d [%s]",
                    cfg().c_str(), id, show_test((size_t)id).c_str(), (int)shells[(size_t)id]->willRun(), (int)want_will, desc.c_str());
        }
        V_CHECK((size_t)g_sep_calls == (sep_on ? n_run : 0), "C02:separate-process", "%s: separate process %s, %d of %zu executions went through the separate-process seam [%s]",
                cfg().c_str(), sep_on ? "on" : "off", g_sep_calls, n_run, desc.c_str());
        rep++;
        return 0;
    };
    { SpyRegistry* other = R == &registries[0] ? &registries[1] : &registries[0]; other->before = R->before; other->after = R->after; }   // both registries judge their runs the same way
    if (through_runner) {
        // the same configuration as an argument vector; the real runner loops, reverses, shuffles and hands the filters down
        std::vector<std::string> args; args.push_back("c02.exe");
        args.push_back(sfmt("-r%zu", reps));
        if (do_reverse) args.push_back("-b");
        if (do_shuffle) args.push_back(sfmt("-s%zu", seed));
        if (run_ignored) args.push_back("-ri");
        if (sep_process) { args.push_back("-p"); sep_on = true; }
        for (int which = 0; which < 2; which++) for (auto& f : filters[which]) {
            args.push_back(std::string("-") + (f.inverted ? "x" : "") + (f.strict ? "s" : "") + (which ? "n" : "g"));
            args.push_back(f.text);
        }
        std::vector<const char*> av; for (auto& a : args) av.push_back(a.c_str());
        runner_expected_order = order; if (do_reverse) std::reverse(runner_expected_order.begin(), runner_expected_order.end());
        int result;
        { SpyRunner runner((int)av.size(), av.data(), R); result = runner.runAllTestsMain(); }
        UtestShell::setRethrowExceptions(false);
        if (R->rc) return R->rc;
        V_CHECK(R->calls == reps && rep == reps, "C02:runner-repetitions", "-r%zu made the runner call runAllTests %zu times [%s]", reps, R->calls, desc.c_str());
        (void)result;
    }
    else for (size_t k = 0; k < reps; k++) {
        // ---- what happens to the long-lived registry between two runs
        if (k > 0 && ri_mode >= 2 && k == ri_mode - 1 && !run_ignored) { R->setRunIgnored(); run_ignored = true; }
        for (auto& c : changes[k]) {
            switch (c.kind) {
            case CH_REPLACE_FILTERS:
                filters[c.which] = c.fs; heads[c.which] = NULLPTR;
                for (auto& f : c.fs) heads[c.which] = make_filter(f)->add(heads[c.which]);
                install(c.which); break;
            case CH_ADD_FILTER:
                filters[c.which].push_back(c.fs[0]); heads[c.which] = make_filter(c.fs[0])->add(heads[c.which]);
                install(c.which); break;
            case CH_CLEAR_FILTERS: filters[c.which].clear(); heads[c.which] = NULLPTR; install(c.which); break;
            case CH_ADD_TESTS:
                for (size_t i : c.new_tests) { register_test(i); present.push_back((int)i); }
                std::sort(present.begin(), present.end());
                if (int rc = check_walk("after addTest between runs", *R, present, order)) return rc;
                break;
            case CH_REMOVE_FIRST: if (!order.empty()) if (int rc = undo_first("after unDoLastAddTest between runs")) return rc; break;
            case CH_READD_REMOVED: if (!removed.empty()) if (int rc = register_checked(removed.back(), "after registering a removed shell again between runs")) return rc; break;
            case CH_MOVE_TO_OTHER_REGISTRY: if (int rc = move_to_other_registry()) return rc; break;
            case CH_CHURN:
                if (c.new_tests.size() == 2) {   // addTest(x); undo; addTest(y); addTest(x)
                    int x = (int)c.new_tests[0], y = (int)c.new_tests[1];
                    if (int rc = register_checked(x, "churn: after adding x")) return rc;
                    if (int rc = undo_first("churn: after undoing x")) return rc;
                    if (int rc = register_checked(y, "churn: after adding y")) return rc;
                    if (int rc = register_checked(x, "churn: after adding x again")) return rc;
                }
                break;
            case CH_REVERSE: if (int rc = reverse_checked()) return rc; break;
            case CH_RUN_IGNORED_ON: R->setRunIgnored(); run_ignored = true; break;
            case CH_SEP_PROCESS_ON: R->setRunTestsInSeperateProcess(); sep_on = true; break;
            default: break;
            }
        }
        if (do_shuffle) {
            R->shuffleTests(seed);
            if (int rc = check_walk("after shuffleTests", *R, present, order)) return rc;
        }
        RecOutput out(g_runner_events);
        TestResult tr(out);
        R->runAllTests(tr);
        if (R->rc) return R->rc;
    }
    if (adjacent_equal) verif::cls("groups:adjacent-equal");
    if (nonadjacent_repeat) verif::cls("groups:same-group-in-two-runs");
    return 0;
}

}  // namespace

extern "C" const char* verif_property(void) { return "C02"; }
extern "C" void verif_init(void) {
    verif::install_fake_time();
    g_orig_srand = PlatformSpecificSrand;
    g_orig_rand = PlatformSpecificRand;
    g_orig_sep = PlatformSpecificRunTestInASeperateProcess;
}
extern "C" int verif_case(const uint8_t* data, size_t size) {
    Reader r(data, size);
    // reset of every global the case touches
    reset_current_registry();
    PlatformSpecificSrand = g_orig_srand; PlatformSpecificRand = g_orig_rand;
    UtestShell::restoreDefaultTestTerminator();
    UtestShell::setRethrowExceptions(false);
    PlatformSpecificRunTestInASeperateProcess = g_orig_sep;
    verif::fake_millis_value = 0;
    bool nontrivial = false; std::string desc;
    int rc = run_case(r, nontrivial, desc);
    g_ids = nullptr;
    verif::note_case(nontrivial, r.h, [&] { return desc; });
    return rc;
}
extern "C" int verif_known_repro(const char*) { return -1; }
