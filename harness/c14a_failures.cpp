// C14 part (a) — building the message of any failing check terminates, reads only the operands' own bytes,
// shows both operands (escaped when not printable) and prints the true first-difference position.
// Decoder: one failure kind + operands that satisfy the CALLER's precondition of that kind (the operands differ under
//          the check's predicate) — including operands whose printed forms coincide, empty, NULL, long, non-printable.
// Oracle:  ASan on exact-size heap operands; reference rendering of both operands must occur in the message; the parsed
//          "difference starts at position N" equals the first differing index of the raw operands.
#include "common.h"
#include "CppUTest/TestFailure.h"
#include <math.h>

using verif::Reader;
using verif::sfmt;

namespace {

struct Heap {   // exact-size malloc copy of a C string / block: any over-read is an ASan report
    char* p;
    Heap(const std::string& s, bool cstr = true) { size_t n = s.size() + (cstr ? 1 : 0); p = (char*)malloc(n ? n : 1); memcpy(p, s.data(), s.size()); if (cstr) p[s.size()] = 0; }
    ~Heap() { free(p); }
};
char lower(char c) { return (c >= 'A' && c <= 'Z') ? (char)(c + 32) : c; }

// reference rendering of a non-printable-escaped operand; high bytes (>= 0x80) may be shown raw or as \xNN (true value)
std::string render(const std::string& in, bool hex_high) {
    static const char* shortc = "abtnvfr"; std::string o;
    for (unsigned char c : in) {
        if (c >= 7 && c <= 13) { o += '\\'; o += shortc[c - 7]; }
        else if (c < 0x20 || c == 0x7f || (c >= 0x80 && hex_high)) o += sfmt("\\x%02X", c);
        else o.push_back((char)c);
    }
    return o;
}
bool shows(const std::string& msg, const std::string& exp_raw, const std::string& act_raw, const char* exp_tag = "expected <", const char* act_tag = "but was  <") {
    for (int hh = 0; hh < 2; hh++) {
        std::string e = std::string(exp_tag) + render(exp_raw, hh) + ">", a = std::string(act_tag) + render(act_raw, hh) + ">";
        if (msg.find(e) != std::string::npos && msg.find(a) != std::string::npos) return true;
    }
    return false;
}
long parsed_position(const std::string& msg) {
    size_t p = msg.find("difference starts at position ");
    if (p == std::string::npos) return -1;
    return strtol(msg.c_str() + p + 30, nullptr, 10);
}
bool special(const std::string& s) { for (unsigned char c : s) if (c < 0x20 || c >= 0x7f || c == '\\') return true; return false; }

std::string gen_operand(Reader& r) {
    switch (r.below(6)) {
    default:
    case 0: return r.str(6, "ab");
    case 1: { static const char a[] = "\n\\n\t\\tx\x01\x80\xff\\x80 "; return r.str(10, a, sizeof a - 1); }
    case 2: return r.bytes(12);
    case 3: { std::string u = r.str(4, "abcX"); if (u.empty()) u = "q"; std::string s; size_t reps = r.below(800); for (size_t i = 0; i < reps && s.size() < 3000; i++) s += u; return s; }
    case 4: return r.str(8, "aAbB");
    case 5: return "";
    }
}
// derive a second operand related to the first: equal, differing late, case-only, printed-form twin
std::string gen_related(Reader& r, const std::string& a) {
    switch (r.below(7)) {
    default:
    case 0: return gen_operand(r);
    case 1: return a;
    case 2: { std::string b = a; if (!b.empty()) { size_t i = r.below((uint32_t)b.size()); b[i] = (char)(1 + r.below(255)); } return b; }
    case 3: { std::string b = a; b += gen_operand(r).substr(0, 3); return b; }
    case 4: { std::string b = a; for (auto& c : b) if (r.flag()) c = (c >= 'a' && c <= 'z') ? (char)(c - 32) : lower(c); return b; }
    case 5: { // printed-form twin: replace a control byte by its escape text (or the reverse) -> same printable() text, different raw bytes
        std::string b; bool done = false;
        for (unsigned char c : a) { if (!done && c == '\n') { b += "\\n"; done = true; } else if (!done && c == '\t') { b += "\\t"; done = true; } else if (!done && c == 1) { b += "\\x01"; done = true; } else if (!done && c >= 0x80) { b += sfmt("\\x%02X", c); done = true; } else b.push_back((char)c); }
        if (!done) { b = a + "\n"; }
        return b; }
    case 6: return a.substr(0, a.size() ? r.below((uint32_t)a.size()) : 0);
    }
}
size_t first_diff(const std::string& a, const std::string& b, bool nocase) {
    size_t i = 0;
    while (i < a.size() && i < b.size() && (nocase ? lower(a[i]) == lower(b[i]) : a[i] == b[i])) i++;
    return i;
}

UtestShell* g_shell;

int run_case(Reader& r, bool& nontrivial, std::string& desc) {
    uint32_t kind = r.below(16);
    std::string text = r.below(4) == 0 ? r.str(12, "LONGS_EQUAL msg%d") : "";
    SimpleString userText(text.c_str());
    static const char* KN[] = {"CheckEqual", "StringEqual", "StringEqualNoCase", "BinaryEqual", "Equals-cstr", "Equals-SimpleString", "Contains", "Longs", "UnsignedLongs", "LongLongs", "UnsignedLongLongs", "SignedBytes", "DoublesEqual", "BitsEqual", "Check/Comparison/Fail/Feature", "copy/accessors"};
    verif::cls(KN[kind]);
    desc = KN[kind];
    switch (kind) {
    case 0: {   // CHECK_EQUAL(expected, actual) fails when the VALUES differ; their StringFrom() texts may coincide
        std::string e = gen_operand(r), a = gen_related(r, e);
        desc += sfmt("(\"%s\",\"%s\")", verif::printable(e).substr(0, 60).c_str(), verif::printable(a).substr(0, 60).c_str());
        if (e == a || render(e, true) == render(a, true) || special(e.substr(0, first_diff(e, a, false)))) nontrivial = true;
        SimpleString se(e.c_str()), sa(a.c_str());
        CheckEqualFailure f(g_shell, "file.cpp", 10, se, sa, userText);
        std::string msg = f.getMessage().asCharString();
        V_CHECK(shows(msg, e, a), "C14:CheckEqual-operands", "message does not show both operands: %.300s", verif::printable(msg).c_str());
        long pos = parsed_position(msg);
        if (e != a) V_CHECK(pos == (long)first_diff(e, a, false), "C14:CheckEqual-position", "position %ld printed, operands first differ at %zu: %.300s", pos, first_diff(e, a, false), verif::printable(msg).c_str());
        break; }
    case 1: case 2: {   // STRCMP_EQUAL / STRCMP_NOCASE_EQUAL fail when the strings differ (under the predicate) or exactly one is NULL
        bool nocase = kind == 2;
        std::string e = gen_operand(r), a = gen_related(r, e);
        int nullmode = (int)r.below(8);   // 1: expected NULL, 2: actual NULL
        bool differ = nocase ? (first_diff(e, a, true) < std::max(e.size(), a.size())) : (e != a);
        if (nullmode != 1 && nullmode != 2 && !differ) a += "x";   // caller precondition: the check failed
        desc += sfmt("(%s,%s)", nullmode == 1 ? "NULL" : ("\"" + verif::printable(e).substr(0, 60) + "\"").c_str(), nullmode == 2 ? "NULL" : ("\"" + verif::printable(a).substr(0, 60) + "\"").c_str());
        Heap he(e), ha(a);
        const char* pe = nullmode == 1 ? NULLPTR : he.p; const char* pa = nullmode == 2 ? NULLPTR : ha.p;
        size_t fd = first_diff(e, a, nocase);
        if (render(e, true) == render(a, true) || special(e.substr(0, fd)) || nullmode == 1 || nullmode == 2) nontrivial = true;
        std::string msg;
        if (nocase) { StringEqualNoCaseFailure f(g_shell, "file.cpp", 10, pe, pa, userText); msg = f.getMessage().asCharString(); }
        else { StringEqualFailure f(g_shell, "file.cpp", 10, pe, pa, userText); msg = f.getMessage().asCharString(); }
        if (pe && pa) {
            V_CHECK(shows(msg, e, a), "C14:StringEqual-operands", "message does not show both operands: %.300s", verif::printable(msg).c_str());
            long pos = parsed_position(msg);
            V_CHECK(pos == (long)fd, "C14:StringEqual-position", "position %ld printed, operands first differ at %zu: %.300s", pos, fd, verif::printable(msg).c_str());
        } else {
            V_CHECK(msg.find("(null)") != std::string::npos, "C14:StringEqual-null", "NULL operand not shown: %.200s", verif::printable(msg).c_str());
        }
        break; }
    case 3: {   // MEMCMP_EQUAL fails when the blocks differ within size, or exactly one is NULL
        std::string e = r.bytes(r.below(4) == 0 ? 300 : 10, 0), a = e;
        int nullmode = (int)r.below(8);
        if (e.empty()) { e = std::string(1, (char)r.u8()); a = e; }
        size_t at = r.below((uint32_t)e.size()); a[at] = (char)(a[at] ^ (1 + r.below(255)));
        for (size_t i = at + 1; i < a.size(); i++) if (r.below(4) == 0) a[i] = (char)r.u8();
        Heap he(e, false), ha(a, false);
        const unsigned char* pe = nullmode == 1 ? NULLPTR : (const unsigned char*)he.p; const unsigned char* pa = nullmode == 2 ? NULLPTR : (const unsigned char*)ha.p;
        desc += sfmt("(size %zu, first difference at %zu%s)", e.size(), at, nullmode == 1 || nullmode == 2 ? ", one NULL" : "");
        if (at + 1 == e.size() || nullmode == 1 || nullmode == 2) nontrivial = true;
        BinaryEqualFailure f(g_shell, "file.cpp", 10, pe, pa, e.size(), userText);
        std::string msg = f.getMessage().asCharString();
        if (pe && pa) {
            long pos = parsed_position(msg);
            V_CHECK(pos == (long)at, "C14:BinaryEqual-position", "position %ld printed, blocks first differ at %zu", pos, at);
            std::string hexe, hexa; for (size_t i = 0; i < e.size(); i++) { hexe += sfmt("%s%02X", i ? " " : "", (unsigned char)e[i]); hexa += sfmt("%s%02X", i ? " " : "", (unsigned char)a[i]); }
            V_CHECK(msg.find("expected <" + hexe + ">") != std::string::npos && msg.find("but was  <" + hexa + ">") != std::string::npos, "C14:BinaryEqual-operands", "message does not show both blocks");
        } else V_CHECK(msg.find("(null)") != std::string::npos, "C14:BinaryEqual-null", "NULL block not shown");
        break; }
    case 4: { std::string e = gen_operand(r), a = gen_related(r, e); int nullmode = (int)r.below(6); Heap he(e), ha(a);
        EqualsFailure f(g_shell, "file.cpp", 10, nullmode == 1 ? NULLPTR : he.p, nullmode == 2 ? NULLPTR : ha.p, userText);
        std::string msg = f.getMessage().asCharString();
        V_CHECK(msg.find("expected <" + (nullmode == 1 ? std::string("(null)") : e) + ">") != std::string::npos && msg.find("but was  <" + (nullmode == 2 ? std::string("(null)") : a) + ">") != std::string::npos, "C14:Equals-operands", "message does not show both operands");
        if (e.size() > 90 || nullmode == 1 || nullmode == 2) nontrivial = true;
        break; }
    case 5: { std::string e = gen_operand(r), a = gen_related(r, e);
        EqualsFailure f(g_shell, "file.cpp", 10, SimpleString(e.c_str()), SimpleString(a.c_str()), userText);
        std::string msg = f.getMessage().asCharString();
        V_CHECK(msg.find("expected <" + e + ">") != std::string::npos && msg.find("but was  <" + a + ">") != std::string::npos, "C14:Equals-operands", "message does not show both operands");
        if (e.size() > 90) nontrivial = true;
        break; }
    case 6: { std::string e = gen_operand(r), a = gen_operand(r);
        ContainsFailure f(g_shell, "file.cpp", 10, SimpleString(e.c_str()), SimpleString(a.c_str()), userText);
        std::string msg = f.getMessage().asCharString();
        V_CHECK(msg.find("actual <" + a + ">") != std::string::npos && msg.find("did not contain  <" + e + ">") != std::string::npos, "C14:Contains-operands", "message does not show both operands");
        if (e.size() + a.size() > 90) nontrivial = true;
        break; }
    case 7: case 8: case 9: case 10: case 11: {
        uint64_t lat[] = {0, 1, 9, 10, 127, 128, 255, 0x7fffffffULL, 0x80000000ULL, 0xffffffffULL, 0x7fffffffffffffffULL, 0x8000000000000000ULL, 0xffffffffffffffffULL};
        uint64_t e = r.flag() ? r.pick(lat) : r.u64(), a = r.flag() ? r.pick(lat) : r.u64(); if (e == a) a ^= 1;
        std::string msg, de, da;
        if (kind == 7) { LongsEqualFailure f(g_shell, "f", 1, (long)e, (long)a, userText); msg = f.getMessage().asCharString(); de = sfmt("%ld", (long)e); da = sfmt("%ld", (long)a); }
        if (kind == 8) { UnsignedLongsEqualFailure f(g_shell, "f", 1, (unsigned long)e, (unsigned long)a, userText); msg = f.getMessage().asCharString(); de = sfmt("%lu", (unsigned long)e); da = sfmt("%lu", (unsigned long)a); }
        if (kind == 9) { LongLongsEqualFailure f(g_shell, "f", 1, (long long)e, (long long)a, userText); msg = f.getMessage().asCharString(); de = sfmt("%lld", (long long)e); da = sfmt("%lld", (long long)a); }
        if (kind == 10) { UnsignedLongLongsEqualFailure f(g_shell, "f", 1, e, a, userText); msg = f.getMessage().asCharString(); de = sfmt("%llu", (unsigned long long)e); da = sfmt("%llu", (unsigned long long)a); }
        if (kind == 11) { SignedBytesEqualFailure f(g_shell, "f", 1, (signed char)e, (signed char)a, userText); msg = f.getMessage().asCharString(); de = sfmt("%d", (int)(signed char)e); da = sfmt("%d", (int)(signed char)a); }
        size_t pe = msg.find("expected <"), pa = msg.find("but was  <");
        V_CHECK(pe != std::string::npos && pa != std::string::npos && msg.find(de + " (0x", pe) != std::string::npos && msg.find(da + " (0x", pa) != std::string::npos, "C14:Integers-operands", "message does not show %s / %s: %.200s", de.c_str(), da.c_str(), msg.c_str());
        desc += sfmt("(%s,%s)", de.c_str(), da.c_str());
        if (de.size() != da.size()) nontrivial = true;
        break; }
    case 12: { const double dl[] = {0.0, -0.0, 1.0, 1.0000001, 1.0000002, -1.5, 1e-310, 1e300, INFINITY, -INFINITY, NAN, 3.14159265358979};
        double e = r.pick(dl), a = r.pick(dl), t = r.pick(dl);
        DoublesEqualFailure f(g_shell, "f", 1, e, a, t, userText);
        std::string msg = f.getMessage().asCharString();
        V_CHECK(msg.find("expected <") != std::string::npos && msg.find("threshold used was <") != std::string::npos, "C14:Doubles-operands", "message incomplete: %.200s", msg.c_str());
        V_CHECK((msg.find("Cannot make comparisons with Nan") != std::string::npos) == (std::isnan(e) || std::isnan(a) || std::isnan(t)), "C14:Doubles-nan-note", "NaN note wrong");
        if (std::isnan(e) || std::isinf(a)) nontrivial = true;
        break; }
    case 13: { unsigned long e = r.u64(), a = r.u64(), m = r.flag() ? ~0UL : r.u64(); size_t bc = 1 + r.below(8);
        BitsEqualFailure f(g_shell, "f", 1, e, a, m, bc, userText);
        std::string msg = f.getMessage().asCharString();
        V_CHECK(msg.find("expected <") != std::string::npos && msg.find("but was  <") != std::string::npos, "C14:Bits-operands", "message incomplete");
        nontrivial = nontrivial || bc == 8;
        break; }
    case 14: { std::string c1 = gen_operand(r).substr(0, 200), c2 = gen_operand(r).substr(0, 200);
        CheckFailure f1(g_shell, "f", 1, SimpleString(c1.c_str()), SimpleString(c2.c_str()), userText);
        ComparisonFailure f2(g_shell, "f", 1, SimpleString(c1.c_str()), SimpleString(c2.c_str()), userText);
        FailFailure f3(g_shell, "f", 1, SimpleString(c1.c_str()));
        FeatureUnsupportedFailure f4(g_shell, "f", 1, SimpleString(c1.c_str()), userText);
        V_CHECK(std::string(f1.getMessage().asCharString()).find(c1 + "(" + c2 + ") failed") != std::string::npos, "C14:Check-text", "CheckFailure text wrong");
        V_CHECK(std::string(f2.getMessage().asCharString()).find(c1 + "(" + c2 + ") failed") != std::string::npos, "C14:Comparison-text", "ComparisonFailure text wrong");
        V_CHECK(std::string(f3.getMessage().asCharString()) == c1, "C14:Fail-text", "FailFailure text wrong");
        V_CHECK(std::string(f4.getMessage().asCharString()).find("\"" + c1 + "\"") != std::string::npos, "C14:Feature-text", "FeatureUnsupportedFailure text wrong");
        if (c1.size() > 90) nontrivial = true;
        break; }
    case 15: { std::string m = gen_operand(r);
        TestFailure f(g_shell, "other.cpp", 3 + r.below(20), SimpleString(m.c_str())); TestFailure g(f);
        V_CHECK(std::string(g.getMessage().asCharString()) == m && g.getFailureLineNumber() == f.getFailureLineNumber() && std::string(g.getFileName().asCharString()) == "other.cpp" && g.isOutsideTestFile(), "C14:copy", "copied failure differs");
        V_CHECK(g.isInHelperFunction() == (g.getFailureLineNumber() < 10), "C14:helper", "isInHelperFunction wrong");
        break; }
    }
    // the user text, when present, is part of every message built through createUserText
    return 0;
}

}  // namespace

extern "C" const char* verif_property(void) { return "C14"; }
extern "C" void verif_init(void) { g_shell = new UtestShell("group", "name", "file.cpp", 10); }
extern "C" int verif_case(const uint8_t* data, size_t size) {
    Reader r(data, size);
    bool nontrivial = false; std::string desc;
    int rc = run_case(r, nontrivial, desc);
    verif::note_case(nontrivial, r.h, [&] { return desc; });
    return rc;
}
extern "C" int verif_known_repro(const char*) { return -1; }
