// C05 — tracked allocations return sound blocks for every size, or fail cleanly.
//
// One interpreter, three decoder modes (first byte; 0 = simplest):
//   mode L  size lattice: 1..4 allocations straight on the detector (both node layouts) and through the entry points, sizes from
//           {0..4200, 2^k +- 0..9 for k <= 63, SIZE_MAX-127..SIZE_MAX, around the 1 MiB limit of the underlying allocator}
//   mode S  scripts through the real entry points: new, new[], nothrow new / new[], new(file, line), cpputest_malloc / calloc /
//           realloc / strdup / strndup / free_location, count x size pairs around 2^32 and 2^64, fill-and-verify of every block
//   mode F  fault sequences: the same scripts with decoder-chosen NULLs from the TestMemoryAllocator (data block or
//           bookkeeping record) and from the PlatformSpecificRealloc seam
// Everything runs inside an ON window against a private detector with recording/limiting allocators: they refuse anything
// above 1 MiB with NULL, record the size they were asked for, hand out exact-size malloc blocks (ASan sees every byte
// written outside) dirtied with 0xCD, and answer a request SMALLER than the user size with NULL at once (flagged as a
// violation before any wild write can happen).  The interpreter does not allocate.
// The same file is built twice: variant asan (guard bytes) and variant noguard (-DCPPUTEST_DISABLE_MEM_CORRUPTION_CHECK).
#include "common.h"
#include "CppUTest/TestHarness_c.h"
#include <new>
#include <setjmp.h>
#include <signal.h>
#include <stddef.h>
#include <unistd.h>
#include <fcntl.h>
#include <sys/wait.h>
#undef new      // CppUTest's headers define new as new(__FILE__, __LINE__); the operators are called by name here

using verif::Reader;

namespace {

#define K_WRAP    "C05:size-arithmetic-wraps"
#define K_CALLOC  "C05:calloc-product-overflow"
#define K_REALLOC "C05:realloc-failure-untracks-block"
#define K_STRDUP  "C05:strdup-null-deref-when-malloc-fails"
#define K_NODE    "C05:node-allocation-unchecked"

typedef unsigned __int128 u128;
const size_t LIMIT = 1u << 20;                         // the underlying allocators refuse anything above
const size_t SURE = LIMIT - 4096;                      // a user size up to here must succeed when no fault is injected
const size_t GUARD = MemoryLeakDetector::memory_corruption_buffer_size;
#ifdef CPPUTEST_DISABLE_MEM_CORRUPTION_CHECK
const bool NOGUARD = true;
#else
const bool NOGUARD = false;
#endif
const size_t PAD = NOGUARD ? 0 : sizeof(void*);        // the most an implementation adds to keep its record aligned
const size_t NODE = sizeof(MemoryLeakDetectorNode);

// ---- failure record / trace / histogram usable inside the ON window (no allocation) ---------------------------------
char g_sig[96], g_msg[1024]; bool g_bad;
void bad(const char* sig, const char* fmt, ...) __attribute__((format(printf, 2, 3)));
void bad(const char* sig, const char* fmt, ...) {
    if (g_bad) return;
    g_bad = true; snprintf(g_sig, sizeof g_sig, "%s", sig);
    va_list ap; va_start(ap, fmt); vsnprintf(g_msg, sizeof g_msg, fmt, ap); va_end(ap);
}
char g_desc[1600]; size_t g_desc_n;
void desc(const char* fmt, ...) __attribute__((format(printf, 1, 2)));
void desc(const char* fmt, ...) {
    if (verif::g_explain) { va_list ap2; va_start(ap2, fmt); vfprintf(stderr, fmt, ap2); va_end(ap2); fputc('\n', stderr); }
    if (g_desc_n >= sizeof g_desc - 3) return;
    va_list ap; va_start(ap, fmt); int k = vsnprintf(g_desc + g_desc_n, sizeof g_desc - g_desc_n - 2, fmt, ap); va_end(ap);
    if (k > 0) g_desc_n += (size_t)k; if (g_desc_n > sizeof g_desc - 3) g_desc_n = sizeof g_desc - 3;
    g_desc[g_desc_n++] = ';'; g_desc[g_desc_n++] = ' '; g_desc[g_desc_n] = 0;
}
enum { H_MALLOC, H_CALLOC, H_REALLOC, H_STRDUP, H_STRNDUP, H_NEW, H_NEWARR, H_NEW_NT, H_NEWARR_NT, H_NEW_DBG, H_NEWARR_DBG,
       H_DET_SEP, H_DET_INLINE, H_DET_REALLOC, H_FREE,
       H_SZ_SMALL, H_SZ_PAGE, H_SZ_LIMIT, H_SZ_MID, H_SZ_2G, H_SZ_TOP, H_PRODUCT_OVERFLOW, H_PRODUCT_4G,
       H_FAULT_DATA, H_FAULT_NODE, H_FAULT_REALLOC, H_FAULT_WHILE_LIVE,
       H_OK, H_CLEAN_FAIL, H_REFUSED, H_PLAIN_ENTRY, H_INT_LINE, H_DEL_SIZED, H_DEL_NOTHROW, H_DEL_PLACEMENT, H_DET_NOLOC, H_REALLOC_FOREIGN, H_NCLS };
const char* const h_name[H_NCLS] = { "cpputest_malloc", "cpputest_calloc", "cpputest_realloc", "cpputest_strdup", "cpputest_strndup", "new", "new[]",
       "nothrow-new", "nothrow-new[]", "new(file,line)", "new[](file,line)", "detector-alloc-separate-record", "detector-alloc-inline-record", "detector-realloc", "free",
       "size:0..4200", "size:page-multiples+-", "size:around-1MiB-limit", "size:1MiB..2^31", "size:>=2^31", "size:top-128", "product-overflows", "product-around-2^32",
       "fault:data-block", "fault:bookkeeping-record", "fault:platform-realloc", "fault-while-blocks-live",
       "outcome:block", "outcome:clean-failure", "underlying-allocator-refused(>1MiB)",
       "plain-entry-point(cpputest_malloc/calloc/realloc/strdup/strndup/free without file,line)", "new(file,int line)", "sized-delete", "nothrow-delete", "delete(p,file,line)",
       "detector-api-without-file,line", "realloc-of-foreign-pointer" };
unsigned g_h[H_NCLS];

// listed findings: flags read once (verif::known() allocates); exclusions counted in fixed counters, booked after the case
enum { X_WRAP, X_CALLOC, X_REALLOC, X_STRDUP, X_NODE, X_N };
const char* const x_key[X_N] = { K_WRAP, K_CALLOC, K_REALLOC, K_STRDUP, K_NODE };
bool g_listed[X_N]; unsigned g_x[X_N];
bool excluded(int x) { if (g_listed[x]) { g_x[x]++; return true; } return false; }

// ---- SEGV guard (only around calls with an armed fault that the code is known to mishandle) --------------------------
sigjmp_buf g_segv_jmp;
void segv_handler(int) { siglongjmp(g_segv_jmp, 1); }
template <class F> bool died_on_segv(F f) {
    struct sigaction sa, old_segv, old_bus;
    memset(&sa, 0, sizeof sa); sa.sa_handler = segv_handler; sigemptyset(&sa.sa_mask); sa.sa_flags = SA_NODEFER;
    sigaction(SIGSEGV, &sa, &old_segv); sigaction(SIGBUS, &sa, &old_bus);
    volatile bool crashed = false;
    if (sigsetjmp(g_segv_jmp, 1) == 0) f(); else crashed = true;
    sigaction(SIGSEGV, &old_segv, nullptr); sigaction(SIGBUS, &old_bus, nullptr);
    return crashed;
}

// ---- probe in a child: does the call survive?  (UBSan aborts on a member call through a NULL record before any signal could be
// caught, so the "bookkeeping record allocation fails" fault is tried in a forked copy first.)  The answer is cached per process
// and per call site: 0 unknown, 1 dies, 2 survives -- once it is known to survive, the fault runs in-process at full speed.
bool g_threadsafe;                // the current ON window uses turnOnThreadSafeNewDeleteOverloads()
int g_nothrow_probe[2][2];        // [thread-safe][new / new[]]: does a nothrow new whose request cannot be satisfied come back at all?
int g_record_fault_probe[2];      // [0] allocMemory, [1] reallocMemory
template <class F> bool child_dies(F f) {
    fflush(stderr);
    pid_t pid = fork();
    if (pid < 0) return false;
    if (pid == 0) { int fd = open("/dev/null", O_WRONLY); if (fd >= 0) dup2(fd, 2); alarm(20); f(); _exit(0); }
    int st = 0; while (waitpid(pid, &st, 0) < 0) {}
    return !(WIFEXITED(st) && WEXITSTATUS(st) == 0);
}

// ---- what the underlying allocators handed out ---------------------------------------------------------------------
struct Blk { char* base; size_t req; bool node; bool live; };
const int MAXBLK = 400;
Blk g_blk[MAXBLK]; int g_nblk;
Blk* blk_find(const void* base) { for (int i = 0; i < g_nblk; i++) if (g_blk[i].live && g_blk[i].base == base) return &g_blk[i]; return nullptr; }
Blk* blk_host(const char* p, size_t size) {          // the live block that contains [p, p+size)
    for (int i = 0; i < g_nblk; i++) { Blk& b = g_blk[i]; if (b.live && p >= b.base && (size_t)(p - b.base) <= b.req && size <= b.req - (size_t)(p - b.base)) return &b; }
    return nullptr;
}
Blk* blk_add(char* base, size_t req, bool node) {
    Blk* s = nullptr;
    for (int i = 0; i < g_nblk && !s; i++) if (!g_blk[i].live) s = &g_blk[i];
    if (!s) { if (g_nblk >= MAXBLK) return nullptr; s = &g_blk[g_nblk++]; }
    *s = Blk{base, req, node, true}; return s;
}
int blk_live(bool node) { int n = 0; for (int i = 0; i < g_nblk; i++) if (g_blk[i].live && g_blk[i].node == node) n++; return n; }

struct Seam {       // per-call communication between interpreter and allocators
    // armed by the interpreter
    bool fail_data, fail_node, fail_realloc;
    bool expect; size_t user; bool inline_record;        // the user size of the request in flight (expect == false: not judged)
    // reported back
    bool hit_data, hit_node, hit_realloc, refused, short_request; size_t last_req; int data_calls, node_calls, realloc_calls;
    bool bad_free; char bad_free_msg[160];
    char* freed_base; size_t freed_size; int data_frees;
    void begin(bool exp, size_t u, bool inl) { hit_data = hit_node = hit_realloc = refused = short_request = false; data_calls = node_calls = realloc_calls = 0; expect = exp; user = u; inline_record = inl; freed_base = nullptr; freed_size = 0; data_frees = 0; }
    void disarm() { fail_data = fail_node = fail_realloc = false; expect = false; }
} g_seam;

u128 needed(size_t user, bool inline_record) { return (u128)user + GUARD + (inline_record ? NODE : 0); }
// a request smaller than user size + guard bytes (+ inline record) cannot hold the block: answer NULL before anything is written
bool too_short(size_t req) {
    if (!g_seam.expect) return false;
    if ((u128)req >= needed(g_seam.user, g_seam.inline_record)) return false;
    g_seam.short_request = true; g_seam.last_req = req; return true;
}
char* hand_out(size_t size, bool node) {
    char* p = (char*)malloc(size);
    if (!p) { g_seam.refused = true; return nullptr; }
    memset(p, 0xCD, size);
    if (!blk_add(p, size, node)) { free(p); g_seam.refused = true; return nullptr; }
    return p;
}

struct RecAlloc : TestMemoryAllocator {
    RecAlloc(const char* n, const char* a, const char* f) : TestMemoryAllocator(n, a, f) {}
    char* alloc_memory(size_t size, const char* file, size_t) CPPUTEST_OVERRIDE {
        if (file && strcmp(file, "MemoryLeakNode") == 0) {
            g_seam.node_calls++;
            if (g_seam.fail_node) { g_seam.fail_node = false; g_seam.hit_node = true; return NULLPTR; }
            return hand_out(size, true);
        }
        g_seam.data_calls++; g_seam.last_req = size;
        if (too_short(size)) return NULLPTR;
        if (g_seam.fail_data) { g_seam.fail_data = false; g_seam.hit_data = true; return NULLPTR; }
        if (size > LIMIT) { g_seam.refused = true; return NULLPTR; }
        return hand_out(size, false);
    }
    void free_memory(char* memory, size_t size, const char*, size_t) CPPUTEST_OVERRIDE {
        if (memory == NULLPTR) return;
        Blk* b = blk_find(memory);
        if (!b) { if (!g_seam.bad_free) { g_seam.bad_free = true; snprintf(g_seam.bad_free_msg, sizeof g_seam.bad_free_msg, "free_memory(%p, %zu): not an outstanding block of the underlying allocator (double or foreign release)", (void*)memory, size); } return; }
        if (!b->node) { g_seam.freed_base = memory; g_seam.freed_size = size; g_seam.data_frees++; }
        b->live = false; free(memory);
    }
};
void* seam_realloc(void* memory, size_t size) {
    g_seam.realloc_calls++; g_seam.last_req = size;
    Blk* b = memory ? blk_find(memory) : nullptr;
    if (memory && !b) { if (!g_seam.bad_free) { g_seam.bad_free = true; snprintf(g_seam.bad_free_msg, sizeof g_seam.bad_free_msg, "PlatformSpecificRealloc(%p, %zu): not an outstanding block", memory, size); } return nullptr; }
    if (too_short(size)) return nullptr;
    if (g_seam.fail_realloc) { g_seam.fail_realloc = false; g_seam.hit_realloc = true; return nullptr; }
    if (size > LIMIT) { g_seam.refused = true; return nullptr; }
    char* q = hand_out(size, false);
    if (!q) return nullptr;
    if (b) { memcpy(q, b->base, b->req < size ? b->req : size); b->live = false; free(b->base); }
    return q;
}

struct Reporter : MemoryLeakFailure {
    int calls = 0; char first[400];
    void fail(char* s) CPPUTEST_OVERRIDE { if (calls++ == 0) snprintf(first, sizeof first, "%s", s ? s : "(null)"); }
};
Reporter* g_reporter; MemoryLeakDetector* g_detector;
RecAlloc *g_am, *g_an, *g_aa;        // malloc / new / new[] families

// ---- decoded script ------------------------------------------------------------------------------------------------
enum Kind { O_MALLOC, O_CALLOC, O_REALLOC, O_STRDUP, O_STRNDUP, O_NEW, O_NEWARR, O_NEW_NT, O_NEWARR_NT, O_NEW_DBG, O_NEWARR_DBG, O_DET_ALLOC, O_DET_REALLOC, O_FREE, O_REALLOC_FOREIGN };
struct Op { uint8_t kind; size_t size; size_t num; size_t n; uint8_t slot; uint8_t form; bool sep; bool f_data, f_node, f_realloc; uint16_t str_off, str_len; };
const int MAXOPS = 28;
char g_text[1024];                                  // strdup sources: g_text + off, NUL at off + len put in place for the call

size_t gen_size(Reader& r) {
    switch (r.below(10)) {
    default:
    case 0: return r.below(65);
    case 1: return r.below(4201);
    case 2: { uint32_t k = r.below(64), d = r.below(10); size_t v = (size_t)1 << k; return r.flag() ? v + d : v - (d < v ? d : v); }
    case 3: return SIZE_MAX - r.below(128);
    case 4: { uint32_t d = r.below(8300); return r.flag() ? LIMIT - d : LIMIT + d; }
    case 5: { static const size_t c[] = { (size_t)1 << 31, ((size_t)1 << 31) - 1, (size_t)1 << 32, ((size_t)1 << 32) + 1, (size_t)1 << 63, SIZE_MAX / 2, SIZE_MAX - 2, SIZE_MAX }; return r.pick(c); }
    case 6: return r.below(301);
    case 7: { uint32_t k = 1 + r.below(40), d = r.below(9); return (size_t)4096 * k + d - 4; }
    case 8: return r.below(33);
    case 9: return SIZE_MAX - r.below(24);
    }
}
void gen_product(Reader& r, size_t& num, size_t& size) {
    switch (r.below(6)) {
    default:
    case 0: num = r.below(40); size = r.below(40); break;
    case 1: num = ((size_t)1 << 16) + r.below(5) - 2; size = ((size_t)1 << 16) + r.below(5) - 2; break;          // around 2^32
    case 2: { size = 1 + r.below(24); u128 q = (((u128)1) << 64) / size; num = (size_t)(q + r.below(3)); if (r.flag()) num = (size_t)(q - r.below(3)); break; }   // around 2^64
    case 3: num = ((size_t)1 << 32) + r.below(3); size = ((size_t)1 << 32) + r.below(3); break;
    case 4: num = r.flag() ? 0 : SIZE_MAX - r.below(3); size = r.flag() ? 0 : SIZE_MAX - r.below(3); break;
    case 5: num = 1 + r.below(300); size = 1 + r.below(300); break;
    }
    if (r.below(4) == 0) { size_t t = num; num = size; size = t; }
}

// ---- live user blocks ------------------------------------------------------------------------------------------------
struct UB { char* p; size_t size; uint8_t fam; bool sep; uint8_t pat; };    // fam: 0 malloc family, 1 new, 2 new[], 3 detector API (malloc allocator)
const int MAXUB = 40;
struct Interp {
    UB ub[MAXUB]; int nub = 0; uint8_t next_pat = 0x11; bool nontrivial = false;

    bool content_ok(const UB& u, size_t upto) const {
        if (upto == 0) return true;
        return (unsigned char)u.p[0] == u.pat && (upto == 1 || memcmp(u.p, u.p + 1, upto - 1) == 0);
    }
    // every live block still readable, unmodified and tracked
    void survey(const char* when, bool full) {
        for (int i = 0; i < nub && !g_bad; i++) {
            const UB& u = ub[i];
            Blk* h = blk_host(u.p, u.size);
            if (!h) { bad("C05:live-block-lost-its-memory", "%s: the underlying memory of live block #%d (%zu bytes) was released or moved", when, i, u.size); return; }
            size_t n = full || u.size <= 128 ? u.size : 64;
            if (!content_ok(u, n) || (!full && u.size > 128 && (memcmp(u.p + u.size - 64, u.p, 64) != 0))) { bad("C05:live-block-modified", "%s: the contents of live block #%d (%zu bytes) changed", when, i, u.size); return; }
        }
        if (g_bad) return;
        size_t tracked = g_detector->totalMemoryLeaks(mem_leak_period_all);
        if (tracked != (size_t)nub) bad("C05:tracking-count-wrong", "%s: %d blocks are live but the detector tracks %zu", when, nub, tracked);
        if (!g_bad && g_reporter->calls) bad("C05:detector-reported-failure", "%s: the detector reported a failure: %.300s", when, g_reporter->first);
        if (!g_bad && g_seam.bad_free) bad("C05:underlying-release-wrong", "%s: %s", when, g_seam.bad_free_msg);
    }
    void size_class(size_t s) {
        if (s <= 4200) g_h[H_SZ_SMALL]++; else if (s >= SIZE_MAX - 127) g_h[H_SZ_TOP]++; else if (s >= ((size_t)1 << 31)) g_h[H_SZ_2G]++;
        else if (s + 8300 >= LIMIT && s <= LIMIT + 8300) g_h[H_SZ_LIMIT]++; else if (s < LIMIT) g_h[H_SZ_PAGE]++; else g_h[H_SZ_MID]++;
        if (s >= ((size_t)1 << 31)) nontrivial = true;
    }
    RecAlloc* allocator_of(int fam) const { return fam == 1 ? g_an : fam == 2 ? g_aa : g_am; }

    // a block came back: sound?
    void accept(char* p, size_t size, int fam, bool sep, const char* what, bool zeroed, const char* copy_of) {
        if (((uintptr_t)p % alignof(max_align_t)) != 0) { bad("C05:block-misaligned", "%s(%zu) returned %p, not aligned to %zu", what, size, (void*)p, alignof(max_align_t)); return; }
        Blk* h = blk_host(p, size);
        if (!h) { bad("C05:block-outside-underlying-memory", "%s(%zu) returned %p: the %zu bytes are not inside any block handed out by the underlying allocator (last request: %zu bytes)", what, size, (void*)p, size, g_seam.last_req); return; }
        if (h->node) { bad("C05:block-overlaps-bookkeeping", "%s(%zu) returned memory inside a bookkeeping record", what, size); return; }
        if ((u128)h->req < needed(size, !sep)) { bad("C05:underlying-block-too-small", "%s(%zu): underlying block has %zu bytes, too small for the user bytes plus guard/record", what, size, h->req); return; }
        for (int i = 0; i < nub; i++) if (blk_host(ub[i].p, ub[i].size) == h) { bad("C05:blocks-overlap", "%s(%zu) shares its underlying block with live block #%d", what, size, i); return; }
        if (zeroed) for (size_t i = 0; i < size; i++) if (p[i]) { bad("C05:calloc-not-zeroed", "%s: byte %zu of %zu is 0x%02x", what, i, size, (unsigned char)p[i]); return; }
        if (copy_of && (memcmp(p, copy_of, size - 1) != 0 || p[size - 1] != 0)) { bad("C05:strdup-wrong-copy", "%s: the copy differs from the first %zu bytes of the source", what, size - 1); return; }
        if (nub >= MAXUB) { release_raw(p, fam, sep); return; }
        UB u{p, size, (uint8_t)fam, sep, next_pat}; next_pat = (uint8_t)(next_pat == 0xfe ? 0x11 : next_pat + 1); if (next_pat == 0xCD) next_pat++;
        memset(p, u.pat, size);                                  // every usable byte is written (ASan: exact-size underlying blocks)
        ub[nub++] = u; g_h[H_OK]++;
    }
    // form selects among the equivalent release functions of the block's family (0 = the one used since the first version)
    void release_raw(char* p, int fam, bool sep, size_t size = 0, unsigned form = 0) {
        if (fam == 0) { if (form & 1) { g_h[H_PLAIN_ENTRY]++; cpputest_free(p); } else cpputest_free_location(p, "free.c", 9); }
        else if (fam == 1) switch (form % 5) {
            default: ::operator delete(p); break;
            case 1: g_h[H_DEL_SIZED]++; ::operator delete(p, size); break;
            case 2: g_h[H_DEL_NOTHROW]++; ::operator delete(p, std::nothrow); break;
            case 3: g_h[H_DEL_PLACEMENT]++; ::operator delete(p, "free.c", (int)9); break;
            case 4: g_h[H_DEL_PLACEMENT]++; ::operator delete(p, "free.c", (size_t)9); break; }
        else if (fam == 2) switch (form % 5) {
            default: ::operator delete[](p); break;
            case 1: g_h[H_DEL_SIZED]++; ::operator delete[](p, size); break;
            case 2: g_h[H_DEL_NOTHROW]++; ::operator delete[](p, std::nothrow); break;
            case 3: g_h[H_DEL_PLACEMENT]++; ::operator delete[](p, "free.c", (int)9); break;
            case 4: g_h[H_DEL_PLACEMENT]++; ::operator delete[](p, "free.c", (size_t)9); break; }
        else if (form & 1) { g_h[H_DET_NOLOC]++; g_detector->deallocMemory(g_am, p, sep); }
        else g_detector->deallocMemory(g_am, p, "free.c", 9, sep);
    }
    void release(int i, const char* when, unsigned form = 0) {
        UB u = ub[i];
        if (!content_ok(u, u.size)) { bad("C05:live-block-modified", "%s: the contents of block #%d (%zu bytes) changed before its release", when, i, u.size); return; }
        Blk* h = blk_host(u.p, u.size);
        g_seam.begin(false, 0, false);
        release_raw(u.p, u.fam, u.sep, u.size, form);
        ub[i] = ub[--nub]; g_h[H_FREE]++;
        if (g_reporter->calls) { bad("C05:detector-reported-failure", "%s of a live block (%zu bytes): %.300s", when, u.size, g_reporter->first); return; }
        if (g_seam.data_frees != 1 || !h || g_seam.freed_base != h->base) { bad("C05:underlying-release-wrong", "%s of a %zu-byte block released %d underlying data blocks (expected exactly its own)", when, u.size, g_seam.data_frees); return; }
        if (g_seam.freed_size != u.size) { bad("C05:release-size-wrong", "%s: the underlying allocator was told the block had %zu bytes, it had %zu", when, g_seam.freed_size, u.size); return; }
    }

    // one allocating operation
    void allocate(const Op& o, const char* file, size_t line) {
        int fam = 0; bool sep = true; bool throwing = false; const char* what = "?"; int h = 0;
        switch (o.kind) {
        case O_MALLOC: what = "cpputest_malloc"; h = H_MALLOC; break;
        case O_CALLOC: what = "cpputest_calloc"; h = H_CALLOC; break;
        case O_STRDUP: what = "cpputest_strdup"; h = H_STRDUP; break;
        case O_STRNDUP: what = "cpputest_strndup"; h = H_STRNDUP; break;
        case O_NEW: what = "operator new"; h = H_NEW; fam = 1; sep = NOGUARD; throwing = true; break;
        case O_NEW_DBG: what = "operator new(file,line)"; h = H_NEW_DBG; fam = 1; sep = NOGUARD; throwing = true; break;
        case O_NEW_NT: what = "operator new(nothrow)"; h = H_NEW_NT; fam = 1; sep = NOGUARD; break;
        case O_NEWARR: what = "operator new[]"; h = H_NEWARR; fam = 2; sep = NOGUARD; throwing = true; break;
        case O_NEWARR_DBG: what = "operator new[](file,line)"; h = H_NEWARR_DBG; fam = 2; sep = NOGUARD; throwing = true; break;
        case O_NEWARR_NT: what = "operator new[](nothrow)"; h = H_NEWARR_NT; fam = 2; sep = NOGUARD; break;
        case O_DET_ALLOC: what = o.sep || NOGUARD ? "detector.allocMemory(separate record)" : "detector.allocMemory(inline record)"; h = o.sep || NOGUARD ? H_DET_SEP : H_DET_INLINE; fam = 3; sep = o.sep || NOGUARD; break;
        }
        // the user size of the request
        size_t size = o.size; bool overflow = false; const char* src = nullptr;
        if (o.kind == O_CALLOC) { u128 prod = (u128)o.num * o.size; overflow = prod > SIZE_MAX; size = (size_t)prod;
                                  if (!overflow && prod >= ((u128)1 << 31) && prod <= ((u128)1 << 33)) g_h[H_PRODUCT_4G]++; }
        if (o.kind == O_STRDUP || o.kind == O_STRNDUP) { src = g_text + o.str_off; size_t len = o.str_len; if (o.kind == O_STRNDUP && o.n < len) len = o.n; size = len + 1; }
        bool unrepresentable = !overflow && needed(size, !sep) + PAD > SIZE_MAX;
        // listed findings: exactly these operations are left out
        if (overflow && excluded(X_CALLOC)) { desc("(listed finding) %s(%zu x %zu) skipped", what, o.num, o.size); return; }
        if (unrepresentable && excluded(X_WRAP)) { desc("(listed finding) %s(%zu) skipped", what, size); return; }
        bool f_data = o.f_data, f_node = o.f_node && sep;
        if (f_node && excluded(X_NODE)) f_node = false;
        if ((f_data || f_node) && src && excluded(X_STRDUP)) f_data = f_node = false;      // any fault that makes its malloc answer NULL
        if (!overflow) size_class(size); else { g_h[H_PRODUCT_OVERFLOW]++; nontrivial = true; }
        g_h[h]++;
        bool alt = (o.form & 1) != 0;       // the equivalent second form of the entry point: without file/line, or with an int line
        if (alt && (o.kind == O_MALLOC || o.kind == O_CALLOC || o.kind == O_STRDUP || o.kind == O_STRNDUP)) g_h[H_PLAIN_ENTRY]++;
        if (alt && (o.kind == O_NEW_DBG || o.kind == O_NEWARR_DBG)) g_h[H_INT_LINE]++;
        if (alt && o.kind == O_DET_ALLOC) g_h[H_DET_NOLOC]++;
        if (f_data) g_h[H_FAULT_DATA]++; if (f_node) g_h[H_FAULT_NODE]++;
        if ((f_data || f_node) && nub > 0) { g_h[H_FAULT_WHILE_LIVE]++; nontrivial = true; }
        g_seam.begin(!overflow, size, !sep); g_seam.fail_data = f_data; g_seam.fail_node = f_node;
        char* p = nullptr; bool threw = false, crashed = false;
        char saved = 0; if (src) { saved = g_text[o.str_off + o.str_len]; g_text[o.str_off + o.str_len] = 0; }
        auto call = [&] {
            switch (o.kind) {
            case O_MALLOC: p = (char*)(alt ? cpputest_malloc(size) : cpputest_malloc_location(size, file, line)); break;
            case O_CALLOC: p = (char*)(alt ? cpputest_calloc(o.num, o.size) : cpputest_calloc_location(o.num, o.size, file, line)); break;
            case O_STRDUP: p = alt ? cpputest_strdup(src) : cpputest_strdup_location(src, file, line); break;
            case O_STRNDUP: p = alt ? cpputest_strndup(src, o.n) : cpputest_strndup_location(src, o.n, file, line); break;
            case O_NEW: try { p = (char*)::operator new(size); } catch (const std::bad_alloc&) { threw = true; } break;
            case O_NEW_DBG: try { p = (char*)(alt ? ::operator new(size, file, (int)line) : ::operator new(size, file, line)); } catch (const std::bad_alloc&) { threw = true; } break;
            case O_NEW_NT: try { p = (char*)::operator new(size, std::nothrow); } catch (...) { threw = true; } break;
            case O_NEWARR: try { p = (char*)::operator new[](size); } catch (const std::bad_alloc&) { threw = true; } break;
            case O_NEWARR_DBG: try { p = (char*)(alt ? ::operator new[](size, file, (int)line) : ::operator new[](size, file, line)); } catch (const std::bad_alloc&) { threw = true; } break;
            case O_NEWARR_NT: try { p = (char*)::operator new[](size, std::nothrow); } catch (...) { threw = true; } break;
            case O_DET_ALLOC: p = alt ? g_detector->allocMemory(g_am, size, sep) : g_detector->allocMemory(g_am, size, file, line, sep); break;
            }
        };
        if (f_node) {
            int& probe = g_record_fault_probe[0];     // the allocation path itself, probed with a plain cpputest_malloc
            if (probe == 0) probe = child_dies([&] { g_seam.fail_node = true; g_seam.expect = false; (void)cpputest_malloc_location(8, file, line); }) ? 1 : 2;
            if (probe == 1) { g_seam.disarm(); if (src) g_text[o.str_off + o.str_len] = saved;
                desc("%s(%zu) +fault(record) -> dies", what, size);
                bad(K_NODE, "%s(%zu): the allocator returned NULL for the bookkeeping record and the detector used the NULL record (the call dies; probed in a forked copy)", what, size); return; }
        }
        if ((o.kind == O_NEW_NT || o.kind == O_NEWARR_NT) && (f_data || size > SURE)) {
            // a nothrow new that cannot be satisfied: an exception leaving the noexcept operator is std::terminate, which no handler can
            // turn back into a result - so the first such call of each flavour is tried in a forked copy (cached per process)
            int& probe = g_nothrow_probe[g_threadsafe][o.kind == O_NEWARR_NT];
            if (probe == 0) probe = child_dies(call) ? 1 : 2;
            if (probe == 1) { g_seam.disarm();
                desc("%s(%zu)%s -> the process dies", what, size, f_data ? " +fault(data)" : "");
                bad("C05:nothrow-new-dies-instead-of-returning-null", "%s(%zu) with the %s overloads: the request cannot be satisfied (%s) and the call does not return NULL - the process dies (std::terminate / abort; probed in a forked copy)",
                    what, size, g_threadsafe ? "thread-safe" : "default", f_data ? "the allocator answers NULL" : "more than the underlying allocator hands out"); return; }
        }
        if ((f_data || f_node) && src) crashed = died_on_segv(call); else call();
        bool hit_data = g_seam.hit_data, hit_node = g_seam.hit_node, refused = g_seam.refused, shortreq = g_seam.short_request; size_t req = g_seam.last_req;
        g_seam.disarm();
        if (overflow) desc("%s(%zu x %zu) -> %s", what, o.num, o.size, crashed ? "SEGV" : threw ? "bad_alloc" : p ? "block" : "NULL");
        else desc("%s(%zu)%s%s -> %s [underlying request %zu%s]", what, size, f_data ? " +fault(data)" : "", f_node ? " +fault(record)" : "", crashed ? "SEGV" : threw ? "bad_alloc" : p ? "block" : "NULL", req, refused ? ", refused" : "");
        if (refused) g_h[H_REFUSED]++;
        if (shortreq) {
            if (needed(size, !sep) + PAD > SIZE_MAX) bad(K_WRAP, "%s(%zu): the size arithmetic wrapped: the underlying allocator was asked for %zu bytes (request answered with NULL by the harness before any write)", what, size, req);
            else bad("C05:underlying-request-too-small", "%s(%zu): the underlying allocator was asked for only %zu bytes; %zu user bytes + %zu guard bytes%s do not fit", what, size, req, size, GUARD, sep ? "" : " + the inline record");
            if (src) g_text[o.str_off + o.str_len] = saved;
            return;
        }
        if (src) g_text[o.str_off + o.str_len] = saved;
        if (crashed) {
            if ((hit_data || hit_node) && src) bad(K_STRDUP, "%s: its malloc returned NULL and the copy was written through the NULL block", what);
            else if (hit_node) bad(K_NODE, "%s(%zu): the bookkeeping record could not be allocated (allocator returned NULL) and the detector wrote through the NULL record", what, size);
            else bad("C05:crash-in-allocation", "%s(%zu) died on a memory access", what, size);
            return;
        }
        bool failed = threw || p == nullptr;
        bool underlying_failed = hit_data || hit_node || refused;
        if (throwing && !threw && p == nullptr) { bad("C05:throwing-new-returned-null", "%s(%zu) returned NULL instead of throwing bad_alloc", what, size); return; }
        if (!throwing && threw) { bad("C05:nothrow-threw", "%s(%zu) threw", what, size); return; }
        if (overflow && !failed) { bad(K_CALLOC, "cpputest_calloc(%zu, %zu): the product overflows size_t, yet a block was returned (the underlying allocator was asked for %zu bytes)", o.num, o.size, req); return; }
        if (underlying_failed && !failed) { bad("C05:block-returned-although-underlying-failed", "%s(%zu) returned a block although the underlying allocator answered NULL", what, size); return; }
        if (!overflow && !underlying_failed && size <= SURE && failed) { bad("C05:spurious-failure", "%s(%zu) failed although nothing was refused (underlying request %zu)", what, size, req); return; }
        if (!overflow && size > LIMIT && !failed) { bad("C05:block-larger-than-underlying-limit", "%s(%zu) returned a block although the underlying allocator hands out at most %zu bytes", what, size, LIMIT); return; }
        if (failed) { g_h[H_CLEAN_FAIL]++;
            if (hit_node && blk_live(false) != nub) { bad("C05:data-block-leaked-on-record-failure", "%s(%zu): the record allocation failed and the data block already obtained was not returned to the allocator", what, size); return; }
            return; }
        accept(p, size, fam, sep, what, o.kind == O_CALLOC, src);
    }

    void reallocate(const Op& o, const char* file, size_t line) {
        bool det = o.kind == O_DET_REALLOC;
        int want = det ? 3 : 0, idx = -1;
        if (o.slot % 5 != 4) for (int k = 0; k < nub && idx < 0; k++) { int i = (o.slot + k) % nub; if (ub[i].fam == want) idx = i; }
        bool sep = det ? (idx >= 0 ? ub[idx].sep : (o.sep || NOGUARD)) : true;
        size_t size = o.size; const char* what = det ? "detector.reallocMemory" : "cpputest_realloc";
        bool unrepresentable = needed(size, !sep) + PAD > SIZE_MAX;
        if (unrepresentable && excluded(X_WRAP)) { desc("(listed finding) %s(%zu) skipped", what, size); return; }
        bool f_re = o.f_realloc, f_node = o.f_node && sep;
        if (f_node && excluded(X_NODE)) f_node = false;
        // listed finding: a platform realloc that answers NULL (fault, or more than the limit) leaves the old block untracked
        if (idx >= 0 && (f_re || f_node || size > SURE) && excluded(X_REALLOC)) { if (size > SURE) { desc("(listed finding) %s(block, %zu) skipped", what, size); return; } f_re = f_node = false; }
        size_class(size); g_h[det ? H_DET_REALLOC : H_REALLOC]++;
        if (f_re) g_h[H_FAULT_REALLOC]++; if (f_node) g_h[H_FAULT_NODE]++;
        if ((f_re || f_node) && nub > 0) { g_h[H_FAULT_WHILE_LIVE]++; nontrivial = true; }
        UB old{}; if (idx >= 0) { old = ub[idx]; if (!content_ok(old, old.size)) { bad("C05:live-block-modified", "block #%d changed before realloc", idx); return; } }
        g_seam.begin(true, size, !sep); g_seam.fail_realloc = f_re; g_seam.fail_node = f_node;
        char* q = nullptr; bool crashed = false;
        auto call = [&] { q = det ? g_detector->reallocMemory(g_am, idx >= 0 ? old.p : nullptr, size, file, line, sep) : (o.form & 1) ? (char*)cpputest_realloc(idx >= 0 ? old.p : nullptr, size) : (char*)cpputest_realloc_location(idx >= 0 ? old.p : nullptr, size, file, line); };
        if (!det && (o.form & 1)) g_h[H_PLAIN_ENTRY]++;
        if (f_node) {
            int& probe = g_record_fault_probe[1];
            if (probe == 0) probe = child_dies(call) ? 1 : 2;
            if (probe == 1) { g_seam.disarm();
                desc("%s(%zu) +fault(record) -> dies", what, size);
                bad(K_NODE, "%s(%zu): the allocator returned NULL for the new bookkeeping record and the detector used the NULL record (the call dies; probed in a forked copy)", what, size); return; }
        }
        call();
        bool hit_re = g_seam.hit_realloc, hit_node = g_seam.hit_node, refused = g_seam.refused, shortreq = g_seam.short_request; size_t req = g_seam.last_req;
        g_seam.disarm();
        desc("%s(%s, %zu)%s%s -> %s [underlying request %zu%s]", what, idx >= 0 ? "block" : "NULL", size, f_re ? " +fault(realloc)" : "", f_node ? " +fault(record)" : "", crashed ? "SEGV" : q ? "block" : "NULL", req, refused ? ", refused" : "");
        if (refused) g_h[H_REFUSED]++;
        if (shortreq) {
            if (unrepresentable) bad(K_WRAP, "%s(%zu): the size arithmetic wrapped: the platform realloc was asked for %zu bytes (answered with NULL by the harness before any write)", what, size, req);
            else bad("C05:underlying-request-too-small", "%s(%zu): the platform realloc was asked for only %zu bytes", what, size, req);
            return;
        }
        if (crashed) { if (hit_node) bad(K_NODE, "%s(%zu): the bookkeeping record could not be allocated and the detector wrote through the NULL record", what, size); else bad("C05:crash-in-allocation", "%s(%zu) died on a memory access", what, size); return; }
        if (g_reporter->calls) { bad("C05:detector-reported-failure", "%s: %.300s", what, g_reporter->first); return; }
        bool underlying_failed = hit_re || hit_node || refused;
        if (underlying_failed && q) { bad("C05:block-returned-although-underlying-failed", "%s(%zu) returned a block although the underlying realloc/allocator answered NULL", what, size); return; }
        if (!underlying_failed && size <= SURE && !q) { bad("C05:spurious-failure", "%s(%zu) failed although nothing was refused", what, size); return; }
        if (size > LIMIT && q) { bad("C05:block-larger-than-underlying-limit", "%s(%zu) returned a block", what, size); return; }
        if (!q) {
            g_h[H_CLEAN_FAIL]++;
            if (idx >= 0) {   // the old block must still be there, unmodified and tracked
                if (!blk_host(old.p, old.size) || !content_ok(old, old.size)) { bad("C05:failed-realloc-damaged-old-block", "%s(%zu) failed and the old block (%zu bytes) is no longer intact", what, size, old.size); return; }
                size_t tracked = g_detector->totalMemoryLeaks(mem_leak_period_all);
                if (tracked != (size_t)nub) { bad(K_REALLOC, "%s(block of %zu bytes, %zu) returned NULL because the platform realloc did; the old block is still valid but no longer tracked (%zu tracked, %d live)", what, old.size, size, tracked, nub); return; }
            }
            return;
        }
        // success: the first min(old, new) bytes are preserved
        if (idx >= 0) {
            size_t keep = old.size < size ? old.size : size; UB moved = old; moved.p = q;
            if (!content_ok(moved, keep)) { bad("C05:realloc-lost-content", "%s(%zu -> %zu): the first %zu bytes were not preserved", what, old.size, size, keep); return; }
            ub[idx] = ub[--nub];
        }
        accept(q, size, want, sep, what, false, nullptr);
    }

    // realloc of a pointer the detector never handed out: one report, NULL, the platform realloc is not asked to touch the foreign
    // memory, and (checked by the survey that follows every operation) every existing block stays valid and tracked
    void realloc_foreign(const Op& o, const char* file, size_t line) {
        static char foreign[64];
        g_h[H_REALLOC_FOREIGN]++;
        g_seam.begin(false, 0, false);
        char* q = (o.form & 1) ? (char*)cpputest_realloc(foreign + 16, 1 + o.slot) : (char*)cpputest_realloc_location(foreign + 16, 1 + o.slot, file, line);
        int reports = g_reporter->calls; g_reporter->calls = 0;
        desc("cpputest_realloc(foreign pointer, %d) -> %s, %d report(s)", 1 + o.slot, q ? "block" : "NULL", reports);
        if (q) { bad("C05:realloc-of-foreign-pointer-returned-block", "cpputest_realloc of a pointer that is not a tracked block returned %p", (void*)q); return; }
        if (g_seam.realloc_calls) { bad("C05:foreign-pointer-passed-to-platform-realloc", "cpputest_realloc of a pointer that is not a tracked block handed it to the platform realloc"); return; }
        if (reports != 1) bad("C05:realloc-of-foreign-pointer-not-reported-once", "cpputest_realloc of a pointer that is not a tracked block raised %d reports", reports);
    }

    void run(const Op* ops, int nops) {
        static const char* const files[3] = { "alloc_a.c", "alloc_b.cpp", "dir/alloc_c.c" };
        for (int i = 0; i < nops && !g_bad; i++) {
            const Op& o = ops[i]; const char* file = files[i % 3]; size_t line = 100 + (size_t)i;
            if (o.kind == O_FREE) { if (nub) release(o.slot % nub, "free", o.form); }
            else if (o.kind == O_REALLOC_FOREIGN) realloc_foreign(o, file, line);
            else if (o.kind == O_REALLOC || o.kind == O_DET_REALLOC) reallocate(o, file, line);
            else allocate(o, file, line);
            if (!g_bad) survey("after the operation", false);
        }
        if (!g_bad) survey("at the end of the script", true);
        while (nub && !g_bad) release(nub - 1, "final release");
        if (!g_bad) survey("after the final releases", true);
        if (!g_bad && (blk_live(false) || blk_live(true))) bad("C05:underlying-blocks-not-returned", "%d data blocks and %d bookkeeping records of the underlying allocator were never returned", blk_live(false), blk_live(true));
    }
};

struct OnWindow {
    explicit OnWindow(bool threadsafe = false) {
        g_reporter->calls = 0;
        setCurrentMallocAllocator(g_am); setCurrentNewAllocator(g_an); setCurrentNewArrayAllocator(g_aa);
        // the same script means the same in both flavours of the overloads (single-threaded use of the mutex-taking ones; concurrency is C10's)
        if (threadsafe) MemoryLeakWarningPlugin::turnOnThreadSafeNewDeleteOverloads();
        else MemoryLeakWarningPlugin::turnOnDefaultNotThreadSafeNewDeleteOverloads();
    }
    ~OnWindow() {
        MemoryLeakWarningPlugin::turnOffNewDeleteOverloads();
        setCurrentMallocAllocatorToDefault(); setCurrentNewAllocatorToDefault(); setCurrentNewArrayAllocatorToDefault();
    }
};
bool g_dirty;      // the previous case ended in a violation: its detector may hold records of memory that is gone
void reset_underlying() {
    if (g_dirty) {     // start over with a new detector (the old one is abandoned, not walked)
        g_detector = new MemoryLeakDetector(g_reporter);
        MemoryLeakWarningPlugin::setGlobalDetector(g_detector, g_reporter);
        g_detector->enable(); g_dirty = false;
    } else g_detector->clearAllAccounting(mem_leak_period_all);
    for (int i = 0; i < g_nblk; i++) if (g_blk[i].live) { free(g_blk[i].base); g_blk[i].live = false; }
    g_nblk = 0; memset(&g_seam, 0, sizeof g_seam);
    g_reporter->calls = 0;
}

void decode(Reader& r, Op* ops, int& nops, uint32_t mode) {
    nops = mode == 0 ? 1 + (int)r.below(4) : 4 + (int)r.below(MAXOPS - 4);
    for (int i = 0; i < nops; i++) {
        Op o{};
        static const uint8_t lattice[] = { O_DET_ALLOC, O_DET_ALLOC, O_MALLOC, O_NEW, O_NEWARR, O_NEW_NT, O_CALLOC, O_DET_REALLOC, O_REALLOC, O_NEWARR_NT, O_NEW_DBG, O_NEWARR_DBG };
        static const uint8_t script[] = { O_MALLOC, O_MALLOC, O_CALLOC, O_CALLOC, O_REALLOC, O_REALLOC, O_STRDUP, O_STRNDUP, O_NEW, O_NEWARR, O_NEW_NT, O_NEWARR_NT, O_NEW_DBG, O_NEWARR_DBG,
                                          O_DET_ALLOC, O_DET_ALLOC, O_DET_REALLOC, O_FREE, O_FREE, O_FREE, O_REALLOC_FOREIGN };
        o.kind = mode == 0 ? lattice[r.below(sizeof lattice)] : script[r.below(sizeof script)];
        uint32_t v = r.below(256);
        o.slot = (uint8_t)v; o.sep = (v & 1) == 0; o.form = (uint8_t)((v >> 2) & 7);     // form 0 = the entry point as first written
        if (mode == 2) { uint32_t f = r.below(8); o.f_data = f == 1 || f == 4; o.f_node = f == 2 || f == 5; o.f_realloc = f == 3 || f == 4 || f == 6; }
        else if (mode == 1 && v >= 240) { o.f_data = true; o.f_realloc = true; }
        switch (o.kind) {
        case O_CALLOC: gen_product(r, o.num, o.size); break;
        case O_STRDUP: case O_STRNDUP: {
            uint32_t len = r.below(3) == 0 ? r.below(301) : r.below(20);
            o.str_off = (uint16_t)r.below(600); o.str_len = (uint16_t)len;
            static const size_t ns[] = { 0, 1, 5, 64, SIZE_MAX, SIZE_MAX / 2 }; uint32_t sel = r.below(10);
            o.n = sel < 6 ? ns[sel] : sel == 6 ? len : sel == 7 ? len + 1 : sel == 8 ? (len ? len - 1 : 0) : r.below(310);
            break; }
        case O_FREE: case O_REALLOC_FOREIGN: break;
        default: o.size = mode == 0 || r.below(3) == 0 ? gen_size(r) : (r.flag() ? r.below(200) : r.below(4201)); break;
        }
        ops[i] = o;
    }
}

}  // namespace

extern "C" const char* verif_property(void) { return "C05"; }
extern "C" void verif_init(void) {
    g_reporter = new Reporter();
    g_detector = new MemoryLeakDetector(g_reporter);
    MemoryLeakWarningPlugin::setGlobalDetector(g_detector, g_reporter);
    g_detector->enable();
    g_am = new RecAlloc("verif recording malloc", "malloc", "free");
    g_an = new RecAlloc("verif recording new", "new", "delete");
    g_aa = new RecAlloc("verif recording new[]", "new []", "delete []");
    PlatformSpecificRealloc = seam_realloc;
    for (size_t i = 0; i < sizeof g_text; i++) g_text[i] = (char)("abcdefghijklmnopqrstuvwxyz0123456789 _-\x01\x7f\x80\xfe\xff"[i * 7 % 44]);
    for (int x = 0; x < X_N; x++) for (auto& k : verif::g_known) if (k == x_key[x]) g_listed[x] = true;
}

extern "C" int verif_case(const uint8_t* data, size_t size) {
    Reader r(data, size);
    g_bad = false; g_sig[0] = g_msg[0] = 0; g_desc_n = 0; g_desc[0] = 0; memset(g_h, 0, sizeof g_h); memset(g_x, 0, sizeof g_x);
    reset_underlying();
    static Op ops[MAXOPS]; int nops = 0;
    uint32_t first = r.below(6), mode = first % 3;      // 0..2: the three modes with the default overloads (as before); 3..5: the same with the thread-safe overloads
    g_threadsafe = first >= 3;
    decode(r, ops, nops, mode);
    static Interp in; in = Interp();
    {
        OnWindow on(g_threadsafe);
        in.run(ops, nops);
    }
    verif::cls(g_threadsafe ? "overloads:thread-safe" : "overloads:default");
    if (g_bad) { g_dirty = true; reset_underlying(); }
    verif::cls(mode == 0 ? "mode:size-lattice" : mode == 1 ? "mode:entry-point-script" : "mode:fault-sequence");
    for (int i = 0; i < H_NCLS; i++) if (g_h[i]) verif::cls(h_name[i]);
    for (int x = 0; x < X_N; x++) for (unsigned i = 0; i < g_x[x]; i++) verif::known(x_key[x]);
    if (verif::g_explain) fprintf(stderr, "non-trivial: %s\n", in.nontrivial ? "yes" : "no");
    verif::note_case(in.nontrivial, r.h, [&] { return std::string(g_desc).substr(0, 700); });
    if (g_bad) return verif::fail(g_sig, "%s", g_msg);
    return 0;
}

// deterministic reproducers of the listed findings (1 = still there)
static int repro(const Op& first, const Op* second, const char* sig) {
    reset_underlying(); g_bad = false; g_threadsafe = false;
    static Interp in; in = Interp();
    Op ops[2] = { first, second ? *second : Op{} };
    { OnWindow on; in.run(ops, second ? 2 : 1); }
    bool hit = g_bad && strcmp(g_sig, sig) == 0;
    g_dirty = g_bad; reset_underlying(); g_bad = false;
    return hit ? 1 : 0;
}
extern "C" int verif_known_repro(const char* key) {
    std::string k(key);
    bool saved[X_N]; memcpy(saved, g_listed, sizeof saved); memset(g_listed, 0, sizeof g_listed);   // the reproducers must not exclude anything
    int rc = -1;
    if (k == K_WRAP) { if (NOGUARD) rc = -1; else { Op o{}; o.kind = O_MALLOC; o.size = SIZE_MAX - 2; rc = repro(o, nullptr, K_WRAP); } }
    else if (k == K_CALLOC) { Op o{}; o.kind = O_CALLOC; o.num = ((size_t)1 << 63) + 4; o.size = 2; rc = repro(o, nullptr, K_CALLOC); }
    else if (k == K_REALLOC) { Op a{}; a.kind = O_MALLOC; a.size = 16; Op b{}; b.kind = O_REALLOC; b.size = 32; b.f_realloc = true; rc = repro(a, &b, K_REALLOC); }
    else if (k == K_STRDUP) { Op o{}; o.kind = O_STRDUP; o.str_off = 0; o.str_len = 5; o.f_data = true; rc = repro(o, nullptr, K_STRDUP); }
    else if (k == K_NODE) { Op o{}; o.kind = O_MALLOC; o.size = 16; o.f_node = true; rc = repro(o, nullptr, K_NODE); }
    memcpy(g_listed, saved, sizeof saved);
    return rc;
}
