// C10 — thread-safe allocation mode: schedule-independent accounting, no data race, no lock left held.
// Part A: 2..16 threads, each running a decoded allocation script (new / new[] / malloc / realloc / free through the
//         real global entry points) with turnOnThreadSafeNewDeleteOverloads(); a per-thread decoded yield schedule is
//         played inside wrappers on the PlatformSpecificMutexLock/Unlock seams (pre-emption forced at exactly the
//         points the property names).  Built with ThreadSanitizer.
// Part B: inside a fixture test, in thread-safe mode, a misuse (guard overrun / foreign release / family mismatch) is
//         committed, then the test goes on allocating.
// Oracle: (1) ThreadSanitizer reports nothing; (2) no misuse callback during the scripts and every block still carries
//         its owner's pattern when released (never handed out twice); (3) after the threads finish the detector's
//         outstanding count equals the sum of what each thread's model still holds, and releasing those leaves zero;
//         (4) after a reported misuse the lock/unlock counts of the seam are balanced (no acquire while the same
//         thread still holds the lock), the failure was recorded and the run continues.
#include "common.h"
#include "CppUTest/TestHarness_c.h"
#include "CppUTest/JUnitTestOutput.h"
#include "CppUTest/TestFailure.h"
#include <pthread.h>
#include <sched.h>
#include <atomic>
#include <new>
#undef new   // CppUTest's "new(__FILE__, __LINE__)" macro: the scripts call the plain operators

using verif::Reader;
using verif::sfmt;

namespace {

// ---------------------------------------------------------------- mutex seam wrappers (the harness owns pre-emption)
void (*g_real_lock)(PlatformSpecificMutex);
void (*g_real_unlock)(PlatformSpecificMutex);
std::atomic<long> g_locks, g_unlocks, g_contended;
std::atomic<int> g_relock_while_held;       // same thread acquired again while holding: would be a self-deadlock
std::atomic<int> g_unlock_of_other_mutex;   // the holder released a mutex that is not the one it holds (the held one stays locked)
std::atomic<uintptr_t> g_owner{0}; std::atomic<int> g_held; int g_depth; PlatformSpecificMutex g_last_mutex;   // g_owner = holder's thread id (0: free); g_depth/g_last_mutex only touched by the holder

struct Sched { const uint8_t* steps; size_t n; size_t i; };
thread_local Sched* t_sched = nullptr;
inline void forced_yield() {
    Sched* s = t_sched;
    if (!s || s->n == 0) return;
    uint8_t v = s->steps[s->i++ % s->n] & 3;
    if (v == 1) sched_yield();
    else if (v == 2) { for (volatile int k = 0; k < 60; k++) {} }
    else if (v == 3) { sched_yield(); sched_yield(); sched_yield(); }
}
void seam_lock(PlatformSpecificMutex m) {
    forced_yield();
    if (g_owner.load(std::memory_order_acquire) == (uintptr_t)pthread_self()) {
        // the calling thread already holds the (non-recursive) mutex: the real call would never return
        g_relock_while_held++; g_depth++; g_locks++;
        return;
    }
    if (pthread_mutex_trylock((pthread_mutex_t*)m) != 0) { g_contended++; g_real_lock(m); }
    g_last_mutex = m; g_held.store(1, std::memory_order_release); g_owner.store((uintptr_t)pthread_self(), std::memory_order_release);
    g_locks++;
    forced_yield();
}
void seam_unlock(PlatformSpecificMutex m) {
    forced_yield();
    g_unlocks++;
    if (g_owner.load(std::memory_order_acquire) == (uintptr_t)pthread_self() && g_depth > 0) { g_depth--; return; }
    if (g_owner.load(std::memory_order_acquire) == (uintptr_t)pthread_self() && m != g_last_mutex) { g_unlock_of_other_mutex++; return; }   // the real call would be undefined; the held mutex stays held
    g_owner.store(0, std::memory_order_release); g_held.store(0, std::memory_order_release);
    g_real_unlock(m);
    forced_yield();
}

struct Reporter : MemoryLeakFailure {
    std::atomic<int> calls{0}; char last[256];
    void fail(char* s) CPPUTEST_OVERRIDE { calls++; strncpy(last, s ? s : "", sizeof last - 1); last[sizeof last - 1] = 0; }
};

// ---------------------------------------------------------------- part A: thread scripts
enum { SLOTS = 8, MAXOPS = 2000, MAXTHREADS = 16 };
struct Op { uint8_t kind, slot; uint16_t size; };
struct Thread {
    int id; int nops; Op ops[MAXOPS]; uint8_t yields[64]; Sched sched;
    void* ptr[SLOTS]; uint16_t sz[SLOTS]; uint8_t fam[SLOTS];     // model of what this thread still holds
    int bad; char badmsg[160]; long done;
};
Thread* g_threads; int g_nthreads;
pthread_barrier_t g_start, g_end, g_exit;

inline uint8_t pat(int tid, int slot, size_t i) { return (uint8_t)(0x40 + tid * 8 + slot + i * 7); }
inline void fill(Thread* t, int s) { uint8_t* p = (uint8_t*)t->ptr[s]; for (size_t i = 0; i < t->sz[s]; i++) p[i] = pat(t->id, s, i); }
inline bool intact(Thread* t, int s, size_t n) { uint8_t* p = (uint8_t*)t->ptr[s]; for (size_t i = 0; i < n; i++) if (p[i] != pat(t->id, s, i)) return false; return true; }
void release(Thread* t, int s, int form = 0) {
    if (!intact(t, s, t->sz[s]) && !t->bad) { t->bad = 1; snprintf(t->badmsg, sizeof t->badmsg, "thread %d slot %d: contents changed while the block was live (handed out twice?)", t->id, s); }
    switch (t->fam[s]) {
    case 0: if (form & 1) ::operator delete(t->ptr[s], std::nothrow); else ::operator delete(t->ptr[s]); break;
    case 1: if (form & 1) ::operator delete[](t->ptr[s], std::nothrow); else ::operator delete[](t->ptr[s]); break;
    default: cpputest_free_location(t->ptr[s], "thread.c", 2); break;
    }
    t->ptr[s] = nullptr;
}
void* thread_main(void* arg) {
    Thread* t = (Thread*)arg;
    t_sched = &t->sched;
    pthread_barrier_wait(&g_start);
    for (int i = 0; i < t->nops; i++) {
        const Op& o = t->ops[i]; int s = o.slot;
        if (t->ptr[s]) {
            if (t->fam[s] == 2 && (o.kind & 1)) {       // realloc of a malloc block
                size_t keep = t->sz[s] < o.size ? t->sz[s] : o.size;
                void* q = cpputest_realloc_location(t->ptr[s], o.size, "thread.c", 3);
                if (!q) { if (!t->bad) { t->bad = 1; snprintf(t->badmsg, sizeof t->badmsg, "realloc returned NULL"); } t->ptr[s] = nullptr; continue; }
                t->ptr[s] = q;
                if (!intact(t, s, keep) && !t->bad) { t->bad = 1; snprintf(t->badmsg, sizeof t->badmsg, "thread %d: realloc lost the first %zu bytes", t->id, keep); }
                t->sz[s] = o.size; fill(t, s);
            } else release(t, s, o.kind >> 4);
        } else {
            int fam = o.kind % 3; void* p;
            if (fam == 0) p = (o.kind & 64) ? ::operator new(o.size, std::nothrow) : (o.kind & 32) ? ::operator new(o.size, "thread.cpp", (size_t)6) : ::operator new(o.size);
            else if (fam == 1) p = (o.kind & 64) ? ::operator new[](o.size, std::nothrow) : (o.kind & 32) ? ::operator new[](o.size, "thread.cpp", (size_t)7) : ::operator new[](o.size);
            else if (o.kind & 64) p = cpputest_realloc_location(nullptr, o.size, "thread.c", 4);   // realloc(NULL, n) is an allocation too
            else if (o.kind & 32) p = cpputest_calloc_location(1, o.size, "thread.c", 5);
            else p = cpputest_malloc_location(o.size, "thread.c", 1);
            if (!p) { if (!t->bad) { t->bad = 1; snprintf(t->badmsg, sizeof t->badmsg, "allocation returned NULL"); } continue; }
            t->ptr[s] = p; t->sz[s] = o.size; t->fam[s] = (uint8_t)fam; fill(t, s);
        }
        t->done++;
    }
    t_sched = nullptr;
    pthread_barrier_wait(&g_end);     // overloads are switched off between these two barriers
    pthread_barrier_wait(&g_exit);
    return nullptr;
}

MemoryLeakDetector* g_default_det; MemoryLeakFailure* g_default_rep;

int part_a(Reader& r, bool& nontrivial, std::string& desc) {
    g_nthreads = 2 + (int)r.below(15);
    int len_class = (int)r.below(4);   // 0: 50..100, 1: ..300, 2: ..800, 3: ..2000
    int maxops = len_class == 0 ? 100 : len_class == 1 ? 300 : len_class == 2 ? 800 : 2000;
    for (int i = 0; i < g_nthreads; i++) {
        Thread* t = &g_threads[i]; memset(t->ptr, 0, sizeof t->ptr); t->id = i; t->bad = 0; t->done = 0;
        t->nops = 50 + (int)r.below((uint32_t)(maxops - 49));
        for (size_t k = 0; k < sizeof t->yields; k++) t->yields[k] = r.u8();
        t->sched = Sched{t->yields, sizeof t->yields, 0};
        uint32_t x = r.u32() | 1;   // per-thread op stream: a few decoded bytes expanded by a fixed LCG (deterministic, no RNG of its own state)
        for (int k = 0; k < t->nops; k++) { x = x * 1664525u + 1013904223u; uint8_t b0 = (uint8_t)(x >> 24), b1 = (uint8_t)(x >> 16), b2 = (uint8_t)(x >> 8);
            t->ops[k] = Op{b0, (uint8_t)(b1 % SLOTS), (uint16_t)((b2 & 3) == 0 ? (x & 0x3ff) : (b2 & 0x3f))}; }
    }
    int save_restore_pairs = r.below(3) == 1 ? 1 + (int)r.below(2) : 0; bool nested_pair = r.flag();
    desc = sfmt("A: %d threads, up to %d ops each%s", g_nthreads, maxops, save_restore_pairs ? sfmt(", %d save/restore pair(s) of the overloads first", save_restore_pairs).c_str() : "");
    if (save_restore_pairs) verif::cls("A:save-restore-pair-in-thread-safe-mode");
    Reporter rep; MemoryLeakDetector* det = new MemoryLeakDetector(&rep); det->enable();
    MemoryLeakWarningPlugin::setGlobalDetector(det, &rep);
    g_locks = 0; g_unlocks = 0; g_contended = 0; g_relock_while_held = 0; g_held = 0; g_owner = 0; g_depth = 0;
    pthread_barrier_init(&g_start, nullptr, (unsigned)g_nthreads + 1); pthread_barrier_init(&g_end, nullptr, (unsigned)g_nthreads + 1); pthread_barrier_init(&g_exit, nullptr, (unsigned)g_nthreads + 1);
    pthread_t th[MAXTHREADS];
    for (int i = 0; i < g_nthreads; i++) pthread_create(&th[i], nullptr, thread_main, &g_threads[i]);
    MemoryLeakWarningPlugin::turnOnThreadSafeNewDeleteOverloads();      // ---- ON window: nothing in the harness allocates until it is closed
    for (int k = 0; k < save_restore_pairs; k++) {                      // what library code does around its own allocations: the mode must survive it
        MemoryLeakWarningPlugin::saveAndDisableNewDeleteOverloads();
        if (nested_pair) { MemoryLeakWarningPlugin::saveAndDisableNewDeleteOverloads(); MemoryLeakWarningPlugin::restoreNewDeleteOverloads(); }
        MemoryLeakWarningPlugin::restoreNewDeleteOverloads();
    }
    pthread_barrier_wait(&g_start);
    pthread_barrier_wait(&g_end);
    size_t total = det->totalMemoryLeaks(mem_leak_period_all), checking = det->totalMemoryLeaks(mem_leak_period_checking);
    size_t want = 0; for (int i = 0; i < g_nthreads; i++) for (int s = 0; s < SLOTS; s++) if (g_threads[i].ptr[s]) want++;
    int calls_mid = rep.calls;
    // single-threaded epilogue, still through the thread-safe entry points: release what the threads still hold
    for (int i = 0; i < g_nthreads; i++) for (int s = 0; s < SLOTS; s++) if (g_threads[i].ptr[s]) release(&g_threads[i], s);
    size_t after = det->totalMemoryLeaks(mem_leak_period_all);
    MemoryLeakWarningPlugin::turnOffNewDeleteOverloads();               // ---- window closed
    pthread_barrier_wait(&g_exit);
    for (int i = 0; i < g_nthreads; i++) pthread_join(th[i], nullptr);
    pthread_barrier_destroy(&g_start); pthread_barrier_destroy(&g_end); pthread_barrier_destroy(&g_exit);
    MemoryLeakWarningPlugin::setGlobalDetector(g_default_det, g_default_rep);
    long locks = g_locks, unlocks = g_unlocks, contended = g_contended; int relock = g_relock_while_held;
    delete det;
    long ops = 0; for (int i = 0; i < g_nthreads; i++) ops += g_threads[i].done;
    desc += sfmt(", %ld ops done, %ld acquires (%ld contended), %zu blocks held at the end", ops, locks, contended, want);
    nontrivial = contended >= 1;
    verif::cls(sfmt("A:threads-%s", g_nthreads <= 4 ? "2..4" : g_nthreads <= 8 ? "5..8" : "9..16").c_str());
    if (contended >= 10) verif::cls("A:contended>=10");
    for (int i = 0; i < g_nthreads; i++) V_CHECK(!g_threads[i].bad, "C10:block-integrity", "%s [%s]", g_threads[i].badmsg, desc.c_str());
    V_CHECK(calls_mid == 0, "C10:misuse-during-scripts", "%d misuse report(s) although every release was of an outstanding block: %.200s [%s]", calls_mid, rep.last, desc.c_str());
    V_CHECK(total == want && checking == 0, "C10:outstanding-after-join", "detector holds %zu blocks (%zu in the checking period) after the threads finished, the threads hold %zu [%s]", total, checking, want, desc.c_str());
    V_CHECK(after == 0 && rep.calls == 0, "C10:release-after-join", "%zu blocks outstanding / %d reports after releasing everything [%s]", after, (int)rep.calls, desc.c_str());
    V_CHECK(locks == unlocks && relock == 0, "C10:lock-balance", "%ld acquires, %ld releases, %d re-acquire(s) while held [%s]", locks, unlocks, relock, desc.c_str());
    return 0;
}

// ---------------------------------------------------------------- part B: misuse while the lock is held
struct BCase { int misuse; int fam; int size; int after_allocs; int output; int swap; int via_realloc; };   // swap: the global detector is replaced while the thread-safe mode is on   // output: 0 string buffer, 1 collecting (keeps new-ed copies of failures, like JUnit), 2 JUnitTestOutput
BCase g_b; int g_b_continued; void* volatile g_sink;
// kind 3: the platform allocator fails once while a thread-safe overload holds the lock (the allocator reports it as a test failure)
void* (*g_real_malloc)(size_t); bool g_fail_next_malloc;
void* failing_malloc(size_t n) { if (g_fail_next_malloc) { g_fail_next_malloc = false; return nullptr; } return g_real_malloc(n); }
void part_b_body(void*) {
    // runs as a test body with the thread-safe overloads ON and the default global detector/reporter
    void* vp;
    if (g_b.misuse == 3) g_fail_next_malloc = true;
    if (g_b.fam == 0) vp = ::operator new((size_t)g_b.size); else if (g_b.fam == 1) vp = ::operator new[]((size_t)g_b.size); else vp = cpputest_malloc_location((size_t)g_b.size, "b.c", 1);
    char* p = (char*)vp;
    g_fail_next_malloc = false;
    switch (g_b.misuse) {
    case 0: p[g_b.size] = 'X'; break;                                        // overrun into the guard bytes
    case 1: { static char foreign[8]; if (g_b.via_realloc) g_sink = cpputest_realloc_location(foreign, 16, "b.c", 2); else if (g_b.fam == 2) cpputest_free_location(foreign, "b.c", 2); else ::operator delete(foreign); } break;   // not allocated
    default: break;                                                         // family mismatch below
    }
    if (g_b.via_realloc && g_b.misuse != 3) {
        // the release half of a realloc: corrupted guard bytes (kind 0) or a new / new[] block handed to realloc (kind 2) are found under the same lock
        void* q = cpputest_realloc_location(p, (size_t)g_b.size + 8, "b.c", 4); g_sink = q;
        if (q) cpputest_free_location(q, "b.c", 5);
    }
    else if (g_b.misuse == 2) { if (g_b.fam == 0) ::operator delete[](p); else if (g_b.fam == 1) ::operator delete(p); else ::operator delete(p); }
    else if (g_b.fam == 0) ::operator delete(p); else if (g_b.fam == 1) ::operator delete[](p); else cpputest_free_location(p, "b.c", 3);
    g_b_continued = 1;   // only reached when the misuse was not reported by leaving the test
}
// an output that, like JUnitTestOutput, keeps a heap copy of every failure it is handed: printing a failure allocates
// through the (thread-safe) global operator new
class CollectingOutput : public TestOutput {
public:
    TestFailure* kept[8]; int n = 0; char* text[8];
    void printBuffer(const char*) CPPUTEST_OVERRIDE {}
    void flush() CPPUTEST_OVERRIDE {}
    void printFailure(const TestFailure& f) CPPUTEST_OVERRIDE { if (n < 8) { kept[n] = new TestFailure(f); text[n] = new char[32]; n++; } }
    void release() { for (int i = 0; i < n; i++) { delete kept[i]; delete[] text[i]; } n = 0; }
};
PlatformSpecificFile null_fopen(const char*, const char*) { static int token; return &token; }
void null_fputs(const char*, PlatformSpecificFile) {}
void null_fclose(PlatformSpecificFile) {}

int run_part_b(std::string& desc, bool& reported, long& locks, long& unlocks, int& relock) {
    g_locks = 0; g_unlocks = 0; g_contended = 0; g_relock_while_held = 0; g_unlock_of_other_mutex = 0; g_held = 0; g_owner = 0; g_depth = 0; g_b_continued = 0;
    MemoryLeakDetector* det = MemoryLeakWarningPlugin::getGlobalDetector(); det->enable();
    MemoryLeakDetector* second = g_b.swap ? new MemoryLeakDetector(g_default_rep) : nullptr;   // created while the overloads are off
    if (second) second->enable();
    MemoryLeakWarningPlugin::turnOnThreadSafeNewDeleteOverloads();
    if (second) MemoryLeakWarningPlugin::setGlobalDetector(second, g_default_rep);   // what a test does that installs its own detector for a while: the mode stays on
    size_t failures;
    {
        // a private one-test run whose output is chosen by the case (all of this allocates through the thread-safe entry points)
        StringBufferTestOutput sb; CollectingOutput co; JUnitTestOutput* ju = g_b.output == 2 ? new JUnitTestOutput : nullptr;
        TestOutput* out = g_b.output == 0 ? (TestOutput*)&sb : g_b.output == 1 ? (TestOutput*)&co : (TestOutput*)ju;
        {
            TestRegistry reg; TestResult res(*out); ExecFunctionTestShell shell; verif::ExecLambda ex(part_b_body, nullptr);
            shell.testFunction_ = &ex;
            reg.addTest(&shell);
            reg.runAllTests(res);
            failures = res.getFailureCount();
        }
        // the run continues: allocate and release again through the thread-safe entry points
        for (int i = 0; i < g_b.after_allocs; i++) { char* q = new char[16]; delete[] q; }
        co.release(); delete ju;
    }
    locks = g_locks; unlocks = g_unlocks; relock = g_relock_while_held + g_unlock_of_other_mutex;
    MemoryLeakWarningPlugin::turnOffNewDeleteOverloads();
    if (second) { MemoryLeakWarningPlugin::setGlobalDetector(g_default_det, g_default_rep); second->clearAllAccounting(mem_leak_period_all); }
    if (g_held.load()) { g_held.store(0); g_owner.store(0); g_depth = 0; g_real_unlock(g_last_mutex); }   // leave the mutex usable for the next case
    det->clearAllAccounting(mem_leak_period_all);
    delete second;
    reported = failures >= 1;
    desc += sfmt(" -> %zu failure(s), %ld acquires / %ld releases, %d re-acquire(s) while held", failures, locks, unlocks, relock);
    return 0;
}
int part_b(Reader& r, bool& nontrivial, std::string& desc) {
    g_b.misuse = (int)r.below(3); g_b.fam = (int)r.below(3); g_b.size = 1 + (int)r.below(64); g_b.after_allocs = 1 + (int)r.below(3); g_b.output = (int)r.below(3); g_b.swap = r.below(3) == 1;
    if (r.below(4) == 1) g_b.misuse = 3;   // decoded last: earlier inputs keep their meaning
    g_b.via_realloc = g_b.misuse != 3 && r.below(3) == 1;   // the misuse is met by realloc instead of a release
    if (g_b.via_realloc && g_b.misuse == 2 && g_b.fam == 2) g_b.fam = (int)r.below(2);   // a mismatch through realloc needs a new / new[] block
    if (g_b.via_realloc && g_b.misuse == 0) g_b.fam = 2;                                  // corruption found by realloc: a malloc block (no mismatch in the way)
    static const char* MN[] = {"guard overrun", "release of a foreign address", "family mismatch", "platform allocator failing under the lock"}; static const char* FN[] = {"new", "new[]", "malloc"};
    static const char* ON[] = {"string-buffer output", "collecting output", "JUnit output"};
    if (g_b.via_realloc) verif::cls("B:misuse met by realloc");
    desc = sfmt("B: %s%s%s on a %s block of %d bytes, %s, then %d more allocations", g_b.swap ? "global detector replaced while the mode is on, " : "", g_b.via_realloc ? "through realloc: " : "", MN[g_b.misuse], FN[g_b.fam], g_b.size, ON[g_b.output], g_b.after_allocs);
    if (g_b.swap) verif::cls("B:detector-replaced-in-thread-safe-mode");
    verif::cls(sfmt("B:%s", MN[g_b.misuse]).c_str()); verif::cls(sfmt("B:%s", ON[g_b.output]).c_str());
    nontrivial = true;
    if (verif::known("C10:lock-held-after-misuse")) return 0;      // listed finding: exactly this scenario is excluded (and counted)
    // listed finding: the allocator's own "malloc returned null pointer" failure is reported with the lock held; an output that
    // allocates through operator new while printing it re-acquires the lock (excluded exactly: kind 3 with such an output)
    if (g_b.misuse == 3 && g_b.output != 0 && verif::known("C10:allocator-failure-reported-under-the-lock")) return 0;
    bool reported; long locks, unlocks; int relock;
    run_part_b(desc, reported, locks, unlocks, relock);
    V_CHECK(reported, "C10:misuse-not-reported", "misuse in thread-safe mode was not recorded as a test failure [%s]", desc.c_str());
    V_CHECK(relock == 0 && locks == unlocks, "C10:lock-held-after-misuse", "the detector's lock was still held after the misuse was reported: the next allocation of the same thread would never return [%s]", desc.c_str());
    return 0;
}

}  // namespace

extern "C" const char* verif_property(void) { return "C10"; }
extern "C" void verif_init(void) {
    verif::install_fake_time();
    g_threads = (Thread*)calloc(MAXTHREADS, sizeof(Thread));
    g_default_det = MemoryLeakWarningPlugin::getGlobalDetector();
    g_default_rep = MemoryLeakWarningPlugin::getGlobalFailureReporter();
    g_real_lock = PlatformSpecificMutexLock; g_real_unlock = PlatformSpecificMutexUnlock;
    PlatformSpecificMutexLock = seam_lock; PlatformSpecificMutexUnlock = seam_unlock;
    PlatformSpecificFOpen = null_fopen; PlatformSpecificFPuts = null_fputs; PlatformSpecificFClose = null_fclose;   // JUnit files go nowhere
    g_real_malloc = PlatformSpecificMalloc; PlatformSpecificMalloc = failing_malloc;
}
extern "C" int verif_case(const uint8_t* data, size_t size) {
    Reader r(data, size);
    bool nontrivial = false; std::string desc; int rc;
    if (r.below(8) == 7) rc = part_b(r, nontrivial, desc); else rc = part_a(r, nontrivial, desc);
    if (verif::g_explain) fprintf(stderr, "%s\n", desc.c_str());
    verif::note_case(nontrivial, r.h, [&] { return desc; });
    return rc;
}
extern "C" int verif_known_repro(const char* key) {
    if (std::string(key) == "C10:allocator-failure-reported-under-the-lock") g_b = BCase{3, 1, 8, 1, 1, 0, 0};
    else if (std::string(key) == "C10:lock-held-after-misuse") g_b = BCase{0, 1, 8, 1, 0, 0, 0};
    else return -1;
    std::string d; bool reported; long locks, unlocks; int relock;
    run_part_b(d, reported, locks, unlocks, relock);
    return (relock != 0 || locks != unlocks) ? 1 : 0;
}
