// C20 — the TeamCity output is a balanced, correctly escaped service-message stream.
// Decoder: a run of 1..5 group segments x 1..4 scripted tests (IGNORE_TESTs, run-ignored on/off); a test fails by
//          FAIL(text) at a decoded (file, line) in its body and/or teardown, optionally preceded by failures that do not
//          leave the test; failure locations inside the test, in another file, or above the test's line (the
//          "TEST failed (file:line): " branch).  Names, paths and messages from token tables weighted towards ' | [ ]
//          (messages also CR, LF).  Group names are never empty (DESIGN A.5).
// Execution: a REAL run: TestRegistry::runAllTests with a TeamCityTestOutput subclass that only captures printBuffer.
// Oracle:  an independent decoder of the service-message grammar; the decoded message sequence must equal the sequence
//          the script implies (suite start/finish paired by name around its tests, test start/finish paired by name,
//          testIgnored exactly for tests that are not run, every testFailed between start and finish of its own test,
//          every decoded value equal to the original text).
#include "common.h"
#include "CppUTest/TeamCityTestOutput.h"
#include <memory>

using verif::Reader;
using verif::sfmt;

namespace {

const char* const KEY_FILE = "C20:test-file-unescaped-in-failed-message";

// ---------------------------------------------------------------- model of a case
struct Step { bool exits; std::string text, file; uint32_t line; };   // FAIL(text) at (file,line); exits == leaves the phase (the normal FAIL)
struct TestM { std::string group, name, file; uint32_t line = 1; bool ignored = false; std::vector<Step> body, teardown; };
struct CaseM { bool runIgnored = false; std::vector<TestM> tests; };   // in run order; a suite = maximal run of equal group names

struct Event {
    enum Kind { SuiteStart, SuiteFinish, TestStart, TestIgnored, TestFailed, TestFinish } kind;
    std::string name;                 // suite or test name
    std::string loc, locWithPrefix;   // TestFailed: "file:line" and "TEST failed (tfile:tline): file:line"
    std::string details;              // TestFailed: the failure message
    bool outside = false;             // TestFailed: reported from another file or from above the test's line
    bool knownCondition = false;      // TestFailed: outside && the test's file name needs escaping
};
const char* kind_name(Event::Kind k) {
    static const char* n[] = {"testSuiteStarted", "testSuiteFinished", "testStarted", "testIgnored", "testFailed", "testFinished"};
    return n[k];
}

// ---------------------------------------------------------------- generator tables
const char* const T_PLAIN[] = {"a", "b", "c", "X", "Y", "Z", "0", "1", "9", "_"};
const char* const T_TC[] = {"a", "'", "|", "[", "]", "'", "|", "]", "||", "|'", "|n", "|r", "|[", "|]", "']", "' ", "='", "|0x00A7", "|x",
                            "##teamcity[", "name='", " ", "b", "/", ".", ":", "(", ")", "[]", "''"};
const char* const T_BREAK[] = {"\n", "\r", "\r\n", "\n\n"};

template <size_t N> void add_tokens(Reader& r, std::string& s, uint32_t n, const char* const (&tab)[N]) {
    for (uint32_t i = 0; i < n; i++) s += tab[r.below((uint32_t)N)];
}
void add_class(Reader& r, std::string& s, uint32_t cls, uint32_t n) {   // 0 plain, 1 TeamCity specials, 2 any printable ASCII
    switch (cls) {
    default:
    case 0: add_tokens(r, s, n, T_PLAIN); break;
    case 1: add_tokens(r, s, n, T_TC); break;
    case 2: for (uint32_t i = 0; i < n; i++) s.push_back((char)(0x20 + r.below(95))); break;
    }
}
std::string gen_name(Reader& r, uint32_t maxtok) {   // never empty
    uint32_t v = r.below(8);
    uint32_t cls = v == 0 ? 0 : (v <= 5 ? 1 : 2);
    std::string s;
    add_class(r, s, cls, 1 + r.below(maxtok));
    return s;
}
std::string gen_text(Reader& r, uint32_t maxtok) {   // messages: may be empty, may contain line breaks
    uint32_t cls = r.below(4);   // 0 plain, 1 specials, 2 specials + breaks, 3 printable + breaks
    uint32_t n = r.below(maxtok + 1);
    std::string s;
    for (uint32_t i = 0; i < n; i++) {
        if (cls >= 2 && r.below(4) == 3) add_tokens(r, s, 1, T_BREAK);
        else add_class(r, s, cls == 0 ? 0 : (cls == 3 ? 2 : 1), 1);
    }
    return s;
}
const uint32_t LINES[] = {1, 2, 10, 42, 999, 4096, 65535, 100000};

Step gen_step(Reader& r, const TestM& t, bool exits) {
    Step s;
    s.exits = exits;
    s.text = gen_text(r, 8);
    s.file = t.file; s.line = t.line;
    if (r.below(3) == 2) s.file = gen_name(r, 6);     // reported from another file
    switch (r.below(4)) {
    default:
    case 0: s.line = t.line + 1 + r.below(20); break;
    case 1: s.line = t.line; break;
    case 2: s.line = t.line > 1 ? 1 + r.below(t.line - 1 > 60000 ? 60000 : t.line - 1) : t.line; break;   // above the test's line
    case 3: s.line = r.pick(LINES); break;
    }
    return s;
}

CaseM decode(Reader& r) {
    CaseM c;
    c.runIgnored = r.below(4) == 1;
    uint32_t ng = 1 + r.below(5);
    std::vector<std::string> names;
    for (uint32_t g = 0; g < ng; g++) {
        std::string gname;
        if (g > 0 && r.below(8) == 7) gname = names[r.below(g)];   // an earlier name again (adjacent: same suite; otherwise a second suite of that name)
        else gname = gen_name(r, 6);
        names.push_back(gname);
        std::string groupFile = gen_name(r, 6);
        uint32_t nt = 1 + r.below(4);
        for (uint32_t t = 0; t < nt; t++) {
            TestM tm;
            tm.group = gname;
            tm.name = gen_name(r, 6);
            tm.file = r.below(4) == 3 ? gen_name(r, 6) : groupFile;
            tm.line = r.pick(LINES);
            tm.ignored = r.below(6) == 5;
            uint32_t shape = r.below(8);   // 0,1,2 pass; 3,4 FAIL in body; 5 FAIL in teardown; 6 both; 7 soft failures then FAIL
            if (shape == 7) { uint32_t k = 1 + r.below(3); for (uint32_t i = 0; i < k; i++) tm.body.push_back(gen_step(r, tm, false)); if (r.flag()) tm.body.push_back(gen_step(r, tm, true)); }
            if (shape == 3 || shape == 4 || shape == 6) tm.body.push_back(gen_step(r, tm, true));
            if (shape == 5 || shape == 6) tm.teardown.push_back(gen_step(r, tm, true));
            c.tests.push_back(tm);
        }
    }
    return c;
}

bool has_any(const std::string& s, const char* set) { return s.find_first_of(set) != std::string::npos; }
std::string P(const std::string& s) { return verif::printable(s).substr(0, 300); }

// the message sequence the script implies, by the meaning of the run alone
std::vector<Event> expected_events(const CaseM& c, size_t& suites) {
    std::vector<Event> ev;
    suites = 0;
    for (size_t i = 0; i < c.tests.size(); i++) {
        const TestM& t = c.tests[i];
        if (i == 0 || c.tests[i - 1].group != t.group) { Event e; e.kind = Event::SuiteStart; e.name = t.group; ev.push_back(e); suites++; }
        { Event e; e.kind = Event::TestStart; e.name = t.name; ev.push_back(e); }
        bool executed = !t.ignored || c.runIgnored;
        if (!executed) { Event e; e.kind = Event::TestIgnored; e.name = t.name; ev.push_back(e); }
        else
            for (int ph = 0; ph < 2; ph++)
                for (auto& s : ph == 0 ? t.body : t.teardown) {
                    Event e; e.kind = Event::TestFailed; e.name = t.name; e.details = s.text;
                    e.loc = s.file + ":" + std::to_string(s.line);
                    e.locWithPrefix = "TEST failed (" + t.file + ":" + std::to_string(t.line) + "): " + e.loc;
                    e.outside = s.file != t.file || s.line < t.line;
                    e.knownCondition = e.outside && has_any(t.file, "'|[]");
                    ev.push_back(e);
                    if (s.exits) break;
                }
        { Event e; e.kind = Event::TestFinish; e.name = t.name; ev.push_back(e); }
        if (i + 1 == c.tests.size() || c.tests[i + 1].group != t.group) { Event e; e.kind = Event::SuiteFinish; e.name = t.group; ev.push_back(e); }
    }
    return ev;
}

// ---------------------------------------------------------------- execution against the real framework
struct SoftTerminator : TestTerminator { void exitCurrentTest() const CPPUTEST_OVERRIDE {} };
const SoftTerminator soft_terminator;

void run_steps(const std::vector<Step>& steps) {
    for (auto& st : steps) {
        if (st.exits) UtestShell::getCurrent()->fail(st.text.c_str(), st.file.c_str(), st.line);
        else UtestShell::getCurrent()->fail(st.text.c_str(), st.file.c_str(), st.line, soft_terminator);
    }
}
struct ScriptedTest : Utest {
    const TestM* t;
    explicit ScriptedTest(const TestM* tm) : t(tm) {}
    void testBody() CPPUTEST_OVERRIDE { run_steps(t->body); }
    void teardown() CPPUTEST_OVERRIDE { run_steps(t->teardown); }
};
struct Shell : UtestShell {
    const TestM* t;
    explicit Shell(const TestM* tm) : UtestShell(tm->group.c_str(), tm->name.c_str(), tm->file.c_str(), tm->line), t(tm) {}
    Utest* createTest() CPPUTEST_OVERRIDE { return new ScriptedTest(t); }
};
struct IgnoredShell : IgnoredUtestShell {
    const TestM* t;
    explicit IgnoredShell(const TestM* tm) : IgnoredUtestShell(tm->group.c_str(), tm->name.c_str(), tm->file.c_str(), tm->line), t(tm) {}
    Utest* createTest() CPPUTEST_OVERRIDE { return new ScriptedTest(t); }
};
struct CapturingTeamCity : TeamCityTestOutput {
    std::string out;
    void printBuffer(const char* s) CPPUTEST_OVERRIDE { out += s; }
    void flush() CPPUTEST_OVERRIDE {}
};

std::string execute(const CaseM& c) {
    verif::fake_millis_value = 0;
    std::vector<std::unique_ptr<UtestShell>> shells;
    for (auto& t : c.tests) {
        if (t.ignored) shells.emplace_back(new IgnoredShell(&t));
        else shells.emplace_back(new Shell(&t));
    }
    CapturingTeamCity out;
    TestResult result(out);
    TestRegistry reg;
    if (c.runIgnored) reg.setRunIgnored();
    for (size_t i = shells.size(); i-- > 0;) reg.addTest(shells[i].get());   // addTest prepends
    reg.runAllTests(result);
    return out.out;
}

// ---------------------------------------------------------------- independent decoder of the service-message grammar
//   message := "##teamcity[" name { " " key "='" value "'" } "]"        on a line of its own
//   value   := { plain | "|'" | "||" | "|[" | "|]" | "|n" | "|r" }     plain = anything but ' | [ ] CR LF
struct Msg { std::string name; std::vector<std::pair<std::string, std::string>> attrs;
             const std::string* attr(const char* k) const { for (auto& a : attrs) if (a.first == k) return &a.second; return nullptr; } };

bool ident_char(char ch) { return (ch >= 'a' && ch <= 'z') || (ch >= 'A' && ch <= 'Z') || (ch >= '0' && ch <= '9') || ch == '_' || ch == '-' || ch == '.'; }

bool parse_message(const std::string& line, Msg& m, std::string& err) {
    static const char PRE[] = "##teamcity[";
    size_t i = sizeof PRE - 1;
    if (line.compare(0, i, PRE) != 0) { err = "does not start with ##teamcity["; return false; }
    size_t s = i;
    while (i < line.size() && ident_char(line[i])) i++;
    if (i == s) { err = "no message name"; return false; }
    m.name = line.substr(s, i - s);
    for (;;) {
        if (i >= line.size()) { err = "line ends before the closing ]"; return false; }
        if (line[i] == ']') {
            if (i + 1 != line.size()) { err = sfmt("message ends at column %zu but the line continues with \"%s\"", i + 1, P(line.substr(i + 1)).c_str()); return false; }
            return true;
        }
        if (line[i] != ' ') { err = sfmt("expected space or ] at column %zu, found '%c'", i + 1, line[i]); return false; }
        i++;
        s = i;
        while (i < line.size() && ident_char(line[i])) i++;
        if (i == s) { err = sfmt("expected attribute name at column %zu", i + 1); return false; }
        std::string key = line.substr(s, i - s);
        if (line.compare(i, 2, "='") != 0) { err = sfmt("expected =' after attribute %s at column %zu", key.c_str(), i + 1); return false; }
        i += 2;
        std::string val;
        for (;;) {
            if (i >= line.size()) { err = sfmt("line ends inside the value of %s (unescaped line break or missing quote)", key.c_str()); return false; }
            char ch = line[i];
            if (ch == '\'') { i++; break; }
            if (ch == '|') {
                if (i + 1 >= line.size()) { err = sfmt("line ends after | in the value of %s", key.c_str()); return false; }
                char e = line[i + 1];
                if (e == '\'' || e == '|' || e == '[' || e == ']') val.push_back(e);
                else if (e == 'n') val.push_back('\n');
                else if (e == 'r') val.push_back('\r');
                else { err = sfmt("invalid escape |%c in the value of %s", e, key.c_str()); return false; }
                i += 2; continue;
            }
            if (ch == '[' || ch == ']' || ch == '\r') { err = sfmt("unescaped %s in the value of %s at column %zu", ch == '\r' ? "CR" : (ch == '[' ? "[" : "]"), key.c_str(), i + 1); return false; }
            val.push_back(ch); i++;
        }
        for (auto& a : m.attrs) if (a.first == key) { err = sfmt("attribute %s given twice", key.c_str()); return false; }
        m.attrs.emplace_back(key, val);
    }
}

std::string render(const CaseM& c) {
    std::string o = sfmt("runIgnored=%d;", c.runIgnored);
    for (auto& t : c.tests) {
        o += sfmt(" %s(\"%s\", \"%s\" @\"%s\":%u", t.ignored ? "IGNORE_TEST" : "TEST", P(t.group).c_str(), P(t.name).c_str(), P(t.file).c_str(), t.line);
        for (int ph = 0; ph < 2; ph++)
            for (auto& s : ph == 0 ? t.body : t.teardown)
                o += sfmt(" %s%s(\"%s\" @\"%s\":%u)", ph ? "teardown:" : "", s.exits ? "FAIL" : "softFAIL", P(s.text).c_str(), P(s.file).c_str(), s.line);
        o += ")";
    }
    return o;
}

int run_and_judge(const CaseM& c, bool useKnown, bool& nontrivial) {
    size_t suites = 0;
    std::vector<Event> ev = expected_events(c, suites);
    bool special = false;
    const char* SPECIAL = "'|[]\r\n";
    for (auto& t : c.tests) {
        if (has_any(t.group, SPECIAL) || has_any(t.name, SPECIAL) || has_any(t.file, SPECIAL)) special = true;
        verif::cls(t.ignored ? (c.runIgnored ? "test:ignored-but-run" : "test:ignored") : "test:normal");
    }
    size_t nfailed = 0;
    for (auto& e : ev) if (e.kind == Event::TestFailed) {
        nfailed++;
        if (has_any(e.loc, SPECIAL) || has_any(e.details, SPECIAL)) special = true;
        verif::cls(e.outside ? "failure:outside-test-file-or-above-line" : "failure:inside-test");
        if (e.knownCondition) verif::cls("failure:outside+test-file-needs-escaping");
    }
    nontrivial = special || suites >= 2;
    verif::cls(sfmt("suites:%zu", suites > 5 ? 5 : suites).c_str());
    if (nfailed >= 2) verif::cls("2+-failures");

    std::string out = execute(c);
    if (verif::g_explain) fprintf(stderr, "---- stream ----\n%s----\n", out.c_str());

    // walk the lines
    size_t next = 0;   // index of the next expected event
    size_t pos = 0; size_t lineNo = 0;
    while (pos < out.size()) {
        size_t e = out.find('\n', pos);
        std::string line = out.substr(pos, e == std::string::npos ? std::string::npos : e - pos);
        bool terminated = e != std::string::npos;
        pos = terminated ? e + 1 : out.size();
        lineNo++;
        size_t at = line.find("##teamcity[");
        if (at == std::string::npos) continue;   // ordinary console text (the summary at the end of the run)
        const Event* want = next < ev.size() ? &ev[next] : nullptr;
        bool knownHere = want && want->kind == Event::TestFailed && want->knownCondition;
        if (knownHere && useKnown && line.compare(0, 22, "##teamcity[testFailed ") == 0 && verif::known(KEY_FILE)) { next++; continue; }   // known finding: this one message is not decoded
        const char* over = knownHere ? KEY_FILE : nullptr;
#define TC(cond, sig, ...) do { if (!(cond)) return verif::fail(over ? over : (sig), __VA_ARGS__); } while (0)
        TC(at == 0, "C20:message-not-on-own-line", "line %zu: a service message starts at column %zu: \"%s\"", lineNo, at + 1, P(line).c_str());
        TC(terminated, "C20:message-not-on-own-line", "line %zu: the stream ends inside a message: \"%s\"", lineNo, P(line).c_str());
        Msg m; std::string err;
        bool ok = parse_message(line, m, err);
        TC(ok, "C20:message-malformed", "line %zu does not parse as one service message (%s): \"%s\"%s", lineNo, err.c_str(), P(line).c_str(),
           want ? sfmt("; expected %s for \"%s\"", kind_name(want->kind), P(want->name).c_str()).c_str() : "");
        TC(want != nullptr, "C20:extra-message", "line %zu: message %s after the last expected one: \"%s\"", lineNo, m.name.c_str(), P(line).c_str());
        if (m.name != kind_name(want->kind)) {
            const char* sig = "C20:test-pairing";
            if (want->kind == Event::SuiteStart || want->kind == Event::SuiteFinish || m.name == "testSuiteStarted" || m.name == "testSuiteFinished") sig = "C20:suite-pairing";
            if (want->kind == Event::TestIgnored || m.name == "testIgnored") sig = "C20:ignored-flag";
            if (want->kind == Event::TestFailed || m.name == "testFailed") sig = "C20:failure-placement";
            TC(false, sig, "line %zu: got %s \"%s\" where %s for \"%s\" is due", lineNo, m.name.c_str(), m.attr("name") ? P(*m.attr("name")).c_str() : "", kind_name(want->kind), P(want->name).c_str());
        }
        const std::string* a = m.attr("name");
        const char* nsig = (want->kind == Event::SuiteStart || want->kind == Event::SuiteFinish) ? "C20:suite-name" : (want->kind == Event::TestFailed ? "C20:failed-test-name" : "C20:test-name");
        TC(a && *a == want->name, nsig, "line %zu: %s name decodes to \"%s\", expected \"%s\"", lineNo, m.name.c_str(), a ? P(*a).c_str() : "(absent)", P(want->name).c_str());
        if (want->kind == Event::TestFailed) {
            a = m.attr("message");
            bool plain = a && *a == want->loc, prefixed = a && *a == want->locWithPrefix;
            TC(plain || prefixed, "C20:failure-location", "line %zu: testFailed message decodes to \"%s\", expected \"%s\" or \"%s\"", lineNo, a ? P(*a).c_str() : "(absent)",
               P(want->loc).c_str(), P(want->locWithPrefix).c_str());
            verif::cls(prefixed ? "location:with-TEST-failed-prefix" : "location:plain");
            a = m.attr("details");
            TC(a && *a == want->details, "C20:failure-details", "line %zu: testFailed details decode to \"%s\", expected \"%s\"", lineNo, a ? P(*a).c_str() : "(absent)", P(want->details).c_str());
        }
        if (want->kind == Event::TestFinish) {
            a = m.attr("duration");
            TC(a && !a->empty() && a->find_first_not_of("0123456789") == std::string::npos, "C20:duration", "line %zu: duration is \"%s\"", lineNo, a ? P(*a).c_str() : "(absent)");
        }
#undef TC
        next++;
    }
    if (next < ev.size()) {
        const Event& w = ev[next];
        const char* sig = (w.kind == Event::SuiteStart || w.kind == Event::SuiteFinish) ? "C20:suite-pairing" : (w.kind == Event::TestIgnored ? "C20:ignored-flag" : (w.kind == Event::TestFailed ? "C20:failure-placement" : "C20:test-pairing"));
        return verif::fail(sig, "the stream ends while %s for \"%s\" is still due (%zu of %zu messages seen)", kind_name(w.kind), P(w.name).c_str(), next, ev.size());
    }
    return 0;
}

}  // namespace

extern "C" const char* verif_property(void) { return "C20"; }
extern "C" void verif_init(void) { verif::install_fake_time(); }
extern "C" int verif_case(const uint8_t* data, size_t size) {
    Reader r(data, size);
    CaseM c = decode(r);
    if (verif::g_explain) fprintf(stderr, "case: %s\n", render(c).c_str());
    bool nontrivial = false;
    int rc = run_and_judge(c, true, nontrivial);
    verif::note_case(nontrivial, r.h, [&] { return render(c); });
    return rc;
}
extern "C" int verif_known_repro(const char* key) {
    if (std::string(key) != KEY_FILE) return -1;
    // one test in file "it's|[x].cpp" that fails in another file
    CaseM c; TestM t;
    t.group = "g"; t.name = "t"; t.file = "it's|[x].cpp"; t.line = 10;
    t.body.push_back(Step{true, "boom", "helper.cpp", 20});
    c.tests.push_back(t);
    bool was = verif::g_counting; verif::g_counting = false;
    bool nt = false;
    int rc = run_and_judge(c, false, nt);
    verif::g_counting = was;
    if (rc) fprintf(stderr, "reproduced: %s\n", verif::g_fail_msg.c_str());
    return rc ? 1 : 0;
}
